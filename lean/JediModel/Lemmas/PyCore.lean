import JediModel.Model.PyCoreAbs
namespace JediModel.PyCore

/-! ### the abstraction relation -/

theorem coversAny_iff {v : Val} {ss : List Shape} :
    coversAny v ss = true ↔ ∃ s ∈ ss, covers v s = true := by
  induction ss with
  | nil => simp [coversAny]
  | cons s ss ih =>
    simp only [coversAny, Bool.or_eq_true, ih, List.mem_cons]
    constructor
    · rintro (h | ⟨s', hs', h⟩)
      · exact ⟨s, Or.inl rfl, h⟩
      · exact ⟨s', Or.inr hs', h⟩
    · rintro ⟨s', (rfl | hs'), h⟩
      · exact Or.inl h
      · exact Or.inr ⟨s', hs', h⟩

theorem coversAny_of_mem {v : Val} {ss : List Shape} {s : Shape} (hs : s ∈ ss)
    (h : covers v s = true) : coversAny v ss = true :=
  coversAny_iff.mpr ⟨s, hs, h⟩

theorem coversAny_append_left {v : Val} {a b : List Shape} (h : coversAny v a = true) :
    coversAny v (a ++ b) = true := by
  obtain ⟨s, hs, hc⟩ := coversAny_iff.mp h
  exact coversAny_of_mem (List.mem_append_left _ hs) hc

theorem coversAny_append_right {v : Val} {a b : List Shape} (h : coversAny v b = true) :
    coversAny v (a ++ b) = true := by
  obtain ⟨s, hs, hc⟩ := coversAny_iff.mp h
  exact coversAny_of_mem (List.mem_append_right _ hs) hc

theorem coversAny_flatMap {v : Val} {l : List Shape} {f : Shape → List Shape} {s : Shape}
    (hs : s ∈ l) (h : coversAny v (f s) = true) : coversAny v (l.flatMap f) = true := by
  obtain ⟨t, ht, hc⟩ := coversAny_iff.mp h
  exact coversAny_of_mem (List.mem_flatMap.mpr ⟨s, hs, ht⟩) hc

theorem covers_tuple {vs : List Val} {s : Shape} (h : covers (.tuple vs) s = true) :
    ∃ elems, s = .tuple elems ∧ coversList vs elems = true := by
  cases s <;> simp [covers] at h
  exact ⟨_, rfl, h⟩

theorem covers_func {i : Nat} {s : Shape} (h : covers (.func i) s = true) : s = .func i := by
  cases s <;> simp [covers] at h
  subst h; rfl

theorem covers_cls {i : Nat} {s : Shape} (h : covers (.cls i) s = true) : s = .cls i := by
  cases s <;> simp [covers] at h
  subst h; rfl

theorem covers_inst {i : Nat} {vs : List Val} {s : Shape} (h : covers (.inst i vs) s = true) :
    ∃ ss, s = .inst i ss ∧ coversList vs ss = true := by
  cases s <;> simp [covers] at h
  obtain ⟨h1, h2⟩ := h
  subst h1
  exact ⟨_, rfl, h2⟩

theorem covers_bound {r : Val} {c m : Nat} {s : Shape} (h : covers (.bound r c m) s = true) :
    ∃ r', s = .bound r' c m ∧ covers r r' = true := by
  cases s <;> simp [covers] at h
  obtain ⟨⟨h1, h2⟩, h3⟩ := h
  subst h2 h3
  exact ⟨_, rfl, h1⟩

theorem coversList_getElem {vs : List Val} {ss : List (List Shape)} (h : coversList vs ss = true)
    {k : Nat} {v : Val} (hv : vs[k]? = some v) :
    ∃ sk, ss[k]? = some sk ∧ coversAny v sk = true := by
  induction vs generalizing ss k with
  | nil => simp at hv
  | cons a as ih =>
    cases ss with
    | nil => simp [coversList] at h
    | cons s ss =>
      simp only [coversList, Bool.and_eq_true] at h
      cases k with
      | zero =>
        simp only [List.getElem?_cons_zero, Option.some.injEq] at hv
        subst hv
        exact ⟨s, by simp, h.1⟩
      | succ k =>
        simp only [List.getElem?_cons_succ] at hv ⊢
        exact ih h.2 hv

theorem coversList_length {vs : List Val} {ss : List (List Shape)} (h : coversList vs ss = true) :
    vs.length = ss.length := by
  induction vs generalizing ss with
  | nil => cases ss <;> simp [coversList] at h ⊢
  | cons a as ih =>
    cases ss with
    | nil => simp [coversList] at h
    | cons s ss =>
      simp only [coversList, Bool.and_eq_true] at h
      simp [ih h.2]

theorem mapOpt_covers {f : Expr → Option Val} {g : Expr → List Shape} (es : List Expr)
    (h : ∀ e v, f e = some v → coversAny v (g e) = true) {vs : List Val}
    (hm : mapOpt f es = some vs) : coversList vs (es.map g) = true := by
  induction es generalizing vs with
  | nil =>
    simp only [mapOpt, Option.some.injEq] at hm
    subst hm
    rfl
  | cons e es ih =>
    unfold mapOpt at hm
    cases hfe : f e with
    | none => simp [hfe] at hm
    | some b =>
      cases hrest : mapOpt f es with
      | none => simp [hfe, hrest] at hm
      | some bs =>
        simp only [hfe, hrest, Option.some.injEq] at hm
        subst hm
        simp only [List.map_cons, coversList, Bool.and_eq_true]
        exact ⟨h e b hfe, ih hrest⟩

/-! ### contexts -/

def CtxRel : CtxC → CtxA → Prop
  | .module i, .module j => i = j
  | .func i vs, .func j as => i = j ∧ coversList vs as = true
  | .meth c m s vs, .meth c' m' s' as =>
    c = c' ∧ m = m' ∧ covers s s' = true ∧ coversList vs as = true
  | _, _ => False

/-- receivers of a class-attribute lookup -/
def RecvRel : Option Val → Option Shape → Prop
  | none, none => True
  | some r, some r' => covers r r' = true
  | _, _ => False

/-- static well-formedness of class statements used by the soundness proof:
* a base is named by the class name itself (the last binder of the base name before the class
  statement is a `class` statement), and
* only classes without a base define `__init__` (so the `__init__` Python runs is the one whose
  `self.a = …` assignments jedi finds first). -/
def WFClasses (p : Prog) : Bool :=
  p.zipIdx.all fun (s, i) =>
    match s with
    | .klass _ (some b) _ init _ =>
      init.isNone &&
      (match lastBinder p b i with
       | some j => (match p[j]? with
                    | some (.klass _ _ _ _ _) => true
                    | _ => false)
       | none => false)
    | _ => true

theorem wf_base {p : Prog} (hwf : WFClasses p = true) {id c b : Nat} {attrs init methods}
    (hp : p[id]? = some (.klass c (some b) attrs init methods)) :
    init = none ∧ ∃ j c' b' a' i' m', lastBinder p b id = some j ∧
      p[j]? = some (.klass c' b' a' i' m') := by
  unfold WFClasses at hwf
  rw [List.all_eq_true] at hwf
  have := hwf (.klass c (some b) attrs init methods, id) (List.mem_zipIdx_iff_getElem?.mpr hp)
  simp only [Bool.and_eq_true, Option.isNone_iff_eq_none] at this
  refine ⟨this.1, ?_⟩
  cases hb : lastBinder p b id with
  | none => simp [hb] at this
  | some j =>
    simp only [hb] at this
    cases hj : p[j]? with
    | none => simp [hj] at this
    | some st =>
      cases st with
      | klass c' b' a' i' m' => exact ⟨j, c', b', a', i', m', rfl, hj⟩
      | assign _ _ => simp [hj] at this
      | unpack _ _ => simp [hj] at this
      | defn _ _ _ => simp [hj] at this
      | probe _ => simp [hj] at this

/-- the three simulation statements at one fuel level -/
structure Sound (p : Prog) (fuel : Nat) : Prop where
  eval : ∀ cc ca e v, CtxRel cc ca → evalC p fuel cc e = some v →
    coversAny v (mayE p fuel ca e) = true
  name : ∀ x lim v, nameC p fuel x lim = some v → coversAny v (nameA p fuel x lim) = true
  attr : ∀ rc ra id a v, RecvRel rc ra → attrC p fuel rc id a = some v →
    coversAny v (attrA p fuel ra id a) = true
  selfFound : ∀ id sv ss vs as a v, covers sv ss = true → coversList vs as = true →
    selfAttrC p fuel id sv vs a = .found v →
    ∃ r, selfAttrA p fuel id ss as a = some r ∧ coversAny v r = true
  selfMissing : ∀ id sv ss vs as a, selfAttrC p fuel id sv vs a = .missing →
    selfAttrA p fuel id ss as a = none

theorem sound_zero (p : Prog) : Sound p 0 :=
  ⟨by intro cc ca e v _ h; simp [evalC] at h,
   by intro x lim v h; simp [nameC] at h,
   by intro rc ra id a v _ h; simp [attrC] at h,
   by intro id sv ss vs as a v _ _ h; simp [selfAttrC] at h,
   by intro id sv ss vs as a h; simp [selfAttrC] at h⟩

theorem coversAny_flatMapE {v : Val} {es : List Expr} {f : Expr → List Shape} {e : Expr}
    (he : e ∈ es) (h : coversAny v (f e) = true) : coversAny v (es.flatMap f) = true := by
  obtain ⟨t, ht, hc⟩ := coversAny_iff.mp h
  exact coversAny_of_mem (List.mem_flatMap.mpr ⟨e, he, ht⟩) hc

theorem lastAttr_mem_allAttr {l : List (Nat × Expr)} {a : Nat} {e : Expr}
    (h : lastAttr l a = some e) : e ∈ allAttr l a := by
  unfold lastAttr at h
  simp only [Option.map_eq_some_iff] at h
  obtain ⟨ae, hae, rfl⟩ := h
  unfold allAttr
  exact List.mem_map.mpr ⟨ae, List.mem_of_getLast? hae, rfl⟩

theorem allAttr_nil_of_lastAttr_none {l : List (Nat × Expr)} {a : Nat}
    (h : lastAttr l a = none) : allAttr l a = [] := by
  unfold lastAttr at h
  simp only [Option.map_eq_none_iff, List.getLast?_eq_none_iff] at h
  unfold allAttr
  rw [h]
  rfl

/-- a name whose last binder is a `class` statement denotes exactly that class -/
theorem name_of_klass {p : Prog} {b lim j : Nat} {c bb at' ii mm}
    (hb : lastBinder p b lim = some j) (hj : p[j]? = some (.klass c bb at' ii mm)) (m : Nat) :
    nameC p (m + 1) b lim = some (.cls j) ∧ nameA p (m + 1) b lim = [.cls j] := by
  constructor
  · simp [nameC, hb, hj]
  · simp [nameA, hb, hj]

theorem sound_eval_succ (p : Prog) (n : Nat) (ih : Sound p n) :
    ∀ cc ca e v, CtxRel cc ca → evalC p (n + 1) cc e = some v →
      coversAny v (mayE p (n + 1) ca e) = true := by
  intro cc ca e v hrel h
  cases e with
  | int =>
    simp only [evalC, Option.some.injEq] at h
    subst h
    simp [mayE, coversAny, covers]
  | str =>
    simp only [evalC, Option.some.injEq] at h
    subst h
    simp [mayE, coversAny, covers]
  | name x =>
    cases cc with
    | module pos =>
      cases ca with
      | module pos' =>
        have : pos = pos' := hrel
        subst this
        simp only [evalC] at h
        simp only [mayE]
        exact ih.name x pos v h
      | func _ _ => exact absurd hrel (by simp [CtxRel])
      | meth _ _ _ _ => exact absurd hrel (by simp [CtxRel])
    | func id args =>
      cases ca with
      | module _ => exact absurd hrel (by simp [CtxRel])
      | meth _ _ _ _ => exact absurd hrel (by simp [CtxRel])
      | func id' as =>
        obtain ⟨hid, hargs⟩ := hrel
        subst hid
        simp only [evalC] at h
        simp only [mayE]
        cases hp : p[id]? with
        | none => simp [hp] at h
        | some st =>
          cases st with
          | defn f params ret =>
            simp only [hp] at h ⊢
            cases hi : indexOf params x with
            | some i =>
              simp only [hi] at h ⊢
              obtain ⟨sk, hsk, hc⟩ := coversList_getElem hargs h
              simp [hsk, hc]
            | none =>
              simp only [hi] at h ⊢
              exact ih.name x p.length v h
          | assign _ _ => simp [hp] at h
          | unpack _ _ => simp [hp] at h
          | klass _ _ _ _ _ => simp [hp] at h
          | probe _ => simp [hp] at h
    | meth cid m sv args =>
      cases ca with
      | module _ => exact absurd hrel (by simp [CtxRel])
      | func _ _ => exact absurd hrel (by simp [CtxRel])
      | meth cid' m' ss as =>
        obtain ⟨hc, hm, -, hargs⟩ := hrel
        subst hc hm
        simp only [evalC] at h
        simp only [mayE]
        cases hmp : methodParams p cid m with
        | none => simp [hmp] at h
        | some params =>
          simp only [hmp] at h ⊢
          cases hi : indexOf params x with
          | some i =>
            simp only [hi] at h ⊢
            obtain ⟨sk, hsk, hc⟩ := coversList_getElem hargs h
            simp [hsk, hc]
          | none =>
            simp only [hi] at h ⊢
            exact ih.name x p.length v h
  | self =>
    cases cc with
    | module _ => simp [evalC] at h
    | func _ _ => simp [evalC] at h
    | meth cid m sv args =>
      cases ca with
      | module _ => exact absurd hrel (by simp [CtxRel])
      | func _ _ => exact absurd hrel (by simp [CtxRel])
      | meth cid' m' ss as =>
        obtain ⟨-, -, hs, -⟩ := hrel
        simp only [evalC, Option.some.injEq] at h
        subst h
        simp [mayE, coversAny, hs]
  | tuple es =>
    simp only [evalC, Option.map_eq_some_iff] at h
    obtain ⟨vs, hvs, rfl⟩ := h
    simp only [mayE, coversAny, Bool.or_false, covers]
    exact mapOpt_covers es (fun e v hv => ih.eval cc ca e v hrel hv) hvs
  | index e k =>
    simp only [evalC] at h
    cases he : evalC p n cc e with
    | none => simp [he] at h
    | some w =>
      cases w with
      | tuple vs =>
        simp only [he] at h
        have hcov := ih.eval cc ca e _ hrel he
        obtain ⟨s, hs, hc⟩ := coversAny_iff.mp hcov
        obtain ⟨elems, rfl, hl⟩ := covers_tuple hc
        obtain ⟨sk, hsk, hck⟩ := coversList_getElem hl h
        simp only [mayE]
        apply coversAny_flatMap hs
        simp [hsk, hck]
      | int => simp [he] at h
      | str => simp [he] at h
      | func _ => simp [he] at h
      | cls _ => simp [he] at h
      | inst _ _ => simp [he] at h
      | bound _ _ _ => simp [he] at h
  | call f args =>
    simp only [evalC] at h
    cases hf : evalC p n cc f with
    | none => simp [hf] at h
    | some fv =>
      cases hm : mapOpt (evalC p n cc) args with
      | none =>
        simp only [hf, hm] at h
        cases fv <;> simp at h
      | some vs =>
        have hargs : coversList vs (args.map (mayE p n ca)) = true :=
          mapOpt_covers args (fun e v hv => ih.eval cc ca e v hrel hv) hm
        have hcovf := ih.eval cc ca f _ hrel hf
        obtain ⟨s, hs, hc⟩ := coversAny_iff.mp hcovf
        simp only [mayE]
        cases fv with
        | func id =>
          simp only [hf, hm] at h
          have := covers_func hc
          subst this
          apply coversAny_flatMap hs
          cases hp : p[id]? with
          | none => simp [hp] at h
          | some st =>
            cases st with
            | defn g params ret =>
              simp only [hp] at h ⊢
              split at h
              · exact ih.eval (.func id vs) (.func id (args.map (mayE p n ca))) ret v ⟨rfl, hargs⟩ h
              · cases h
            | assign _ _ => simp [hp] at h
            | unpack _ _ => simp [hp] at h
            | klass _ _ _ _ _ => simp [hp] at h
            | probe _ => simp [hp] at h
        | cls id =>
          simp only [hf, hm] at h
          have := covers_cls hc
          subst this
          apply coversAny_flatMap hs
          cases hia : initArityC p n id with
          | none => simp [hia] at h
          | some k =>
            simp only [hia] at h
            split at h
            · simp only [Option.some.injEq] at h
              subst h
              simp [coversAny, covers, hargs]
            · cases h
        | bound recv cid m =>
          simp only [hf, hm] at h
          obtain ⟨r', rfl, hr⟩ := covers_bound hc
          apply coversAny_flatMap hs
          cases hp : p[cid]? with
          | none => simp [hp] at h
          | some st =>
            cases st with
            | klass c base attrs init methods =>
              simp only [hp] at h ⊢
              cases hfm : findMethod methods m with
              | none => simp [hfm] at h
              | some md =>
                simp only [hfm] at h ⊢
                split at h
                · exact ih.eval (.meth cid (some m) recv vs)
                    (.meth cid (some m) r' (args.map (mayE p n ca))) md.ret v
                    ⟨rfl, rfl, hr, hargs⟩ h
                · cases h
            | assign _ _ => simp [hp] at h
            | unpack _ _ => simp [hp] at h
            | defn _ _ _ => simp [hp] at h
            | probe _ => simp [hp] at h
        | int => simp [hf, hm] at h
        | str => simp [hf, hm] at h
        | tuple _ => simp [hf, hm] at h
        | inst _ _ => simp [hf, hm] at h
  | attr e a =>
    simp only [evalC] at h
    cases he : evalC p n cc e with
    | none => simp [he] at h
    | some w =>
      have hcov := ih.eval cc ca e _ hrel he
      obtain ⟨s, hs, hc⟩ := coversAny_iff.mp hcov
      simp only [mayE]
      cases w with
      | inst id args =>
        simp only [he] at h
        obtain ⟨ss, rfl, hl⟩ := covers_inst hc
        apply coversAny_flatMap hs
        have hself : covers (.inst id args) (.inst id ss) = true := by simp [covers, hl]
        cases hsa : selfAttrC p n id (.inst id args) args a with
        | found v' =>
          simp only [hsa, Option.some.injEq] at h
          subst h
          obtain ⟨r, hr, hcr⟩ := ih.selfFound id _ _ args ss a v' hself hl hsa
          simp [hr, hcr]
        | missing =>
          simp only [hsa] at h
          have hnone := ih.selfMissing id (.inst id args) (.inst id ss) args ss a hsa
          simp only [hnone]
          exact ih.attr (some (.inst id args)) (some (.inst id ss)) id a v hself h
        | error => simp [hsa] at h
      | cls id =>
        simp only [he] at h
        have := covers_cls hc
        subst this
        apply coversAny_flatMap hs
        exact ih.attr none none id a v trivial h
      | int => simp [he] at h
      | str => simp [he] at h
      | tuple _ => simp [he] at h
      | func _ => simp [he] at h
      | bound _ _ _ => simp [he] at h
  | tern c a b =>
    simp only [evalC] at h
    simp only [mayE]
    cases c with
    | true =>
      simp only [if_true] at h
      exact coversAny_append_left (ih.eval cc ca a v hrel h)
    | false =>
      simp only [Bool.false_eq_true, if_false] at h
      exact coversAny_append_right (ih.eval cc ca b v hrel h)

theorem sound_name_succ (p : Prog) (n : Nat) (ih : Sound p n) :
    ∀ x lim v, nameC p (n + 1) x lim = some v → coversAny v (nameA p (n + 1) x lim) = true := by
  intro x lim v h
  simp only [nameC] at h
  simp only [nameA]
  cases hb : lastBinder p x lim with
  | none => simp [hb] at h
  | some j =>
    simp only [hb] at h ⊢
    cases hp : p[j]? with
    | none => simp [hp] at h
    | some st =>
      cases st with
      | assign y e =>
        simp only [hp] at h ⊢
        exact ih.eval (.module j) (.module j) e v rfl h
      | unpack xs e =>
        simp only [hp] at h ⊢
        cases he : evalC p n (.module j) e with
        | none => simp [he] at h
        | some w =>
          cases hi : indexOf xs x with
          | none =>
            simp only [he, hi] at h
            cases w <;> simp at h
          | some i =>
            cases w with
            | tuple vs =>
              simp only [he, hi] at h
              split at h
              · have hcov := ih.eval (.module j) (.module j) e _ rfl he
                obtain ⟨s, hs, hc⟩ := coversAny_iff.mp hcov
                obtain ⟨elems, rfl, hl⟩ := covers_tuple hc
                obtain ⟨sk, hsk, hck⟩ := coversList_getElem hl h
                apply coversAny_flatMap hs
                simp [hsk, hck]
              · cases h
            | int => simp [he, hi] at h
            | str => simp [he, hi] at h
            | func _ => simp [he, hi] at h
            | cls _ => simp [he, hi] at h
            | inst _ _ => simp [he, hi] at h
            | bound _ _ _ => simp [he, hi] at h
      | defn f params ret =>
        simp only [hp, Option.some.injEq] at h ⊢
        subst h
        simp [coversAny, covers]
      | klass c base attrs init methods =>
        simp only [hp, Option.some.injEq] at h ⊢
        subst h
        simp [coversAny, covers]
      | probe e => simp [hp] at h

theorem attr_base_step (p : Prog) (n : Nat) (ih : Sound p n) (rc : Option Val) (ra : Option Shape)
    (b id a : Nat) (v : Val) (hrecv : RecvRel rc ra)
    (h : (match nameC p n b id with
          | some (.cls bid) => attrC p n rc bid a
          | _ => none) = some v) :
    coversAny v ((nameA p n b id).flatMap fun s =>
      match s with
      | .cls bid => attrA p n ra bid a
      | _ => []) = true := by
  cases hn : nameC p n b id with
  | none => simp [hn] at h
  | some w =>
    cases w with
    | cls bid =>
      simp only [hn] at h
      have hcov := ih.name b id _ hn
      obtain ⟨s, hs, hc⟩ := coversAny_iff.mp hcov
      have := covers_cls hc
      subst this
      apply coversAny_flatMap hs
      exact ih.attr rc ra bid a v hrecv h
    | int => simp [hn] at h
    | str => simp [hn] at h
    | tuple _ => simp [hn] at h
    | func _ => simp [hn] at h
    | inst _ _ => simp [hn] at h
    | bound _ _ _ => simp [hn] at h

theorem sound_attr_succ (p : Prog) (n : Nat) (ih : Sound p n) :
    ∀ rc ra id a v, RecvRel rc ra → attrC p (n + 1) rc id a = some v →
      coversAny v (attrA p (n + 1) ra id a) = true := by
  intro rc ra id a v hrecv h
  simp only [attrC] at h
  simp only [attrA]
  cases hp : p[id]? with
  | none => simp [hp] at h
  | some st =>
    cases st with
    | klass c base attrs init methods =>
      simp only [hp] at h ⊢
      cases hl : lastAttr attrs a with
      | some e =>
        simp only [hl] at h ⊢
        exact ih.eval (.module id) (.module id) e v rfl h
      | none =>
        simp only [hl] at h ⊢
        cases hfm : findMethod methods a with
        | some md =>
          cases rc with
          | none => simp [hfm] at h
          | some r =>
            cases ra with
            | none => exact absurd hrecv (by simp [RecvRel])
            | some r' =>
              simp only [hfm, Option.some.injEq] at h ⊢
              subst h
              have : covers r r' = true := hrecv
              simp [coversAny, covers, this]
        | none =>
          cases base with
          | none => cases rc <;> simp [hfm] at h
          | some b =>
            cases rc with
            | none =>
              cases ra with
              | some _ => exact absurd hrecv (by simp [RecvRel])
              | none =>
                simp only [hfm] at h ⊢
                exact attr_base_step p n ih none none b id a v hrecv h
            | some r =>
              cases ra with
              | none => exact absurd hrecv (by simp [RecvRel])
              | some r' =>
                simp only [hfm] at h ⊢
                exact attr_base_step p n ih (some r) (some r') b id a v hrecv h
    | assign _ _ => simp [hp] at h
    | unpack _ _ => simp [hp] at h
    | defn _ _ _ => simp [hp] at h
    | probe _ => simp [hp] at h

theorem sound_selfFound_succ (p : Prog) (hwf : WFClasses p = true) (n : Nat) (ih : Sound p n) :
    ∀ id sv ss vs as a v, covers sv ss = true → coversList vs as = true →
      selfAttrC p (n + 1) id sv vs a = .found v →
      ∃ r, selfAttrA p (n + 1) id ss as a = some r ∧ coversAny v r = true := by
  intro id sv ss vs as a v hs hl h
  simp only [selfAttrC] at h
  simp only [selfAttrA]
  cases hp : p[id]? with
  | none => simp [hp] at h
  | some st =>
    cases st with
    | klass c base attrs init methods =>
      simp only [hp] at h ⊢
      cases init with
      | some i =>
        simp only at h ⊢
        cases hla : lastAttr i.assigns a with
        | none => simp [hla] at h
        | some e =>
          simp only [hla] at h
          cases hev : evalC p n (.meth id none sv vs) e with
          | none => simp [hev] at h
          | some v' =>
            simp only [hev, Found.found.injEq] at h
            subst h
            have hmem := lastAttr_mem_allAttr hla
            cases hall : allAttr i.assigns a with
            | nil => rw [hall] at hmem; simp at hmem
            | cons e0 es =>
              refine ⟨_, rfl, ?_⟩
              rw [← hall]
              apply coversAny_flatMapE hmem
              exact ih.eval (.meth id none sv vs) (.meth id none ss as) e v' ⟨rfl, rfl, hs, hl⟩ hev
      | none =>
        simp only at h ⊢
        cases base with
        | none => simp at h
        | some b =>
          simp only at h ⊢
          obtain ⟨-, j, c', b', a', i', m', hb, hj⟩ := wf_base hwf hp
          cases n with
          | zero => simp [nameC] at h
          | succ m =>
            obtain ⟨hnc, hna⟩ := name_of_klass hb hj m
            rw [hnc] at h
            rw [hna]
            simp only [firstSome] at h ⊢
            obtain ⟨r, hr, hcr⟩ := ih.selfFound j sv ss vs as a v hs hl h
            exact ⟨r, by simp [hr], hcr⟩
    | assign _ _ => simp [hp] at h
    | unpack _ _ => simp [hp] at h
    | defn _ _ _ => simp [hp] at h
    | probe _ => simp [hp] at h

theorem sound_selfMissing_succ (p : Prog) (hwf : WFClasses p = true) (n : Nat) (ih : Sound p n) :
    ∀ id sv ss vs as a, selfAttrC p (n + 1) id sv vs a = .missing →
      selfAttrA p (n + 1) id ss as a = none := by
  intro id sv ss vs as a h
  simp only [selfAttrC] at h
  simp only [selfAttrA]
  cases hp : p[id]? with
  | none => simp [hp] at h
  | some st =>
    cases st with
    | klass c base attrs init methods =>
      simp only [hp] at h ⊢
      cases init with
      | some i =>
        simp only at h ⊢
        cases hla : lastAttr i.assigns a with
        | some e =>
          simp only [hla] at h
          cases hev : evalC p n (.meth id none sv vs) e <;> simp [hev] at h
        | none =>
          rw [allAttr_nil_of_lastAttr_none hla]
          simp only
          cases base with
          | none => rfl
          | some b =>
            have := (wf_base hwf hp).1
            cases this
      | none =>
        simp only at h ⊢
        cases base with
        | none => rfl
        | some b =>
          simp only at h ⊢
          obtain ⟨-, j, c', b', a', i', m', hb, hj⟩ := wf_base hwf hp
          cases n with
          | zero => simp [nameC] at h
          | succ m =>
            obtain ⟨hnc, hna⟩ := name_of_klass hb hj m
            rw [hnc] at h
            rw [hna]
            simp only [firstSome] at h ⊢
            rw [ih.selfMissing j sv ss vs as a h]
    | assign _ _ => simp [hp] at h
    | unpack _ _ => simp [hp] at h
    | defn _ _ _ => simp [hp] at h
    | probe _ => simp [hp] at h

theorem sound (p : Prog) (hwf : WFClasses p = true) : ∀ fuel, Sound p fuel := by
  intro fuel
  induction fuel with
  | zero => exact sound_zero p
  | succ n ih =>
    exact ⟨sound_eval_succ p n ih, sound_name_succ p n ih, sound_attr_succ p n ih,
      sound_selfFound_succ p hwf n ih, sound_selfMissing_succ p hwf n ih⟩

end JediModel.PyCore

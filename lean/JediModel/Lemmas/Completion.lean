import JediModel.Model.Completion
import JediModel.Lemmas.Match
namespace JediModel.Completion
open JediModel.Match

/-! ### one iteration -/

theorem filterStep_yield {st lower like' likeLen fuzzy imported} {c : Cand} {seen : List Key} {new k}
    (h : filterStep st lower like' likeLen fuzzy imported c seen = .yield new k) :
    new = mkComp likeLen fuzzy c ∧ k = new.dedupKey st ∧ k ∉ seen ∧ c.isDel = false ∧
      pmatch (foldCase st lower c.str) like' fuzzy = true ∧
      ¬ (imported.contains c.str = true ∧ c.str ≠ like') := by
  unfold filterStep at h
  split at h
  · cases h
  · rename_i himp
    split at h
    · rename_i hm
      split at h
      · cases h
      · rename_i hs
        split at h
        · cases h
        · rename_i hd
          cases h
          refine ⟨rfl, rfl, by simpa using hs, by simpa using hd, hm, ?_⟩
          intro hc
          apply himp
          simp only [Bool.and_eq_true, bne_iff_ne, ne_eq]
          exact hc
    · cases h

theorem filterStep_mark {st lower like' likeLen fuzzy imported} {c : Cand} {seen : List Key} {k}
    (h : filterStep st lower like' likeLen fuzzy imported c seen = .mark k) :
    k = (mkComp likeLen fuzzy c).dedupKey st ∧ c.isDel = true := by
  unfold filterStep at h
  split at h
  · cases h
  · split at h
    · split at h
      · cases h
      · split at h
        · rename_i hd
          cases h
          exact ⟨rfl, hd⟩
        · cases h
    · cases h

/-- a matching, non-skipped candidate is never dropped silently -/
theorem filterStep_of_match {st lower like' likeLen fuzzy imported} {c : Cand} {seen : List Key}
    (hm : pmatch (foldCase st lower c.str) like' fuzzy = true)
    (hi : ¬ (imported.contains c.str = true ∧ c.str ≠ like')) :
    let k := (mkComp likeLen fuzzy c).dedupKey st
    (k ∈ seen ∧ filterStep st lower like' likeLen fuzzy imported c seen = .skip) ∨
    (c.isDel = true ∧ filterStep st lower like' likeLen fuzzy imported c seen = .mark k) ∨
    filterStep st lower like' likeLen fuzzy imported c seen = .yield (mkComp likeLen fuzzy c) k := by
  intro k
  have hi' : (imported.contains c.str && c.str != like') = false := by
    cases h1 : imported.contains c.str <;> cases h2 : (c.str != like') <;> simp_all
  unfold filterStep
  simp only [hi', Bool.false_eq_true, if_false, hm, if_true]
  by_cases hs : seen.contains k = true
  · left; exact ⟨by simpa using hs, by simp [k] at hs ⊢; simp [hs]⟩
  · right
    have hs' : seen.contains ((mkComp likeLen fuzzy c).dedupKey st) = false := by simpa [k] using hs
    simp only [hs', Bool.false_eq_true, if_false]
    by_cases hd : c.isDel = true
    · left; exact ⟨hd, by simp [hd, k]⟩
    · right; simp [hd, k]

/-! ### the loop -/

/-- everything `filter_names` guarantees about one yielded completion -/
structure Yielded (st : Settings) (lower : List Char → List Char) (like' : List Char)
    (likeLen : Nat) (fuzzy : Bool) (imported : List (List Char)) (cands : List Cand) (seen : List Key) (c : Comp) : Prop where
  mem : c.cand ∈ cands
  eq : c = mkComp likeLen fuzzy c.cand
  isMatch : pmatch (foldCase st lower c.cand.str) like' fuzzy = true
  fresh : c.dedupKey st ∉ seen
  notDel : c.cand.isDel = false
  notImported : ¬ (imported.contains c.cand.str = true ∧ c.cand.str ≠ like')

theorem filterLoop_yielded (st : Settings) (lower : List Char → List Char) (like' : List Char)
    (likeLen : Nat) (fuzzy : Bool) (imported : List (List Char)) (cands : List Cand) (seen : List Key) (c : Comp)
    (h : c ∈ filterLoop st lower like' likeLen fuzzy imported cands seen) :
    Yielded st lower like' likeLen fuzzy imported cands seen c := by
  induction cands generalizing seen with
  | nil => simp [filterLoop] at h
  | cons x xs ih =>
    have lift : ∀ seen', (∀ k, k ∈ seen → k ∈ seen') →
        Yielded st lower like' likeLen fuzzy imported xs seen' c →
        Yielded st lower like' likeLen fuzzy imported (x :: xs) seen c := by
      intro seen' hs y
      exact ⟨List.mem_cons_of_mem _ y.mem, y.eq, y.isMatch,
        fun hk => y.fresh (hs _ hk), y.notDel, y.notImported⟩
    unfold filterLoop at h
    split at h
    · exact lift seen (fun _ hk => hk) (ih seen h)
    · exact lift _ (fun _ hk => List.mem_cons_of_mem _ hk) (ih _ h)
    · rename_i new k hstep
      obtain ⟨hnew, hk, hfresh, hdel, hm, hi⟩ := filterStep_yield hstep
      rcases List.mem_cons.mp h with rfl | h
      · subst hnew
        exact ⟨List.mem_cons_self, rfl, hm, hk ▸ hfresh, hdel, hi⟩
      · exact lift _ (fun _ hk => List.mem_cons_of_mem _ hk) (ih _ h)

theorem filterLoop_nodup (st : Settings) (lower : List Char → List Char) (like' : List Char)
    (likeLen : Nat) (fuzzy : Bool) (imported : List (List Char)) (cands : List Cand) (seen : List Key) :
    ((filterLoop st lower like' likeLen fuzzy imported cands seen).map (Comp.dedupKey st)).Nodup := by
  induction cands generalizing seen with
  | nil => simp [filterLoop]
  | cons x xs ih =>
    unfold filterLoop
    split
    · exact ih seen
    · exact ih _
    · rename_i new k hstep
      obtain ⟨hnew, hk, -⟩ := filterStep_yield hstep
      simp only [List.map_cons, List.nodup_cons]
      refine ⟨?_, ih _⟩
      intro hmem
      rcases List.mem_map.mp hmem with ⟨c, hc, hck⟩
      have y := filterLoop_yielded _ _ _ _ _ _ _ _ _ hc
      apply y.fresh
      rw [hck, ← hk]
      exact List.mem_cons_self

/-- nothing that matches is lost: the key of every matching, non-skipped candidate was
already seen, is in the output, or belongs to a `del` target with the same key. -/
theorem filterLoop_complete (st : Settings) (lower : List Char → List Char) (like' : List Char)
    (likeLen : Nat) (fuzzy : Bool) (imported : List (List Char)) (cands : List Cand) (seen : List Key)
    (x : Cand) (hx : x ∈ cands)
    (hm : pmatch (foldCase st lower x.str) like' fuzzy = true)
    (hi : ¬ (imported.contains x.str = true ∧ x.str ≠ like')) :
    (mkComp likeLen fuzzy x).dedupKey st ∈ seen ∨
    (mkComp likeLen fuzzy x).dedupKey st ∈
      (filterLoop st lower like' likeLen fuzzy imported cands seen).map (Comp.dedupKey st) ∨
    ∃ d ∈ cands, d.isDel = true ∧
      (mkComp likeLen fuzzy d).dedupKey st = (mkComp likeLen fuzzy x).dedupKey st := by
  induction cands generalizing seen with
  | nil => simp at hx
  | cons y ys ih =>
    rcases List.mem_cons.mp hx with rfl | hxs
    · rcases filterStep_of_match (seen := seen) hm hi with ⟨h, -⟩ | ⟨hd, -⟩ | h
      · exact Or.inl h
      · exact Or.inr (Or.inr ⟨x, List.mem_cons_self, hd, rfl⟩)
      · right; left
        unfold filterLoop
        simp [h]
    · unfold filterLoop
      split
      · rcases ih seen hxs with h | h | ⟨d, hd, hdel, hk⟩
        · exact Or.inl h
        · exact Or.inr (Or.inl h)
        · exact Or.inr (Or.inr ⟨d, List.mem_cons_of_mem _ hd, hdel, hk⟩)
      · rename_i k hstep
        obtain ⟨hk, hdel⟩ := filterStep_mark hstep
        rcases ih (k :: seen) hxs with h | h | ⟨d, hd, hdel', hk'⟩
        · rcases List.mem_cons.mp h with h | h
          · exact Or.inr (Or.inr ⟨y, List.mem_cons_self, hdel, by rw [← hk, h]⟩)
          · exact Or.inl h
        · exact Or.inr (Or.inl h)
        · exact Or.inr (Or.inr ⟨d, List.mem_cons_of_mem _ hd, hdel', hk'⟩)
      · rename_i new k hstep
        obtain ⟨hnew, hk, -⟩ := filterStep_yield hstep
        rcases ih (k :: seen) hxs with h | h | ⟨d, hd, hdel', hk'⟩
        · rcases List.mem_cons.mp h with h | h
          · right; left
            simp only [List.map_cons, List.mem_cons]
            exact Or.inl (by rw [h, hk])
          · exact Or.inl h
        · right; left
          simp only [List.map_cons, List.mem_cons]
          exact Or.inr h
        · exact Or.inr (Or.inr ⟨d, List.mem_cons_of_mem _ hd, hdel', hk'⟩)

/-! ### sorting -/

theorem keyLE_trans (comps : List String) (lower : List Char → List Char) (like : List Char)
    (a b c : Comp) (h1 : keyLE comps lower like a b = true) (h2 : keyLE comps lower like b c = true) :
    keyLE comps lower like a c = true := by
  simp only [keyLE, decide_eq_true_eq] at *
  exact List.le_trans h1 h2

theorem keyLE_total (comps : List String) (lower : List Char → List Char) (like : List Char)
    (a b : Comp) : (keyLE comps lower like a b || keyLE comps lower like b a) = true := by
  simp only [keyLE, Bool.or_eq_true, decide_eq_true_eq]
  exact List.le_total _ _

/-! ### code-point-wise case mappings -/

theorem expand_append (f : Char → List Char) (a b : List Char) :
    expand f (a ++ b) = expand f a ++ expand f b := by simp [expand]

theorem unitOn_append (f : Char → List Char) (a b : List Char) :
    unitOn f (a ++ b) = (unitOn f a && unitOn f b) := by simp [unitOn]

theorem expand_length_of_unit (f : Char → List Char) :
    ∀ s, unitOn f s = true → (expand f s).length = s.length
  | [], _ => rfl
  | x :: xs, h => by
    simp only [unitOn, List.all_cons, Bool.and_eq_true, beq_iff_eq] at h
    have ih := expand_length_of_unit f xs (by simpa [unitOn] using h.2)
    simp only [expand, List.flatMap_cons, List.length_append, List.length_cons] at ih ⊢
    omega

/-- a name whose folded form starts with the folded fragment is at least as long as the
fragment, when neither the fragment nor the first `|fragment|` characters of the (public) name
contain a code point that folds to several -/
theorem length_le_of_expand_prefix (f : Char → List Char) (like str suffix : List Char)
    (hp : expand f like <+: expand f str) (hl : unitOn f like = true)
    (hn : unitOn f ((str ++ suffix).take like.length) = true) : like.length ≤ str.length := by
  apply Classical.byContradiction
  intro hlt
  have hlt : str.length < like.length := by omega
  have ht : (str ++ suffix).take like.length = str ++ suffix.take (like.length - str.length) := by
    rw [List.take_append, List.take_of_length_le (by omega)]
  rw [ht, unitOn_append] at hn
  have hs : unitOn f str = true := by
    cases h : unitOn f str <;> simp_all
  have h1 := expand_length_of_unit f str hs
  have h2 := expand_length_of_unit f like hl
  have := hp.length_le
  omega

/-- ... and then the first `|fragment|` characters of the name fold to the folded fragment -/
theorem expand_take_eq (f : Char → List Char) (like str : List Char)
    (hp : expand f like <+: expand f str) (hl : unitOn f like = true)
    (hn : unitOn f (str.take like.length) = true) (hk : like.length ≤ str.length) :
    expand f (str.take like.length) = expand f like := by
  have h1 : expand f (str.take like.length) <+: expand f str := by
    refine ⟨expand f (str.drop like.length), ?_⟩
    rw [← expand_append, List.take_append_drop]
  have hlen : (expand f (str.take like.length)).length = (expand f like).length := by
    rw [expand_length_of_unit f _ hn, expand_length_of_unit f _ hl, List.length_take]
    omega
  have := List.prefix_of_prefix_length_le h1 hp (by omega)
  exact this.eq_of_length hlen

end JediModel.Completion

import JediModel.Model.Validate
import JediModel.Lemmas.Text
/-! Lemmas for `Model/Validate`, for an arbitrary spec that has the shape found in the source. -/
namespace JediModel.Validate
open JediModel.Text

/-- the `endswith` table of the working tree, as data -/
def stdStrip : List (Str × Nat) := [(['\r', '\n'], 2), (['\n'], 1)]

/-- the table computes jedi's line length of `Model/Text` -/
theorem lineLenWith_std (l : Str) : lineLenWith stdStrip l = (lineLen l : Int) := by
  unfold lineLenWith stdStrip lineLen
  simp only [List.find?, List.isSuffixOf]
  by_cases h1 : ['\r', '\n'].reverse.isPrefixOf l.reverse
  · have h1' : ['\n', '\r'].isPrefixOf l.reverse = true := by simpa using h1
    have hlen : 2 ≤ l.length := by
      have := List.IsPrefix.length_le (List.isPrefixOf_iff_prefix.mp h1')
      simpa using this
    simp only [h1, h1', if_true]
    omega
  · have h1' : ¬ (['\n', '\r'].isPrefixOf l.reverse = true) := by simpa using h1
    simp only [h1, h1', Bool.false_eq_true, if_false]
    by_cases h2 : ['\n'].reverse.isPrefixOf l.reverse
    · have h2' : ['\n'].isPrefixOf l.reverse = true := by simpa using h2
      have hlen : 1 ≤ l.length := by
        have := List.IsPrefix.length_le (List.isPrefixOf_iff_prefix.mp h2')
        simpa using this
      simp only [h2, h2', if_true]
      omega
    · have h2' : ¬ (['\n'].isPrefixOf l.reverse = true) := by simpa using h2
      simp only [h2, h2', Bool.false_eq_true, if_false]

theorem lineLen_le_length (l : Str) : lineLen l ≤ l.length := by
  unfold lineLen
  split
  · omega
  · split <;> omega

theorem pyIndex_nonneg {α : Type} (xs : List α) (i : Int) (h : 0 ≤ i) : pyIndex xs i = xs[i.toNat]? := by
  simp [pyIndex, h]

/-- the shape of the wrapper in the working tree (checked against the translator output by
`Props/C01.spec_shape`) -/
def StdShape (sp : Spec) : Prop :=
  sp.defaultLineMin = 1 ∧ sp.lineLo = 0 ∧ sp.lineLoStrict = true ∧ sp.lineHiStrict = false ∧
  sp.indexOffset = 1 ∧ sp.strip = stdStrip ∧ sp.colLo = 0 ∧ sp.colLoStrict = false ∧
  sp.colHiStrict = false ∧ sp.lineErr = "ValueError" ∧ sp.colErr = "ValueError"

def defaultLine (ls : List Str) : Int := max (ls.length : Int) 1
def lineStr (ls : List Str) (l : Int) : Str := (ls[(l - 1).toNat]?).getD []

theorem validateAt_closed_form (sp : Spec) (h : StdShape sp) (ls : List Str) (l : Int) (col : Option Int) :
    validateAt sp ls l col =
      (if 1 ≤ l ∧ l ≤ ls.length then
         if 0 ≤ col.getD (lineLen (lineStr ls l) : Int) ∧
            col.getD (lineLen (lineStr ls l) : Int) ≤ (lineLen (lineStr ls l) : Int)
         then Outcome.ok l (col.getD (lineLen (lineStr ls l) : Int)) else Outcome.raised "ValueError"
       else Outcome.raised "ValueError") := by
  obtain ⟨h1, h2, h3, h4, h5, h6, h7, h8, h9, h10, h11⟩ := h
  unfold validateAt
  simp only [h2, h3, h4, h5, h6, h7, h8, h9, h10, h11, cmp, lineLenWith_std, if_true,
    Bool.false_eq_true, if_false]
  by_cases hg : 1 ≤ l ∧ l ≤ ls.length
  · have h0 : 0 ≤ l - 1 := by omega
    have hlt : (l - 1).toNat < ls.length := by omega
    have hidx : pyIndex ls (l - 1) = some (lineStr ls l) := by
      rw [pyIndex_nonneg _ _ h0]
      have : ls[(l - 1).toNat]? = some ls[(l - 1).toNat] := List.getElem?_eq_getElem hlt
      simp only [lineStr, this, Option.getD_some]
    have hg1 : 0 < l := by omega
    simp only [hg, hidx, hg1, and_self, decide_true, Bool.and_self, Bool.not_true,
      Bool.false_eq_true, if_false, if_true]
    cases col with
    | none => simp
    | some c =>
      simp only [Option.getD_some]
      by_cases hc1 : 0 ≤ c <;> by_cases hc2 : c ≤ (lineLen (lineStr ls l) : Int) <;> simp [hc1, hc2]
  · simp only [hg, if_false]
    by_cases g1 : 0 < l <;> by_cases g2 : l ≤ (ls.length : Int) <;> simp [g1, g2]
    omega

theorem validate_closed_form_of_shape (sp : Spec) (h : StdShape sp) (ls : List Str) (line col : Option Int) :
    validate sp ls line col =
      (if 1 ≤ line.getD (defaultLine ls) ∧ line.getD (defaultLine ls) ≤ ls.length then
         if 0 ≤ col.getD (lineLen (lineStr ls (line.getD (defaultLine ls))) : Int) ∧
            col.getD (lineLen (lineStr ls (line.getD (defaultLine ls))) : Int)
              ≤ (lineLen (lineStr ls (line.getD (defaultLine ls))) : Int)
         then Outcome.ok (line.getD (defaultLine ls))
           (col.getD (lineLen (lineStr ls (line.getD (defaultLine ls))) : Int))
         else Outcome.raised "ValueError"
       else Outcome.raised "ValueError") := by
  unfold validate
  cases line with
  | none =>
    have : max (ls.length : Int) sp.defaultLineMin = defaultLine ls := by simp [defaultLine, h.1]
    simp only [this, Option.getD_none]
    exact validateAt_closed_form sp h ls _ col
  | some l =>
    simp only [Option.getD_some]
    exact validateAt_closed_form sp h ls _ col

end JediModel.Validate

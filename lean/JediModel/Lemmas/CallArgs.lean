import JediModel.Lemmas.Call
set_option linter.unusedSimpArgs false
/-! `argTriples` (the composition parso + `_iter_arguments` at generator level) in closed form. -/
namespace JediModel.Call

def Arg.triple : Arg → Triple
  | .pos _ => ⟨0, some [], false⟩
  | .kw n => ⟨0, some n, true⟩
  | .star k e => ⟨k, exprName e, false⟩

def Cur.triple : Cur → Triple
  | .empty => ⟨0, some [], false⟩
  | .name s cut => ⟨0, some (s.take cut), false⟩
  | .expr => ⟨0, some [], false⟩
  | .kwArg s cut eqBefore => if eqBefore then ⟨0, some s, true⟩ else ⟨0, some (s.take cut), false⟩
  | .kwOpen s => ⟨0, some s, true⟩
  | .starOpen k => ⟨k, some [], false⟩
  | .starArg k e cut => ⟨k, (exprName e).map (·.take cut), false⟩

theorem iterLoop_append (last : Node0) (xs ys : List Node0) (st : IterState) :
    iterLoop last (xs ++ ys) st =
      ((iterLoop last xs st).1 ++ (iterLoop last ys (iterLoop last xs st).2).1,
        (iterLoop last ys (iterLoop last xs st).2).2) := by
  induction xs generalizing st with
  | nil => simp [iterLoop]
  | cons x xs ih => simp [iterLoop, ih, List.append_assoc]

/-- one complete argument and its comma -/
theorem iterLoop_arg (last : Node0) (a : Arg) (st : IterState) (hy : st.yielded = false)
    (hs : st.starsSeen = 0) :
    iterLoop last (a.nodes ++ [.comma]) st =
      ([a.triple], { yielded := false, starsSeen := 0, prev := some .comma }) := by
  obtain ⟨y, ss, pv⟩ := st
  simp only at hy hs
  subst hy hs
  cases a with
  | pos e => cases e <;> simp [Arg.nodes, iterLoop, iterStep, Arg.triple]
  | kw n => simp [Arg.nodes, iterLoop, iterStep, Arg.triple]
  | star k e =>
    cases e <;> simp [Arg.nodes, iterLoop, iterStep, Arg.triple, exprName, removeAfterPos]

theorem iterLoop_prev (last : Node0) (prev : List Arg) (st : IterState) (hy : st.yielded = false)
    (hs : st.starsSeen = 0) :
    ∃ st', iterLoop last (prev.flatMap fun a => a.nodes ++ [.comma]) st = (prev.map Arg.triple, st') ∧
      st'.yielded = false ∧ st'.starsSeen = 0 := by
  induction prev generalizing st with
  | nil => exact ⟨st, by simp [iterLoop], hy, hs⟩
  | cons a prev ih =>
    obtain ⟨st', h, hy', hs'⟩ := ih { yielded := false, starsSeen := 0, prev := some .comma } rfl rfl
    refine ⟨st', ?_, hy', hs'⟩
    simp only [List.flatMap_cons, List.map_cons]
    rw [iterLoop_append, iterLoop_arg last a st hy hs]
    simp [h]

theorem last_open (x : Node0) (prev : List Arg) :
    (x :: prev.flatMap fun a => a.nodes ++ [Node0.comma]).getLast? = some x ∨
    (x :: prev.flatMap fun a => a.nodes ++ [Node0.comma]).getLast? = some .comma := by
  induction prev generalizing x with
  | nil => left; simp
  | cons a prev ih =>
    right
    have e : (x :: (a :: prev).flatMap fun a => a.nodes ++ [Node0.comma]) =
        (x :: a.nodes) ++ (Node0.comma :: prev.flatMap fun a => a.nodes ++ [Node0.comma]) := by
      simp [List.flatMap_cons, List.append_assoc]
    rw [e, List.getLast?_append]
    rcases ih .comma with h | h <;> simp [h]

/-- the scan in closed form, for any `last` that is the last node -/
theorem iterFlat_closed (prev : List Arg) (cur : Cur) (last : Node0)
    (hlast : cur.nodes = [] → (∀ v c, last ≠ .nameLeaf v c))
    (hlast2 : ∀ x, cur.nodes.getLast? = some x → last = x) :
    iterFlat (Node0.other :: (prev.flatMap fun a => a.nodes ++ [Node0.comma]) ++ cur.nodes) last =
      prev.map Arg.triple ++ [cur.triple] := by
  unfold iterFlat
  have e : (Node0.other :: (prev.flatMap fun a => a.nodes ++ [Node0.comma]) ++ cur.nodes) =
      [Node0.other] ++ ((prev.flatMap fun a => a.nodes ++ [Node0.comma]) ++ cur.nodes) := by simp
  rw [e, iterLoop_append, iterLoop_append]
  obtain ⟨st', h, hy', hs'⟩ := iterLoop_prev last prev
    (iterLoop last [Node0.other] {}).2 (by simp [iterLoop, iterStep]) (by simp [iterLoop, iterStep])
  rw [h]
  obtain ⟨y, ss, pv⟩ := st'
  simp only at hy' hs'
  subst hy' hs'
  cases cur with
  | empty =>
    have := hlast rfl
    simp only [Cur.nodes, iterLoop, iterStep, Cur.triple, List.append_nil, List.nil_append]
    cases last <;> simp_all
  | name s cut =>
    have := hlast2 (.nameLeaf s cut) rfl
    subst this
    simp [Cur.nodes, iterLoop, iterStep, Cur.triple]
  | expr =>
    have := hlast2 .other rfl
    subst this
    simp [Cur.nodes, iterLoop, iterStep, Cur.triple]
  | kwArg s cut eqBefore =>
    cases eqBefore <;> simp [Cur.nodes, iterLoop, iterStep, Cur.triple, removeAfterPos]
  | kwOpen s =>
    simp [Cur.nodes, iterLoop, iterStep, Cur.triple]
  | starOpen k =>
    have := hlast2 (.starLeaf k) rfl
    subst this
    simp [Cur.nodes, iterLoop, iterStep, Cur.triple]
  | starArg k e cut =>
    simp [Cur.nodes, iterLoop, iterStep, Cur.triple, removeAfterPos]

/-- the whole scan in closed form: one triple per complete argument, one for the current one -/
theorem argTriples_eq (prev : List Arg) (cur : Cur) :
    argTriples prev cur = prev.map Arg.triple ++ [cur.triple] := by
  show iterFlat (nodesOf prev cur) ((nodesOf prev cur).getLastD .other) = _
  unfold nodesOf
  apply iterFlat_closed
  · intro hc v c hv
    rw [hc, List.append_nil, List.getLastD_eq_getLast?] at hv
    rcases last_open .other prev with h' | h' <;> rw [h'] at hv <;> simp at hv
  · intro x hx
    rw [List.getLastD_eq_getLast?, List.getLast?_append, hx]
    simp

theorem map_pos_triple (es : List Expr) :
    (es.map Arg.pos).map Arg.triple = List.replicate es.length (CArg.triple .pos) := by
  induction es with
  | nil => rfl
  | cons e es ih => simp [List.replicate_succ, Arg.triple, CArg.triple] at ih ⊢; exact ih

end JediModel.Call

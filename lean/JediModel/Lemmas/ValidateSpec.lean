import JediModel.Model.Validate
import JediModel.Gen.C01
/-! The wrapper as written in the working tree: `Model/Validate.Spec` filled with the
translator output.  Kept outside `Props/` so that the correspondence driver still runs (with the
changed constants) when a source change breaks a proof obligation. -/
namespace JediModel.Validate
open JediModel.Gen

def sourceSpec : Spec :=
  { defaultLineMin := C01.defaultLineMin, lineLo := C01.lineLo, lineLoStrict := C01.lineLoStrict,
    lineHiStrict := C01.lineHiStrict, indexOffset := C01.indexOffset, strip := C01.strip,
    colLo := C01.colLo, colLoStrict := C01.colLoStrict, colHiStrict := C01.colHiStrict,
    lineErr := C01.lineErr, colErr := C01.colErr }

end JediModel.Validate

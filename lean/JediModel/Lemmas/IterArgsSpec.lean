import JediModel.Model.IterArgs
import JediModel.Gen.C01
/-! `_iter_arguments` as written in the working tree: `Model/IterArgs.Guards` filled with what the
translator found in front of every `.value` read.  Kept outside `Props/` so that the
correspondence driver still runs (with the changed guards) when a source change breaks a proof
obligation. -/
namespace JediModel.IterArgs
open JediModel.Gen

/-- a dominating test of this kind and polarity on `x` makes `x.value` safe (kinds as numbered by
`translator/gen_c01.py:guard_kind`): 1 `x.type == 'name'` holds, 2 `x.type != 'name'` fails,
3 `isinstance(x, tree.PythonLeaf)` holds, 4 `x == '<str>'` holds, 5 `x in ('<str>', …)` holds -/
def guardJustifies (kp : Nat × Bool) : Bool :=
  (kp.1 == 1 && kp.2) || (kp.1 == 2 && !kp.2) || (kp.1 == 3 && kp.2) || (kp.1 == 4 && kp.2) ||
  (kp.1 == 5 && kp.2)

/-- the source reads `.value` at `site`, and every such read is dominated by a justifying test -/
def siteGuarded (reads : List (Nat × List (Nat × Bool))) (site : Nat) : Bool :=
  let rs := reads.filter (fun r => r.1 == site)
  !rs.isEmpty && rs.all (fun r => r.2.any guardJustifies)

def sourceGuards : Guards :=
  { removeAfterPos := siteGuarded C01.iaReads 1
    argKwFirst := siteGuarded C01.iaReads 2
    commaLeaf := siteGuarded C01.iaReads 4
    starLeaf := siteGuarded C01.iaReads 5
    eqBefore := siteGuarded C01.iaReads 7 }

end JediModel.IterArgs

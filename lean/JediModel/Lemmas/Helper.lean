import JediModel.Model.Helper
/-! Lemmas about the helper-process model: one `_send`, the `run` loop, `_get_subprocess`. -/
namespace JediModel.Helper

def Fault.isDeath : Fault → Bool
  | .beforeSend => true
  | .afterSend => true
  | .trunc _ => true
  | .raisesFatal => true
  | _ => false

/-- the exception this fault makes `pickle_dump` / `pickle_load` raise in the parent is named in
the `except` clause that guards that call in `_send` -/
def Contained (cfg : Cfg) : Fault → Bool
  | .beforeSend => caught "BrokenPipeError" cfg.dumpCatch
  | .afterSend => caught "EOFError" cfg.loadCatch
  | .raisesFatal => caught "EOFError" cfg.loadCatch
  | .trunc cls => caught cls cfg.loadCatch
  | _ => true

def PlanContained (cfg : Cfg) (plan : Plan) : Prop := ∀ h k, Contained cfg (plan h k) = true

/-- bookkeeping facts that hold of every `CompiledSubprocess`, whatever the plan -/
structure Proc.Fin (p : Proc) : Prop where
  once : p.cleanups + (if p.armed then 1 else 0) = (if p.started then 1 else 0)
  armedLive : p.armed = true → p.reaped = false
  disarmed : p.started = true → p.armed = false → p.reaped = true ∧ p.alive = false
  crashedStarted : p.crashed = true → p.started = true ∧ p.armed = false
  unstarted : p.started = false → p.alive = false ∧ p.reaped = false

/-- "a dead helper is known to be dead": the invariant that containment preserves -/
def Proc.Sound (p : Proc) : Prop := p.started = true → p.alive = false → p.crashed = true

theorem Proc.Fin.init (i : Nat) : ({ idx := i } : Proc).Fin :=
  ⟨by simp, by simp, by simp, by simp, by simp⟩

theorem Proc.Sound.init (i : Nat) : ({ idx := i } : Proc).Sound := by simp [Proc.Sound]

theorem Proc.Fin.cleanup {p : Proc} (cfg : Cfg) (h : p.Fin) : (p.cleanup cfg).Fin := by
  obtain ⟨h1, h2, h3, h4, h5⟩ := h
  unfold Proc.cleanup Proc.cleanupX
  cases hs : p.started <;> cases ha : p.armed <;> simp_all
  all_goals (constructor <;> simp_all)

theorem Proc.Fin.kill {p : Proc} (cfg : Cfg) (h : p.Fin) (hs : p.started = true) : (p.kill cfg).Fin := by
  have hc := h.cleanup cfg
  obtain ⟨h1, h2, h3, h4, h5⟩ := hc
  have hst : (p.cleanup cfg).started = true := by unfold Proc.cleanup Proc.cleanupX; split <;> simp [hs]
  have har : (p.cleanup cfg).armed = false := by unfold Proc.cleanup Proc.cleanupX; split <;> simp_all
  exact ⟨h1, h2, h3, fun _ => ⟨hst, har⟩, h5⟩

theorem Proc.Fin.start {p : Proc} (h : p.Fin) (hc : p.crashed = false) : p.start.Fin := by
  obtain ⟨h1, h2, h3, h4, h5⟩ := h
  unfold Proc.start
  split
  · exact ⟨h1, h2, h3, h4, h5⟩
  · rename_i hs
    have hs' : p.started = false := by simpa using hs
    simp [hs'] at h1
    have ha : p.armed = false := by
      cases hx : p.armed <;> simp_all
    constructor <;> simp_all


theorem start_alive {p : Proc} (hf : p.Fin) (hs : p.Sound) (hc : p.crashed = false) :
    p.start.alive = true ∧ p.start.started = true ∧ p.start.crashed = false ∧
    p.start.idx = p.idx ∧ p.start.nreq = p.nreq ∧ p.start.queue = p.queue := by
  unfold Proc.start
  split
  · rename_i h
    refine ⟨?_, h, hc, rfl, rfl, rfl⟩
    cases ha : p.alive
    · have := hs h ha; simp_all
    · rfl
  · simp [hc]

theorem Proc.Sound.kill (cfg : Cfg) (p : Proc) : (p.kill cfg).Sound := by
  intro _ _; rfl

theorem kill_crashed (cfg : Cfg) (p : Proc) : (p.kill cfg).crashed = true := rfl
theorem kill_idx (cfg : Cfg) (p : Proc) : (p.kill cfg).idx = p.idx := by
  unfold Proc.kill Proc.cleanup Proc.cleanupX; split <;> rfl
theorem kill_queue (cfg : Cfg) (p : Proc) : (p.kill cfg).queue = p.queue := by
  unfold Proc.kill Proc.cleanup Proc.cleanupX; split <;> rfl
theorem kill_nreq (cfg : Cfg) (p : Proc) : (p.kill cfg).nreq = p.nreq := by
  unfold Proc.kill Proc.cleanup Proc.cleanupX; split <;> rfl

theorem Proc.Fin.writeFailed {p : Proc} (h : p.Fin) : p.writeFailed.Fin := by
  obtain ⟨h1, h2, h3, h4, h5⟩ := h
  exact ⟨h1, h2, h3, h4, h5⟩

/-! ### the close loop of `_cleanup_process` -/

/-- every class a `close()` raises is named (through its bases) in the except clause -/
def RaisesCaught (clause : List String) (raises : CloseRaises) : Prop :=
  ∀ s cls, raises s = some cls → caught cls clause = true

/-- try/except INSIDE the loop: whatever subset of the streams raises a caught class, every listed
stream is closed and nothing escapes -/
theorem closeEach_spec (clause : List String) (raises : CloseRaises) (h : RaisesCaught clause raises) :
    ∀ (streams fds : List Stream),
      closeEach clause raises streams fds = (fds.filter fun s => !streams.contains s, none) := by
  intro streams
  induction streams with
  | nil =>
    intro fds
    have : fds.filter (fun _ => true) = fds := List.filter_eq_self.mpr (by simp)
    simp [closeEach, this]
  | cons s rest ih =>
    intro fds
    have key : (fds.filter (· != s)).filter (fun x => !rest.contains x)
        = fds.filter fun x => !(s :: rest).contains x := by
      rw [List.filter_filter]
      congr 1
      funext x
      by_cases hx : x = s <;> simp [hx]
    unfold closeEach
    cases hr : raises s with
    | none => simp only []; rw [ih, key]
    | some cls => simp only [h s cls hr, if_true]; rw [ih, key]

/-- ONE try/except around the loop: the streams after the first one that raises stay open -/
theorem closeUntilRaise_noEscape (clause : List String) (raises : CloseRaises) (h : RaisesCaught clause raises) :
    ∀ (streams fds : List Stream), (closeUntilRaise clause raises streams fds).2 = none := by
  intro streams
  induction streams with
  | nil => intro fds; rfl
  | cons s rest ih =>
    intro fds
    unfold closeUntilRaise
    cases hr : raises s with
    | none => exact ih _
    | some cls => simp [h s cls hr]

theorem closeLoop_noEscape (cfg : Cfg) (raises : CloseRaises) (h : RaisesCaught cfg.closeCatch raises)
    (fds : List Stream) : (closeLoop cfg raises fds).2 = none := by
  unfold closeLoop
  split
  · rw [closeEach_spec _ _ h]
  · exact closeUntilRaise_noEscape _ _ h _ _

theorem caught_of_mem {cls c : String} {clause : List String} (h : c ∈ mro cls)
    (hc : clause.contains c = true) : caught cls clause = true := by
  unfold caught
  exact List.any_eq_true.mpr ⟨c, h, hc⟩

/-- the except clause of the close loop names (a base of) `BrokenPipeError` -/
def CloseContained (cfg : Cfg) : Prop := caught "BrokenPipeError" cfg.closeCatch = true

theorem closeRaises_caught (cfg : Cfg) (h : CloseContained cfg) (p : Proc) :
    RaisesCaught cfg.closeCatch p.closeRaises := by
  intro s cls hs
  unfold Proc.closeRaises at hs
  split at hs
  · cases hs; exact h
  · cases hs

theorem killOut_internal (cfg : Cfg) (h : CloseContained cfg) (p : Proc) :
    p.killOut cfg = .raised "InternalError" := by
  have esc : (p.cleanupX cfg).2 = none := by
    unfold Proc.cleanupX
    split
    · exact closeLoop_noEscape cfg _ (closeRaises_caught cfg h p) p.fds
    · rfl
  unfold Proc.killOut
  rw [esc]

theorem Proc.Fin.die {p : Proc} (h : p.Fin) : p.die.Fin := by
  obtain ⟨h1, h2, h3, h4, h5⟩ := h
  exact ⟨h1, h2, fun a b => ⟨(h3 a b).1, rfl⟩, h4, fun a => ⟨rfl, (h5 a).2⟩⟩

theorem Proc.Fin.received {p : Proc} (h : p.Fin) (r : Req) : (p.received r).Fin := by
  obtain ⟨h1, h2, h3, h4, h5⟩ := h
  exact ⟨h1, h2, h3, h4, h5⟩

theorem Proc.Fin.withChild {p : Proc} (h : p.Fin) (c : List Nat) : ({ p with child := c } : Proc).Fin := by
  obtain ⟨h1, h2, h3, h4, h5⟩ := h
  exact ⟨h1, h2, h3, h4, h5⟩

theorem Proc.Fin.serve {p : Proc} (h : p.Fin) (r : Req) : (serve p r).1.Fin := by
  obtain ⟨h1, h2, h3, h4, h5⟩ := h
  exact ⟨h1, h2, h3, h4, h5⟩

theorem serve_out_ne (p : Proc) (r : Req) : (serve p r).2 ≠ .raised "InternalError" := by
  unfold serve
  dsimp only
  split <;> simp

/-- what one `_send` does, for a helper whose death (if any) is noticed -/
structure SendSpec (cfg : Cfg) (plan : Plan) (p : Proc) (res : Proc × Out) : Prop where
  fin : res.1.Fin
  sound : res.1.Sound
  idx : res.1.idx = p.idx
  queue : res.1.queue = p.queue
  internal_iff : res.2 = .raised "InternalError" ↔ res.1.crashed = true
  crashed_noop : p.crashed = true → res.1 = p
  death_iff : p.crashed = false → (res.1.crashed = true ↔ (plan p.idx p.nreq).isDeath = true)
  nreq_mono : p.nreq ≤ res.1.nreq

/-- the helper served the request (with or without the function raising): nobody crashes -/
theorem served_spec (cfg : Cfg) (plan : Plan) (p : Proc) (r : Req) (o : Out)
    (hf : p.Fin) (hs : p.Sound) (hcr' : p.crashed = false)
    (ho : o ≠ .raised "InternalError") (hnd : (plan p.idx p.nreq).isDeath = false) :
    SendSpec cfg plan p ((serve p.start r).1, o) := by
  obtain ⟨ha, hst, hnc, hidx, hnr, hq⟩ := start_alive hf hs hcr'
  have hfs := hf.start hcr'
  refine ⟨hfs.serve r, ?_, hidx, hq, ?_, by simp [hcr'], ?_, ?_⟩
  · intro _ h; simp [serve, Proc.received, ha] at h
  · simp [serve, Proc.received, hnc, ho]
  · intro _; simp [serve, Proc.received, hnc, hnd]
  · simp [serve, Proc.received, hnr]

theorem loadFails_spec (cfg : Cfg) (p : Proc) (cls : String) (_hf : p.Fin) (_hst : p.started = true)
    (hc : caught cls cfg.loadCatch = true) (hcc : CloseContained cfg) :
    loadFails cfg p cls = (p.kill cfg, .raised "InternalError") := by
  simp [loadFails, hc, killOut_internal cfg hcc]

theorem send_spec (cfg : Cfg) (plan : Plan) (p : Proc) (r : Req)
    (hf : p.Fin) (hs : p.Sound) (hc : Contained cfg (plan p.idx p.nreq) = true)
    (hcc : CloseContained cfg) :
    SendSpec cfg plan p (send cfg plan p r) := by
  unfold send
  by_cases hcr : p.crashed = true
  · simp only [hcr, if_true]
    exact ⟨hf, hs, rfl, rfl, by simp [hcr], fun _ => rfl, by simp [hcr], Nat.le_refl _⟩
  · have hcr' : p.crashed = false := by simpa using hcr
    obtain ⟨ha, hst, hnc, hidx, hnr, hq⟩ := start_alive hf hs hcr'
    have hfs := hf.start hcr'
    simp only [hcr', Bool.false_eq_true, if_false, ha, if_true, hidx, hnr]
    generalize hfa : plan p.idx p.nreq = f at hc
    cases f with
    | none =>
      exact served_spec cfg plan p r _ hf hs hcr' (serve_out_ne _ _) (by simp [hfa, Fault.isDeath])
    | raises cls =>
      have hnd : (plan p.idx p.nreq).isDeath = false := by simp [hfa, Fault.isDeath]
      cases r with
      | delete d => exact served_spec cfg plan p _ _ hf hs hcr' (serve_out_ne _ _) hnd
      | info => exact served_spec cfg plan p _ _ hf hs hcr' (by simp) hnd
      | sysPath => exact served_spec cfg plan p _ _ hf hs hcr' (by simp) hnd
      | call c => exact served_spec cfg plan p _ _ hf hs hcr' (by simp) hnd
    | beforeSend =>
      simp only [Contained] at hc
      simp only [hc, if_true, killOut_internal cfg hcc]
      refine ⟨hfs.die.writeFailed.kill cfg hst, Proc.Sound.kill _ _,
        by simp [kill_idx, Proc.die, Proc.writeFailed, hidx],
        by simp [kill_queue, Proc.die, Proc.writeFailed, hq], by simp [kill_crashed], by simp [hcr'],
        by simp [kill_crashed, hfa, Fault.isDeath], by simp [kill_nreq, Proc.die, Proc.writeFailed, hnr]⟩
    | afterSend =>
      simp only [Contained] at hc
      rw [loadFails_spec cfg _ _ (hfs.received r).die hst hc hcc]
      refine ⟨((hfs.received r).die).kill cfg hst, Proc.Sound.kill _ _,
        by simp [kill_idx, Proc.die, Proc.received, hidx],
        by simp [kill_queue, Proc.die, Proc.received, hq], by simp [kill_crashed], by simp [hcr'],
        by simp [kill_crashed, hfa, Fault.isDeath], by simp [kill_nreq, Proc.die, Proc.received, hnr]⟩
    | raisesFatal =>
      simp only [Contained] at hc
      rw [loadFails_spec cfg _ _ (hfs.received r).die hst hc hcc]
      refine ⟨((hfs.received r).die).kill cfg hst, Proc.Sound.kill _ _,
        by simp [kill_idx, Proc.die, Proc.received, hidx],
        by simp [kill_queue, Proc.die, Proc.received, hq], by simp [kill_crashed], by simp [hcr'],
        by simp [kill_crashed, hfa, Fault.isDeath], by simp [kill_nreq, Proc.die, Proc.received, hnr]⟩
    | trunc cls =>
      simp only [Contained] at hc
      show SendSpec cfg plan p (loadFails cfg (p.start.received r).die cls)
      rw [loadFails_spec cfg _ _ (hfs.received r).die hst hc hcc]
      refine ⟨((hfs.received r).die).kill cfg hst, Proc.Sound.kill _ _,
        by simp [kill_idx, Proc.die, Proc.received, hidx],
        by simp [kill_queue, Proc.die, Proc.received, hq], by simp [kill_crashed], by simp [hcr'],
        by simp [kill_crashed, hfa, Fault.isDeath], by simp [kill_nreq, Proc.die, Proc.received, hnr]⟩


theorem Proc.Fin.withFds {p : Proc} (h : p.Fin) (f : List Stream) : ({ p with fds := f } : Proc).Fin := by
  obtain ⟨h1, h2, h3, h4, h5⟩ := h
  exact ⟨h1, h2, h3, h4, h5⟩

theorem Proc.Fin.withQueue {p : Proc} (h : p.Fin) (q : List Nat) : ({ p with queue := q } : Proc).Fin := by
  obtain ⟨h1, h2, h3, h4, h5⟩ := h
  exact ⟨h1, h2, h3, h4, h5⟩

theorem Proc.Sound.withQueue {p : Proc} (h : p.Sound) (q : List Nat) :
    ({ p with queue := q } : Proc).Sound := h

structure DrainSpec (p : Proc) (res : Proc × Out) : Prop where
  fin : res.1.Fin
  sound : res.1.Sound
  idx : res.1.idx = p.idx
  crashed_iff : res.1.crashed = true ↔ (res.2 = .raised "InternalError" ∨ p.crashed = true)
  crashed_out : p.crashed = true → res.2 = .ok ∨ res.2 = .raised "InternalError"
  ok_queue : res.2 = .ok → res.1.queue = []
  nreq_mono : p.nreq ≤ res.1.nreq

theorem drain_spec (cfg : Cfg) (plan : Plan) (hpc : PlanContained cfg plan) (hcc : CloseContained cfg) :
    ∀ (q : List Nat) (p : Proc), p.Fin → p.Sound → DrainSpec p (drain cfg plan p q) := by
  intro q
  induction q with
  | nil =>
    intro p hf hs
    exact ⟨hf.withQueue [], hs.withQueue [], rfl, by simp [drain], fun _ => Or.inl rfl,
      fun _ => rfl, Nat.le_refl _⟩
  | cons d rest ih =>
    intro p hf hs
    have sp := send_spec cfg plan { p with queue := rest } (.delete d) (hf.withQueue rest)
      (hs.withQueue rest) (hpc _ _) hcc
    unfold drain
    rcases hres : send cfg plan { p with queue := rest } (.delete d) with ⟨p', o⟩
    rw [hres] at sp
    obtain ⟨f1, s1, i1, q1, ii, cn, di, nm⟩ := sp
    dsimp only at f1 s1 i1 q1 ii cn di nm
    cases o with
    | ok =>
      simp only []
      have := ih p' f1 s1
      obtain ⟨f2, s2, i2, c2, co2, oq2, nm2⟩ := this
      have hpc' : p'.crashed = false := by
        cases h : p'.crashed
        · rfl
        · have := ii.mpr h; simp at this
      refine ⟨f2, s2, by rw [i2, i1], ?_, ?_, oq2, Nat.le_trans nm nm2⟩
      · rw [c2]
        constructor
        · rintro (h | h)
          · exact Or.inl h
          · simp [hpc'] at h
        · rintro (h | h)
          · exact Or.inl h
          · have := cn h; rw [this] at hpc'; simp [h] at hpc'
      · intro h
        have := cn h; rw [this] at hpc'; simp [h] at hpc'
    | raised c =>
      simp only []
      refine ⟨f1, s1, i1, ?_, ?_, by simp, nm⟩
      · constructor
        · intro h
          exact Or.inl (ii.mpr h)
        · rintro (h | h)
          · exact ii.mp h
          · have := cn h; rw [this]; exact h
      · intro h
        have h2 := cn h
        have h3 : p'.crashed = true := by rw [h2]; exact h
        exact Or.inr (ii.mpr h3)
    | remote c =>
      simp only []
      refine ⟨f1, s1, i1, ?_, ?_, by simp, nm⟩
      · constructor
        · intro h
          exact Or.inl (ii.mpr h)
        · rintro (h | h)
          · exact ii.mp h
          · have := cn h; rw [this]; exact h
      · intro h
        have h2 := cn h
        have h3 : p'.crashed = true := by rw [h2]; exact h
        exact Or.inr (ii.mpr h3)

/-- what `CompiledSubprocess.run` does -/
structure RunSpec (p : Proc) (res : Proc × Out) : Prop where
  fin : res.1.Fin
  sound : res.1.Sound
  idx : res.1.idx = p.idx
  internal_iff : res.2 = .raised "InternalError" ↔ res.1.crashed = true
  crashed_stays : p.crashed = true → res.1.crashed = true
  ok_queue : res.2 = .ok → res.1.queue = []

theorem run_spec (cfg : Cfg) (plan : Plan) (hpc : PlanContained cfg plan) (hcc : CloseContained cfg)
    (p : Proc) (s : Nat)
    (hf : p.Fin) (hs : p.Sound) : RunSpec p (run cfg plan p s) := by
  unfold run
  have d := drain_spec cfg plan hpc hcc p.queue p hf hs
  rcases hres : drain cfg plan p p.queue with ⟨p', o⟩
  rw [hres] at d
  obtain ⟨f1, s1, i1, ci, co, oq, nm⟩ := d
  dsimp only at f1 s1 i1 ci co oq nm
  cases o with
  | ok =>
    simp only []
    have sp := send_spec cfg plan p' (.call s) f1 s1 (hpc _ _) hcc
    obtain ⟨f2, s2, i2, q2, ii, cn, di, nm2⟩ := sp
    refine ⟨f2, s2, by rw [i2, i1], ii, ?_, fun _ => by rw [q2]; exact oq rfl⟩
    intro h
    have h1 : p'.crashed = true := ci.mpr (Or.inr h)
    rw [cn h1]; exact h1
  | raised c =>
    simp only []
    refine ⟨f1, s1, i1, ?_, fun h => ci.mpr (Or.inr h), by simp⟩
    constructor
    · intro h; exact ci.mpr (Or.inl h)
    · intro h
      rcases ci.mp h with h | h
      · exact h
      · rcases co h with h2 | h2
        · simp at h2
        · exact h2
  | remote c =>
    simp only []
    refine ⟨f1, s1, i1, ?_, fun h => ci.mpr (Or.inr h), by simp⟩
    constructor
    · intro h; exact ci.mpr (Or.inl h)
    · intro h
      rcases ci.mp h with h | h
      · exact h
      · rcases co h with h2 | h2
        · simp at h2
        · exact h2


/-! ### bookkeeping that holds for every plan (also when an exception escapes `_send`) -/

theorem send_fin (cfg : Cfg) (plan : Plan) (p : Proc) (r : Req) (hf : p.Fin) :
    (send cfg plan p r).1.Fin := by
  unfold send
  by_cases hcr : p.crashed = true
  · simp only [hcr, if_true]; exact hf
  · have hcr' : p.crashed = false := by simpa using hcr
    have hfs := hf.start hcr'
    have hst : p.start.started = true := by unfold Proc.start; split <;> simp_all
    simp only [hcr', Bool.false_eq_true, if_false]
    generalize (if p.start.alive = true then plan p.start.idx p.start.nreq else Fault.beforeSend) = f
    cases f with
    | beforeSend =>
      simp only []
      split
      · exact hfs.die.writeFailed.kill cfg hst
      · exact hfs.die.writeFailed
    | afterSend =>
      simp only []; unfold loadFails; split
      · exact ((hfs.received r).die).kill cfg hst
      · exact (hfs.received r).die
    | raisesFatal =>
      simp only []; unfold loadFails; split
      · exact ((hfs.received r).die).kill cfg hst
      · exact (hfs.received r).die
    | trunc cls =>
      simp only []; unfold loadFails; split
      · exact ((hfs.received r).die).kill cfg hst
      · exact (hfs.received r).die
    | raises cls => cases r <;> exact hfs.serve _
    | none => exact hfs.serve _

theorem drain_fin (cfg : Cfg) (plan : Plan) :
    ∀ (q : List Nat) (p : Proc), p.Fin → (drain cfg plan p q).1.Fin := by
  intro q
  induction q with
  | nil => intro p hf; exact hf.withQueue []
  | cons d rest ih =>
    intro p hf
    have := send_fin cfg plan { p with queue := rest } (.delete d) (hf.withQueue rest)
    unfold drain
    rcases hres : send cfg plan { p with queue := rest } (.delete d) with ⟨p', o⟩
    rw [hres] at this
    cases o with
    | ok => exact ih p' this
    | raised c => exact this
    | remote c => exact this

theorem run_fin (cfg : Cfg) (plan : Plan) (p : Proc) (s : Nat) (hf : p.Fin) :
    (run cfg plan p s).1.Fin := by
  unfold run
  have := drain_fin cfg plan p.queue p hf
  rcases hres : drain cfg plan p p.queue with ⟨p', o⟩
  rw [hres] at this
  cases o with
  | ok => exact send_fin cfg plan p' _ this
  | raised c => exact this
  | remote c => exact this

/-- a crashed helper is never written to again -/
theorem send_crashed (cfg : Cfg) (plan : Plan) (p : Proc) (r : Req) (h : p.crashed = true) :
    send cfg plan p r = (p, .raised "InternalError") := by
  simp [send, h]


/-! ### the environment level -/

def Env.AllFin (e : Env) : Prop := ∀ p ∈ e.procs, p.Fin

theorem getProc_mem {e : Env} {i : Nat} {p : Proc} (h : e.getProc i = some p) : p ∈ e.procs :=
  List.mem_of_find?_eq_some h

theorem mem_setProc {e : Env} {p x : Proc} (h : x ∈ (e.setProc p).procs) : x = p ∨ x ∈ e.procs := by
  simp only [Env.setProc, List.mem_map] at h
  obtain ⟨q, hq, rfl⟩ := h
  split
  · exact Or.inl rfl
  · exact Or.inr hq

theorem setProc_allFin {e : Env} {p : Proc} (he : e.AllFin) (hp : p.Fin) : (e.setProc p).AllFin := by
  intro x hx
  rcases mem_setProc hx with rfl | h
  · exact hp
  · exact he x h

theorem getSub_allFin (cfg : Cfg) (plan : Plan) (e : Env) (he : e.AllFin) :
    (getSub cfg plan e).1.AllFin ∧ (getSub cfg plan e).1.iss = e.iss := by
  have fresh : (getSub.fresh cfg plan e).1.AllFin ∧ (getSub.fresh cfg plan e).1.iss = e.iss := by
    unfold getSub.fresh
    have := send_fin cfg plan { idx := e.procs.length } .info (Proc.Fin.init _)
    rcases hres : send cfg plan { idx := e.procs.length } .info with ⟨np, o⟩
    rw [hres] at this
    have key : ({ e with procs := np :: e.procs } : Env).AllFin := by
      intro x hx
      simp only [List.mem_cons] at hx
      rcases hx with rfl | hx
      · exact this
      · exact he x hx
    cases o with
    | ok => exact ⟨key, rfl⟩
    | raised c => simp only []; split <;> exact ⟨key, rfl⟩
    | remote c => simp only []; split <;> exact ⟨key, rfl⟩
  unfold getSub
  split
  · split
    · exact fresh
    · exact ⟨he, rfl⟩
  · exact fresh

theorem markUsed_allFin {e : Env} (he : e.AllFin) (s : Nat) : (e.markUsed s).AllFin := he

theorem callRun_allFin (cfg : Cfg) (plan : Plan) (e : Env) (k s : Nat) (he : e.AllFin) :
    (callRun cfg plan e k s).1.AllFin := by
  unfold callRun
  split
  · exact he
  · rename_i p hp
    exact setProc_allFin he (run_fin cfg plan p s (he p (getProc_mem hp)))

theorem step_allFin (cfg : Cfg) (plan : Plan) (e : Env) (op : Op) (he : e.AllFin) :
    (step cfg plan e op).1.AllFin := by
  cases op with
  | newState s =>
    unfold step
    have := (getSub_allFin cfg plan e he).1
    rcases hres : getSub cfg plan e with ⟨e', o⟩
    rw [hres] at this
    cases o with
    | ok =>
      simp only []
      split
      · exact this
      · exact this
    | raised c => exact this
    | remote c => exact this
  | sysPath =>
    unfold step
    have := (getSub_allFin cfg plan e he).1
    rcases hres : getSub cfg plan e with ⟨e', o⟩
    rw [hres] at this
    cases o with
    | ok =>
      simp only []
      split
      · rename_i p rest hp
        intro x hx
        simp only [List.mem_cons] at hx
        have hpf : p.Fin := this p (by rw [hp]; exact List.mem_cons_self)
        rcases hx with rfl | hx
        · exact send_fin cfg plan p .sysPath hpf
        · exact this x (by rw [hp]; exact List.mem_cons_of_mem _ hx)
      · exact this
    | raised c => exact this
    | remote c => exact this
  | call s =>
    simp only [step]
    split
    · exact he
    · split
      · exact callRun_allFin cfg plan _ _ s (markUsed_allFin he s)
      · dsimp only
        split
        · exact markUsed_allFin (callRun_allFin cfg plan e _ s he) s
        · exact callRun_allFin cfg plan e _ s he
  | drop s =>
    simp only [step]
    split
    · exact he
    · split
      · exact he
      · rename_i p hp
        have hpm : p ∈ e.procs := getProc_mem hp
        split
        · exact setProc_allFin (e := { e with iss := _ }) he ((he p hpm).withQueue _)
        · exact he
  | dropEnv =>
    intro x hx
    simp only [step, List.mem_map] at hx
    obtain ⟨q, hq, rfl⟩ := hx
    exact ((he q hq).cleanup cfg).withFds []

theorem exec_allFin (cfg : Cfg) (plan : Plan) :
    ∀ (ops : List Op) (e : Env), e.AllFin → (exec cfg plan e ops).1.AllFin := by
  intro ops
  induction ops with
  | nil => intro e he; exact he
  | cons op ops ih =>
    intro e he
    simp only [exec]
    exact ih _ (step_allFin cfg plan e op he)

/-! ### no leaked pipes: the descriptor bookkeeping, for every plan and trace -/

/-- the close loop of `_cleanup_process` as the (unchanged) source has it: one try/except per
stream, all three pipe objects listed, the clause names a base of `BrokenPipeError` -/
structure GoodClose (cfg : Cfg) : Prop where
  perStream : cfg.closePerStream = true
  allListed : ∀ s : Stream, cfg.closeStreams.contains s = true
  catches : CloseContained cfg

theorem closeLoop_good (cfg : Cfg) (hg : GoodClose cfg) (raises : CloseRaises)
    (h : RaisesCaught cfg.closeCatch raises) (fds : List Stream) :
    closeLoop cfg raises fds = ([], none) := by
  unfold closeLoop
  rw [if_pos hg.perStream, closeEach_spec _ _ h]
  congr 1
  apply List.filter_eq_nil_iff.mpr
  intro s _
  have := hg.allListed s
  simp only [List.contains_iff_mem] at this
  simp [this]

/-- once the finalizer of a helper has run (and before the helper is started) the parent holds no
descriptor of a pipe to it -/
def Proc.NoLeak (p : Proc) : Prop := p.armed = false → p.fds = []

theorem Proc.NoLeak.init (i : Nat) : ({ idx := i } : Proc).NoLeak := fun _ => rfl

theorem cleanup_fds (cfg : Cfg) (hg : GoodClose cfg) (p : Proc) (ha : p.armed = true) :
    (p.cleanup cfg).fds = [] := by
  unfold Proc.cleanup Proc.cleanupX
  rw [if_pos ha]
  simp only [closeLoop_good cfg hg _ (closeRaises_caught cfg hg.catches p)]

theorem Proc.NoLeak.cleanup {p : Proc} (cfg : Cfg) (hg : GoodClose cfg) (h : p.NoLeak) :
    (p.cleanup cfg).NoLeak := by
  intro _
  cases ha : p.armed
  · have : p.cleanup cfg = p := by unfold Proc.cleanup Proc.cleanupX; simp [ha]
    rw [this]; exact h ha
  · exact cleanup_fds cfg hg p ha

theorem Proc.NoLeak.kill {p : Proc} (cfg : Cfg) (hg : GoodClose cfg) (h : p.NoLeak) :
    (p.kill cfg).NoLeak := h.cleanup cfg hg

theorem Proc.NoLeak.start {p : Proc} (h : p.NoLeak) : p.start.NoLeak := by
  unfold Proc.start
  split
  · exact h
  · intro ha; simp at ha

theorem Proc.NoLeak.die {p : Proc} (h : p.NoLeak) : p.die.NoLeak := h
theorem Proc.NoLeak.writeFailed {p : Proc} (h : p.NoLeak) : p.writeFailed.NoLeak := h
theorem Proc.NoLeak.received {p : Proc} (h : p.NoLeak) (r : Req) : (p.received r).NoLeak := h
theorem Proc.NoLeak.withChild {p : Proc} (h : p.NoLeak) (c : List Nat) :
    ({ p with child := c } : Proc).NoLeak := h
theorem Proc.NoLeak.withQueue {p : Proc} (h : p.NoLeak) (q : List Nat) :
    ({ p with queue := q } : Proc).NoLeak := h

theorem Proc.NoLeak.serve {p : Proc} (h : p.NoLeak) (r : Req) : (serve p r).1.NoLeak := h

theorem send_noLeak (cfg : Cfg) (hg : GoodClose cfg) (plan : Plan) (p : Proc) (r : Req) (hn : p.NoLeak) :
    (send cfg plan p r).1.NoLeak := by
  unfold send
  by_cases hcr : p.crashed = true
  · simp only [hcr, if_true]; exact hn
  · have hcr' : p.crashed = false := by simpa using hcr
    have hns := hn.start
    simp only [hcr', Bool.false_eq_true, if_false]
    generalize (if p.start.alive = true then plan p.start.idx p.start.nreq else Fault.beforeSend) = f
    cases f with
    | beforeSend =>
      simp only []
      split
      · exact hns.die.writeFailed.kill cfg hg
      · exact hns.die.writeFailed
    | afterSend =>
      simp only []; unfold loadFails; split
      · exact ((hns.received r).die).kill cfg hg
      · exact (hns.received r).die
    | raisesFatal =>
      simp only []; unfold loadFails; split
      · exact ((hns.received r).die).kill cfg hg
      · exact (hns.received r).die
    | trunc cls =>
      simp only []; unfold loadFails; split
      · exact ((hns.received r).die).kill cfg hg
      · exact (hns.received r).die
    | raises cls => cases r <;> exact hns.serve _
    | none => exact hns.serve _

theorem drain_noLeak (cfg : Cfg) (hg : GoodClose cfg) (plan : Plan) :
    ∀ (q : List Nat) (p : Proc), p.NoLeak → (drain cfg plan p q).1.NoLeak := by
  intro q
  induction q with
  | nil => intro p hn; exact hn.withQueue []
  | cons d rest ih =>
    intro p hn
    have := send_noLeak cfg hg plan { p with queue := rest } (.delete d) (hn.withQueue rest)
    unfold drain
    rcases hres : send cfg plan { p with queue := rest } (.delete d) with ⟨p', o⟩
    rw [hres] at this
    cases o with
    | ok => exact ih p' this
    | raised c => exact this
    | remote c => exact this

theorem run_noLeak (cfg : Cfg) (hg : GoodClose cfg) (plan : Plan) (p : Proc) (s : Nat) (hn : p.NoLeak) :
    (run cfg plan p s).1.NoLeak := by
  unfold run
  have := drain_noLeak cfg hg plan p.queue p hn
  rcases hres : drain cfg plan p p.queue with ⟨p', o⟩
  rw [hres] at this
  cases o with
  | ok => exact send_noLeak cfg hg plan p' _ this
  | raised c => exact this
  | remote c => exact this

def Env.AllNoLeak (e : Env) : Prop := ∀ p ∈ e.procs, p.NoLeak

theorem setProc_allNoLeak {e : Env} {p : Proc} (he : e.AllNoLeak) (hp : p.NoLeak) :
    (e.setProc p).AllNoLeak := by
  intro x hx
  rcases mem_setProc hx with rfl | h
  · exact hp
  · exact he x h

theorem getSub_allNoLeak (cfg : Cfg) (hg : GoodClose cfg) (plan : Plan) (e : Env) (he : e.AllNoLeak) :
    (getSub cfg plan e).1.AllNoLeak := by
  have fresh : (getSub.fresh cfg plan e).1.AllNoLeak := by
    unfold getSub.fresh
    have := send_noLeak cfg hg plan { idx := e.procs.length } .info (Proc.NoLeak.init _)
    rcases hres : send cfg plan { idx := e.procs.length } .info with ⟨np, o⟩
    rw [hres] at this
    have key : ({ e with procs := np :: e.procs } : Env).AllNoLeak := by
      intro x hx
      simp only [List.mem_cons] at hx
      rcases hx with rfl | hx
      · exact this
      · exact he x hx
    cases o with
    | ok => exact key
    | raised c => simp only []; split <;> exact key
    | remote c => simp only []; split <;> exact key
  unfold getSub
  split
  · split
    · exact fresh
    · exact he
  · exact fresh

theorem markUsed_allNoLeak {e : Env} (he : e.AllNoLeak) (s : Nat) : (e.markUsed s).AllNoLeak := he

theorem callRun_allNoLeak (cfg : Cfg) (hg : GoodClose cfg) (plan : Plan) (e : Env) (k s : Nat)
    (he : e.AllNoLeak) : (callRun cfg plan e k s).1.AllNoLeak := by
  unfold callRun
  split
  · exact he
  · rename_i p hp
    exact setProc_allNoLeak he (run_noLeak cfg hg plan p s (he p (getProc_mem hp)))

theorem step_allNoLeak (cfg : Cfg) (hg : GoodClose cfg) (plan : Plan) (e : Env) (op : Op)
    (he : e.AllNoLeak) : (step cfg plan e op).1.AllNoLeak := by
  cases op with
  | newState s =>
    unfold step
    have := getSub_allNoLeak cfg hg plan e he
    rcases hres : getSub cfg plan e with ⟨e', o⟩
    rw [hres] at this
    cases o with
    | ok =>
      simp only []
      split
      · exact this
      · exact this
    | raised c => exact this
    | remote c => exact this
  | sysPath =>
    unfold step
    have := getSub_allNoLeak cfg hg plan e he
    rcases hres : getSub cfg plan e with ⟨e', o⟩
    rw [hres] at this
    cases o with
    | ok =>
      simp only []
      split
      · rename_i p rest hp
        intro x hx
        simp only [List.mem_cons] at hx
        have hpf : p.NoLeak := this p (by rw [hp]; exact List.mem_cons_self)
        rcases hx with rfl | hx
        · exact send_noLeak cfg hg plan p .sysPath hpf
        · exact this x (by rw [hp]; exact List.mem_cons_of_mem _ hx)
      · exact this
    | raised c => exact this
    | remote c => exact this
  | call s =>
    simp only [step]
    split
    · exact he
    · split
      · exact callRun_allNoLeak cfg hg plan _ _ s (markUsed_allNoLeak he s)
      · dsimp only
        split
        · exact markUsed_allNoLeak (callRun_allNoLeak cfg hg plan e _ s he) s
        · exact callRun_allNoLeak cfg hg plan e _ s he
  | drop s =>
    simp only [step]
    split
    · exact he
    · split
      · exact he
      · rename_i p hp
        have hpm : p ∈ e.procs := getProc_mem hp
        split
        · exact setProc_allNoLeak (e := { e with iss := _ }) he ((he p hpm).withQueue _)
        · exact he
  | dropEnv =>
    intro x hx
    simp only [step, List.mem_map] at hx
    obtain ⟨q, _, rfl⟩ := hx
    intro _; rfl

theorem exec_allNoLeak (cfg : Cfg) (hg : GoodClose cfg) (plan : Plan) :
    ∀ (ops : List Op) (e : Env), e.AllNoLeak → (exec cfg plan e ops).1.AllNoLeak := by
  intro ops
  induction ops with
  | nil => intro e he; exact he
  | cons op ops ih =>
    intro e he
    simp only [exec]
    exact ih _ (step_allNoLeak cfg hg plan e op he)

end JediModel.Helper

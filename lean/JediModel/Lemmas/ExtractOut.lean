import JediModel.Model.ExtractOut
/-! helper lemmas about the walk `_find_non_global_names` and the fold of `_find_needed_output_variables`
(core Lean only) -/
namespace JediModel.ExtractOut

/-- the names the walk yields for the statements behind the selection, in order -/
def laterNames (w : Walk) (sibs : List Sibling) : List (String × Bool) :=
  (sibs.filter (fun s => !s.before)).flatMap (fun s => names w s.tree)

/-- the reads among yielded names -/
def readsOf (l : List (String × Bool)) : List String := (l.filter (fun o => !o.2)).map (·.1)

theorem readsOf_append (a b : List (String × Bool)) : readsOf (a ++ b) = readsOf a ++ readsOf b := by
  simp [readsOf]

theorem mem_readsOf (l : List (String × Bool)) (v : String) : v ∈ readsOf l ↔ (v, false) ∈ l := by
  unfold readsOf
  constructor
  · intro h
    obtain ⟨o, ho, hv⟩ := List.mem_map.mp h
    obtain ⟨hm, hd⟩ := List.mem_filter.mp ho
    obtain ⟨a, b⟩ := o
    simp at hd hv
    subst hd; subst hv
    exact hm
  · intro h
    exact List.mem_map.mpr ⟨(v, false), List.mem_filter.mpr ⟨h, by simp⟩, rfl⟩

/-- the walk of the source yields exactly the reads of the specification -/
theorem readsOf_names_full (t : Forest) : readsOf (names fullWalk t) = reads t := by
  induction t with
  | done => rfl
  | name v d rest ih =>
    cases d
    · simp [names, reads, readsOf] at ih ⊢
      exact ih
    · simp [names, reads, readsOf] at ih ⊢
      exact ih
  | leaf rest ih => simpa [names, reads] using ih
  | attr c rest _ ih => simpa [names, reads, fullWalk] using ih
  | scope h b rest ih1 ih2 ih3 =>
    simp only [names, reads, fullWalk, Bool.false_eq_true, ↓reduceIte, readsOf_append] at *
    rw [ih1, ih2, ih3]
  | node c rest ih1 ih2 =>
    simp only [names, reads, readsOf_append] at *
    rw [ih1, ih2]

theorem readsOf_laterNames_full (sibs : List Sibling) : readsOf (laterNames fullWalk sibs) = readsLater sibs := by
  unfold laterNames readsLater
  induction sibs.filter (fun s => !s.before) with
  | nil => rfl
  | cons s l ih =>
    simp only [List.flatMap_cons, readsOf_append, ih, readsOf_names_full]

theorem fold_siblings (w : Walk) (sibs : List Sibling) (st : St) :
    sibs.foldl (stepSibling w) st = (laterNames w sibs).foldl stepName st := by
  induction sibs generalizing st with
  | nil => rfl
  | cons s l ih =>
    simp only [List.foldl_cons]
    rw [ih]
    unfold laterNames stepSibling
    cases hb : s.before
    · simp [hb, List.foldl_append]
    · simp [hb]

/-! ### one step -/

theorem step_yielded_mono (st : St) (o : String × Bool) (v : String) (h : v ∈ st.yielded) :
    v ∈ (stepName st o).yielded := by
  unfold stepName; split
  · exact List.mem_append_left _ h
  · exact h

theorem step_hit (st : St) (o : String × Bool) (hd : o.2 = false) (hm : o.1 ∈ st.remaining) :
    o.1 ∈ (stepName st o).yielded := by
  unfold stepName
  have : (!o.2 && st.remaining.contains o.1) = true := by simp [hd, hm]
  rw [if_pos this]
  simp

theorem step_keeps (st : St) (o : String × Bool) (v : String) (hm : v ∈ st.remaining)
    (hne : v ≠ o.1 ∨ o.2 = true) : v ∈ (stepName st o).remaining := by
  unfold stepName; split
  · rename_i hc
    rcases hne with hne | hne
    · exact List.mem_filter.mpr ⟨hm, by simpa using hne⟩
    · simp [hne] at hc
  · exact hm

theorem step_rem_sub (st : St) (o : String × Bool) (v : String) (h : v ∈ (stepName st o).remaining) :
    v ∈ st.remaining := by
  unfold stepName at h; split at h
  · exact (List.mem_filter.mp h).1
  · exact h

theorem step_origin (st : St) (o : String × Bool) (v : String) (h : v ∈ (stepName st o).yielded) :
    v ∈ st.yielded ∨ (v = o.1 ∧ o.2 = false ∧ v ∈ st.remaining) := by
  unfold stepName at h; split at h
  · rename_i hc
    rcases List.mem_append.mp h with h | h
    · exact Or.inl h
    · have hv : v = o.1 := by simpa using h
      simp at hc
      exact Or.inr ⟨hv, hc.1, by rw [hv]; exact hc.2⟩
  · exact Or.inl h

/-- invariant: nothing is yielded twice, and what was yielded is no longer in the set -/
def Inv (st : St) : Prop := st.yielded.Nodup ∧ ∀ v ∈ st.yielded, v ∉ st.remaining

theorem step_inv (st : St) (o : String × Bool) (h : Inv st) : Inv (stepName st o) := by
  unfold stepName; split
  · rename_i hc
    simp at hc
    obtain ⟨hn, hdis⟩ := h
    have hny : o.1 ∉ st.yielded := fun hy => hdis _ hy hc.2
    refine ⟨List.nodup_append.mpr ⟨hn, by simp, ?_⟩, ?_⟩
    · intro a ha b hb hab
      simp at hb; subst hb; subst hab; exact hny ha
    · intro v hv hr
      obtain ⟨hr1, hr2⟩ := List.mem_filter.mp hr
      rcases List.mem_append.mp hv with hv | hv
      · exact hdis v hv hr1
      · simp at hv hr2; exact hr2 hv
  · exact h

/-! ### the fold -/

theorem fold_yielded_mono (l : List (String × Bool)) (st : St) (v : String) (h : v ∈ st.yielded) :
    v ∈ (l.foldl stepName st).yielded := by
  induction l generalizing st with
  | nil => exact h
  | cons o l ih => exact ih _ (step_yielded_mono st o v h)

theorem fold_complete (l : List (String × Bool)) (st : St) (v : String) (hr : v ∈ st.remaining)
    (hm : (v, false) ∈ l) : v ∈ (l.foldl stepName st).yielded := by
  induction l generalizing st with
  | nil => cases hm
  | cons o l ih =>
    simp only [List.foldl_cons]
    by_cases ho : o = (v, false)
    · subst ho
      exact fold_yielded_mono l _ v (step_hit st (v, false) rfl hr)
    · have hm' : (v, false) ∈ l := by
        rcases List.mem_cons.mp hm with h | h
        · exact absurd h.symm ho
        · exact h
      refine ih _ (step_keeps st o v hr ?_) hm'
      obtain ⟨a, b⟩ := o
      by_cases hab : v = a
      · subst hab
        cases b
        · exact absurd rfl ho
        · exact Or.inr rfl
      · exact Or.inl hab

theorem fold_origin (l : List (String × Bool)) (st : St) (v : String) (h : v ∈ (l.foldl stepName st).yielded) :
    v ∈ st.yielded ∨ (v ∈ st.remaining ∧ (v, false) ∈ l) := by
  induction l generalizing st with
  | nil => exact Or.inl h
  | cons o l ih =>
    simp only [List.foldl_cons] at h
    rcases ih _ h with h1 | ⟨h1, h2⟩
    · rcases step_origin st o v h1 with h3 | ⟨h3, h4, h5⟩
      · exact Or.inl h3
      · refine Or.inr ⟨h5, ?_⟩
        obtain ⟨a, b⟩ := o
        simp at h3 h4
        subst h3; subst h4
        exact List.mem_cons_self
    · exact Or.inr ⟨step_rem_sub st o v h1, List.mem_cons_of_mem _ h2⟩

theorem fold_inv (l : List (String × Bool)) (st : St) (h : Inv st) : Inv (l.foldl stepName st) := by
  induction l generalizing st with
  | nil => exact h
  | cons o l ih => exact ih _ (step_inv st o h)

theorem needed_eq (w : Walk) (sibs : List Sibling) (rv : List String) :
    needed w sibs rv = ((laterNames w sibs).foldl stepName ⟨rv, []⟩).yielded := by
  unfold needed; rw [fold_siblings]

end JediModel.ExtractOut

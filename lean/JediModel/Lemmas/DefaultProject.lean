import JediModel.Model.DefaultProject
/-! helper lemmas for `Model/DefaultProject` -/
namespace JediModel.DefaultProject

theorem stepDir_ret (st : St) (d : Dir) (c : Choice) (h : (stepDir st d).1 = some c) :
    c.dir? = some d.id := by
  unfold stepDir at h
  grind [Choice.dir?]

theorem stepDir_probable (st : St) (d : Dir) (q : Nat) (h : (stepDir st d).2.probable = some q) :
    st.probable = some q ∨ q = d.id := by
  unfold stepDir at h
  grind

theorem stepDir_noInit (st : St) (d : Dir) (q : Nat) (h : (stepDir st d).2.noInit = some q) :
    st.noInit = some q ∨ q = d.id := by
  unfold stepDir at h
  grind

theorem walk_in (st : St) (seen chain : List Dir)
    (hp : ∀ d, st.probable = some d → ∃ x ∈ seen, x.id = d)
    (hn : ∀ d, st.noInit = some d → ∃ x ∈ seen, x.id = d) (d : Nat)
    (h : (walk st chain).dir? = some d) : ∃ x ∈ seen ++ chain, x.id = d := by
  induction chain generalizing st seen with
  | nil =>
    simp only [walk] at h
    cases hpr : st.probable with
    | some q => rw [hpr] at h; simp only [Choice.dir?, Option.some.injEq] at h; subst h; simpa using hp q hpr
    | none =>
      rw [hpr] at h
      cases hni : st.noInit with
      | some q => rw [hni] at h; simp only [Choice.dir?, Option.some.injEq] at h; subst h; simpa using hn q hni
      | none => rw [hni] at h; cases h
  | cons c cs ih =>
    simp only [walk] at h
    rcases hs : stepDir st c with ⟨r, st'⟩
    rw [hs] at h
    cases r with
    | some ch =>
      simp only at h
      have := stepDir_ret st c ch (by rw [hs])
      rw [this] at h
      simp only [Option.some.injEq] at h
      subst h
      exact ⟨c, by simp, rfl⟩
    | none =>
      simp only at h
      have lift : ∀ q, (∃ x ∈ seen, x.id = q) ∨ q = c.id → ∃ x ∈ seen ++ [c], x.id = q := by
        rintro q (⟨x, hx, rfl⟩ | rfl)
        · exact ⟨x, by simp [hx], rfl⟩
        · exact ⟨c, by simp, rfl⟩
      obtain ⟨x, hx, rfl⟩ := ih st' (seen ++ [c])
        (fun q hq => lift q ((stepDir_probable st c q (by rw [hs]; exact hq)).imp (hp q) id))
        (fun q hq => lift q ((stepDir_noInit st c q (by rw [hs]; exact hq)).imp (hn q) id)) h
      exact ⟨x, by simpa using hx, rfl⟩

end JediModel.DefaultProject

import JediModel.Model.DefRange
import JediModel.Lemmas.Text
/-! order facts about the leaf layout -/
namespace JediModel.DefRange
open JediModel.Text JediModel.Tree

theorem Pos.le_refl (p : Pos) : p ≤ p := Or.inr ⟨rfl, Nat.le_refl _⟩

theorem Pos.le_trans {a b c : Pos} (h₁ : a ≤ b) (h₂ : b ≤ c) : a ≤ c := by
  rcases h₁ with h₁ | ⟨e₁, h₁⟩ <;> rcases h₂ with h₂ | ⟨e₂, h₂⟩
  · exact Or.inl (Nat.lt_trans h₁ h₂)
  · exact Or.inl (e₂ ▸ h₁)
  · exact Or.inl (e₁ ▸ h₂)
  · exact Or.inr ⟨e₁.trans e₂, Nat.le_trans h₁ h₂⟩

/-- reading text never moves the cursor backwards -/
theorem le_advance (p : Pos) (s : Str) : p ≤ advance p s := by
  rw [advance_eq]
  split
  · exact Or.inr ⟨rfl, Nat.le_add_right _ _⟩
  · next h =>
    have := splitLines_length_pos s
    exact Or.inl (by simp only; omega)

theorem spans_start_le_stop (p : Pos) (ls : List LeafInfo) : ∀ sp ∈ spans p ls, sp.start ≤ sp.stop := by
  induction ls generalizing p with
  | nil => intro sp h; cases h
  | cons l ls ih =>
    intro sp h
    simp only [spans, List.mem_cons] at h
    rcases h with rfl | h
    · exact le_advance _ _
    · exact ih _ sp h

/-- every leaf of a layout starts at or behind the point the layout starts from -/
theorem spans_ge (p : Pos) (ls : List LeafInfo) : ∀ sp ∈ spans p ls, p ≤ sp.start := by
  induction ls generalizing p with
  | nil => intro sp h; cases h
  | cons l ls ih =>
    intro sp h
    simp only [spans, List.mem_cons] at h
    rcases h with rfl | h
    · exact le_advance _ _
    · exact Pos.le_trans (Pos.le_trans (le_advance _ _) (le_advance _ _)) (ih _ sp h)

/-- in a layout, a leaf that comes later starts at or behind the end of an earlier one -/
theorem spans_ordered (p : Pos) (ls : List LeafInfo) :
    (spans p ls).Pairwise fun a b => a.stop ≤ b.start := by
  induction ls generalizing p with
  | nil => exact List.Pairwise.nil
  | cons l ls ih =>
    simp only [spans]
    exact List.Pairwise.cons (fun b hb => spans_ge _ ls b hb) (ih _)

theorem spans_append (p : Pos) (a b : List LeafInfo) :
    spans p (a ++ b) = spans p a ++ spans (endOf p a) b := by
  induction a generalizing p with
  | nil => rfl
  | cons l ls ih => simp [spans, endOf, ih]

end JediModel.DefRange

namespace JediModel.DefRange
open JediModel.Text JediModel.Tree

/-- an ordered run of leaves (what `spans` produces) -/
structure Ordered (L : List Span) : Prop where
  pw : L.Pairwise fun a b => a.stop ≤ b.start
  wf : ∀ sp ∈ L, sp.start ≤ sp.stop

theorem spans_Ordered (p : Pos) (ls : List LeafInfo) : Ordered (spans p ls) :=
  ⟨spans_ordered p ls, spans_start_le_stop p ls⟩

theorem Ordered.dropLast {L : List Span} (h : Ordered L) : Ordered L.dropLast :=
  ⟨h.pw.sublist (List.dropLast_sublist L), fun sp hsp => h.wf sp (List.dropLast_subset L hsp)⟩

theorem Ordered.head_le {L : List Span} (h : Ordered L) {x z : Span} (hx : x ∈ L) (hz : L.head? = some z) :
    z.start ≤ x.start := by
  cases L with
  | nil => cases hx
  | cons a as =>
    simp only [List.head?_cons, Option.some.injEq] at hz
    subst hz
    rcases List.mem_cons.mp hx with rfl | hx
    · exact Pos.le_refl _
    · exact Pos.le_trans (h.wf a (List.mem_cons_self)) (List.rel_of_pairwise_cons h.pw hx)

theorem Ordered.le_last {L : List Span} (h : Ordered L) {x z : Span} (hx : x ∈ L) (hz : L.getLast? = some z) :
    x.stop ≤ z.stop := by
  obtain ⟨init, rfl⟩ : ∃ init, L = init ++ [z] := by
    have hne : L ≠ [] := by intro e; simp [e] at hz
    refine ⟨L.dropLast, ?_⟩
    have := List.dropLast_concat_getLast hne
    rw [List.getLast?_eq_getLast hne] at hz
    simp only [Option.some.injEq] at hz
    rw [← hz]; exact this.symm
  rcases List.mem_append.mp hx with hi | hl
  · have := (List.pairwise_append.mp h.pw).2.2 x hi z (List.mem_singleton.mpr rfl)
    exact Pos.le_trans this (h.wf z (List.mem_append_right _ (List.mem_singleton.mpr rfl)))
  · rw [List.mem_singleton.mp hl]; exact Pos.le_refl _

/-- a member that is not the last element is in `dropLast` -/
theorem mem_dropLast_of_ne_last {L : List Span} {x z : Span} (hx : x ∈ L) (hz : L.getLast? = some z)
    (hne : x.leaf.type ≠ z.leaf.type) : x ∈ L.dropLast := by
  have hnil : L ≠ [] := by intro e; simp [e] at hz
  have hsplit := List.dropLast_concat_getLast hnil
  rw [List.getLast?_eq_getLast hnil] at hz
  simp only [Option.some.injEq] at hz
  rw [← hsplit] at hx
  rcases List.mem_append.mp hx with h | h
  · exact h
  · rw [List.mem_singleton.mp h, hz] at hne; exact absurd rfl hne

end JediModel.DefRange

import JediModel.Lemmas.Walk
/-! Every tree position is yielded at most once by the walk of `Model/Walk` when the names in each
listing are distinct. -/
namespace JediModel.Walk

/-- the position of an event in the tree: names of the directories on the way, own name, kind -/
def Ev.pos (ev : Ev) : List Str × Str × Bool := (ev.anc.map (·.name), ev.name, ev.isFile)

/-- names of the sibling directories of a forest, in listing order -/
def Forest.dirNames : Forest → List Str
  | .nil => []
  | .cons n _ _ rest => n :: rest.dirNames

/-- in every listing of the forest the directory names are pairwise distinct and so are the file names -/
def Forest.Distinct : Forest → Prop
  | .nil => True
  | .cons n fs ch rest => n ∉ rest.dirNames ∧ (fs.map (·.name)).Nodup ∧ ch.Distinct ∧ rest.Distinct

abbrev Apart (a b : Ev) : Prop := a.pos ≠ b.pos

theorem apart_of_len {a b : Ev} (h : a.anc.length ≠ b.anc.length) : Apart a b := by
  intro he
  have := congrArg (fun k => k.1.length) he
  simp [Ev.pos] at this
  exact h this

theorem apart_of_kind {a b : Ev} (h : a.isFile ≠ b.isFile) : Apart a b := by
  intro he
  have := congrArg (fun k => k.2.2) he
  exact h this

theorem apart_of_name {a b : Ev} (h : a.name ≠ b.name) : Apart a b := by
  intro he
  have := congrArg (fun k => k.2.1) he
  exact h this

/-- the first directory entered below `anc` is named `n` -/
def Starts (anc : List Anc) (n : Str) (ev : Ev) : Prop := ∃ x more, ev.anc = anc ++ x :: more ∧ x.name = n

theorem apart_of_starts {anc : List Anc} {n m : Str} {a b : Ev} (ha : Starts anc n a) (hb : Starts anc m b)
    (h : n ≠ m) : Apart a b := by
  obtain ⟨x, mx, hx, rfl⟩ := ha
  obtain ⟨y, my, hy, rfl⟩ := hb
  intro he
  have := congrArg (fun k => k.1) he
  simp only [Ev.pos, hx, hy, List.map_append, List.map_cons] at this
  have := List.append_cancel_left this
  simp only [List.cons.injEq] at this
  exact h this.1

theorem fileEvents_pairwise (cfg : Cfg) (root : Str) (anc : List Anc) (st : St) (files : List FileEnt)
    (h : (files.map (·.name)).Nodup) : (fileEvents cfg root anc st files).Pairwise Apart := by
  unfold fileEvents
  rw [List.pairwise_map]
  have h' : files.Pairwise (fun f g => f.name ≠ g.name) := by
    simpa [List.Nodup, List.pairwise_map] using h
  refine (h'.sublist List.filter_sublist).imp ?_
  intro f g hfg
  exact apart_of_name hfg

theorem folderEvents_shape (cfg : Cfg) (root : Str) (anc : List Anc) (st : St) (F : Forest) :
    ∀ ev ∈ folderEvents cfg root anc st F, ev.isFile = false ∧ ev.name ∈ F.dirNames ∧
      ev.anc.length = anc.length + 1 ∧ Starts anc ev.name ev := by
  induction F with
  | nil => intro ev h; simp [folderEvents] at h
  | cons name files ch rest _ ihr =>
    intro ev h
    simp only [folderEvents] at h
    have tail : ev ∈ folderEvents cfg root anc st rest → ev.isFile = false ∧
        ev.name ∈ (Forest.cons name files ch rest).dirNames ∧
        ev.anc.length = anc.length + 1 ∧ Starts anc ev.name ev := fun h' => by
      obtain ⟨a, b, c, d⟩ := ihr ev h'
      exact ⟨a, List.mem_cons_of_mem _ b, c, d⟩
    split at h
    · rcases List.mem_cons.mp h with h | h
      · subst h
        exact ⟨rfl, List.mem_cons_self, by simp, ⟨_, [], rfl, rfl⟩⟩
      · exact tail h
    · exact tail h

theorem folderEvents_pairwise (cfg : Cfg) (root : Str) (anc : List Anc) (st : St) (F : Forest)
    (h : F.Distinct) : (folderEvents cfg root anc st F).Pairwise Apart := by
  induction F with
  | nil => simp [folderEvents]
  | cons name files ch rest _ ihr =>
    simp only [folderEvents]
    split
    · refine List.pairwise_cons.mpr ⟨fun b hb => ?_, ihr h.2.2.2⟩
      obtain ⟨_, hn, _, _⟩ := folderEvents_shape cfg root anc st rest b hb
      apply apart_of_name
      intro he
      apply h.1
      have he' : name = b.name := he
      rw [he']; exact hn
    · exact ihr h.2.2.2

theorem walkForest_shape (cfg : Cfg) (root : Str) (anc : List Anc) (frozen st : St) (F : Forest) :
    ∀ ev ∈ (walkForest cfg root anc frozen st F).1,
      (∃ n ∈ F.dirNames, Starts anc n ev) ∧ (ev.isFile = true ∨ anc.length + 2 ≤ ev.anc.length) := by
  induction F generalizing root anc frozen st with
  | nil => intro ev h; simp [walkForest] at h
  | cons name files ch rest ihc ihr =>
    intro ev h
    simp only [walkForest] at h
    have tail : ∀ st', ev ∈ (walkForest cfg root anc frozen st' rest).1 →
        (∃ n ∈ (Forest.cons name files ch rest).dirNames, Starts anc n ev) ∧
        (ev.isFile = true ∨ anc.length + 2 ≤ ev.anc.length) := fun st' h' => by
      obtain ⟨⟨n, hn, hs⟩, b⟩ := ihr _ _ _ _ ev h'
      exact ⟨⟨n, List.mem_cons_of_mem _ hn, hs⟩, b⟩
    split at h
    · simp only [List.mem_append] at h
      rcases h with ((h | h) | h) | h
      · obtain ⟨f, _, _, _, rfl⟩ := (mem_fileEvents _ _ _ _ _ _).mp h
        exact ⟨⟨name, List.mem_cons_self, ⟨_, [], rfl, rfl⟩⟩, .inl rfl⟩
      · obtain ⟨_, _, hl, ⟨x, more, hx, _⟩⟩ := folderEvents_shape _ _ _ _ _ ev h
        refine ⟨⟨name, List.mem_cons_self, ⟨⟨root, name, files⟩, x :: more, by rw [hx]; simp, rfl⟩⟩, .inr ?_⟩
        rw [hl]; simp
      · obtain ⟨⟨n, _, ⟨x, more, hx, _⟩⟩, b⟩ := ihc _ _ _ _ ev h
        refine ⟨⟨name, List.mem_cons_self, ⟨⟨root, name, files⟩, x :: more, by rw [hx]; simp, rfl⟩⟩, ?_⟩
        rcases b with b | b
        · exact .inl b
        · right; simp only [List.length_append, List.length_cons, List.length_nil] at b; omega
      · exact tail _ h
    · exact tail _ h

/-- one `os.walk` step and everything below it: the files of the directory, its kept
sub-directories, and the walk below them are pairwise at different positions -/
theorem step_pairwise (cfg : Cfg) (p : Str) (anc : List Anc) (s : St) (files : List FileEnt) (children : Forest)
    (hfiles : (files.map (·.name)).Nodup) (hch : children.Distinct)
    (ih : (walkForest cfg p anc s s children).1.Pairwise Apart) :
    (fileEvents cfg p anc s files ++ folderEvents cfg p anc s children ++
      (walkForest cfg p anc s s children).1).Pairwise Apart := by
  rw [List.pairwise_append, List.pairwise_append]
  refine ⟨⟨fileEvents_pairwise _ _ _ _ _ hfiles, folderEvents_pairwise _ _ _ _ _ hch, ?_⟩, ih, ?_⟩
  · intro a ha b hb
    obtain ⟨f, _, _, _, rfl⟩ := (mem_fileEvents _ _ _ _ _ _).mp ha
    obtain ⟨hk, _⟩ := folderEvents_shape _ _ _ _ _ b hb
    apply apart_of_kind
    rw [hk]; simp
  · intro a ha b hb
    obtain ⟨⟨_, _, ⟨x, more, hx, _⟩⟩, hkind⟩ := walkForest_shape _ _ _ _ _ _ b hb
    rcases List.mem_append.mp ha with ha | ha
    · obtain ⟨f, _, _, _, rfl⟩ := (mem_fileEvents _ _ _ _ _ _).mp ha
      apply apart_of_len
      rw [hx]; simp
    · obtain ⟨hk, _, hl, _⟩ := folderEvents_shape _ _ _ _ _ a ha
      rcases hkind with hkind | hkind
      · apply apart_of_kind; rw [hk, hkind]; simp
      · apply apart_of_len; omega

theorem walkForest_pairwise (cfg : Cfg) (root : Str) (anc : List Anc) (frozen st : St) (F : Forest)
    (h : F.Distinct) : (walkForest cfg root anc frozen st F).1.Pairwise Apart := by
  induction F generalizing root anc frozen st with
  | nil => simp [walkForest]
  | cons name files ch rest ihc ihr =>
    simp only [walkForest]
    split
    · rw [List.pairwise_append]
      refine ⟨step_pairwise _ _ _ _ _ _ h.2.1 h.2.2.1 (ihc _ _ _ _ h.2.2.1), ihr _ _ _ _ h.2.2.2, ?_⟩
      intro a ha b hb
      obtain ⟨⟨m, hm, hsb⟩, _⟩ := walkForest_shape _ _ _ _ _ _ b hb
      have hsa : Starts anc name a := by
        rcases List.mem_append.mp ha with ha | ha
        · rcases List.mem_append.mp ha with ha | ha
          · obtain ⟨f, _, _, _, rfl⟩ := (mem_fileEvents _ _ _ _ _ _).mp ha
            exact ⟨_, [], rfl, rfl⟩
          · obtain ⟨_, _, _, ⟨x, more, hx, _⟩⟩ := folderEvents_shape _ _ _ _ _ a ha
            exact ⟨⟨root, name, files⟩, x :: more, by rw [hx]; simp, rfl⟩
        · obtain ⟨⟨_, _, ⟨x, more, hx, _⟩⟩, _⟩ := walkForest_shape _ _ _ _ _ _ a ha
          exact ⟨⟨root, name, files⟩, x :: more, by rw [hx]; simp, rfl⟩
      exact apart_of_starts hsa hsb (fun he => h.1 (he ▸ hm))
    · exact ihr _ _ _ _ h.2.2.2

/-- **at most once**: with distinct names in every listing, the positions of the events the walk
yields are pairwise different -/
theorem walkRoot_pos_nodup (cfg : Cfg) (root : Str) (st : St) (files : List FileEnt) (children : Forest)
    (hfiles : (files.map (·.name)).Nodup) (hch : children.Distinct) :
    ((walkRoot cfg root st files children).1.map Ev.pos).Nodup := by
  unfold List.Nodup
  rw [List.pairwise_map]
  simp only [walkRoot]
  exact step_pairwise _ _ _ _ _ _ hfiles hch (walkForest_pairwise _ _ _ _ _ _ hch)

end JediModel.Walk

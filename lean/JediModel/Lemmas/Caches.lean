import JediModel.Model.Caches
/-! Invariant of the cache state machine and its preservation by every operation. -/
set_option linter.unusedSectionVars false
set_option linter.unusedSimpArgs false
namespace JediModel.Caches

namespace AMap
variable {κ ν : Type} [DecidableEq κ]

@[simp] theorem get?_nil (k : κ) : get? ([] : AMap κ ν) k = none := rfl

theorem get?_keep (m : AMap κ ν) (p : κ → Bool) (k : κ) :
    get? (keep m p) k = if p k then get? m k else none := by
  induction m with
  | nil => simp [keep, get?]
  | cons e r ih =>
    obtain ⟨k', v⟩ := e
    unfold keep at ih ⊢
    by_cases hp : p k'
    · simp only [List.filter_cons, hp, if_true, get?]
      by_cases hk : k' = k
      · subst hk; simp [hp]
      · simp [hk, ih]
    · simp only [List.filter_cons, hp, get?]
      by_cases hk : k' = k
      · subst hk; simp [hp, ih]
      · simp [hk, ih]

theorem get?_set (m : AMap κ ν) (k k' : κ) (v : ν) :
    get? (set m k v) k' = if k = k' then some v else get? m k' := by
  simp only [set, get?]
  split
  · rfl
  · rename_i h
    rw [get?_keep]
    simp [Ne.symm h]

theorem get?_keep_some (m : AMap κ ν) (p : κ → Bool) (k : κ) (v : ν)
    (h : get? (keep m p) k = some v) : get? m k = some v := by
  rw [get?_keep] at h
  split at h
  · exact h
  · cases h

theorem mem_of_get? (m : AMap κ ν) (k : κ) (v : ν) (h : get? m k = some v) : (k, v) ∈ m := by
  induction m with
  | nil => simp [get?] at h
  | cons e r ih =>
    obtain ⟨k', v'⟩ := e
    by_cases hk : k' = k
    · subst hk
      simp [get?] at h
      subst h
      exact List.mem_cons_self
    · simp [get?, hk] at h
      exact List.mem_cons_of_mem _ (ih h)
end AMap

/-- the design decisions the property needs -/
structure Cfg.Sound (cfg : Cfg) : Prop where
  item : cfg.keyOnTree = false
  fresh : cfg.sigKeyFresh = true
  memo : cfg.memoPerScript = true
  nocache : cfg.scriptCache = false
  diff : cfg.diffCache = true
  nomemo : cfg.treeMemo = 0

section
variable {L T K V : Type} [DecidableEq L] [DecidableEq K]
variable (cfg : Cfg) (parse : L → T) (compute : T → K → V)

/-- the part of the invariant that does not mention the newest Script -/
structure InvCore (st : State L T K V) : Prop where
  heapOk : ∀ key it, st.parser.get? key = some it →
    st.heap.get? it.obj = some (parse it.lines) ∧ it.gen < st.nextGen ∧ it.obj < st.nextObj
  inj : ∀ k1 k2 it1 it2, st.parser.get? k1 = some it1 → st.parser.get? k2 = some it2 →
    (it1.obj = it2.obj ∨ it1.gen = it2.gen) → k1 = k2
  derivedOk : ∀ g k v, st.derived.get? (g, k) = some v →
    g < st.nextGen ∧ ∀ key it, st.parser.get? key = some it → it.gen = g →
      v = compute (parse it.lines) k
  sigOk : ∀ e ∈ st.sig, ∀ m, e.1.2.1 = some m → m < st.nextMatch

structure Inv (st : State L T K V) : Prop extends InvCore parse compute st where
  curOk : ∀ sc, st.cur = some sc → ∃ it, st.parser.get? sc.key = some it ∧ it.obj = sc.obj
  memoOk : ∀ sc it, st.cur = some sc → st.parser.get? sc.key = some it →
    ∀ k v, st.memo.get? k = some v → v = compute (parse it.lines) k

theorem inv_init : Inv parse compute (init : State L T K V) := by
  refine ⟨⟨?_, ?_, ?_, ?_⟩, ?_, ?_⟩ <;> simp [init]

/-- `try_to_save_module` right after the node `o` got the content `parse text` (in place by the
diff parser, or as a brand-new node): the core invariant survives, provided every item that
shares the node `o` sits under the very key that is being overwritten -/
theorem save_core (st : State L T K V) (key : Option String) (o : Nat) (text : L)
    (ptime : Option Nat) (heap' : AMap Nat T) (n' : Nat) (hc : InvCore parse compute st)
    (hheap : heap'.get? o = some (parse text))
    (hother : ∀ o', o' ≠ o → heap'.get? o' = st.heap.get? o')
    (hn : st.nextObj ≤ n') (ho : o < n')
    (hfresh : ∀ k2 it2, st.parser.get? k2 = some it2 → it2.obj = o → k2 = key) :
    InvCore parse compute (save { st with heap := heap', nextObj := n' } key o text ptime) := by
  refine ⟨?_, ?_, ?_, ?_⟩
  · intro k it h
    simp only [save, AMap.get?_set] at h ⊢
    split at h
    · cases h; exact ⟨hheap, Nat.lt_succ_self _, ho⟩
    · rename_i hk
      obtain ⟨a, b, c⟩ := hc.heapOk k it h
      refine ⟨?_, Nat.lt_succ_of_lt b, by omega⟩
      rw [hother it.obj (fun e => hk (hfresh k it h e).symm)]
      exact a
  · intro k1 k2 it1 it2 h1 h2 hor
    simp only [save, AMap.get?_set] at h1 h2
    split at h1 <;> split at h2
    · rename_i e1 e2; exact e1.symm.trans e2
    · rename_i e1 e2
      cases h1
      rcases hor with hor | hor
      · exact absurd (hfresh k2 it2 h2 hor.symm).symm e2
      · have := (hc.heapOk k2 it2 h2).2.1; simp at hor; omega
    · rename_i e1 e2
      cases h2
      rcases hor with hor | hor
      · exact absurd (hfresh k1 it1 h1 hor).symm e1
      · have := (hc.heapOk k1 it1 h1).2.1; simp at hor; omega
    · exact hc.inj k1 k2 it1 it2 h1 h2 hor
  · intro g k v h
    have := hc.derivedOk g k v h
    refine ⟨Nat.lt_succ_of_lt this.1, ?_⟩
    intro k' it' h' hg
    simp only [save, AMap.get?_set] at h'
    split at h'
    · cases h'; simp at hg; omega
    · exact this.2 k' it' h' hg
  · exact hc.sigOk

/-- what the parse inside `Script.__init__` establishes -/
theorem parseBuffer_spec (hs : cfg.Sound) (st : State L T K V) (key : Option String) (text : L)
    (ptime : Option Nat) (hc : InvCore parse compute st) :
    InvCore parse compute (parseBuffer cfg parse st key text ptime).2 ∧
    (∃ it, (parseBuffer cfg parse st key text ptime).2.parser.get? key = some it ∧
      it.obj = (parseBuffer cfg parse st key text ptime).1 ∧ it.lines = text) ∧
    (parseBuffer cfg parse st key text ptime).2.sig = st.sig ∧
    (parseBuffer cfg parse st key text ptime).2.nextMatch = st.nextMatch := by
  unfold parseBuffer
  simp only [hs.nocache, hs.diff, Bool.false_and, Bool.false_or, if_true, if_false]
  cases hget : st.parser.get? key with
  | some it =>
    simp only
    by_cases hl : it.lines = text
    · simp only [hl, if_true]
      exact ⟨hc, ⟨it, hget, rfl, hl⟩, rfl, rfl⟩
    · simp only [hl, if_false]
      have hit := hc.heapOk key it hget
      refine ⟨?_, ?_, rfl, rfl⟩
      · have := save_core parse compute st key it.obj text ptime
          (st.heap.set it.obj (parse text)) st.nextObj hc
          (by simp [AMap.get?_set]) (by intro o' ho'; simp [AMap.get?_set, Ne.symm ho'])
          (Nat.le_refl _) hit.2.2
          (fun k2 it2 h2 e => hc.inj k2 key it2 it h2 hget (Or.inl e))
        exact this
      · exact ⟨{ gen := st.nextGen, obj := it.obj, lines := text, changeTime := ptime.getD st.clock },
          by simp [save, AMap.get?_set], rfl, rfl⟩
  | none =>
    simp only
    refine ⟨?_, ?_, rfl, rfl⟩
    · have := save_core parse compute st key st.nextObj text ptime
        (st.heap.set st.nextObj (parse text)) (st.nextObj + 1) hc
        (by simp [AMap.get?_set]) (by intro o' ho'; simp [AMap.get?_set, Ne.symm ho'])
        (Nat.le_succ _) (Nat.lt_succ_self _)
        (fun k2 it2 h2 e => by have := (hc.heapOk k2 it2 h2).2.2; omega)
      exact this
    · exact ⟨{ gen := st.nextGen, obj := st.nextObj, lines := text, changeTime := ptime.getD st.clock },
        by simp [save, AMap.get?_set], rfl, rfl⟩

/-- without a table of remembered nodes `Script.__init__` asks parso every time -/
theorem obtainTree_eq_parseBuffer (h0 : cfg.treeMemo = 0) (st : State L T K V)
    (key : Option String) (text : L) (ptime : Option Nat) :
    obtainTree cfg parse st key text ptime = parseBuffer cfg parse st key text ptime := by
  unfold obtainTree remembered
  cases key <;> simp [h0]

/-- `Script(text, path=key)`: invariant kept, and the item under the Script's key now carries
exactly the text the Script was given -/
theorem script_spec (hs : cfg.Sound) (st : State L T K V) (key : Option String) (text : L)
    (ptime : Option Nat) (hi : Inv parse compute st) :
    Inv parse compute (script cfg parse st key text ptime) ∧
    curLines (script cfg parse st key text ptime) = some text := by
  obtain ⟨hc1, ⟨it, hit, hobj, hlines⟩, hsig, hm⟩ :=
    parseBuffer_spec cfg parse compute hs st key text ptime hi.toInvCore
  unfold script
  rw [obtainTree_eq_parseBuffer cfg parse hs.nomemo]
  generalize parseBuffer cfg parse st key text ptime = pb at hc1 hit hobj hlines hsig hm
  obtain ⟨o, st1⟩ := pb
  simp only at hc1 hit hobj hlines hsig hm ⊢
  constructor
  · refine ⟨⟨hc1.heapOk, hc1.inj, hc1.derivedOk, ?_⟩, ?_, ?_⟩
    · intro e he
      simp only [expire, List.mem_filter] at he
      exact hc1.sigOk e he.1
    · intro sc hsc
      simp only [expire, Option.some.injEq] at hsc
      subst hsc
      exact ⟨it, hit, hobj⟩
    · intro sc it' _ _ k v hk
      simp [expire, hs.memo] at hk
  · simp [curLines, expire, hit, hlines]

/-- one derived lookup: the value is the direct computation on a from-scratch parse of the
current text; invariant and current text are kept -/
theorem lookup_spec (hs : cfg.Sound) (st : State L T K V) (k : K) (s : L)
    (hi : Inv parse compute st) (hcur : curLines st = some s) :
    (lookup cfg compute st k).1 = some (compute (parse s) k) ∧
    Inv parse compute (lookup cfg compute st k).2 ∧
    curLines (lookup cfg compute st k).2 = some s := by
  unfold curLines at hcur
  cases hsc : st.cur with
  | none => simp [hsc] at hcur
  | some sc =>
    simp only [hsc, Option.map_eq_some_iff] at hcur
    obtain ⟨it, hit, hl⟩ := hcur
    obtain ⟨it', hit', hobj⟩ := hi.curOk sc hsc
    rw [hit] at hit'; cases hit'
    have hheap := (hi.heapOk sc.key it hit).1
    rw [hobj] at hheap
    subst hl
    have hcl : ∀ st' : State L T K V, st'.cur = some sc → st'.parser = st.parser →
        curLines st' = some it.lines := by
      intro st' h1 h2; simp [curLines, h1, h2, hit]
    have hcur' : ∀ sc', some sc = some sc' → ∃ it, st.parser.get? sc'.key = some it ∧ it.obj = sc'.obj := by
      intro sc' e; cases e; exact ⟨it, hit, hobj⟩
    unfold lookup
    simp only [hsc, hheap]
    cases hmemo : st.memo.get? k with
    | some v =>
      simp only
      exact ⟨by rw [hi.memoOk sc it hsc hit k v hmemo], hi, hcl st hsc rfl⟩
    | none =>
      simp only
      -- the memo after storing the computed value
      have memo' : ∀ (d : AMap (Nat × K) V) k' v', (st.memo.set k (compute (parse it.lines) k)).get? k' = some v' →
          v' = compute (parse it.lines) k' := by
        intro _ k' v' h
        rw [AMap.get?_set] at h
        split at h
        · rename_i e; subst e; cases h; rfl
        · exact hi.memoOk sc it hsc hit k' v' h
      cases hkey : sc.key with
      | none =>
        simp only [cacheNode, hkey]
        refine ⟨by first | rfl | trivial, ⟨⟨hi.heapOk, hi.inj, hi.derivedOk, hi.sigOk⟩, hcur', ?_⟩, hcl _ rfl rfl⟩
        intro sc' it'' h1 h2 k' v' h
        simp only [Option.some.injEq] at h1; subst h1
        rw [hit] at h2; cases h2
        exact memo' [] k' v' h
      | some p =>
        rw [hkey] at hit
        simp only [cacheNode, hkey, hit, hs.item, if_false, Bool.false_eq_true]
        cases hd : st.derived.get? (it.gen, k) with
        | some v =>
          have hv := (hi.derivedOk it.gen k v hd).2 (some p) it hit rfl
          subst hv
          refine ⟨by first | rfl | trivial, ⟨⟨hi.heapOk, hi.inj, hi.derivedOk, hi.sigOk⟩, hcur', ?_⟩, hcl _ rfl rfl⟩
          intro sc' it'' h1 h2 k' v' h
          simp only [Option.some.injEq] at h1; subst h1
          rw [hkey, hit] at h2; cases h2
          exact memo' [] k' v' h
        | none =>
          refine ⟨by first | rfl | trivial, ⟨⟨hi.heapOk, hi.inj, ?_, hi.sigOk⟩, hcur', ?_⟩, hcl _ rfl rfl⟩
          · intro g k' v' h
            simp only [AMap.get?_set] at h
            split at h
            · rename_i e
              cases h
              simp only [Prod.mk.injEq] at e
              obtain ⟨e1, e2⟩ := e
              subst e1; subst e2
              refine ⟨(hi.heapOk (some p) it hit).2.1, ?_⟩
              intro key' it'' h' hg
              have : key' = some p := hi.inj key' (some p) it'' it h' hit (Or.inr hg)
              subst this
              rw [hit] at h'; cases h'; rfl
            · exact hi.derivedOk g k' v' h
          · intro sc' it'' h1 h2 k' v' h
            simp only [Option.some.injEq] at h1; subst h1
            rw [hkey, hit] at h2; cases h2
            exact memo' [] k' v' h

/-- one signature lookup through the time cache: invariant and current text are kept whatever the
cursor; the value is the direct computation when the regex matched (fresh key) or unmatched keys
are not cached -/
theorem sigq_spec (hs : cfg.Sound) (st : State L T K V) (pos : Nat) (matched : Bool) (k : K) (s : L)
    (hi : Inv parse compute st) (hcur : curLines st = some s) :
    Inv parse compute (sigq cfg compute st pos matched k).2 ∧
    curLines (sigq cfg compute st pos matched k).2 = some s ∧
    ((matched = true ∨ cfg.sigCachesUnmatched = false) →
      (sigq cfg compute st pos matched k).1 = some (compute (parse s) k)) := by
  unfold curLines at hcur
  cases hsc : st.cur with
  | none => simp [hsc] at hcur
  | some sc =>
    simp only [hsc, Option.map_eq_some_iff] at hcur
    obtain ⟨it, hit, hl⟩ := hcur
    obtain ⟨it', hit', hobj⟩ := hi.curOk sc hsc
    rw [hit] at hit'; cases hit'
    have hheap := (hi.heapOk sc.key it hit).1
    rw [hobj] at hheap
    subst hl
    have hcl : ∀ st' : State L T K V, st'.cur = some sc → st'.parser = st.parser →
        curLines st' = some it.lines := by
      intro st' h1 h2; simp [curLines, h1, h2, hit]
    have hinv : ∀ st' : State L T K V, st'.cur = some sc → st'.parser = st.parser →
        st'.heap = st.heap → st'.derived = st.derived → st'.memo = st.memo →
        st'.nextGen = st.nextGen → st'.nextObj = st.nextObj →
        (∀ e ∈ st'.sig, ∀ m, e.1.2.1 = some m → m < st'.nextMatch) → Inv parse compute st' := by
      intro st' h1 h2 h3 h4 h5 h6 h7 h8
      refine ⟨⟨?_, ?_, ?_, h8⟩, ?_, ?_⟩
      · rw [h2, h3, h6, h7]; exact hi.heapOk
      · rw [h2]; exact hi.inj
      · rw [h2, h4, h6]; exact hi.derivedOk
      · rw [h1, h2, ← hsc]; exact hi.curOk
      · rw [h1, h2, h5, ← hsc]; exact hi.memoOk
    have hold : ∀ e ∈ st.sig, ∀ m, e.1.2.1 = some m → m < st.nextMatch + 1 :=
      fun e he m hm => Nat.lt_succ_of_lt (hi.sigOk e he m hm)
    unfold sigq
    simp only [hsc, hheap, hs.fresh, if_true]
    split
    · -- not cached
      exact ⟨hinv _ rfl rfl rfl rfl rfl rfl rfl hold, hcl _ rfl rfl, fun _ => by first | rfl | trivial⟩
    · rename_i hnc
      have hnew : ∀ e ∈ st.sig.set (sc.key, (if matched = true then some st.nextMatch else none), pos)
            (st.clock + cfg.validity, compute (parse it.lines) k),
          ∀ m, e.1.2.1 = some m → m < st.nextMatch + 1 := by
        intro e he m hm
        simp only [AMap.set, AMap.keep, List.mem_cons, List.mem_filter] at he
        rcases he with he | he
        · subst he
          simp only at hm
          split at hm
          · cases hm; exact Nat.lt_succ_self _
          · cases hm
        · exact hold e he.1 m hm
      cases hg : st.sig.get? (sc.key, (if matched = true then some st.nextMatch else none), pos) with
      | none =>
        simp only
        exact ⟨hinv _ rfl rfl rfl rfl rfl rfl rfl hnew, hcl _ rfl rfl, fun _ => by first | rfl | trivial⟩
      | some e =>
        obtain ⟨expiry, v⟩ := e
        simp only
        split
        · refine ⟨hinv _ rfl rfl rfl rfl rfl rfl rfl hold, hcl _ rfl rfl, ?_⟩
          intro hm
          exfalso
          rcases hm with hm | hm
          · have := hi.sigOk _ (AMap.mem_of_get? _ _ _ hg) st.nextMatch (by simp [hm])
            omega
          · simp [hm] at hnc
            have := hi.sigOk _ (AMap.mem_of_get? _ _ _ hg) st.nextMatch (by simp [hnc.2])
            omega
        · exact ⟨hinv _ rfl rfl rfl rfl rfl rfl rfl hnew, hcl _ rfl rfl, fun _ => by first | rfl | trivial⟩

theorem gc_spec (st : State L T K V) (hi : Inv parse compute st) :
    Inv parse compute (gc cfg st) ∧ curLines (gc cfg st) = curLines st := by
  refine ⟨⟨⟨hi.heapOk, hi.inj, ?_, hi.sigOk⟩, hi.curOk, hi.memoOk⟩, rfl⟩
  intro g k v h
  unfold gc at h
  simp only at h
  exact hi.derivedOk g k v (AMap.get?_keep_some _ _ _ _ h)

/-- every operation keeps the invariant -/
theorem step_inv (hs : cfg.Sound) (st : State L T K V) (o : Op L K) (hi : Inv parse compute st) :
    Inv parse compute (step cfg parse compute st o) := by
  cases o with
  | script key text ptime => exact (script_spec cfg parse compute hs st key text ptime hi).1
  | lookup k =>
    cases hcur : curLines st with
    | some s => exact (lookup_spec cfg parse compute hs st k s hi hcur).2.1
    | none =>
      have : st.cur = none := by
        cases hsc : st.cur with
        | none => rfl
        | some sc =>
          obtain ⟨it, hit, _⟩ := hi.curOk sc hsc
          simp [curLines, hsc, hit] at hcur
      simp only [step, lookup, this]
      exact hi
  | sigq pos m k =>
    cases hcur : curLines st with
    | some s => exact (sigq_spec cfg parse compute hs st pos m k s hi hcur).1
    | none =>
      have : st.cur = none := by
        cases hsc : st.cur with
        | none => rfl
        | some sc =>
          obtain ⟨it, hit, _⟩ := hi.curOk sc hsc
          simp [curLines, hsc, hit] at hcur
      simp only [step, sigq, this]
      exact hi
  | tick dt => exact ⟨⟨hi.heapOk, hi.inj, hi.derivedOk, hi.sigOk⟩, hi.curOk, hi.memoOk⟩
  | gc => exact (gc_spec cfg parse compute st hi).1

theorem run_inv (hs : cfg.Sound) (h : List (Op L K)) (st : State L T K V)
    (hi : Inv parse compute st) : Inv parse compute (run cfg parse compute st h) := by
  induction h generalizing st with
  | nil => exact hi
  | cons o r ih => exact ih _ (step_inv cfg parse compute hs st o hi)

/-- an operation that is not a Script construction -/
def Op.isScript : Op L K → Bool
  | .script _ _ _ => true
  | _ => false

/-- operations other than Script construction do not change what the current text is -/
theorem step_curLines (hs : cfg.Sound) (st : State L T K V) (o : Op L K) (s : L)
    (hi : Inv parse compute st) (hcur : curLines st = some s) (ho : o.isScript = false) :
    curLines (step cfg parse compute st o) = some s := by
  cases o with
  | script key text ptime => simp [Op.isScript] at ho
  | lookup k => exact (lookup_spec cfg parse compute hs st k s hi hcur).2.2
  | sigq pos m k => exact (sigq_spec cfg parse compute hs st pos m k s hi hcur).2.1
  | tick dt => exact hcur
  | gc => exact hcur

theorem run_curLines (hs : cfg.Sound) (t : List (Op L K)) (st : State L T K V) (s : L)
    (hi : Inv parse compute st) (hcur : curLines st = some s)
    (ht : ∀ o ∈ t, Op.isScript o = false) :
    curLines (run cfg parse compute st t) = some s := by
  induction t generalizing st with
  | nil => exact hcur
  | cons o r ih =>
    exact ih _ (step_inv cfg parse compute hs st o hi)
      (step_curLines cfg parse compute hs st o s hi hcur (ht o List.mem_cons_self))
      (fun o' ho' => ht o' (List.mem_cons_of_mem _ ho'))

/-- a whole query: the answer is the query evaluated on a from-scratch parse of the current text -/
theorem runQ_spec {A : Type} (hs : cfg.Sound) (q : Q K V A) (st : State L T K V) (s : L)
    (hi : Inv parse compute st) (hcur : curLines st = some s)
    (hq : q.Matched ∨ cfg.sigCachesUnmatched = false) :
    (runQ cfg compute st q).1 = some (evalQ (compute (parse s)) q) := by
  induction q generalizing st with
  | done a => rfl
  | ask k cont ih =>
    obtain ⟨h1, h2, h3⟩ := lookup_spec cfg parse compute hs st k s hi hcur
    unfold runQ
    generalize lookup cfg compute st k = r at h1 h2 h3
    obtain ⟨v, st'⟩ := r
    simp only at h1 h2 h3
    subst h1
    simp only [evalQ]
    exact ih _ st' h2 h3 (hq.imp (fun h => h _) id)
  | askSig pos m k cont ih =>
    obtain ⟨h2, h3, h1⟩ := sigq_spec cfg parse compute hs st pos m k s hi hcur
    have h1 := h1 (hq.imp (fun h => h.1) id)
    unfold runQ
    generalize sigq cfg compute st pos m k = r at h1 h2 h3
    obtain ⟨v, st'⟩ := r
    simp only at h1 h2 h3
    subst h1
    simp only [evalQ]
    exact ih _ st' h2 h3 (hq.imp (fun h => h.2 _) id)

theorem run_append (st : State L T K V) (a b : List (Op L K)) :
    run cfg parse compute st (a ++ b) = run cfg parse compute (run cfg parse compute st a) b := by
  simp [run, List.foldl_append]
end
end JediModel.Caches

import JediModel.Model.Nesting
/-! Helper definitions (well-formedness, hypotheses) and lemmas for C18. -/
namespace JediModel.Nesting
open JediModel.Scopes (Kind)

/-! ## order on positions -/

theorem Pos.lt_def (a b : Pos) : a < b ↔ (a.line < b.line ∨ (a.line = b.line ∧ a.col < b.col)) := Iff.rfl
theorem Pos.le_def (a b : Pos) : a ≤ b ↔ (a.line < b.line ∨ (a.line = b.line ∧ a.col ≤ b.col)) := Iff.rfl

theorem Pos.ext_iff' (a b : Pos) : a = b ↔ (a.line = b.line ∧ a.col = b.col) := by
  cases a; cases b; simp

/-! ## well-formed tables -/

/-- structural part: scope 0 is the module, every other scope has a smaller `pscope` and is
not a module, a `def` / `class` sits directly in a `def` / `class` / module, leaves point into the
table -/
def WFS (p : NProg) : Bool :=
  (match p.scopes with
   | [] => false
   | s0 :: _ => s0.kind == .module) &&
  (p.scopes.zipIdx.all fun (s, i) => i == 0 || (decide (s.pscope < i) && s.kind != .module)) &&
  (p.scopes.all fun s => !(s.kind == .function || s.kind == .klass) ||
    (p.kind s.pscope == .module || p.isDef s.pscope)) &&
  (p.leaves.all fun l => decide (l.pscope < p.scopes.length))

theorem WFS.kind0 {p : NProg} (h : WFS p = true) : p.kind 0 = .module := by
  unfold WFS at h
  unfold NProg.kind
  cases hsc : p.scopes with
  | nil => simp [hsc] at h
  | cons s0 rest =>
    simp only [hsc, Bool.and_eq_true, beq_iff_eq] at h
    simp [h.1.1.1]

theorem WFS.nonempty {p : NProg} (h : WFS p = true) : 0 < p.scopes.length := by
  unfold WFS at h
  cases hsc : p.scopes with
  | nil => simp [hsc] at h
  | cons s0 rest => simp

theorem WFS.scope {p : NProg} (h : WFS p = true) {s : Nat} {sc : NScope}
    (hs : p.scopes[s]? = some sc) (h0 : s ≠ 0) : sc.pscope < s ∧ sc.kind ≠ .module := by
  unfold WFS at h
  simp only [Bool.and_eq_true, List.all_eq_true] at h
  have hmem : (sc, s) ∈ p.scopes.zipIdx := by
    rw [List.mem_zipIdx_iff_getElem?]
    simpa using hs
  have := h.1.1.2 (sc, s) hmem
  simp only [Bool.or_eq_true, beq_iff_eq, Bool.and_eq_true, decide_eq_true_eq, bne_iff_ne, ne_eq] at this
  rcases this with h1 | h1
  · exact absurd h1 h0
  · exact h1

theorem WFS.pscope_lt {p : NProg} (h : WFS p = true) {s : Nat} (h0 : p.kind s ≠ .module) :
    p.pscope s < s ∧ s < p.scopes.length := by
  unfold NProg.kind at h0
  unfold NProg.pscope
  cases hs : p.scopes[s]? with
  | none => simp [hs] at h0
  | some sc =>
    have hlt : s < p.scopes.length := by
      rcases List.getElem?_eq_some_iff.mp hs with ⟨hl, _⟩
      exact hl
    by_cases hz : s = 0
    · subst hz
      have := WFS.kind0 h
      unfold NProg.kind at this
      rw [hs] at this h0
      simp only at this h0
      exact absurd this h0
    · exact ⟨(WFS.scope h hs hz).1, hlt⟩

theorem WFS.module_zero {p : NProg} (h : WFS p = true) {s : Nat} (hs : s < p.scopes.length)
    (hk : p.kind s = .module) : s = 0 := by
  by_cases hz : s = 0
  · exact hz
  · have : p.scopes[s]? = some p.scopes[s] := List.getElem?_eq_getElem hs
    have h2 := (WFS.scope h this hz).2
    unfold NProg.kind at hk
    rw [this] at hk
    exact absurd hk h2

theorem WFS.def_parent {p : NProg} (h : WFS p = true) {s : Nat} (hd : p.isDef s = true) :
    p.kind (p.pscope s) = .module ∨ p.isDef (p.pscope s) = true := by
  unfold WFS at h
  simp only [Bool.and_eq_true, List.all_eq_true] at h
  unfold NProg.isDef NProg.kind at hd
  unfold NProg.pscope
  cases hs : p.scopes[s]? with
  | none => simp [hs] at hd
  | some sc =>
    rw [hs] at hd
    simp only at hd
    have := h.1.2 sc (List.mem_of_getElem? hs)
    simp only [hd, Bool.not_true, Bool.false_or, Bool.or_eq_true, beq_iff_eq] at this
    exact this

/-! ## fuel irrelevance along the `pscope` chain -/

theorem defChain_fuel {p : NProg} (h : WFS p = true) :
    ∀ (s f g : Nat), s < f → s < g → defChain p f s = defChain p g s := by
  intro s
  induction s using Nat.strongRecOn with
  | _ s ih =>
    intro f g hf hg
    cases f with
    | zero => omega
    | succ f =>
      cases g with
      | zero => omega
      | succ g =>
        unfold defChain
        cases hk : p.kind s with
        | module => rfl
        | function =>
          have := WFS.pscope_lt h (s := s) (by rw [hk]; simp)
          simp only
          rw [ih _ this.1 f g (by omega) (by omega)]
        | klass =>
          have := WFS.pscope_lt h (s := s) (by rw [hk]; simp)
          simp only
          rw [ih _ this.1 f g (by omega) (by omega)]
        | lambda =>
          have := WFS.pscope_lt h (s := s) (by rw [hk]; simp)
          simp only
          rw [ih _ this.1 f g (by omega) (by omega)]
        | comp =>
          have := WFS.pscope_lt h (s := s) (by rw [hk]; simp)
          simp only
          rw [ih _ this.1 f g (by omega) (by omega)]

theorem skipComps_fuel {p : NProg} (h : WFS p = true) :
    ∀ (s f g : Nat), s < f → s < g → skipComps p f s = skipComps p g s := by
  intro s
  induction s using Nat.strongRecOn with
  | _ s ih =>
    intro f g hf hg
    cases f with
    | zero => omega
    | succ f =>
      cases g with
      | zero => omega
      | succ g =>
        unfold skipComps
        by_cases hk : p.kind s = .comp
        · have := WFS.pscope_lt h (s := s) (by rw [hk]; simp)
          simp only [hk, if_true]
          exact ih _ this.1 f g (by omega) (by omega)
        · simp only [hk, if_false]

/-- unfolding equations at the canonical fuel -/
theorem defChain_eq {p : NProg} (h : WFS p = true) (s : Nat) (hs : s < p.scopes.length) :
    defChain p p.fuel s =
      match p.kind s with
      | .module => []
      | .function | .klass => s :: defChain p p.fuel (p.pscope s)
      | _ => defChain p p.fuel (p.pscope s) := by
  have hf : p.fuel = p.scopes.length + 1 := rfl
  rw [hf]
  conv => lhs; unfold defChain
  cases hk : p.kind s with
  | module => rfl
  | function =>
    have := WFS.pscope_lt h (s := s) (by rw [hk]; simp)
    simp only
    rw [defChain_fuel h _ p.scopes.length (p.scopes.length + 1) (by omega) (by omega)]
  | klass =>
    have := WFS.pscope_lt h (s := s) (by rw [hk]; simp)
    simp only
    rw [defChain_fuel h _ p.scopes.length (p.scopes.length + 1) (by omega) (by omega)]
  | lambda =>
    have := WFS.pscope_lt h (s := s) (by rw [hk]; simp)
    simp only
    rw [defChain_fuel h _ p.scopes.length (p.scopes.length + 1) (by omega) (by omega)]
  | comp =>
    have := WFS.pscope_lt h (s := s) (by rw [hk]; simp)
    simp only
    rw [defChain_fuel h _ p.scopes.length (p.scopes.length + 1) (by omega) (by omega)]

theorem skipComps_eq {p : NProg} (h : WFS p = true) (s : Nat) (hs : s < p.scopes.length) :
    skipComps p p.fuel s = if p.kind s = .comp then skipComps p p.fuel (p.pscope s) else s := by
  have hf : p.fuel = p.scopes.length + 1 := rfl
  rw [hf]
  conv => lhs; unfold skipComps
  by_cases hk : p.kind s = .comp
  · have := WFS.pscope_lt h (s := s) (by rw [hk]; simp)
    simp only [hk, if_true]
    exact skipComps_fuel h _ _ _ (by omega) (by omega)
  · simp only [hk, if_false]


/-! ## hypotheses of the context theorem -/

def startLt (p : NProg) (pos : Pos) (s : Nat) : Bool :=
  match p.scopes[s]? with
  | some sc => decide (sc.start < pos)
  | none => false

/-- the first definition of `chain` (innermost first) that starts before `pos`, else the module -/
def firstDefBefore (p : NProg) (pos : Pos) (chain : List Nat) : Nat :=
  (chain.find? (startLt p pos)).getD 0

/-- the lambda `t` does not sit in the header (default, annotation, base) of the `def` / `class`
that is its `parent_scope`: `create_context(lambda node)` is then that scope itself, and the
`parent()` step of the lambda's name lands on the next named context of the chain -/
def LamOK (p : NProg) (t : Nat) : Bool :=
  match p.scopes[t]? with
  | none => false
  | some sc => scopeOfNode p sc.start sc.pscope false == sc.pscope

/-- every lambda between scope `c` and the first `def` / `class` / module above it is `LamOK` -/
def lamSegOK (p : NProg) : Nat → Nat → Bool
  | 0, _ => false
  | f + 1, c =>
    match p.kind c with
    | .module | .function | .klass => true
    | .lambda => LamOK p c && lamSegOK p f (p.pscope c)
    | .comp => lamSegOK p f (p.pscope c)

/-- no definition of the chain that starts before `pos` has its statement (`async def`: the
`async` keyword) starting at or right of `pos`'s column -/
def noDedent (p : NProg) (pos : Pos) (chain : List Nat) : Bool :=
  chain.all fun s =>
    match p.scopes[s]? with
    | some sc => !decide (sc.start < pos) || decide (sc.stmt.col < pos.col)
    | none => true

/-- hypothesis of `context_is_innermost_body_partial` for the chosen leaf: the position is on the
leaf (not in a prefix) and the statement of every enclosing definition starts left of the
position's column -/
def LeafHyp (p : NProg) (pos : Pos) (l : Leaf) : Bool :=
  decide (l.start ≤ pos) && decide (pos ≤ l.stop) &&
  noDedent p pos (defChain p p.fuel l.pscope)

def ContextHyp (p : NProg) (pos : Pos) : Bool :=
  match chooseLeaf p pos with
  | .ok i =>
    (match p.leaves[i]? with
     | some l => LeafHyp p pos l
     | none => false)
  | _ => false

/-- positional part of well-formedness: a `def` / `class` keyword precedes its colon and follows
the start of the `def` / `class` it sits in; a leaf that starts in a header ends in the header;
the innermost definition around a leaf starts at or before it, and the leaf that starts where the
definition starts is its keyword; a leaf below a lambda that sits in the header of a `def` /
`class` lies in that header itself -/
def WFL (p : NProg) : Bool :=
  (p.scopes.all fun sc => !(sc.kind == .function || sc.kind == .klass) ||
    (decide (sc.start < sc.colon) &&
      (match p.scopes[sc.pscope]? with
       | some d => !(d.kind == .function || d.kind == .klass) || decide (d.start < sc.start)
       | none => true))) &&
  (p.leaves.all fun l =>
    (match p.scopes[l.pscope]? with
     | some sc => !(sc.kind == .function || sc.kind == .klass) || !decide (l.start < sc.colon) ||
         decide (l.stop ≤ sc.suite)
     | none => true) &&
    (match (defChain p p.fuel l.pscope).head? with
     | some n =>
       (match p.scopes[n]? with
        | some sc => decide (sc.start ≤ l.start) &&
            (!(sc.start == l.start) || (l.pscope == n && !l.isParamName))
        | none => false)
     | none => true) &&
    (lamSegOK p p.fuel l.pscope ||
      (match (defChain p p.fuel l.pscope).head? with
       | some n =>
         (match p.scopes[n]? with
          | some sc => decide (sc.start < l.start) && decide (l.stop ≤ sc.suite)
          | none => false)
       | none => false)))

def WF (p : NProg) : Bool := WFS p && WFL p

theorem lamSegOK_fuel {p : NProg} (h : WFS p = true) :
    ∀ (s f g : Nat), s < f → s < g → lamSegOK p f s = lamSegOK p g s := by
  intro s
  induction s using Nat.strongRecOn with
  | _ s ih =>
    intro f g hf hg
    cases f with
    | zero => omega
    | succ f =>
      cases g with
      | zero => omega
      | succ g =>
        unfold lamSegOK
        cases hk : p.kind s with
        | module => rfl
        | function => rfl
        | klass => rfl
        | lambda =>
          have := WFS.pscope_lt h (s := s) (by rw [hk]; simp)
          simp only
          rw [ih _ this.1 f g (by omega) (by omega)]
        | comp =>
          have := WFS.pscope_lt h (s := s) (by rw [hk]; simp)
          simp only
          rw [ih _ this.1 f g (by omega) (by omega)]

theorem lamSegOK_eq {p : NProg} (h : WFS p = true) (s : Nat) (hs : s < p.scopes.length) :
    lamSegOK p p.fuel s =
      match p.kind s with
      | .module | .function | .klass => true
      | .lambda => LamOK p s && lamSegOK p p.fuel (p.pscope s)
      | .comp => lamSegOK p p.fuel (p.pscope s) := by
  have hf : p.fuel = p.scopes.length + 1 := rfl
  conv => lhs; rw [hf]; unfold lamSegOK
  cases hk : p.kind s with
  | module => rfl
  | function => rfl
  | klass => rfl
  | lambda =>
    have := WFS.pscope_lt h (s := s) (by rw [hk]; simp)
    simp only
    rw [lamSegOK_fuel h _ p.scopes.length p.fuel (by omega) (by rw [hf]; omega)]
  | comp =>
    have := WFS.pscope_lt h (s := s) (by rw [hk]; simp)
    simp only
    rw [lamSegOK_fuel h _ p.scopes.length p.fuel (by omega) (by rw [hf]; omega)]

theorem defFrom_eq_head (p : NProg) : ∀ (f s : Nat), defFrom p f s = (defChain p f s).head? := by
  intro f
  induction f with
  | zero => intro s; rfl
  | succ f ih =>
    intro s
    unfold defFrom defChain
    cases hk : p.kind s <;> simp [ih]

theorem mem_defChain_isDef (p : NProg) : ∀ (f s n : Nat), n ∈ defChain p f s → p.isDef n = true := by
  intro f
  induction f with
  | zero => intro s n h; simp [defChain] at h
  | succ f ih =>
    intro s n h
    unfold defChain at h
    cases hk : p.kind s with
    | module => simp [hk] at h
    | function =>
      simp only [hk, List.mem_cons] at h
      rcases h with h | h
      · subst h; simp [NProg.isDef, hk]
      · exact ih _ _ h
    | klass =>
      simp only [hk, List.mem_cons] at h
      rcases h with h | h
      · subst h; simp [NProg.isDef, hk]
      · exact ih _ _ h
    | lambda => simp only [hk] at h; exact ih _ _ h
    | comp => simp only [hk] at h; exact ih _ _ h

theorem isDef_scope {p : NProg} {n : Nat} (h : p.isDef n = true) :
    ∃ sc, p.scopes[n]? = some sc ∧ (sc.kind == .function || sc.kind == .klass) = true := by
  unfold NProg.isDef NProg.kind at h
  cases hs : p.scopes[n]? with
  | none => simp [hs] at h
  | some sc => rw [hs] at h; exact ⟨sc, rfl, h⟩

theorem kind_of_scope {p : NProg} {n : Nat} {sc : NScope} (h : p.scopes[n]? = some sc) :
    p.kind n = sc.kind := by
  unfold NProg.kind; rw [h]

theorem pscope_of_scope {p : NProg} {n : Nat} {sc : NScope} (h : p.scopes[n]? = some sc) :
    p.pscope n = sc.pscope := by
  unfold NProg.pscope; rw [h]

/-- what `skipComps` does along the chain -/
theorem skipComps_spec {p : NProg} (h : WFS p = true) :
    ∀ x, x < p.scopes.length →
      skipComps p p.fuel x ≤ x ∧ p.kind (skipComps p p.fuel x) ≠ .comp ∧
      defChain p p.fuel (skipComps p p.fuel x) = defChain p p.fuel x ∧
      (lamSegOK p p.fuel x = true → lamSegOK p p.fuel (skipComps p p.fuel x) = true) := by
  intro x
  induction x using Nat.strongRecOn with
  | _ x ih =>
    intro hx
    rw [skipComps_eq h x hx]
    by_cases hk : p.kind x = .comp
    · have hlt := WFS.pscope_lt h (s := x) (by rw [hk]; simp)
      simp only [hk, if_true]
      have := ih _ hlt.1 (by omega)
      refine ⟨by omega, this.2.1, ?_, ?_⟩
      · rw [this.2.2.1, defChain_eq h x hx, hk]
      · intro hl
        rw [lamSegOK_eq h x hx, hk] at hl
        exact this.2.2.2 hl
    · rw [if_neg hk]
      exact ⟨Nat.le_refl _, hk, rfl, fun hl => hl⟩

theorem skipComps_noncomp {p : NProg} {x : Nat} (hk : p.kind x ≠ .comp) :
    skipComps p p.fuel x = x := by
  have hf : p.fuel = p.scopes.length + 1 := rfl
  rw [hf]; unfold skipComps; simp [hk]

theorem fromScope_noncomp {p : NProg} {x : Nat} (st : Pos) (hk : p.kind x ≠ .comp) :
    fromScope p st p.fuel x = x := by
  have hf : p.fuel = p.scopes.length + 1 := rfl
  rw [hf]; unfold fromScope
  cases hs : p.scopes[x]? with
  | none => rfl
  | some sc =>
    have : sc.kind ≠ .comp := by rw [← kind_of_scope hs]; exact hk
    simp [this]

/-- `from_scope_node` only moves up through comprehensions -/
theorem skipComps_fromScope {p : NProg} (h : WFS p = true) (st : Pos) :
    ∀ (f x : Nat), x < p.scopes.length →
      skipComps p p.fuel (fromScope p st f x) = skipComps p p.fuel x := by
  intro f
  induction f with
  | zero => intro x _; rfl
  | succ f ih =>
    intro x hx
    unfold fromScope
    have hs : p.scopes[x]? = some p.scopes[x] := List.getElem?_eq_getElem hx
    rw [hs]
    simp only
    by_cases hk : (p.scopes[x].kind == Kind.comp) = true
    · simp only [hk, if_true]
      have hk' : p.kind x = .comp := by rw [kind_of_scope hs]; simpa using hk
      have hlt := WFS.pscope_lt h (s := x) (by rw [hk']; simp)
      rw [pscope_of_scope hs] at hlt
      split
      · rw [ih _ (by omega)]
        rw [skipComps_eq h x hx, hk', if_pos rfl, pscope_of_scope hs]
      · rfl
    · simp only [hk]
      rfl


/-- the `parent()` step of the name of a lambda that does not sit in a header: the next named
context of the chain (class bodies included) -/
theorem parentOfScope_lambda {p : NProg} (h : WFS p = true) {c : Nat} (hc : c < p.scopes.length)
    (hk : p.kind c = .lambda) (hok : LamOK p c = true) :
    parentOfScope p c = some (skipComps p p.fuel (p.pscope c)) := by
  have hs : p.scopes[c]? = some p.scopes[c] := List.getElem?_eq_getElem hc
  have hlt := WFS.pscope_lt h (s := c) (by rw [hk]; simp)
  unfold LamOK at hok
  rw [hs] at hok
  simp only [beq_iff_eq] at hok
  unfold parentOfScope
  rw [hk]
  simp only
  unfold nodeCtx
  rw [hs]
  simp only
  unfold createContext
  rw [hok, skipComps_fromScope h _ _ _ (by rw [← pscope_of_scope hs]; omega), pscope_of_scope hs]

theorem firstDefBefore_cons_hit {p : NProg} {pos : Pos} {c : Nat} {rest : List Nat}
    (h : startLt p pos c = true) : firstDefBefore p pos (c :: rest) = c := by
  simp [firstDefBefore, List.find?, h]

theorem firstDefBefore_cons_miss {p : NProg} {pos : Pos} {c : Nat} {rest : List Nat}
    (h : startLt p pos c = false) : firstDefBefore p pos (c :: rest) = firstDefBefore p pos rest := by
  simp [firstDefBefore, List.find?, h]

/-- the indentation loop, started on a named context `c` of the chain: under the hypotheses it
stops at the innermost definition -/
theorem walkUp_chain {p : NProg} (h : WFS p = true) (pos : Pos) :
    ∀ c, c < p.scopes.length → p.kind c ≠ .comp → lamSegOK p p.fuel c = true →
      noDedent p pos (defChain p p.fuel c) = true →
      (∀ n, (defChain p p.fuel c).head? = some n → startLt p pos n = true) →
      ∀ f, c < f → walkUp p pos.col f c = .ok (firstDefBefore p pos (defChain p p.fuel c)) := by
  intro c
  induction c using Nat.strongRecOn with
  | _ c ih =>
    intro hc hnc hlam hnd hhead f hf
    cases f with
    | zero => omega
    | succ f =>
      have hs : p.scopes[c]? = some p.scopes[c] := List.getElem?_eq_getElem hc
      have hkind := kind_of_scope hs
      unfold walkUp
      rw [hs]
      simp only
      cases hk : p.kind c with
      | comp => exact absurd hk hnc
      | module =>
        have hz := WFS.module_zero h hc hk
        rw [defChain_eq h c hc, hk]
        have : (p.scopes[c].kind == Kind.module) = true := by rw [← hkind, hk]; rfl
        simp only [this, if_true]
        subst hz
        rfl
      | function =>
        rw [defChain_eq h c hc, hk] at hnd hhead ⊢
        simp only at hnd hhead ⊢
        have hst := hhead c rfl
        have hcol : decide (p.scopes[c].stmt.col < pos.col) = true := by
          simp only [noDedent, List.all_cons, Bool.and_eq_true, hs] at hnd
          have h1 := hnd.1
          simp only [startLt, hs] at hst
          simpa [hst] using h1
        have hm : (p.scopes[c].kind == Kind.module) = false := by rw [← hkind, hk]; rfl
        have hd : (p.scopes[c].kind == Kind.function || p.scopes[c].kind == Kind.klass) = true := by
          rw [← hkind, hk]; rfl
        simp only [hm, hd, hcol, Bool.and_self, if_true, Bool.false_eq_true, if_false]
        rw [firstDefBefore_cons_hit hst]
      | klass =>
        rw [defChain_eq h c hc, hk] at hnd hhead ⊢
        simp only at hnd hhead ⊢
        have hst := hhead c rfl
        have hcol : decide (p.scopes[c].stmt.col < pos.col) = true := by
          simp only [noDedent, List.all_cons, Bool.and_eq_true, hs] at hnd
          have h1 := hnd.1
          simp only [startLt, hs] at hst
          simpa [hst] using h1
        have hm : (p.scopes[c].kind == Kind.module) = false := by rw [← hkind, hk]; rfl
        have hd : (p.scopes[c].kind == Kind.function || p.scopes[c].kind == Kind.klass) = true := by
          rw [← hkind, hk]; rfl
        simp only [hm, hd, hcol, Bool.and_self, if_true, Bool.false_eq_true, if_false]
        rw [firstDefBefore_cons_hit hst]
      | lambda =>
        have hlt := WFS.pscope_lt h (s := c) (by rw [hk]; simp)
        have hm : (p.scopes[c].kind == Kind.module) = false := by rw [← hkind, hk]; rfl
        have hd : (p.scopes[c].kind == Kind.function || p.scopes[c].kind == Kind.klass) = false := by
          rw [← hkind, hk]; rfl
        simp only [hm, hd, Bool.false_and, Bool.false_eq_true, if_false]
        rw [lamSegOK_eq h c hc, hk] at hlam
        simp only [Bool.and_eq_true] at hlam
        have hpar : parentOfScope p c = some (skipComps p p.fuel (p.pscope c)) :=
          parentOfScope_lambda h hc hk hlam.1
        rw [hpar]
        simp only
        have hp : p.pscope c < p.scopes.length := by omega
        have sp := skipComps_spec h (p.pscope c) hp
        have hdc : defChain p p.fuel c = defChain p p.fuel (p.pscope c) := by
          rw [defChain_eq h c hc, hk]
        rw [hdc, ← sp.2.2.1] at hnd hhead ⊢
        exact ih _ (by omega) (by omega) sp.2.1 (sp.2.2.2 hlam.2) hnd hhead f (by omega)


/-! ## parent chains -/

/-- the chain seen from its own head -/
theorem defChain_head {p : NProg} (h : WFS p = true) :
    ∀ x, x < p.scopes.length → ∀ n, (defChain p p.fuel x).head? = some n →
      defChain p p.fuel n = defChain p p.fuel x ∧ n ≤ x := by
  intro x
  induction x using Nat.strongRecOn with
  | _ x ih =>
    intro hx n hn
    rw [defChain_eq h x hx] at hn ⊢
    cases hk : p.kind x with
    | module => simp [hk] at hn
    | function =>
      simp only [hk, List.head?_cons, Option.some.injEq] at hn ⊢
      subst hn
      rw [defChain_eq h x hx, hk]
      exact ⟨rfl, Nat.le_refl _⟩
    | klass =>
      simp only [hk, List.head?_cons, Option.some.injEq] at hn ⊢
      subst hn
      rw [defChain_eq h x hx, hk]
      exact ⟨rfl, Nat.le_refl _⟩
    | lambda =>
      have hlt := WFS.pscope_lt h (s := x) (by rw [hk]; simp)
      simp only [hk] at hn ⊢
      have := ih _ hlt.1 (by omega) n hn
      exact ⟨this.1, by omega⟩
    | comp =>
      have hlt := WFS.pscope_lt h (s := x) (by rw [hk]; simp)
      simp only [hk] at hn ⊢
      have := ih _ hlt.1 (by omega) n hn
      exact ⟨this.1, by omega⟩

/-- iterating `parent()` from the name of a `def` / `class` / module context visits exactly the
definitions of the chain, then the module -/
theorem chainFrom_def {p : NProg} (h : WFS p = true) :
    ∀ c, c < p.scopes.length → (p.isDef c = true ∨ p.kind c = .module) →
      ∀ f, c < f → chainFrom p f c = defChain p p.fuel c ++ [0] := by
  intro c
  induction c using Nat.strongRecOn with
  | _ c ih =>
    intro hc hk f hf
    cases f with
    | zero => omega
    | succ f =>
      unfold chainFrom
      rcases hk with hk | hk
      · have hk' : p.kind c = .function ∨ p.kind c = .klass := by
          unfold NProg.isDef at hk
          cases hkk : p.kind c <;> simp [hkk] at hk ⊢
        have hne : p.kind c ≠ .module := by rcases hk' with h1 | h1 <;> rw [h1] <;> simp
        have hlt := WFS.pscope_lt h hne
        have hpar : parentOfScope p c = some (defOrModule p (p.pscope c)) := by
          unfold parentOfScope
          rcases hk' with h1 | h1 <;> rw [h1]
        rw [hpar]
        simp only
        have hch : defChain p p.fuel c = c :: defChain p p.fuel (p.pscope c) := by
          rw [defChain_eq h c hc]
          rcases hk' with h1 | h1 <;> rw [h1]
        rw [hch]
        unfold defOrModule
        rw [defFrom_eq_head]
        cases hh : (defChain p p.fuel (p.pscope c)).head? with
        | none =>
          simp only
          have hnil : defChain p p.fuel (p.pscope c) = [] := by
            cases hl : defChain p p.fuel (p.pscope c) with
            | nil => rfl
            | cons a r => simp [hl] at hh
          rw [hnil]
          have := ih 0 (by omega) (WFS.nonempty h) (Or.inr (WFS.kind0 h)) f (by omega)
          rw [this, defChain_eq h 0 (WFS.nonempty h), WFS.kind0 h]
          rfl
        | some n =>
          simp only
          have hd := defChain_head h _ (by omega) n hh
          have hdn := mem_defChain_isDef p p.fuel _ _ (List.mem_of_mem_head? hh)
          have := ih n (by omega) (by omega) (Or.inl hdn) f (by omega)
          rw [this, hd.1]
          rfl
      · have hz := WFS.module_zero h hc hk
        subst hz
        have hpar : parentOfScope p 0 = none := by unfold parentOfScope; rw [hk]
        rw [hpar, defChain_eq h 0 hc, hk]
        rfl

/-! ## qualified names -/

/-- `s` hangs below classes only, and each `def` / `class` on the way sits in the body (not the
header) of the one above: `create_context(node) = parent_scope(node)` -/
def classPath (p : NProg) : Nat → Nat → Bool
  | 0, _ => false
  | f + 1, s =>
    nodeCtx p s == p.pscope s &&
      (match p.kind (p.pscope s) with
       | .module => true
       | .klass => classPath p f (p.pscope s)
       | _ => false)

theorem ctxQual_eq_qualname (p : NProg) :
    ∀ (f s : Nat), classPath p f s = true →
      (p.kind s = .klass ∨ p.kind s = .function ∨ p.kind s = .lambda) →
      ctxQual p f s = some (qualname p f s) := by
  intro f
  induction f with
  | zero => intro s h; simp [classPath] at h
  | succ f ih =>
    intro s hp hk
    unfold classPath at hp
    simp only [Bool.and_eq_true, beq_iff_eq] at hp
    obtain ⟨hctx, hrest⟩ := hp
    unfold ctxQual qualname
    have hq : ∀ (x : Nat), (p.kind x = .module ∨ p.kind x = .klass) → skipComps p p.fuel x = x := by
      intro x hx
      apply skipComps_noncomp
      rcases hx with h1 | h1 <;> rw [h1] <;> simp
    rcases hk with hk | hk | hk <;> rw [hk] <;> simp only [hctx] <;>
    · cases hpk : p.kind (p.pscope s) with
      | module =>
        rw [hq _ (Or.inl hpk)]
        simp [hpk]
      | klass =>
        rw [hpk] at hrest
        simp only at hrest
        rw [hq _ (Or.inr hpk)]
        simp only [hpk]
        rw [ih _ hrest (Or.inl hpk)]
        rfl
      | function => rw [hpk] at hrest; simp at hrest
      | lambda => rw [hpk] at hrest; simp at hrest
      | comp => rw [hpk] at hrest; simp at hrest

theorem applyMapping_unmapped (mapping : List (String × String)) (l : List String)
    (h : ∀ x, l.head? = some x → mapping.lookup x = none) : applyMapping mapping l = l := by
  cases l with
  | nil => rfl
  | cons a r =>
    have := h a rfl
    simp only [applyMapping, this]

/-- the components jedi produces are names of scopes of the table: never `<locals>` -/
theorem ctxQual_names (p : NProg) :
    ∀ (f s : Nat) (q : List String), ctxQual p f s = some q → ∀ x ∈ q, ∃ t, x = p.sname t := by
  intro f
  induction f with
  | zero => intro s q h; simp [ctxQual] at h
  | succ f ih =>
    intro s q h x hx
    unfold ctxQual at h
    cases hk : p.kind s with
    | module => simp [hk] at h; subst h; simp at hx
    | comp => simp [hk] at h; subst h; simp at hx
    | klass | function | lambda =>
      simp only [hk] at h
      cases hpk : p.kind (nodeCtx p s) with
      | klass =>
        simp only [hpk] at h
        cases hq : ctxQual p f (nodeCtx p s) with
        | none => simp [hq] at h
        | some q' =>
          simp only [hq, Option.map_some, Option.some.injEq] at h
          subst h
          rcases List.mem_append.mp hx with h1 | h1
          · exact ih _ _ hq x h1
          · simp only [List.mem_singleton] at h1; exact ⟨s, h1⟩
      | module =>
        simp only [hpk, Option.some.injEq] at h
        subst h
        simp only [List.mem_singleton] at hx
        exact ⟨s, hx⟩
      | function => simp [hpk] at h
      | lambda => simp [hpk] at h
      | comp => simp [hpk] at h


deriving instance DecidableEq for Except

/-! ## positional containment vs the chain -/

theorem mem_defChain_le {p : NProg} (h : WFS p = true) :
    ∀ x, x < p.scopes.length → ∀ n ∈ defChain p p.fuel x, n ≤ x := by
  intro x
  induction x using Nat.strongRecOn with
  | _ x ih =>
    intro hx n hn
    rw [defChain_eq h x hx] at hn
    cases hk : p.kind x with
    | module => simp [hk] at hn
    | function =>
      have hlt := WFS.pscope_lt h (s := x) (by rw [hk]; simp)
      simp only [hk, List.mem_cons] at hn
      rcases hn with h1 | h1
      · omega
      · have := ih _ hlt.1 (by omega) n h1; omega
    | klass =>
      have hlt := WFS.pscope_lt h (s := x) (by rw [hk]; simp)
      simp only [hk, List.mem_cons] at hn
      rcases hn with h1 | h1
      · omega
      · have := ih _ hlt.1 (by omega) n h1; omega
    | lambda =>
      have hlt := WFS.pscope_lt h (s := x) (by rw [hk]; simp)
      simp only [hk] at hn
      have := ih _ hlt.1 (by omega) n hn; omega
    | comp =>
      have hlt := WFS.pscope_lt h (s := x) (by rw [hk]; simp)
      simp only [hk] at hn
      have := ih _ hlt.1 (by omega) n hn; omega

/-- the chain is strictly decreasing in table order: innermost first -/
theorem defChain_sorted {p : NProg} (h : WFS p = true) :
    ∀ x, x < p.scopes.length → (defChain p p.fuel x).Pairwise (· > ·) := by
  intro x
  induction x using Nat.strongRecOn with
  | _ x ih =>
    intro hx
    rw [defChain_eq h x hx]
    cases hk : p.kind x with
    | module => simp
    | function =>
      have hlt := WFS.pscope_lt h (s := x) (by rw [hk]; simp)
      simp only [List.pairwise_cons]
      refine ⟨?_, ih _ hlt.1 (by omega)⟩
      intro n hn
      have := mem_defChain_le h _ (by omega) n hn
      omega
    | klass =>
      have hlt := WFS.pscope_lt h (s := x) (by rw [hk]; simp)
      simp only [List.pairwise_cons]
      refine ⟨?_, ih _ hlt.1 (by omega)⟩
      intro n hn
      have := mem_defChain_le h _ (by omega) n hn
      omega
    | lambda =>
      have hlt := WFS.pscope_lt h (s := x) (by rw [hk]; simp)
      exact ih _ hlt.1 (by omega)
    | comp =>
      have hlt := WFS.pscope_lt h (s := x) (by rw [hk]; simp)
      exact ih _ hlt.1 (by omega)

theorem enclosers_sorted (p : NProg) (pos : Pos) : (enclosers p pos).Pairwise (· < ·) := by
  unfold enclosers
  have h1 : (p.scopes.zipIdx.map (·.2)).Pairwise (· < ·) := by
    rw [List.zipIdx_map_snd]
    exact List.pairwise_lt_range'
  exact h1.sublist ((List.filter_sublist (l := p.scopes.zipIdx)).map (·.2))

/-- the tree nests like the text around leaf `l`: the `def` / `class` statements that contain
`pos` are the definitions of the leaf's chain that start before `pos` (decidable; evaluated by
the driver for every table and position) -/
def TreeMatchesText (p : NProg) (pos : Pos) (l : Leaf) : Bool :=
  let e := enclosers p pos
  let c := defChain p p.fuel l.pscope
  (List.range p.scopes.length).all fun s =>
    (decide (s ∈ e)) == (decide (s ∈ c) && startLt p pos s)

theorem mem_enclosers_lt (p : NProg) (pos : Pos) (s : Nat) (h : s ∈ enclosers p pos) :
    s < p.scopes.length := by
  unfold enclosers at h
  simp only [List.mem_map, List.mem_filter] at h
  obtain ⟨⟨sc, i⟩, ⟨hm, _⟩, rfl⟩ := h
  rw [List.mem_zipIdx_iff_getElem?] at hm
  simp only [Nat.zero_add] at hm
  rcases List.getElem?_eq_some_iff.mp hm with ⟨hl, _⟩
  simpa using hl

theorem sorted_getLast {l : List Nat} (hs : l.Pairwise (· < ·)) {x : Nat} (hx : x ∈ l)
    (hmax : ∀ y ∈ l, y ≤ x) : l.getLast? = some x := by
  cases hl : l.getLast? with
  | none =>
    rw [List.getLast?_eq_none_iff] at hl
    subst hl; simp at hx
  | some z =>
    obtain ⟨ys, hys⟩ := List.getLast?_eq_some_iff.mp hl
    subst hys
    have hz := hmax z (by simp)
    rcases List.mem_append.mp hx with h1 | h1
    · have := (List.pairwise_append.mp hs).2.2 x h1 z (by simp)
      omega
    · simp only [List.mem_singleton] at h1
      rw [h1]

/-- order-theoretic half of the positional statement: when the tree nests like the text, the
innermost containing definition is the first definition of the chain that starts before `pos` -/
theorem innermostBody_eq_firstDefBefore {p : NProg} (h : WFS p = true) (pos : Pos) (l : Leaf)
    (hl : l.pscope < p.scopes.length) (hm : TreeMatchesText p pos l = true) :
    innermostBody p pos = firstDefBefore p pos (defChain p p.fuel l.pscope) := by
  have hiff : ∀ s, s ∈ enclosers p pos ↔
      (s ∈ defChain p p.fuel l.pscope ∧ startLt p pos s = true) := by
    intro s
    unfold TreeMatchesText at hm
    simp only [List.all_eq_true, List.mem_range, beq_iff_eq] at hm
    by_cases hs : s < p.scopes.length
    · have := hm s hs
      constructor
      · intro h1
        have h2 : decide (s ∈ enclosers p pos) = true := by simpa using h1
        rw [h2] at this
        simpa using this.symm
      · intro h1
        have h2 : (decide (s ∈ defChain p p.fuel l.pscope) && startLt p pos s) = true := by
          simp [h1.1, h1.2]
        rw [h2] at this
        simpa using this
    · constructor
      · intro h1; exact absurd (mem_enclosers_lt p pos s h1) hs
      · intro h1
        have := mem_defChain_le h _ hl s h1.1
        omega
  unfold innermostBody firstDefBefore
  cases hf : (defChain p p.fuel l.pscope).find? (startLt p pos) with
  | none =>
    have hnil : enclosers p pos = [] := by
      cases he : enclosers p pos with
      | nil => rfl
      | cons a r =>
        have ha : a ∈ enclosers p pos := by rw [he]; simp
        have := (hiff a).mp ha
        rw [List.find?_eq_none] at hf
        exact absurd this.2 (by simpa using hf a this.1)
    rw [hnil]; rfl
  | some x =>
    obtain ⟨hpx, as, bs, hC, has⟩ := List.find?_eq_some_iff_append.mp hf
    have hxmem : x ∈ defChain p p.fuel l.pscope := by rw [hC]; simp
    have hxE : x ∈ enclosers p pos := (hiff x).mpr ⟨hxmem, hpx⟩
    have hsorted := defChain_sorted h _ hl
    rw [hC] at hsorted
    have hmax : ∀ y ∈ enclosers p pos, y ≤ x := by
      intro y hy
      obtain ⟨hyC, hyP⟩ := (hiff y).mp hy
      rw [hC] at hyC
      rcases List.mem_append.mp hyC with h1 | h1
      · have := has y h1
        simp [hyP] at this
      · rcases List.mem_cons.mp h1 with h2 | h2
        · omega
        · have := (List.pairwise_cons.mp (List.pairwise_append.mp hsorted).2.1).1 y h2
          omega
    rw [sorted_getLast (enclosers_sorted p pos) hxE hmax]

/-- where the `parent()` chain of a definition starts on the tree: a `def` / `class` name at the
scope its statement sits in, a parameter at its own scope, an assigned name at its own scope or —
directly in a `def` / `class` header — at the scope around that definition -/
def chainStart (p : NProg) (l : Leaf) : Nat :=
  match l.role with
  | .defName s => p.pscope s
  | .bind => scopeOfNode p l.start l.pscope l.isParamName
  | _ => l.pscope

/-- the leaf is a definition `get_names` lists (`def` / `class` name of a scope of the table,
parameter, assigned name) -/
def IsDefinition (p : NProg) (i : Nat) : Bool :=
  match p.leaves[i]? with
  | none => false
  | some l =>
    match l.role with
    | .defName s => decide (s < p.scopes.length) && p.isDef s
    | .param => true
    | .bind => true
    | _ => false

/-- hypothesis of `parent_chain_eq_enclosing_partial`: a definition; for an assigned name no
lambda between it and the first `def` / `class` around it sits in the header of that definition -/
def ChainHyp (p : NProg) (i : Nat) : Bool :=
  IsDefinition p i &&
  (match p.leaves[i]? with
   | none => false
   | some l =>
     match l.role with
     | .bind => lamSegOK p p.fuel (chainStart p l)
     | _ => true)

/-- hypothesis of `parent_chain_exact`: a definition whose first named context is not a lambda -/
def NoLambdaHyp (p : NProg) (i : Nat) : Bool :=
  IsDefinition p i &&
  (match p.leaves[i]? with
   | none => false
   | some l =>
     match l.role with
     | .bind => p.kind (skipComps p p.fuel (chainStart p l)) != .lambda
     | _ => true)

def notLambda (p : NProg) (s : Nat) : Bool := p.kind s != .lambda

theorem scopeOfNode_lt {p : NProg} (h : WFS p = true) (st : Pos) (s : Nat) (b : Bool)
    (hs : s < p.scopes.length) : scopeOfNode p st s b < p.scopes.length := by
  unfold scopeOfNode
  have hs' : p.scopes[s]? = some p.scopes[s] := List.getElem?_eq_getElem hs
  rw [hs']
  simp only
  split
  · rename_i hc
    simp only [Bool.and_eq_true, Bool.or_eq_true, beq_iff_eq] at hc
    have hne : p.kind s ≠ .module := by
      rw [kind_of_scope hs']
      rcases hc.1.1 with h1 | h1 <;> rw [h1] <;> simp
    have := WFS.pscope_lt h hne
    rw [pscope_of_scope hs'] at this
    omega
  · exact hs

theorem filter_notLambda_defChain {p : NProg} (h : WFS p = true) (x : Nat) :
    (defChain p p.fuel x ++ [0]).filter (notLambda p) = defChain p p.fuel x ++ [0] := by
  rw [List.filter_eq_self]
  intro s hs
  unfold notLambda
  rcases List.mem_append.mp hs with h1 | h1
  · have := mem_defChain_isDef p p.fuel x s h1
    unfold NProg.isDef at this
    cases hk : p.kind s <;> simp [hk] at this ⊢
  · simp only [List.mem_singleton] at h1
    subst h1
    rw [WFS.kind0 h]
    rfl

/-- iterating `parent()` from the first named context of scope `x`: the lambdas on the way to the
first `def` / `class` (none of them in its header), then exactly the definitions of the chain,
then the module -/
theorem chainFrom_filter {p : NProg} (h : WFS p = true) :
    ∀ x, x < p.scopes.length → lamSegOK p p.fuel x = true →
      ∀ f, x < f → (chainFrom p f (skipComps p p.fuel x)).filter (notLambda p) =
        defChain p p.fuel x ++ [0] := by
  intro x
  induction x using Nat.strongRecOn with
  | _ x ih =>
    intro hx hlam f hf
    have sp := skipComps_spec h x hx
    have hc : skipComps p p.fuel x < p.scopes.length := by omega
    cases hk : p.kind (skipComps p p.fuel x) with
    | comp => exact absurd hk sp.2.1
    | module =>
      rw [chainFrom_def h _ hc (Or.inr hk) f (by omega), sp.2.2.1]
      exact filter_notLambda_defChain h x
    | function =>
      rw [chainFrom_def h _ hc (Or.inl (by simp [NProg.isDef, hk])) f (by omega), sp.2.2.1]
      exact filter_notLambda_defChain h x
    | klass =>
      rw [chainFrom_def h _ hc (Or.inl (by simp [NProg.isDef, hk])) f (by omega), sp.2.2.1]
      exact filter_notLambda_defChain h x
    | lambda =>
      have hlamc := sp.2.2.2 hlam
      rw [lamSegOK_eq h _ hc, hk] at hlamc
      simp only [Bool.and_eq_true] at hlamc
      have hlt := WFS.pscope_lt h (s := skipComps p p.fuel x) (by rw [hk]; simp)
      cases f with
      | zero => omega
      | succ f =>
        unfold chainFrom
        rw [parentOfScope_lambda h hc hk hlamc.1]
        simp only
        have hnl : notLambda p (skipComps p p.fuel x) = false := by simp [notLambda, hk]
        rw [List.filter_cons_of_neg (by simp [hnl])]
        rw [ih _ (by omega) (by omega) hlamc.2 f (by omega)]
        rw [← sp.2.2.1, defChain_eq h _ hc, hk]

end JediModel.Nesting

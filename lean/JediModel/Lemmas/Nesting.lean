import JediModel.Model.Nesting
/-! Helper definitions (well-formedness, hypotheses) and lemmas for C18. -/
namespace JediModel.Nesting
open JediModel.Scopes (Kind)

/-! ## order on positions -/

theorem Pos.lt_def (a b : Pos) : a < b ↔ (a.line < b.line ∨ (a.line = b.line ∧ a.col < b.col)) := Iff.rfl
theorem Pos.le_def (a b : Pos) : a ≤ b ↔ (a.line < b.line ∨ (a.line = b.line ∧ a.col ≤ b.col)) := Iff.rfl

theorem Pos.ext_iff' (a b : Pos) : a = b ↔ (a.line = b.line ∧ a.col = b.col) := by
  cases a; cases b; simp

/-! ## well-formed tables -/

/-- structural part: scope 0 is the module, every other scope has a smaller `pscope` and is
not a module, a `def` / `class` sits directly in a `def` / `class` / module, leaves point into the
table -/
def WFS (p : NProg) : Bool :=
  (match p.scopes with
   | [] => false
   | s0 :: _ => s0.kind == .module) &&
  (p.scopes.zipIdx.all fun (s, i) => i == 0 || (decide (s.pscope < i) && s.kind != .module)) &&
  (p.scopes.all fun s => !(s.kind == .function || s.kind == .klass) ||
    (p.kind s.pscope == .module || p.isDef s.pscope)) &&
  (p.leaves.all fun l => decide (l.pscope < p.scopes.length))

theorem WFS.kind0 {p : NProg} (h : WFS p = true) : p.kind 0 = .module := by
  unfold WFS at h
  unfold NProg.kind
  cases hsc : p.scopes with
  | nil => simp [hsc] at h
  | cons s0 rest =>
    simp only [hsc, Bool.and_eq_true, beq_iff_eq] at h
    simp [h.1.1.1]

theorem WFS.nonempty {p : NProg} (h : WFS p = true) : 0 < p.scopes.length := by
  unfold WFS at h
  cases hsc : p.scopes with
  | nil => simp [hsc] at h
  | cons s0 rest => simp

theorem WFS.scope {p : NProg} (h : WFS p = true) {s : Nat} {sc : NScope}
    (hs : p.scopes[s]? = some sc) (h0 : s ≠ 0) : sc.pscope < s ∧ sc.kind ≠ .module := by
  unfold WFS at h
  simp only [Bool.and_eq_true, List.all_eq_true] at h
  have hmem : (sc, s) ∈ p.scopes.zipIdx := by
    rw [List.mem_zipIdx_iff_getElem?]
    simpa using hs
  have := h.1.1.2 (sc, s) hmem
  simp only [Bool.or_eq_true, beq_iff_eq, Bool.and_eq_true, decide_eq_true_eq, bne_iff_ne, ne_eq] at this
  rcases this with h1 | h1
  · exact absurd h1 h0
  · exact h1

theorem WFS.pscope_lt {p : NProg} (h : WFS p = true) {s : Nat} (h0 : p.kind s ≠ .module) :
    p.pscope s < s ∧ s < p.scopes.length := by
  unfold NProg.kind at h0
  unfold NProg.pscope
  cases hs : p.scopes[s]? with
  | none => simp [hs] at h0
  | some sc =>
    have hlt : s < p.scopes.length := by
      rcases List.getElem?_eq_some_iff.mp hs with ⟨hl, _⟩
      exact hl
    by_cases hz : s = 0
    · subst hz
      have := WFS.kind0 h
      unfold NProg.kind at this
      rw [hs] at this h0
      simp only at this h0
      exact absurd this h0
    · exact ⟨(WFS.scope h hs hz).1, hlt⟩

theorem WFS.module_zero {p : NProg} (h : WFS p = true) {s : Nat} (hs : s < p.scopes.length)
    (hk : p.kind s = .module) : s = 0 := by
  by_cases hz : s = 0
  · exact hz
  · have : p.scopes[s]? = some p.scopes[s] := List.getElem?_eq_getElem hs
    have h2 := (WFS.scope h this hz).2
    unfold NProg.kind at hk
    rw [this] at hk
    exact absurd hk h2

theorem WFS.def_parent {p : NProg} (h : WFS p = true) {s : Nat} (hd : p.isDef s = true) :
    p.kind (p.pscope s) = .module ∨ p.isDef (p.pscope s) = true := by
  unfold WFS at h
  simp only [Bool.and_eq_true, List.all_eq_true] at h
  unfold NProg.isDef NProg.kind at hd
  unfold NProg.pscope
  cases hs : p.scopes[s]? with
  | none => simp [hs] at hd
  | some sc =>
    rw [hs] at hd
    simp only at hd
    have := h.1.2 sc (List.mem_of_getElem? hs)
    simp only [hd, Bool.not_true, Bool.false_or, Bool.or_eq_true, beq_iff_eq] at this
    exact this

/-! ## fuel irrelevance along the `pscope` chain -/

theorem defChain_fuel {p : NProg} (h : WFS p = true) :
    ∀ (s f g : Nat), s < f → s < g → defChain p f s = defChain p g s := by
  intro s
  induction s using Nat.strongRecOn with
  | _ s ih =>
    intro f g hf hg
    cases f with
    | zero => omega
    | succ f =>
      cases g with
      | zero => omega
      | succ g =>
        unfold defChain
        cases hk : p.kind s with
        | module => rfl
        | function =>
          have := WFS.pscope_lt h (s := s) (by rw [hk]; simp)
          simp only
          rw [ih _ this.1 f g (by omega) (by omega)]
        | klass =>
          have := WFS.pscope_lt h (s := s) (by rw [hk]; simp)
          simp only
          rw [ih _ this.1 f g (by omega) (by omega)]
        | lambda =>
          have := WFS.pscope_lt h (s := s) (by rw [hk]; simp)
          simp only
          rw [ih _ this.1 f g (by omega) (by omega)]
        | comp =>
          have := WFS.pscope_lt h (s := s) (by rw [hk]; simp)
          simp only
          rw [ih _ this.1 f g (by omega) (by omega)]

theorem skipComps_fuel {p : NProg} (h : WFS p = true) :
    ∀ (s f g : Nat), s < f → s < g → skipComps p f s = skipComps p g s := by
  intro s
  induction s using Nat.strongRecOn with
  | _ s ih =>
    intro f g hf hg
    cases f with
    | zero => omega
    | succ f =>
      cases g with
      | zero => omega
      | succ g =>
        unfold skipComps
        by_cases hk : p.kind s = .comp
        · have := WFS.pscope_lt h (s := s) (by rw [hk]; simp)
          simp only [hk, if_true]
          exact ih _ this.1 f g (by omega) (by omega)
        · simp only [hk, if_false]

/-- unfolding equations at the canonical fuel -/
theorem defChain_eq {p : NProg} (h : WFS p = true) (s : Nat) (hs : s < p.scopes.length) :
    defChain p p.fuel s =
      match p.kind s with
      | .module => []
      | .function | .klass => s :: defChain p p.fuel (p.pscope s)
      | _ => defChain p p.fuel (p.pscope s) := by
  have hf : p.fuel = p.scopes.length + 1 := rfl
  rw [hf]
  conv => lhs; unfold defChain
  cases hk : p.kind s with
  | module => rfl
  | function =>
    have := WFS.pscope_lt h (s := s) (by rw [hk]; simp)
    simp only
    rw [defChain_fuel h _ p.scopes.length (p.scopes.length + 1) (by omega) (by omega)]
  | klass =>
    have := WFS.pscope_lt h (s := s) (by rw [hk]; simp)
    simp only
    rw [defChain_fuel h _ p.scopes.length (p.scopes.length + 1) (by omega) (by omega)]
  | lambda =>
    have := WFS.pscope_lt h (s := s) (by rw [hk]; simp)
    simp only
    rw [defChain_fuel h _ p.scopes.length (p.scopes.length + 1) (by omega) (by omega)]
  | comp =>
    have := WFS.pscope_lt h (s := s) (by rw [hk]; simp)
    simp only
    rw [defChain_fuel h _ p.scopes.length (p.scopes.length + 1) (by omega) (by omega)]

theorem skipComps_eq {p : NProg} (h : WFS p = true) (s : Nat) (hs : s < p.scopes.length) :
    skipComps p p.fuel s = if p.kind s = .comp then skipComps p p.fuel (p.pscope s) else s := by
  have hf : p.fuel = p.scopes.length + 1 := rfl
  rw [hf]
  conv => lhs; unfold skipComps
  by_cases hk : p.kind s = .comp
  · have := WFS.pscope_lt h (s := s) (by rw [hk]; simp)
    simp only [hk, if_true]
    exact skipComps_fuel h _ _ _ (by omega) (by omega)
  · simp only [hk, if_false]


/-! ## hypotheses of the context theorem -/

def startLt (p : NProg) (pos : Pos) (s : Nat) : Bool :=
  match p.scopes[s]? with
  | some sc => decide (sc.start < pos)
  | none => false

/-- the first definition of `chain` (innermost first) that starts before `pos`, else the module -/
def firstDefBefore (p : NProg) (pos : Pos) (chain : List Nat) : Nat :=
  (chain.find? (startLt p pos)).getD 0

/-- the `parent()` step of a lambda's name lands on the next named context of the chain
(false for a lambda whose context is a class body: `FunctionValue.from_context` skips it) -/
def LamOK (p : NProg) (t : Nat) : Bool :=
  (ctxParent p t).map (skipComps p p.fuel) == some (skipComps p p.fuel (p.pscope t))

/-- every lambda between scope `c` and the first `def` / `class` / module above it is `LamOK` -/
def lamSegOK (p : NProg) : Nat → Nat → Bool
  | 0, _ => false
  | f + 1, c =>
    match p.kind c with
    | .module | .function | .klass => true
    | .lambda => LamOK p c && lamSegOK p f (p.pscope c)
    | .comp => lamSegOK p f (p.pscope c)

/-- no definition of the chain that starts before `pos` starts at or right of `pos`'s column -/
def noDedent (p : NProg) (pos : Pos) (chain : List Nat) : Bool :=
  chain.all fun s =>
    match p.scopes[s]? with
    | some sc => !decide (sc.start < pos) || decide (sc.start.col < pos.col)
    | none => true

/-- hypothesis of `context_is_innermost_body_partial` for the chosen leaf: the position is on the
leaf (not in a prefix), every enclosing definition starts left of the position's column, and the
position is in a `def` / `class` header or no lambda on the way up sits directly in a class body -/
def LeafHyp (p : NProg) (pos : Pos) (l : Leaf) : Bool :=
  decide (l.start ≤ pos) && decide (pos ≤ l.stop) &&
  noDedent p pos (defChain p p.fuel l.pscope) &&
  ((headerOf p pos l).isSome || lamSegOK p p.fuel l.pscope)

def ContextHyp (p : NProg) (pos : Pos) : Bool :=
  match chooseLeaf p pos with
  | .ok i =>
    (match p.leaves[i]? with
     | some l => LeafHyp p pos l
     | none => false)
  | _ => false

/-- positional part of well-formedness: a `def` / `class` keyword precedes its colon and follows
the start of the `def` / `class` it sits in; a leaf that starts in a header ends in the header;
the innermost definition around a leaf starts at or before it, and the leaf that starts where the
definition starts is its keyword -/
def WFL (p : NProg) : Bool :=
  (p.scopes.all fun sc => !(sc.kind == .function || sc.kind == .klass) ||
    (decide (sc.start < sc.colon) &&
      (match p.scopes[sc.pscope]? with
       | some d => !(d.kind == .function || d.kind == .klass) || decide (d.start < sc.start)
       | none => true))) &&
  (p.leaves.all fun l =>
    (match p.scopes[l.pscope]? with
     | some sc => !(sc.kind == .function || sc.kind == .klass) || !decide (l.start < sc.colon) ||
         decide (l.stop ≤ sc.suite)
     | none => true) &&
    (match (defChain p p.fuel l.pscope).head? with
     | some n =>
       (match p.scopes[n]? with
        | some sc => decide (sc.start ≤ l.start) &&
            (!(sc.start == l.start) || (l.pscope == n && !l.isParamName))
        | none => false)
     | none => true))

def WF (p : NProg) : Bool := WFS p && WFL p

theorem lamSegOK_fuel {p : NProg} (h : WFS p = true) :
    ∀ (s f g : Nat), s < f → s < g → lamSegOK p f s = lamSegOK p g s := by
  intro s
  induction s using Nat.strongRecOn with
  | _ s ih =>
    intro f g hf hg
    cases f with
    | zero => omega
    | succ f =>
      cases g with
      | zero => omega
      | succ g =>
        unfold lamSegOK
        cases hk : p.kind s with
        | module => rfl
        | function => rfl
        | klass => rfl
        | lambda =>
          have := WFS.pscope_lt h (s := s) (by rw [hk]; simp)
          simp only
          rw [ih _ this.1 f g (by omega) (by omega)]
        | comp =>
          have := WFS.pscope_lt h (s := s) (by rw [hk]; simp)
          simp only
          rw [ih _ this.1 f g (by omega) (by omega)]

theorem lamSegOK_eq {p : NProg} (h : WFS p = true) (s : Nat) (hs : s < p.scopes.length) :
    lamSegOK p p.fuel s =
      match p.kind s with
      | .module | .function | .klass => true
      | .lambda => LamOK p s && lamSegOK p p.fuel (p.pscope s)
      | .comp => lamSegOK p p.fuel (p.pscope s) := by
  have hf : p.fuel = p.scopes.length + 1 := rfl
  conv => lhs; rw [hf]; unfold lamSegOK
  cases hk : p.kind s with
  | module => rfl
  | function => rfl
  | klass => rfl
  | lambda =>
    have := WFS.pscope_lt h (s := s) (by rw [hk]; simp)
    simp only
    rw [lamSegOK_fuel h _ p.scopes.length p.fuel (by omega) (by rw [hf]; omega)]
  | comp =>
    have := WFS.pscope_lt h (s := s) (by rw [hk]; simp)
    simp only
    rw [lamSegOK_fuel h _ p.scopes.length p.fuel (by omega) (by rw [hf]; omega)]

theorem defFrom_eq_head (p : NProg) : ∀ (f s : Nat), defFrom p f s = (defChain p f s).head? := by
  intro f
  induction f with
  | zero => intro s; rfl
  | succ f ih =>
    intro s
    unfold defFrom defChain
    cases hk : p.kind s <;> simp [ih]

theorem mem_defChain_isDef (p : NProg) : ∀ (f s n : Nat), n ∈ defChain p f s → p.isDef n = true := by
  intro f
  induction f with
  | zero => intro s n h; simp [defChain] at h
  | succ f ih =>
    intro s n h
    unfold defChain at h
    cases hk : p.kind s with
    | module => simp [hk] at h
    | function =>
      simp only [hk, List.mem_cons] at h
      rcases h with h | h
      · subst h; simp [NProg.isDef, hk]
      · exact ih _ _ h
    | klass =>
      simp only [hk, List.mem_cons] at h
      rcases h with h | h
      · subst h; simp [NProg.isDef, hk]
      · exact ih _ _ h
    | lambda => simp only [hk] at h; exact ih _ _ h
    | comp => simp only [hk] at h; exact ih _ _ h

theorem isDef_scope {p : NProg} {n : Nat} (h : p.isDef n = true) :
    ∃ sc, p.scopes[n]? = some sc ∧ (sc.kind == .function || sc.kind == .klass) = true := by
  unfold NProg.isDef NProg.kind at h
  cases hs : p.scopes[n]? with
  | none => simp [hs] at h
  | some sc => rw [hs] at h; exact ⟨sc, rfl, h⟩

theorem kind_of_scope {p : NProg} {n : Nat} {sc : NScope} (h : p.scopes[n]? = some sc) :
    p.kind n = sc.kind := by
  unfold NProg.kind; rw [h]

theorem pscope_of_scope {p : NProg} {n : Nat} {sc : NScope} (h : p.scopes[n]? = some sc) :
    p.pscope n = sc.pscope := by
  unfold NProg.pscope; rw [h]

/-- what `skipComps` does along the chain -/
theorem skipComps_spec {p : NProg} (h : WFS p = true) :
    ∀ x, x < p.scopes.length →
      skipComps p p.fuel x ≤ x ∧ p.kind (skipComps p p.fuel x) ≠ .comp ∧
      defChain p p.fuel (skipComps p p.fuel x) = defChain p p.fuel x ∧
      (lamSegOK p p.fuel x = true → lamSegOK p p.fuel (skipComps p p.fuel x) = true) := by
  intro x
  induction x using Nat.strongRecOn with
  | _ x ih =>
    intro hx
    rw [skipComps_eq h x hx]
    by_cases hk : p.kind x = .comp
    · have hlt := WFS.pscope_lt h (s := x) (by rw [hk]; simp)
      simp only [hk, if_true]
      have := ih _ hlt.1 (by omega)
      refine ⟨by omega, this.2.1, ?_, ?_⟩
      · rw [this.2.2.1, defChain_eq h x hx, hk]
      · intro hl
        rw [lamSegOK_eq h x hx, hk] at hl
        exact this.2.2.2 hl
    · rw [if_neg hk]
      exact ⟨Nat.le_refl _, hk, rfl, fun hl => hl⟩

theorem skipComps_noncomp {p : NProg} {x : Nat} (hk : p.kind x ≠ .comp) :
    skipComps p p.fuel x = x := by
  have hf : p.fuel = p.scopes.length + 1 := rfl
  rw [hf]; unfold skipComps; simp [hk]

theorem fromScope_noncomp {p : NProg} {x : Nat} (st : Pos) (hk : p.kind x ≠ .comp) :
    fromScope p st p.fuel x = x := by
  have hf : p.fuel = p.scopes.length + 1 := rfl
  rw [hf]; unfold fromScope
  cases hs : p.scopes[x]? with
  | none => rfl
  | some sc =>
    have : sc.kind ≠ .comp := by rw [← kind_of_scope hs]; exact hk
    simp [this]

/-- `from_scope_node` only moves up through comprehensions -/
theorem skipComps_fromScope {p : NProg} (h : WFS p = true) (st : Pos) :
    ∀ (f x : Nat), x < p.scopes.length →
      skipComps p p.fuel (fromScope p st f x) = skipComps p p.fuel x := by
  intro f
  induction f with
  | zero => intro x _; rfl
  | succ f ih =>
    intro x hx
    unfold fromScope
    have hs : p.scopes[x]? = some p.scopes[x] := List.getElem?_eq_getElem hx
    rw [hs]
    simp only
    by_cases hk : (p.scopes[x].kind == Kind.comp) = true
    · simp only [hk, if_true]
      have hk' : p.kind x = .comp := by rw [kind_of_scope hs]; simpa using hk
      have hlt := WFS.pscope_lt h (s := x) (by rw [hk']; simp)
      rw [pscope_of_scope hs] at hlt
      split
      · rw [ih _ (by omega)]
        rw [skipComps_eq h x hx, hk', if_pos rfl, pscope_of_scope hs]
      · rfl
    · simp only [hk]
      rfl


theorem firstDefBefore_cons_hit {p : NProg} {pos : Pos} {c : Nat} {rest : List Nat}
    (h : startLt p pos c = true) : firstDefBefore p pos (c :: rest) = c := by
  simp [firstDefBefore, List.find?, h]

theorem firstDefBefore_cons_miss {p : NProg} {pos : Pos} {c : Nat} {rest : List Nat}
    (h : startLt p pos c = false) : firstDefBefore p pos (c :: rest) = firstDefBefore p pos rest := by
  simp [firstDefBefore, List.find?, h]

/-- the indentation loop, started on a named context `c` of the chain: under the hypotheses it
stops at the innermost definition -/
theorem walkUp_chain {p : NProg} (h : WFS p = true) (pos : Pos) :
    ∀ c, c < p.scopes.length → p.kind c ≠ .comp → lamSegOK p p.fuel c = true →
      noDedent p pos (defChain p p.fuel c) = true →
      (∀ n, (defChain p p.fuel c).head? = some n → startLt p pos n = true) →
      ∀ f, c < f → walkUp p pos.col f c = .ok (firstDefBefore p pos (defChain p p.fuel c)) := by
  intro c
  induction c using Nat.strongRecOn with
  | _ c ih =>
    intro hc hnc hlam hnd hhead f hf
    cases f with
    | zero => omega
    | succ f =>
      have hs : p.scopes[c]? = some p.scopes[c] := List.getElem?_eq_getElem hc
      have hkind := kind_of_scope hs
      unfold walkUp
      rw [hs]
      simp only
      cases hk : p.kind c with
      | comp => exact absurd hk hnc
      | module =>
        have hz := WFS.module_zero h hc hk
        rw [defChain_eq h c hc, hk]
        have : (p.scopes[c].kind == Kind.module) = true := by rw [← hkind, hk]; rfl
        simp only [this, if_true]
        subst hz
        rfl
      | function =>
        rw [defChain_eq h c hc, hk] at hnd hhead ⊢
        simp only at hnd hhead ⊢
        have hst := hhead c rfl
        have hcol : decide (p.scopes[c].start.col < pos.col) = true := by
          simp only [noDedent, List.all_cons, Bool.and_eq_true, hs] at hnd
          have h1 := hnd.1
          simp only [startLt, hs] at hst
          simpa [hst] using h1
        have hm : (p.scopes[c].kind == Kind.module) = false := by rw [← hkind, hk]; rfl
        have hd : (p.scopes[c].kind == Kind.function || p.scopes[c].kind == Kind.klass) = true := by
          rw [← hkind, hk]; rfl
        simp only [hm, hd, hcol, Bool.and_self, if_true, Bool.false_eq_true, if_false]
        rw [firstDefBefore_cons_hit hst]
      | klass =>
        rw [defChain_eq h c hc, hk] at hnd hhead ⊢
        simp only at hnd hhead ⊢
        have hst := hhead c rfl
        have hcol : decide (p.scopes[c].start.col < pos.col) = true := by
          simp only [noDedent, List.all_cons, Bool.and_eq_true, hs] at hnd
          have h1 := hnd.1
          simp only [startLt, hs] at hst
          simpa [hst] using h1
        have hm : (p.scopes[c].kind == Kind.module) = false := by rw [← hkind, hk]; rfl
        have hd : (p.scopes[c].kind == Kind.function || p.scopes[c].kind == Kind.klass) = true := by
          rw [← hkind, hk]; rfl
        simp only [hm, hd, hcol, Bool.and_self, if_true, Bool.false_eq_true, if_false]
        rw [firstDefBefore_cons_hit hst]
      | lambda =>
        have hlt := WFS.pscope_lt h (s := c) (by rw [hk]; simp)
        have hm : (p.scopes[c].kind == Kind.module) = false := by rw [← hkind, hk]; rfl
        have hd : (p.scopes[c].kind == Kind.function || p.scopes[c].kind == Kind.klass) = false := by
          rw [← hkind, hk]; rfl
        simp only [hm, hd, Bool.false_and, Bool.false_eq_true, if_false]
        rw [lamSegOK_eq h c hc, hk] at hlam
        simp only [Bool.and_eq_true] at hlam
        have hpar : parentOfScope p c = some (skipComps p p.fuel (p.pscope c)) := by
          unfold parentOfScope
          rw [hk]
          simp only
          have := hlam.1
          unfold LamOK at this
          exact eq_of_beq this
        rw [hpar]
        simp only
        have hp : p.pscope c < p.scopes.length := by omega
        have sp := skipComps_spec h (p.pscope c) hp
        have hdc : defChain p p.fuel c = defChain p p.fuel (p.pscope c) := by
          rw [defChain_eq h c hc, hk]
        rw [hdc, ← sp.2.2.1] at hnd hhead ⊢
        exact ih _ (by omega) (by omega) sp.2.1 (sp.2.2.2 hlam.2) hnd hhead f (by omega)

end JediModel.Nesting

import JediModel.Model.Prefilter
/-! helper lemmas for the regex pre-filter model: a whole-word occurrence is found by `search` -/
namespace JediModel.Prefilter

/-- the character before position `pre.length` when the subject starts after `prev` -/
def lastOr {α} (prev : Option α) (pre : List α) : Option α :=
  match pre.getLast? with | some c => some c | none => prev

theorem lastOr_none {α} (pre : List α) : lastOr none pre = pre.getLast? := by
  unfold lastOr; cases pre.getLast? <;> rfl

theorem matchHere_at {α} [BEq α] [LawfulBEq α] (w : α → Bool) (lead trail : Bool) (name post : List α)
    (prev : Option α)
    (h1 : lead = true → boundary w prev name.head? = true)
    (h2 : trail = true → boundary w name.getLast? post.head? = true) :
    matchHere w lead trail name prev (name ++ post) = true := by
  unfold matchHere
  have hp : name.isPrefixOf (name ++ post) = true := by
    rw [List.isPrefixOf_iff_prefix]; exact List.prefix_append _ _
  have hd : (name ++ post).drop name.length = post := by simp
  rw [hp, hd]
  cases lead <;> cases trail <;> simp_all

theorem search_split {α} [BEq α] [LawfulBEq α] (w : α → Bool) (lead trail : Bool) (name post : List α) :
    ∀ (pre : List α) (prev : Option α),
    (lead = true → boundary w (lastOr prev pre) name.head? = true) →
    (trail = true → boundary w name.getLast? post.head? = true) →
    search w lead trail name prev (pre ++ (name ++ post)) = true
  | [], prev, h1, h2 => by
      have hm := matchHere_at w lead trail name post prev (by simpa [lastOr] using h1) h2
      simp only [List.nil_append]
      cases hnp : name ++ post with
      | nil => simp only [search]; rw [← hnp]; exact hm
      | cons c cs => simp only [search]; rw [← hnp, hm]; simp
  | p :: ps, prev, h1, h2 => by
      simp only [List.cons_append, search]
      have hl : lastOr (some p) ps = lastOr prev (p :: ps) := by
        unfold lastOr
        cases ps with
        | nil => simp
        | cons q qs =>
          rw [List.getLast?_cons_cons]
          cases h : (q :: qs).getLast? with
          | none => simp at h
          | some c => rfl
      rw [search_split w lead trail name post ps (some p) (by rw [hl]; exact h1) h2]
      simp

end JediModel.Prefilter

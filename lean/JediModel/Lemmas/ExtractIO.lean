import JediModel.Model.ExtractIO
/-! helper lemmas about the fold of `_find_inputs_and_outputs` (core Lean only) -/
namespace JediModel.ExtractIO

theorem addOutput_inputs (st : St) (o : Occ) : (addOutput st o).inputs = st.inputs := by
  unfold addOutput; split <;> rfl

theorem addOutput_outputs (st : St) (o : Occ) :
    (addOutput st o).outputs = st.outputs ++ (if o.isDef then [o.value] else []) := by
  unfold addOutput; split <;> simp

theorem checkRead_outputs (st : St) (o : Occ) : (checkRead st o).outputs = st.outputs := by
  unfold checkRead; split
  · rfl
  · split <;> rfl

theorem checkRead_mono (st : St) (o : Occ) (v : String) (h : v ∈ st.inputs) :
    v ∈ (checkRead st o).inputs := by
  unfold checkRead; split
  · exact h
  · split
    · exact List.mem_append_left _ h
    · exact h

theorem checkRead_adds (st : St) (o : Occ) (h : o.outer = true) : o.value ∈ (checkRead st o).inputs := by
  unfold checkRead; split
  · rename_i hc
    simpa using hc
  · simp

theorem checkRead_origin (st : St) (o : Occ) (v : String) (h : v ∈ (checkRead st o).inputs) :
    v ∈ st.inputs ∨ (v = o.value ∧ o.outer = true) := by
  unfold checkRead at h; split at h
  · exact Or.inl h
  · split at h
    · rename_i ho
      rcases List.mem_append.mp h with h | h
      · exact Or.inl h
      · exact Or.inr ⟨by simpa using h, ho⟩
    · exact Or.inl h

theorem checkRead_nodup (st : St) (o : Occ) (h : st.inputs.Nodup) : (checkRead st o).inputs.Nodup := by
  unfold checkRead; split
  · exact h
  · rename_i hc
    split
    · have hn : o.value ∉ st.inputs := by
        intro hm; exact hc (by simpa using hm)
      exact List.nodup_append.mpr ⟨h, by simp, by
        intro a ha b hb; simp at hb; subst hb; intro hab; subst hab; exact hn ha⟩
    · exact h

theorem step_mono (cfg : Cfg) (st : St) (o : Occ) (v : String) (h : v ∈ st.inputs) :
    v ∈ (step cfg st o).inputs := by
  unfold step
  split
  · exact checkRead_mono _ _ _ (by rw [addOutput_inputs]; exact h)
  · rw [addOutput_inputs]; exact h

theorem step_adds (cfg : Cfg) (st : St) (o : Occ) (hr : isRead cfg o = true) (h : o.outer = true) :
    o.value ∈ (step cfg st o).inputs := by
  unfold step; rw [if_pos hr]
  exact checkRead_adds _ _ h

theorem step_origin (cfg : Cfg) (st : St) (o : Occ) (v : String) (h : v ∈ (step cfg st o).inputs) :
    v ∈ st.inputs ∨ (v = o.value ∧ o.outer = true ∧ isRead cfg o = true) := by
  unfold step at h
  split at h
  · rename_i hr
    rcases checkRead_origin _ _ _ h with h | ⟨h1, h2⟩
    · left; rw [addOutput_inputs] at h; exact h
    · exact Or.inr ⟨h1, h2, hr⟩
  · left; rw [addOutput_inputs] at h; exact h

theorem step_nodup (cfg : Cfg) (st : St) (o : Occ) (h : st.inputs.Nodup) : (step cfg st o).inputs.Nodup := by
  unfold step
  split
  · exact checkRead_nodup _ _ (by rw [addOutput_inputs]; exact h)
  · rw [addOutput_inputs]; exact h

theorem step_outputs (cfg : Cfg) (st : St) (o : Occ) :
    (step cfg st o).outputs = st.outputs ++ (if o.isDef then [o.value] else []) := by
  unfold step
  split
  · rw [checkRead_outputs, addOutput_outputs]
  · rw [addOutput_outputs]

theorem fold_mono (cfg : Cfg) (occs : List Occ) (st : St) (v : String) (h : v ∈ st.inputs) :
    v ∈ (occs.foldl (step cfg) st).inputs := by
  induction occs generalizing st with
  | nil => exact h
  | cons o rest ih => exact ih _ (step_mono cfg st o v h)

theorem fold_complete (cfg : Cfg) (occs : List Occ) (st : St) (o : Occ) (hm : o ∈ occs)
    (hr : isRead cfg o = true) (ho : o.outer = true) : o.value ∈ (occs.foldl (step cfg) st).inputs := by
  induction occs generalizing st with
  | nil => cases hm
  | cons x rest ih =>
    rcases List.mem_cons.mp hm with h | h
    · subst h; exact fold_mono cfg rest _ _ (step_adds cfg st o hr ho)
    · exact ih _ h

theorem fold_origin (cfg : Cfg) (occs : List Occ) (st : St) (v : String)
    (h : v ∈ (occs.foldl (step cfg) st).inputs) :
    v ∈ st.inputs ∨ ∃ o ∈ occs, o.value = v ∧ o.outer = true ∧ isRead cfg o = true := by
  induction occs generalizing st with
  | nil => exact Or.inl h
  | cons x rest ih =>
    rcases ih _ h with h | ⟨o, hm, h1, h2, h3⟩
    · rcases step_origin cfg st x v h with h | ⟨h1, h2, h3⟩
      · exact Or.inl h
      · exact Or.inr ⟨x, List.mem_cons_self .., h1.symm, h2, h3⟩
    · exact Or.inr ⟨o, List.mem_cons_of_mem _ hm, h1, h2, h3⟩

theorem fold_nodup (cfg : Cfg) (occs : List Occ) (st : St) (h : st.inputs.Nodup) :
    (occs.foldl (step cfg) st).inputs.Nodup := by
  induction occs generalizing st with
  | nil => exact h
  | cons x rest ih => exact ih _ (step_nodup cfg st x h)

theorem fold_outputs (cfg : Cfg) (occs : List Occ) (st : St) :
    (occs.foldl (step cfg) st).outputs = st.outputs ++ (occs.filter (·.isDef)).map (·.value) := by
  induction occs generalizing st with
  | nil => simp
  | cons x rest ih =>
    simp only [List.foldl_cons]
    rw [ih, step_outputs]
    cases hx : x.isDef <;> simp [hx]

end JediModel.ExtractIO

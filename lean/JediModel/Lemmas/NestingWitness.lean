import JediModel.Model.Nesting
/-! Concrete tables for the non-vacuity examples and counter-witnesses of Props/C18 (printed by
harness/gen/nesting.py `render`, identical to the tables recomputed from the parso tree). -/
namespace JediModel.Nesting.Witness
open JediModel.Nesting

/-- ```
class K:
    def f(p):
        a = ()
    class L:
        b = ()
``` -/
def wOk : NProg :=
  { scopes := [
      { kind := .module, pscope := 0, start := ⟨1, 0⟩, colon := ⟨1, 0⟩, suite := ⟨1, 0⟩, stop := ⟨6, 0⟩, name := "" },
      { kind := .klass, pscope := 0, start := ⟨1, 0⟩, colon := ⟨1, 7⟩, suite := ⟨1, 8⟩, stop := ⟨6, 0⟩, name := "K" },
      { kind := .function, pscope := 1, start := ⟨2, 4⟩, colon := ⟨2, 12⟩, suite := ⟨2, 13⟩, stop := ⟨4, 0⟩, name := "f" },
      { kind := .klass, pscope := 1, start := ⟨4, 4⟩, colon := ⟨4, 11⟩, suite := ⟨4, 12⟩, stop := ⟨6, 0⟩, name := "L" }],
    leaves := [
      { start := ⟨1, 0⟩, stop := ⟨1, 5⟩, pscope := 1, isParamName := false, role := .other, name := "" },
      { start := ⟨1, 6⟩, stop := ⟨1, 7⟩, pscope := 1, isParamName := false, role := .defName 1, name := "K" },
      { start := ⟨1, 7⟩, stop := ⟨1, 8⟩, pscope := 1, isParamName := false, role := .other, name := "" },
      { start := ⟨1, 8⟩, stop := ⟨2, 0⟩, pscope := 1, isParamName := false, role := .newline, name := "" },
      { start := ⟨2, 4⟩, stop := ⟨2, 7⟩, pscope := 2, isParamName := false, role := .other, name := "" },
      { start := ⟨2, 8⟩, stop := ⟨2, 9⟩, pscope := 2, isParamName := false, role := .defName 2, name := "f" },
      { start := ⟨2, 9⟩, stop := ⟨2, 10⟩, pscope := 2, isParamName := false, role := .other, name := "" },
      { start := ⟨2, 10⟩, stop := ⟨2, 11⟩, pscope := 2, isParamName := true, role := .param, name := "p" },
      { start := ⟨2, 11⟩, stop := ⟨2, 12⟩, pscope := 2, isParamName := false, role := .other, name := "" },
      { start := ⟨2, 12⟩, stop := ⟨2, 13⟩, pscope := 2, isParamName := false, role := .other, name := "" },
      { start := ⟨2, 13⟩, stop := ⟨3, 0⟩, pscope := 2, isParamName := false, role := .newline, name := "" },
      { start := ⟨3, 8⟩, stop := ⟨3, 9⟩, pscope := 2, isParamName := false, role := .bind, name := "a" },
      { start := ⟨3, 10⟩, stop := ⟨3, 11⟩, pscope := 2, isParamName := false, role := .other, name := "" },
      { start := ⟨3, 12⟩, stop := ⟨3, 13⟩, pscope := 2, isParamName := false, role := .other, name := "" },
      { start := ⟨3, 13⟩, stop := ⟨3, 14⟩, pscope := 2, isParamName := false, role := .other, name := "" },
      { start := ⟨3, 14⟩, stop := ⟨4, 0⟩, pscope := 2, isParamName := false, role := .newline, name := "" },
      { start := ⟨4, 4⟩, stop := ⟨4, 9⟩, pscope := 3, isParamName := false, role := .other, name := "" },
      { start := ⟨4, 10⟩, stop := ⟨4, 11⟩, pscope := 3, isParamName := false, role := .defName 3, name := "L" },
      { start := ⟨4, 11⟩, stop := ⟨4, 12⟩, pscope := 3, isParamName := false, role := .other, name := "" },
      { start := ⟨4, 12⟩, stop := ⟨5, 0⟩, pscope := 3, isParamName := false, role := .newline, name := "" },
      { start := ⟨5, 8⟩, stop := ⟨5, 9⟩, pscope := 3, isParamName := false, role := .bind, name := "b" },
      { start := ⟨5, 10⟩, stop := ⟨5, 11⟩, pscope := 3, isParamName := false, role := .other, name := "" },
      { start := ⟨5, 12⟩, stop := ⟨5, 13⟩, pscope := 3, isParamName := false, role := .other, name := "" },
      { start := ⟨5, 13⟩, stop := ⟨5, 14⟩, pscope := 3, isParamName := false, role := .other, name := "" },
      { start := ⟨5, 14⟩, stop := ⟨6, 0⟩, pscope := 3, isParamName := false, role := .newline, name := "" },
      { start := ⟨6, 0⟩, stop := ⟨6, 0⟩, pscope := 0, isParamName := false, role := .endmarker, name := "" }],
    modNames := some ["mod"] }

/-- ```
class K:
    a = lambda c: b
``` -/
def wLam : NProg :=
  { scopes := [
      { kind := .module, pscope := 0, start := ⟨1, 0⟩, colon := ⟨1, 0⟩, suite := ⟨1, 0⟩, stop := ⟨3, 0⟩, name := "" },
      { kind := .klass, pscope := 0, start := ⟨1, 0⟩, colon := ⟨1, 7⟩, suite := ⟨1, 8⟩, stop := ⟨3, 0⟩, name := "K" },
      { kind := .lambda, pscope := 1, start := ⟨2, 8⟩, colon := ⟨2, 16⟩, suite := ⟨2, 18⟩, stop := ⟨2, 19⟩, name := "<lambda>" }],
    leaves := [
      { start := ⟨1, 0⟩, stop := ⟨1, 5⟩, pscope := 1, isParamName := false, role := .other, name := "" },
      { start := ⟨1, 6⟩, stop := ⟨1, 7⟩, pscope := 1, isParamName := false, role := .defName 1, name := "K" },
      { start := ⟨1, 7⟩, stop := ⟨1, 8⟩, pscope := 1, isParamName := false, role := .other, name := "" },
      { start := ⟨1, 8⟩, stop := ⟨2, 0⟩, pscope := 1, isParamName := false, role := .newline, name := "" },
      { start := ⟨2, 4⟩, stop := ⟨2, 5⟩, pscope := 1, isParamName := false, role := .bind, name := "a" },
      { start := ⟨2, 6⟩, stop := ⟨2, 7⟩, pscope := 1, isParamName := false, role := .other, name := "" },
      { start := ⟨2, 8⟩, stop := ⟨2, 14⟩, pscope := 2, isParamName := false, role := .other, name := "" },
      { start := ⟨2, 15⟩, stop := ⟨2, 16⟩, pscope := 2, isParamName := true, role := .param, name := "c" },
      { start := ⟨2, 16⟩, stop := ⟨2, 17⟩, pscope := 2, isParamName := false, role := .other, name := "" },
      { start := ⟨2, 18⟩, stop := ⟨2, 19⟩, pscope := 2, isParamName := false, role := .use, name := "b" },
      { start := ⟨2, 19⟩, stop := ⟨3, 0⟩, pscope := 1, isParamName := false, role := .newline, name := "" },
      { start := ⟨3, 0⟩, stop := ⟨3, 0⟩, pscope := 0, isParamName := false, role := .endmarker, name := "" }],
    modNames := some ["mod"] }

/-- ```
class K:
    a = lambda: [b for b in it]
``` -/
def wLamComp : NProg :=
  { scopes := [
      { kind := .module, pscope := 0, start := ⟨1, 0⟩, colon := ⟨1, 0⟩, suite := ⟨1, 0⟩, stop := ⟨3, 0⟩, name := "" },
      { kind := .klass, pscope := 0, start := ⟨1, 0⟩, colon := ⟨1, 7⟩, suite := ⟨1, 8⟩, stop := ⟨3, 0⟩, name := "K" },
      { kind := .lambda, pscope := 1, start := ⟨2, 8⟩, colon := ⟨2, 14⟩, suite := ⟨2, 16⟩, stop := ⟨2, 31⟩, name := "<lambda>" },
      { kind := .comp, pscope := 2, start := ⟨2, 19⟩, colon := ⟨2, 19⟩, suite := ⟨2, 28⟩, stop := ⟨2, 30⟩, name := "" }],
    leaves := [
      { start := ⟨1, 0⟩, stop := ⟨1, 5⟩, pscope := 1, isParamName := false, role := .other, name := "" },
      { start := ⟨1, 6⟩, stop := ⟨1, 7⟩, pscope := 1, isParamName := false, role := .defName 1, name := "K" },
      { start := ⟨1, 7⟩, stop := ⟨1, 8⟩, pscope := 1, isParamName := false, role := .other, name := "" },
      { start := ⟨1, 8⟩, stop := ⟨2, 0⟩, pscope := 1, isParamName := false, role := .newline, name := "" },
      { start := ⟨2, 4⟩, stop := ⟨2, 5⟩, pscope := 1, isParamName := false, role := .bind, name := "a" },
      { start := ⟨2, 6⟩, stop := ⟨2, 7⟩, pscope := 1, isParamName := false, role := .other, name := "" },
      { start := ⟨2, 8⟩, stop := ⟨2, 14⟩, pscope := 2, isParamName := false, role := .other, name := "" },
      { start := ⟨2, 14⟩, stop := ⟨2, 15⟩, pscope := 2, isParamName := false, role := .other, name := "" },
      { start := ⟨2, 16⟩, stop := ⟨2, 17⟩, pscope := 2, isParamName := false, role := .other, name := "" },
      { start := ⟨2, 17⟩, stop := ⟨2, 18⟩, pscope := 3, isParamName := false, role := .use, name := "b" },
      { start := ⟨2, 19⟩, stop := ⟨2, 22⟩, pscope := 3, isParamName := false, role := .other, name := "" },
      { start := ⟨2, 23⟩, stop := ⟨2, 24⟩, pscope := 3, isParamName := false, role := .bind, name := "b" },
      { start := ⟨2, 25⟩, stop := ⟨2, 27⟩, pscope := 3, isParamName := false, role := .other, name := "" },
      { start := ⟨2, 28⟩, stop := ⟨2, 30⟩, pscope := 3, isParamName := false, role := .use, name := "it" },
      { start := ⟨2, 30⟩, stop := ⟨2, 31⟩, pscope := 2, isParamName := false, role := .other, name := "" },
      { start := ⟨2, 31⟩, stop := ⟨3, 0⟩, pscope := 1, isParamName := false, role := .newline, name := "" },
      { start := ⟨3, 0⟩, stop := ⟨3, 0⟩, pscope := 0, isParamName := false, role := .endmarker, name := "" }],
    modNames := some ["mod"] }

/-- ```
async def f():
    a = ()
``` -/
def wAsync : NProg :=
  { scopes := [
      { kind := .module, pscope := 0, start := ⟨1, 0⟩, colon := ⟨1, 0⟩, suite := ⟨1, 0⟩, stop := ⟨3, 0⟩, name := "" },
      { kind := .function, pscope := 0, start := ⟨1, 6⟩, colon := ⟨1, 13⟩, suite := ⟨1, 14⟩, stop := ⟨3, 0⟩, name := "f",
        stmt := ⟨1, 0⟩ }],
    leaves := [
      { start := ⟨1, 0⟩, stop := ⟨1, 5⟩, pscope := 0, isParamName := false, role := .other, name := "" },
      { start := ⟨1, 6⟩, stop := ⟨1, 9⟩, pscope := 1, isParamName := false, role := .other, name := "" },
      { start := ⟨1, 10⟩, stop := ⟨1, 11⟩, pscope := 1, isParamName := false, role := .defName 1, name := "f" },
      { start := ⟨1, 11⟩, stop := ⟨1, 12⟩, pscope := 1, isParamName := false, role := .other, name := "" },
      { start := ⟨1, 12⟩, stop := ⟨1, 13⟩, pscope := 1, isParamName := false, role := .other, name := "" },
      { start := ⟨1, 13⟩, stop := ⟨1, 14⟩, pscope := 1, isParamName := false, role := .other, name := "" },
      { start := ⟨1, 14⟩, stop := ⟨2, 0⟩, pscope := 1, isParamName := false, role := .newline, name := "" },
      { start := ⟨2, 4⟩, stop := ⟨2, 5⟩, pscope := 1, isParamName := false, role := .bind, name := "a" },
      { start := ⟨2, 6⟩, stop := ⟨2, 7⟩, pscope := 1, isParamName := false, role := .other, name := "" },
      { start := ⟨2, 8⟩, stop := ⟨2, 9⟩, pscope := 1, isParamName := false, role := .other, name := "" },
      { start := ⟨2, 9⟩, stop := ⟨2, 10⟩, pscope := 1, isParamName := false, role := .other, name := "" },
      { start := ⟨2, 10⟩, stop := ⟨3, 0⟩, pscope := 1, isParamName := false, role := .newline, name := "" },
      { start := ⟨3, 0⟩, stop := ⟨3, 0⟩, pscope := 0, isParamName := false, role := .endmarker, name := "" }],
    modNames := some ["mod"] }

/-- ```
def f():
    (
a
    )
``` -/
def wDedent : NProg :=
  { scopes := [
      { kind := .module, pscope := 0, start := ⟨1, 0⟩, colon := ⟨1, 0⟩, suite := ⟨1, 0⟩, stop := ⟨5, 0⟩, name := "" },
      { kind := .function, pscope := 0, start := ⟨1, 0⟩, colon := ⟨1, 7⟩, suite := ⟨1, 8⟩, stop := ⟨5, 0⟩, name := "f" }],
    leaves := [
      { start := ⟨1, 0⟩, stop := ⟨1, 3⟩, pscope := 1, isParamName := false, role := .other, name := "" },
      { start := ⟨1, 4⟩, stop := ⟨1, 5⟩, pscope := 1, isParamName := false, role := .defName 1, name := "f" },
      { start := ⟨1, 5⟩, stop := ⟨1, 6⟩, pscope := 1, isParamName := false, role := .other, name := "" },
      { start := ⟨1, 6⟩, stop := ⟨1, 7⟩, pscope := 1, isParamName := false, role := .other, name := "" },
      { start := ⟨1, 7⟩, stop := ⟨1, 8⟩, pscope := 1, isParamName := false, role := .other, name := "" },
      { start := ⟨1, 8⟩, stop := ⟨2, 0⟩, pscope := 1, isParamName := false, role := .newline, name := "" },
      { start := ⟨2, 4⟩, stop := ⟨2, 5⟩, pscope := 1, isParamName := false, role := .other, name := "" },
      { start := ⟨3, 0⟩, stop := ⟨3, 1⟩, pscope := 1, isParamName := false, role := .use, name := "a" },
      { start := ⟨4, 4⟩, stop := ⟨4, 5⟩, pscope := 1, isParamName := false, role := .other, name := "" },
      { start := ⟨4, 5⟩, stop := ⟨5, 0⟩, pscope := 1, isParamName := false, role := .newline, name := "" },
      { start := ⟨5, 0⟩, stop := ⟨5, 0⟩, pscope := 0, isParamName := false, role := .endmarker, name := "" }],
    modNames := some ["mod"] }

/-- ```
def d(q=lambda: [b for b in it]): pass
``` -/
def wHdrLam : NProg :=
  { scopes := [
      { kind := .module, pscope := 0, start := ⟨1, 0⟩, colon := ⟨1, 0⟩, suite := ⟨1, 0⟩, stop := ⟨2, 0⟩, name := "" },
      { kind := .function, pscope := 0, start := ⟨1, 0⟩, colon := ⟨1, 32⟩, suite := ⟨1, 34⟩, stop := ⟨2, 0⟩, name := "d" },
      { kind := .lambda, pscope := 1, start := ⟨1, 8⟩, colon := ⟨1, 14⟩, suite := ⟨1, 16⟩, stop := ⟨1, 31⟩, name := "<lambda>" },
      { kind := .comp, pscope := 2, start := ⟨1, 19⟩, colon := ⟨1, 19⟩, suite := ⟨1, 28⟩, stop := ⟨1, 30⟩, name := "" }],
    leaves := [
      { start := ⟨1, 0⟩, stop := ⟨1, 3⟩, pscope := 1, isParamName := false, role := .other, name := "" },
      { start := ⟨1, 4⟩, stop := ⟨1, 5⟩, pscope := 1, isParamName := false, role := .defName 1, name := "d" },
      { start := ⟨1, 5⟩, stop := ⟨1, 6⟩, pscope := 1, isParamName := false, role := .other, name := "" },
      { start := ⟨1, 6⟩, stop := ⟨1, 7⟩, pscope := 1, isParamName := true, role := .param, name := "q" },
      { start := ⟨1, 7⟩, stop := ⟨1, 8⟩, pscope := 1, isParamName := false, role := .other, name := "" },
      { start := ⟨1, 8⟩, stop := ⟨1, 14⟩, pscope := 2, isParamName := false, role := .other, name := "" },
      { start := ⟨1, 14⟩, stop := ⟨1, 15⟩, pscope := 2, isParamName := false, role := .other, name := "" },
      { start := ⟨1, 16⟩, stop := ⟨1, 17⟩, pscope := 2, isParamName := false, role := .other, name := "" },
      { start := ⟨1, 17⟩, stop := ⟨1, 18⟩, pscope := 3, isParamName := false, role := .use, name := "b" },
      { start := ⟨1, 19⟩, stop := ⟨1, 22⟩, pscope := 3, isParamName := false, role := .other, name := "" },
      { start := ⟨1, 23⟩, stop := ⟨1, 24⟩, pscope := 3, isParamName := false, role := .bind, name := "b" },
      { start := ⟨1, 25⟩, stop := ⟨1, 27⟩, pscope := 3, isParamName := false, role := .other, name := "" },
      { start := ⟨1, 28⟩, stop := ⟨1, 30⟩, pscope := 3, isParamName := false, role := .use, name := "it" },
      { start := ⟨1, 30⟩, stop := ⟨1, 31⟩, pscope := 2, isParamName := false, role := .other, name := "" },
      { start := ⟨1, 31⟩, stop := ⟨1, 32⟩, pscope := 1, isParamName := false, role := .other, name := "" },
      { start := ⟨1, 32⟩, stop := ⟨1, 33⟩, pscope := 1, isParamName := false, role := .other, name := "" },
      { start := ⟨1, 34⟩, stop := ⟨1, 38⟩, pscope := 1, isParamName := false, role := .other, name := "" },
      { start := ⟨1, 38⟩, stop := ⟨2, 0⟩, pscope := 1, isParamName := false, role := .newline, name := "" },
      { start := ⟨2, 0⟩, stop := ⟨2, 0⟩, pscope := 0, isParamName := false, role := .endmarker, name := "" }],
    modNames := some ["mod"] }

/-- ```
class K:
    pass
``` -/
def wMapped : NProg :=
  { scopes := [
      { kind := .module, pscope := 0, start := ⟨1, 0⟩, colon := ⟨1, 0⟩, suite := ⟨1, 0⟩, stop := ⟨3, 0⟩, name := "" },
      { kind := .klass, pscope := 0, start := ⟨1, 0⟩, colon := ⟨1, 7⟩, suite := ⟨1, 8⟩, stop := ⟨3, 0⟩, name := "K" }],
    leaves := [
      { start := ⟨1, 0⟩, stop := ⟨1, 5⟩, pscope := 1, isParamName := false, role := .other, name := "" },
      { start := ⟨1, 6⟩, stop := ⟨1, 7⟩, pscope := 1, isParamName := false, role := .defName 1, name := "K" },
      { start := ⟨1, 7⟩, stop := ⟨1, 8⟩, pscope := 1, isParamName := false, role := .other, name := "" },
      { start := ⟨1, 8⟩, stop := ⟨2, 0⟩, pscope := 1, isParamName := false, role := .newline, name := "" },
      { start := ⟨2, 4⟩, stop := ⟨2, 8⟩, pscope := 1, isParamName := false, role := .other, name := "" },
      { start := ⟨2, 8⟩, stop := ⟨3, 0⟩, pscope := 1, isParamName := false, role := .newline, name := "" },
      { start := ⟨3, 0⟩, stop := ⟨3, 0⟩, pscope := 0, isParamName := false, role := .endmarker, name := "" }],
    modNames := some ["macpath"] }

/-- `wOk` with every definition spelled like the module, in the module `K.K` (file `K/K.py`):
```
class K:
    def K(p):
        a = ()
    class K:
        b = ()
```
the components of the module path and of `__qualname__` collide at every depth. -/
def wCollide : NProg :=
  { scopes := wOk.scopes.map fun sc => if sc.kind == .module then sc else { sc with name := "K" },
    leaves := wOk.leaves.map fun l =>
      match l.role with
      | .defName _ => { l with name := "K" }
      | _ => l,
    modNames := some ["K", "K"] }

end JediModel.Nesting.Witness

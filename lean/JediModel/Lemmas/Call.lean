import JediModel.Model.Call
set_option linter.unusedSimpArgs false
/-! Helper lemmas for `Props/C11.lean`. -/
namespace JediModel.Call

/-! ## `get_kind` -/

/-- a child that lets the `get_kind` loop run on: `/` or an unstarred `param` -/
def PTok.benign : PTok → Bool
  | .slash => true
  | .param _ s _ _ => s == 0
  | .star => false

/-- a bare `*` or a starred `param` -/
def PTok.starish : PTok → Bool
  | .star => true
  | .param _ s _ _ => s != 0
  | .slash => false

theorem kindLoop_true (i : Nat) (l : List PTok) (j : Nat) :
    kindLoop i l j true = if l.any PTok.isSlash then .posOnly else .posOrKw := by
  induction l generalizing j with
  | nil => simp [kindLoop]
  | cons p rest ih =>
    unfold kindLoop
    by_cases h : p.isSlash = true
    · simp [h]
    · simp [h, ih]

/-- Lemma A: benign children before the parameter are skipped -/
theorem kindLoop_skip (i : Nat) (pre rest : List PTok) (j : Nat)
    (hb : ∀ x ∈ pre, x.benign = true) (hi : j + pre.length ≤ i) :
    kindLoop i (pre ++ rest) j false = kindLoop i rest (j + pre.length) false := by
  induction pre generalizing j with
  | nil => simp
  | cons p pre ih =>
    have hp := hb p (by simp)
    have hb' : ∀ x ∈ pre, x.benign = true := fun x hx => hb x (by simp [hx])
    simp only [List.length_cons] at hi
    have hne : (j == i) = false := by
      simp only [beq_eq_false_iff_ne, ne_eq]; omega
    cases p with
    | star => simp [PTok.benign] at hp
    | slash =>
      simp only [List.cons_append, kindLoop, Bool.false_eq_true, if_false]
      rw [ih (j + 1) hb' (by omega)]
      congr 1
      simp only [List.length_cons]; omega
    | param n s a d =>
      simp only [PTok.benign, beq_iff_eq] at hp
      subst hp
      simp only [List.cons_append, kindLoop, Bool.false_eq_true, if_false, ne_eq, not_true_eq_false,
        hne]
      rw [ih (j + 1) hb' (by omega)]
      congr 1
      simp only [List.length_cons]; omega

/-- Lemma B: at the parameter itself the loop switches to looking for `/` -/
theorem kindLoop_at (i : Nat) (n : Str) (a d : Option Str) (post : List PTok) :
    kindLoop i (.param n 0 a d :: post) i false =
      if post.any PTok.isSlash then .posOnly else .posOrKw := by
  simp [kindLoop, kindLoop_true]

/-- Lemma C: a bare `*` or starred parameter met first means keyword-only -/
theorem kindLoop_starish (i : Nat) (x : PTok) (rest : List PTok) (j : Nat)
    (hx : x.starish = true) : kindLoop i (x :: rest) j false = .kwOnly := by
  cases x with
  | star => simp [kindLoop]
  | slash => simp [PTok.starish] at hx
  | param n s a d =>
    simp only [PTok.starish, bne_iff_ne, ne_eq] at hx
    simp [kindLoop, hx]

/-- the kind of an unstarred, non-`__` parameter standing after benign children only -/
theorem getKind_plain (before after : List PTok) (n : Str) (a d : Option Str)
    (hb : ∀ x ∈ before, x.benign = true) (hn : dunder n = false) :
    getKind (before ++ .param n 0 a d :: after) before.length n 0 =
      if after.any PTok.isSlash then .posOnly else .posOrKw := by
  unfold getKind
  simp only [Nat.zero_ne_one, if_false, hn, Bool.false_eq_true, show ¬ ((0 : Nat) = 2) by decide]
  rw [kindLoop_skip _ _ _ 0 hb (by omega)]
  simp only [Nat.zero_add]
  exact kindLoop_at _ _ _ _ _

/-- the kind of an unstarred, non-`__` parameter standing after a bare `*` / starred parameter -/
theorem getKind_after_star (b1 : List PTok) (x : PTok) (b2 after : List PTok) (n : Str)
    (a d : Option Str) (hb : ∀ y ∈ b1, y.benign = true) (hx : x.starish = true)
    (hn : dunder n = false) :
    getKind (b1 ++ x :: (b2 ++ .param n 0 a d :: after)) (b1.length + 1 + b2.length) n 0 = .kwOnly := by
  unfold getKind
  simp only [Nat.zero_ne_one, if_false, hn, Bool.false_eq_true, show ¬ ((0 : Nat) = 2) by decide]
  rw [kindLoop_skip _ _ _ 0 hb (by omega)]
  exact kindLoop_starish _ _ _ _ hx

theorem getKind_dunder (toks : List PTok) (i : Nat) (n : Str) (hn : dunder n = true) :
    getKind toks i n 0 = .posOnly := by
  simp [getKind, hn]

theorem paramNamesFrom_append (all xs ys : List PTok) (j : Nat) :
    paramNamesFrom all (xs ++ ys) j = paramNamesFrom all xs j ++ paramNamesFrom all ys (j + xs.length) := by
  induction xs generalizing j with
  | nil => simp [paramNamesFrom]
  | cons x xs ih =>
    have e : j + 1 + xs.length = j + (xs.length + 1) := by omega
    cases x <;> simp [paramNamesFrom, ih, e]


theorem tok0_benign (p : P) : (p.tok 0).benign = true := by simp [P.tok, PTok.benign]
theorem tok0_not_slash (p : P) : (p.tok 0).isSlash = false := by simp [P.tok, PTok.isSlash]

theorem any_slash_map_tok (seg : List P) (k : Nat) : (seg.map (P.tok k)).any PTok.isSlash = false := by
  induction seg with
  | nil => rfl
  | cons p seg ih => simp [P.tok, PTok.isSlash] at ih ⊢

/-- positional-only section: benign children before, a `/` somewhere behind -/
theorem pnf_po (seg : List P) (before after : List PTok)
    (hb : ∀ x ∈ before, x.benign = true) (hs : after.any PTok.isSlash = true) :
    paramNamesFrom (before ++ (seg.map (P.tok 0) ++ after)) (seg.map (P.tok 0)) before.length =
      seg.map (P.pname .posOnly) := by
  induction seg generalizing before with
  | nil => simp [paramNamesFrom]
  | cons p seg ih =>
    have e : before ++ (p.tok 0 :: (seg.map (P.tok 0) ++ after)) =
        (before ++ [p.tok 0]) ++ (seg.map (P.tok 0) ++ after) := by simp
    have hb' : ∀ x ∈ before ++ [p.tok 0], x.benign = true := by
      intro x hx
      rcases List.mem_append.mp hx with h | h
      · exact hb x h
      · simp only [List.mem_singleton] at h; subst h; exact tok0_benign p
    have t := ih (before ++ [p.tok 0]) hb'
    simp only [List.length_append, List.length_singleton] at t
    simp only [List.map_cons, List.cons_append, P.tok, paramNamesFrom, P.pname]
    simp only [P.tok] at e t
    congr 1
    · congr 1
      by_cases hd : dunder p.name = true
      · exact getKind_dunder _ _ _ hd
      · rw [getKind_plain before _ p.name p.ann p.dflt hb (by simpa using hd)]
        simp [List.any_append, hs]
    · rw [e]; exact t

/-- positional-or-keyword section: benign children before, no `/` behind, no `__` names -/
theorem pnf_pk (seg : List P) (before after : List PTok)
    (hb : ∀ x ∈ before, x.benign = true) (hs : after.any PTok.isSlash = false)
    (hn : ∀ p ∈ seg, dunder p.name = false) :
    paramNamesFrom (before ++ (seg.map (P.tok 0) ++ after)) (seg.map (P.tok 0)) before.length =
      seg.map (P.pname .posOrKw) := by
  induction seg generalizing before with
  | nil => simp [paramNamesFrom]
  | cons p seg ih =>
    have e : before ++ (p.tok 0 :: (seg.map (P.tok 0) ++ after)) =
        (before ++ [p.tok 0]) ++ (seg.map (P.tok 0) ++ after) := by simp
    have hb' : ∀ x ∈ before ++ [p.tok 0], x.benign = true := by
      intro x hx
      rcases List.mem_append.mp hx with h | h
      · exact hb x h
      · simp only [List.mem_singleton] at h; subst h; exact tok0_benign p
    have t := ih (before ++ [p.tok 0]) hb' (fun q hq => hn q (by simp [hq]))
    simp only [List.length_append, List.length_singleton] at t
    have hs' : (seg.map (P.tok 0) ++ after).any PTok.isSlash = false := by
      rw [List.any_append, any_slash_map_tok, hs]; rfl
    simp only [List.map_cons, List.cons_append, P.tok, paramNamesFrom, P.pname]
    simp only [P.tok] at e t hs'
    congr 1
    · congr 1
      rw [getKind_plain before _ p.name p.ann p.dflt hb (hn p (by simp))]
      simp [hs']
    · rw [e]; exact t

/-- keyword-only section: a bare `*` / `*args` before, no `__` names -/
theorem pnf_ko (seg : List P) (b1 : List PTok) (x : PTok) (b2 after : List PTok)
    (hb : ∀ y ∈ b1, y.benign = true) (hx : x.starish = true)
    (hn : ∀ p ∈ seg, dunder p.name = false) :
    paramNamesFrom (b1 ++ x :: (b2 ++ (seg.map (P.tok 0) ++ after))) (seg.map (P.tok 0))
        (b1.length + 1 + b2.length) = seg.map (P.pname .kwOnly) := by
  induction seg generalizing b2 with
  | nil => simp [paramNamesFrom]
  | cons p seg ih =>
    have e : b1 ++ x :: (b2 ++ (p.tok 0 :: (seg.map (P.tok 0) ++ after))) =
        b1 ++ x :: ((b2 ++ [p.tok 0]) ++ (seg.map (P.tok 0) ++ after)) := by simp
    have t := ih (b2 ++ [p.tok 0]) (fun q hq => hn q (by simp [hq]))
    simp only [List.length_append, List.length_singleton] at t
    simp only [List.map_cons, List.cons_append, P.tok, paramNamesFrom, P.pname]
    simp only [P.tok] at e t
    congr 1
    · congr 1
      exact getKind_after_star b1 x b2 _ p.name p.ann p.dflt hb hx (hn p (by simp))
    · rw [e]
      have : b1.length + 1 + b2.length + 1 = b1.length + 1 + (b2.length + 1) := by omega
      rw [this]; exact t


theorem pnf_split6 (all A S B M C V : List PTok) :
    paramNamesFrom all (A ++ S ++ B ++ M ++ C ++ V) 0 =
      paramNamesFrom all A 0 ++ paramNamesFrom all S A.length ++
      paramNamesFrom all B (A.length + S.length) ++
      paramNamesFrom all M (A.length + S.length + B.length) ++
      paramNamesFrom all C (A.length + S.length + B.length + M.length) ++
      paramNamesFrom all V (A.length + S.length + B.length + M.length + C.length) := by
  simp [paramNamesFrom_append, List.length_append]

theorem starish_not_slash (x : PTok) (h : x.starish = true) : x.isSlash = false := by
  cases x <;> simp_all [PTok.starish, PTok.isSlash]

/-- the shape of every valid parameter list, parts abstracted -/
theorem pnf_sig (po pk ko : List P) (S M V : List PTok) (mp vp' : List PName)
    (hS : (po = [] ∧ S = []) ∨ S = [PTok.slash])
    (hM : (M = [] ∧ ko = [] ∧ mp = []) ∨
      (∃ x, M = [x] ∧ x.starish = true ∧ ∀ all j, paramNamesFrom all [x] j = mp))
    (hV : ∀ all j, paramNamesFrom all V j = vp') (hVs : V.any PTok.isSlash = false)
    (hpk : ∀ p ∈ pk, dunder p.name = false) (hko : ∀ p ∈ ko, dunder p.name = false) :
    paramNames (po.map (P.tok 0) ++ S ++ pk.map (P.tok 0) ++ M ++ ko.map (P.tok 0) ++ V) =
      po.map (P.pname .posOnly) ++ pk.map (P.pname .posOrKw) ++ mp ++ ko.map (P.pname .kwOnly) ++ vp' := by
  unfold paramNames
  rw [pnf_split6, hV]
  have hMs : M.any PTok.isSlash = false := by
    rcases hM with ⟨rfl, _, _⟩ | ⟨x, rfl, hx, _⟩
    · rfl
    · simp [starish_not_slash x hx]
  have hSb : ∀ x ∈ po.map (P.tok 0) ++ S, x.benign = true := by
    intro x hx
    rcases List.mem_append.mp hx with h | h
    · obtain ⟨p, _, rfl⟩ := List.mem_map.mp h; exact tok0_benign p
    · rcases hS with ⟨_, rfl⟩ | rfl
      · simp at h
      · simp only [List.mem_singleton] at h; subst h; rfl
  have hSBb : ∀ x ∈ po.map (P.tok 0) ++ S ++ pk.map (P.tok 0), x.benign = true := by
    intro x hx
    rcases List.mem_append.mp hx with h | h
    · exact hSb x h
    · obtain ⟨p, _, rfl⟩ := List.mem_map.mp h; exact tok0_benign p
  -- positional-only section
  have hA : paramNamesFrom (po.map (P.tok 0) ++ S ++ pk.map (P.tok 0) ++ M ++ ko.map (P.tok 0) ++ V)
      (po.map (P.tok 0)) 0 = po.map (P.pname .posOnly) := by
    rcases hS with ⟨rfl, rfl⟩ | rfl
    · simp [paramNamesFrom]
    · have := pnf_po po [] ([PTok.slash] ++ pk.map (P.tok 0) ++ M ++ ko.map (P.tok 0) ++ V)
        (by simp) (by simp [PTok.isSlash])
      simpa [List.append_assoc] using this
  -- the `/`
  have hS' : paramNamesFrom (po.map (P.tok 0) ++ S ++ pk.map (P.tok 0) ++ M ++ ko.map (P.tok 0) ++ V)
      S (po.map (P.tok 0)).length = [] := by
    rcases hS with ⟨_, rfl⟩ | rfl <;> simp [paramNamesFrom]
  -- positional-or-keyword section
  have hB : paramNamesFrom (po.map (P.tok 0) ++ S ++ pk.map (P.tok 0) ++ M ++ ko.map (P.tok 0) ++ V)
      (pk.map (P.tok 0)) ((po.map (P.tok 0)).length + S.length) = pk.map (P.pname .posOrKw) := by
    have := pnf_pk pk (po.map (P.tok 0) ++ S) (M ++ ko.map (P.tok 0) ++ V) hSb
      (by simp [List.any_append, hMs, tok0_not_slash, hVs]) hpk
    simpa [List.append_assoc, List.length_append] using this
  -- `*` / `*args` and the keyword-only section
  have hMC : paramNamesFrom (po.map (P.tok 0) ++ S ++ pk.map (P.tok 0) ++ M ++ ko.map (P.tok 0) ++ V)
        M ((po.map (P.tok 0)).length + S.length + (pk.map (P.tok 0)).length) = mp ∧
      paramNamesFrom (po.map (P.tok 0) ++ S ++ pk.map (P.tok 0) ++ M ++ ko.map (P.tok 0) ++ V)
        (ko.map (P.tok 0)) ((po.map (P.tok 0)).length + S.length + (pk.map (P.tok 0)).length + M.length) =
        ko.map (P.pname .kwOnly) := by
    rcases hM with ⟨rfl, rfl, rfl⟩ | ⟨x, rfl, hx, hmp⟩
    · simp [paramNamesFrom]
    · refine ⟨hmp _ _, ?_⟩
      have := pnf_ko ko (po.map (P.tok 0) ++ S ++ pk.map (P.tok 0)) x [] V hSBb hx hko
      simpa [List.append_assoc, List.length_append, Nat.add_assoc] using this
  rw [hA, hS', hB, hMC.1, hMC.2]
  simp

/-- `get_kind` agrees with Python on every valid parameter list without `__` names outside the
positional-only section -/
theorem paramNames_toks (s : Sig) (hpk : ∀ p ∈ s.pk, dunder p.name = false)
    (hko : ∀ p ∈ s.ko, dunder p.name = false) : paramNames s.toks = s.params := by
  obtain ⟨po, pk, vp, ko, vk⟩ := s
  simp only [Sig.toks, Sig.params]
  exact pnf_sig po pk ko (if po.isEmpty then [] else [PTok.slash]) (midToks vp ko) (vkToks vk)
    (vp.map (P.pname .varPos)).toList (vk.map (P.pname .varKw)).toList
    (by cases po <;> simp)
    (by
      cases vp with
      | some p =>
        right
        exact ⟨p.tok 1, rfl, by simp [P.tok, PTok.starish], by
          intro all j; simp [paramNamesFrom, P.tok, getKind, P.pname]⟩
      | none =>
        cases ko with
        | nil => left; simp [midToks]
        | cons k ko =>
          right
          exact ⟨PTok.star, by simp [midToks], rfl, by intro all j; simp [paramNamesFrom]⟩)
    (by
      intro all j
      cases vk with
      | some p => simp [vkToks, paramNamesFrom, P.tok, getKind, P.pname]
      | none => simp [vkToks, paramNamesFrom])
    (by cases vk <;> simp [vkToks, P.tok, PTok.isSlash])
    hpk hko

/-! ## `to_string` -/

theorem ps_po (seg : List P) (rest : List PName) (isPos isKw : Bool) :
    paramStrings (seg.map (P.pname .posOnly) ++ rest) isPos isKw =
      seg.map (fun p => STok.p (p.pname .posOnly)) ++ paramStrings rest (isPos || !seg.isEmpty) isKw := by
  induction seg generalizing isPos with
  | nil => simp
  | cons p seg ih =>
    simp [paramStrings, P.pname, ih]

theorem ps_slash_first (l : List PName) (isKw : Bool) (h : ∀ n ∈ l, n.kind ≠ .posOnly) :
    paramStrings l true isKw = STok.slash :: paramStrings l false isKw := by
  cases l with
  | nil => simp [paramStrings]
  | cons n rest =>
    have hn := h n (by simp)
    simp [paramStrings, hn]

theorem ps_pk (seg : List P) (rest : List PName) (isKw : Bool) :
    paramStrings (seg.map (P.pname .posOrKw) ++ rest) false isKw =
      seg.map (fun p => STok.p (p.pname .posOrKw)) ++ paramStrings rest false isKw := by
  induction seg with
  | nil => simp
  | cons p seg ih => simp [paramStrings, P.pname, ih]

theorem ps_ko (seg : List P) (rest : List PName) :
    paramStrings (seg.map (P.pname .kwOnly) ++ rest) false true =
      seg.map (fun p => STok.p (p.pname .kwOnly)) ++ paramStrings rest false true := by
  induction seg with
  | nil => simp
  | cons p seg ih => simp [paramStrings, P.pname, ih]

theorem ps_vk (vk : Option P) (isKw : Bool) :
    paramStrings (vk.map (P.pname .varKw)).toList false isKw =
      (vk.map (fun p => STok.p (p.pname .varKw))).toList := by
  cases vk <;> simp [paramStrings, P.pname]

theorem reparse_append (a b : List STok) : reparse (a ++ b) = reparse a ++ reparse b := by
  induction a with
  | nil => rfl
  | cons x a ih => cases x <;> simp [reparse, ih]

theorem reparse_map (k : Kind) (seg : List P) :
    reparse (seg.map (fun p => STok.p (p.pname k))) = (seg.map P.pub).map (P.tok (stars k)) := by
  induction seg with
  | nil => rfl
  | cons p seg ih =>
    simp only [List.map_cons, reparse]
    rw [ih]
    simp [P.pname, P.pub, P.tok]

/-- `*args`, or the `*` marker `param_strings()` inserts before the first keyword-only parameter -/
def midSToks (vp : Option P) (ko : List P) : List STok :=
  match vp with
  | some p => [STok.p (p.pname .varPos)]
  | none => if ko.isEmpty then [] else [STok.star]

/-- what `param_strings()` yields on a valid parameter list -/
theorem paramStrings_params (s : Sig) :
    paramStrings s.params false false =
      s.po.map (fun p => STok.p (p.pname .posOnly)) ++ (if s.po.isEmpty then [] else [STok.slash]) ++
      s.pk.map (fun p => STok.p (p.pname .posOrKw)) ++
      midSToks s.vp s.ko ++
      s.ko.map (fun p => STok.p (p.pname .kwOnly)) ++
      (s.vk.map (fun p => STok.p (p.pname .varKw))).toList := by
  obtain ⟨po, pk, vp, ko, vk⟩ := s
  simp only [Sig.params, List.append_assoc]
  rw [ps_po]
  have hR : ∀ n ∈ pk.map (P.pname .posOrKw) ++ ((vp.map (P.pname .varPos)).toList ++
      (ko.map (P.pname .kwOnly) ++ (vk.map (P.pname .varKw)).toList)), n.kind ≠ .posOnly := by
    intro n hn
    simp only [List.mem_append, List.mem_map, Option.mem_toList, Option.mem_def, Option.map_eq_some_iff] at hn
    rcases hn with ⟨p, _, rfl⟩ | ⟨p, _, rfl⟩ | ⟨p, _, rfl⟩ | ⟨p, _, rfl⟩ <;> simp [P.pname]
  have hrest : paramStrings (pk.map (P.pname .posOrKw) ++ ((vp.map (P.pname .varPos)).toList ++
      (ko.map (P.pname .kwOnly) ++ (vk.map (P.pname .varKw)).toList))) false false =
      pk.map (fun p => STok.p (p.pname .posOrKw)) ++
      (midSToks vp ko ++
      (ko.map (fun p => STok.p (p.pname .kwOnly)) ++
      (vk.map (fun p => STok.p (p.pname .varKw))).toList)) := by
    rw [ps_pk]
    congr 1
    cases vp with
    | some v =>
      simp only [midSToks, Option.map_some, Option.toList_some, List.singleton_append]
      simp only [paramStrings, P.pname, decide_true, decide_false, Bool.or_self, Bool.and_self,
        Bool.false_and, Bool.and_false, if_true, if_false, reduceCtorEq, ne_eq, not_false_eq_true,
        not_true_eq_false, Bool.not_false, Bool.false_eq_true, List.nil_append]
      have := ps_ko ko (vk.map (P.pname .varKw)).toList
      simp only [P.pname] at this
      rw [this]
      have := ps_vk vk true
      simp only [P.pname] at this
      rw [this]
    | none =>
      cases ko with
      | nil =>
        have := ps_vk vk false
        simpa [midSToks] using this
      | cons k ko =>
        simp only [midSToks, Option.map_none, Option.toList_none, List.nil_append, List.map_cons, List.cons_append,
          List.isEmpty_cons, Bool.false_eq_true, if_false, List.singleton_append]
        simp only [paramStrings, P.pname, decide_true, decide_false, Bool.or_self, Bool.and_self,
          Bool.false_and, Bool.and_false, Bool.and_true, if_true, if_false, reduceCtorEq, ne_eq, not_false_eq_true,
          not_true_eq_false, Bool.not_false, Bool.false_eq_true, List.nil_append, List.singleton_append]
        have := ps_ko ko (vk.map (P.pname .varKw)).toList
        simp only [P.pname] at this
        rw [this]
        have := ps_vk vk true
        simp only [P.pname] at this
        rw [this]
  cases po with
  | nil => simpa using hrest
  | cons p po =>
    simp only [List.isEmpty_cons, Bool.not_false, Bool.or_true, Bool.false_eq_true, if_false]
    rw [ps_slash_first _ _ hR, hrest]
    simp

/-! ## `process_params` without forwarding -/

theorem ppScan_po (seg : List P) (rest : List PName) :
    ppScan (seg.map (P.pname .posOnly) ++ rest) =
      (seg.map (P.pname .posOnly) ++ (ppScan rest).1, (ppScan rest).2) := by
  induction seg with
  | nil => simp
  | cons p seg ih => simp [ppScan, ih, P.pname]

theorem ppScan_pk (seg : List P) (rest : List PName) :
    ppScan (seg.map (P.pname .posOrKw) ++ rest) =
      (seg.map (P.pname .posOrKw) ++ (ppScan rest).1, (ppScan rest).2.1, (ppScan rest).2.2.1,
        (ppScan rest).2.2.2.1, seg.map P.name ++ (ppScan rest).2.2.2.2) := by
  induction seg with
  | nil => simp
  | cons p seg ih => simp [ppScan, ih, P.pname]

theorem ppScan_ko (seg : List P) (rest : List PName) :
    ppScan (seg.map (P.pname .kwOnly) ++ rest) =
      ((ppScan rest).1, (ppScan rest).2.1, seg.map (P.pname .kwOnly) ++ (ppScan rest).2.2.1,
        (ppScan rest).2.2.2) := by
  induction seg with
  | nil => simp
  | cons p seg ih => simp [ppScan, ih, P.pname]

theorem ppKwOnly_id (ks : List P) (used : List Str)
    (h1 : ∀ p ∈ ks, p.name ∉ used) (h2 : (ks.map P.name).Nodup) :
    ppKwOnly (ks.map (P.pname .kwOnly)) used = ks.map (P.pname .kwOnly) := by
  induction ks generalizing used with
  | nil => rfl
  | cons p ks ih =>
    simp only [List.map_cons, List.nodup_cons, List.mem_map, not_exists, not_and] at h2
    have hp : used.contains p.name = false := by
      simpa using h1 p (by simp)
    simp only [List.map_cons, ppKwOnly, P.pname, hp, Bool.false_eq_true, if_false]
    congr 1
    have := ih (p.name :: used) (by
      intro q hq
      simp only [List.mem_cons, not_or]
      exact ⟨fun e => h2.1 q hq e, h1 q (by simp [hq])⟩) h2.2
    simpa [P.pname] using this

theorem processParams_params (s : Sig) (h : ((s.pk ++ s.ko).map P.name).Nodup) :
    processParams s.params = s.params := by
  obtain ⟨po, pk, vp, ko, vk⟩ := s
  simp only [List.map_append, List.nodup_append, List.mem_map] at h
  have hko : ppKwOnly (ko.map (P.pname .kwOnly)) (pk.map P.name ++ []) = ko.map (P.pname .kwOnly) := by
    apply ppKwOnly_id _ _ _ h.2.1
    intro p hp hm
    simp only [List.append_nil, List.mem_map] at hm
    obtain ⟨q, hq, e⟩ := hm
    exact h.2.2 _ ⟨q, hq, rfl⟩ _ ⟨p, hp, rfl⟩ e
  have hvk : ppScan (vk.map (P.pname .varKw)).toList = ([], none, [], vk.map (P.pname .varKw), []) := by
    cases vk <;> simp [ppScan, P.pname]
  have hvp : ∀ rest, ppScan ((vp.map (P.pname .varPos)).toList ++ rest) =
      ((ppScan rest).1, (match vp with | some p => some ((ppScan rest).2.1.getD (p.pname .varPos)) | none => (ppScan rest).2.1),
        (ppScan rest).2.2) := by
    intro rest
    cases vp <;> simp [ppScan, P.pname]
  unfold processParams
  simp only [Sig.params, List.append_assoc]
  rw [ppScan_po, ppScan_pk, hvp, ppScan_ko, hvk]
  cases vp <;> cases vk <;> simp [hko] <;> simpa using hko

/-! ## `calculate_index` against CPython's binding -/

/-- the triple `_iter_arguments` yields for a complete earlier argument / for the current one -/
def CArg.triple : CArg → Triple
  | .pos => ⟨0, some [], false⟩
  | .kw n => ⟨0, some n, true⟩

theorem indexLoop_append (k : Bool) (pc : Nat) (u : List Str) (c : Triple) (xs ys : List PName) (i : Nat) :
    indexLoop k pc u c (xs ++ ys) i =
      match indexLoop k pc u c xs i with
      | some r => some r
      | none => indexLoop k pc u c ys (i + xs.length) := by
  induction xs generalizing i with
  | nil => simp [indexLoop]
  | cons x xs ih =>
    have e : i + 1 + xs.length = i + (xs.length + 1) := by omega
    simp only [List.cons_append, indexLoop, List.length_cons]
    split
    · rfl
    · split
      · rfl
      · split
        · split
          · rfl
          · split
            · rfl
            · rw [ih, e]
        · rw [ih, e]

/-- keyword being typed: parameters whose name differs (and which are not `**kwargs`) are skipped -/
theorem il_kw_nomatch (pc : Nat) (u : List Str) (n : Str) (k : Kind) (hk : k ≠ .varKw)
    (seg : List P) (h : ∀ p ∈ seg, p.name ≠ n) (i : Nat) :
    indexLoop true pc u ⟨0, some n, true⟩ (seg.map (P.pname k)) i = none := by
  induction seg generalizing i with
  | nil => rfl
  | cons p seg ih =>
    have hp : (p.name == n) = false := by simpa using h p (by simp)
    simp only [List.map_cons, indexLoop, P.pname, keyMatches, hp]
    simp [hk, ih (fun q hq => h q (by simp [hq]))]

theorem optIdx_cons_eq (n : Str) (l : List Str) : optIdx (n :: l) n = some 0 := by
  simp [optIdx, List.idxOf_cons]

theorem optIdx_cons_ne (m n : Str) (l : List Str) (h : m ≠ n) :
    optIdx (m :: l) n = (optIdx l n).map (· + 1) := by
  have hb : (m == n) = false := by simpa using h
  simp only [optIdx, List.idxOf_cons, hb, cond_false, List.length_cons]
  by_cases hl : List.idxOf n l < l.length <;> simp [hl]

/-- keyword being typed, section of keyword-capable parameters with distinct names: the one
with that name (when it may still be given by keyword) -/
theorem il_kw_seg (pc : Nat) (u : List Str) (n : Str) (hu : u.contains n = false) (k : Kind)
    (hk : k = .posOrKw ∨ k = .kwOnly) (seg : List P) (hnd : (seg.map P.name).Nodup) (i : Nat) :
    indexLoop true pc u ⟨0, some n, true⟩ (seg.map (P.pname k)) i =
      match optIdx (seg.map P.name) n with
      | some j => if k = .kwOnly ∨ pc ≤ i + j then some (i + j) else none
      | none => none := by
  induction seg generalizing i with
  | nil => simp [optIdx, indexLoop]
  | cons p seg ih =>
    simp only [List.map_cons, List.nodup_cons, List.mem_map, not_exists, not_and] at hnd
    by_cases hp : p.name = n
    · subst hp
      simp only [List.map_cons]
      rw [optIdx_cons_eq]
      have hrest := il_kw_nomatch pc u p.name k (by rcases hk with h | h <;> simp [h]) seg
        (fun q hq e => hnd.1 q hq e) (i + 1)
      simp only [indexLoop, P.pname, keyMatches, hu, Nat.add_zero]
      rcases hk with h | h <;> subst h <;> by_cases hle : pc ≤ i <;> simp [hle, hrest]
    · simp only [List.map_cons]
      rw [optIdx_cons_ne _ _ _ hp]
      have hb : (p.name == n) = false := by simpa using hp
      have hkv : k ≠ .varKw := by rcases hk with h | h <;> simp [h]
      have := ih hnd.2 (i + 1)
      have step : indexLoop true pc u ⟨0, some n, true⟩ (P.pname k p :: seg.map (P.pname k)) i =
          indexLoop true pc u ⟨0, some n, true⟩ (seg.map (P.pname k)) (i + 1) := by
        simp [indexLoop, P.pname, keyMatches, hb, hkv]
      rw [step, this]
      cases optIdx (seg.map P.name) n with
      | none => rfl
      | some j =>
        have e : i + 1 + j = i + (j + 1) := by omega
        simp [e]

/-- non-name positional argument being typed, section of positional parameters -/
theorem il_pos_seg (pc : Nat) (key : Str) (k : Kind) (hk : k = .posOnly ∨ k = .posOrKw) (seg : List P) (i : Nat)
    (hi : i ≤ pc) :
    indexLoop false pc [] ⟨0, some key, false⟩ (seg.map (P.pname k)) i =
      if pc < i + seg.length then some pc else none := by
  induction seg generalizing i with
  | nil => simp [indexLoop]; omega
  | cons p seg ih =>
    by_cases he : i = pc
    · subst he
      rcases hk with h | h <;> subst h <;> simp [indexLoop, P.pname]
    · have hlt : i < pc := by omega
      have hne : (i == pc) = false := by simpa using he
      have hnle : ¬ pc ≤ i := by omega
      have := ih (i + 1) (by omega)
      have e : i + 1 + seg.length = i + (seg.length + 1) := by omega
      rcases hk with h | h <;> subst h <;>
        simp [indexLoop, P.pname, hne, hnle, keyMatches, this, e]

theorem il_kw_po (pc : Nat) (u : List Str) (n : Str) (seg : List P) (i : Nat) :
    indexLoop true pc u ⟨0, some n, true⟩ (seg.map (P.pname .posOnly)) i = none := by
  induction seg generalizing i with
  | nil => rfl
  | cons p seg ih => simp [indexLoop, P.pname, ih]

theorem il_kw_vp (pc : Nat) (u : List Str) (n : Str) (vp : Option P) (i : Nat) :
    indexLoop true pc u ⟨0, some n, true⟩ (vp.map (P.pname .varPos)).toList i = none := by
  cases vp <;> simp [indexLoop, P.pname]

theorem il_kw_vk (pc : Nat) (u : List Str) (n : Str) (vk : Option P) (i : Nat) :
    indexLoop true pc u ⟨0, some n, true⟩ (vk.map (P.pname .varKw)).toList i =
      if vk.isSome then some i else none := by
  cases vk <;> simp [indexLoop, P.pname, keyMatches]

theorem optIdx_none_iff (l : List Str) (n : Str) : optIdx l n = none ↔ n ∉ l := by
  simp only [optIdx]
  constructor
  · intro h hm
    have := List.idxOf_lt_length_iff.mpr hm
    simp [this] at h
  · intro h
    have : ¬ List.idxOf n l < l.length := fun hlt => h (List.idxOf_lt_length_iff.mp hlt)
    simp [this]

theorem optIdx_some_mem (l : List Str) (n : Str) (j : Nat) (h : optIdx l n = some j) : n ∈ l ∧ j < l.length := by
  simp only [optIdx] at h
  by_cases hlt : List.idxOf n l < l.length
  · simp only [hlt, if_true, Option.some.injEq] at h
    exact ⟨List.idxOf_lt_length_iff.mp hlt, h ▸ hlt⟩
  · simp [hlt] at h

theorem scan_kws (kws : List Str) (c : Triple) (hc : c.star = 0) :
    scanArgs ((kws.map fun n => (⟨0, some n, true⟩ : Triple)) ++ [c]) = (!kws.isEmpty || c.eq, 0, kws) := by
  induction kws with
  | nil => simp [scanArgs, hc]
  | cons n kws ih =>
    simp only [List.map_cons, List.cons_append, scanArgs, ih]
    simp

theorem scan_wf (npos : Nat) (kws : List Str) (c : Triple) (hc : c.star = 0) :
    scanArgs (List.replicate npos (⟨0, some [], false⟩ : Triple) ++
      ((kws.map fun n => (⟨0, some n, true⟩ : Triple)) ++ [c])) = (!kws.isEmpty || c.eq, npos, kws) := by
  induction npos with
  | zero => simpa using scan_kws kws c hc
  | succ m ih =>
    simp only [List.replicate_succ, List.cons_append, scanArgs, ih]
    simp

theorem filter_isPos (npos : Nat) (kws : List Str) :
    ((List.replicate npos CArg.pos ++ kws.map CArg.kw).filter CArg.isPos).length = npos := by
  have h1 : (List.replicate npos CArg.pos).filter CArg.isPos = List.replicate npos CArg.pos := by
    apply List.filter_eq_self.mpr
    intro a ha
    rw [List.eq_of_mem_replicate ha]; rfl
  have h2 : (kws.map CArg.kw).filter CArg.isPos = [] := by
    apply List.filter_eq_nil_iff.mpr
    intro a ha
    obtain ⟨n, _, rfl⟩ := List.mem_map.mp ha
    simp [CArg.isPos]
  simp [List.filter_append, h1, h2]

/-- a `name=` argument after `npos` positional and the distinct keywords `kws` -/
theorem calcIndex_kw (s : Sig) (npos : Nat) (kws : List Str) (n : Str)
    (hnd : ((s.pk ++ s.ko).map P.name).Nodup) (hn : n ∉ kws)
    (h2 : ∀ j, optIdx (s.pk.map P.name) n = some j → s.po.length + j < npos → s.vk = none) :
    calculateIndex s.params (List.replicate npos (CArg.triple .pos) ++
        (kws.map (fun k => CArg.triple (.kw k)) ++ [CArg.triple (.kw n)])) =
      pyBind s (List.replicate npos .pos ++ kws.map .kw) (.kw n) := by
  obtain ⟨po, pk, vp, ko, vk⟩ := s
  simp only [List.map_append, List.nodup_append, List.mem_map] at hnd
  have hu : kws.contains n = false := by simpa using hn
  unfold calculateIndex pyBind
  rw [filter_isPos]
  simp only [CArg.triple]
  rw [← List.append_assoc, List.getLast?_concat, List.append_assoc, scan_wf npos kws _ rfl]
  simp only [Sig.params, Bool.or_true]
  rw [indexLoop_append, indexLoop_append, indexLoop_append, indexLoop_append]
  rw [il_kw_po, il_kw_seg npos kws n hu .posOrKw (Or.inl rfl) pk hnd.1]
  simp only [Nat.zero_add, List.length_append, List.length_map]
  rw [il_kw_vp, il_kw_seg npos kws n hu .kwOnly (Or.inr rfl) ko hnd.2.1, il_kw_vk]
  cases hpk : optIdx (pk.map P.name) n with
  | some j =>
    have hmem := (optIdx_some_mem _ _ _ hpk).1
    have hko : optIdx (ko.map P.name) n = none := by
      rw [optIdx_none_iff]
      intro hm
      obtain ⟨a, ha, ea⟩ := List.mem_map.mp hmem
      obtain ⟨b, hb, eb⟩ := List.mem_map.mp hm
      exact hnd.2.2 _ ⟨a, ha, rfl⟩ _ ⟨b, hb, rfl⟩ (ea.trans eb.symm)
    by_cases hlt : po.length + j < npos
    · have hvk := h2 j hpk hlt
      simp only at hvk
      subst hvk
      have : ¬ npos ≤ po.length + j := by omega
      simp [hko, hlt, this]
    · have : npos ≤ po.length + j := by omega
      simp [hlt, this]
  | none =>
    cases hko : optIdx (ko.map P.name) n with
    | some j =>
      cases vp <;> simp <;> omega
    | none =>
      cases vp <;> cases vk <;> simp <;> omega

/-- a non-name positional argument after `npos` positional ones -/
theorem calcIndex_pos (s : Sig) (npos : Nat)
    (h1 : npos < s.po.length + s.pk.length ∨ s.vp.isSome ∨ (s.ko = [] ∧ s.vk = none)) :
    calculateIndex s.params (List.replicate npos (CArg.triple .pos) ++
        (([] : List Str).map (fun k => CArg.triple (.kw k)) ++ [CArg.triple .pos])) =
      pyBind s (List.replicate npos .pos ++ ([] : List Str).map .kw) .pos := by
  obtain ⟨po, pk, vp, ko, vk⟩ := s
  unfold calculateIndex pyBind
  rw [filter_isPos]
  simp only [CArg.triple]
  rw [← List.append_assoc, List.getLast?_concat, List.append_assoc, scan_wf npos [] _ rfl]
  simp only [Sig.params, List.isEmpty_nil, Bool.not_true, Bool.or_self]
  rw [indexLoop_append, indexLoop_append, indexLoop_append, indexLoop_append]
  rw [il_pos_seg npos [] .posOnly (Or.inl rfl) po 0 (by omega)]
  simp only [Nat.zero_add, List.length_append, List.length_map]
  by_cases hpo : npos < po.length
  · have : npos < po.length + pk.length := by omega
    simp [hpo, this]
  · simp only [hpo, if_false]
    rw [il_pos_seg npos [] .posOrKw (Or.inr rfl) pk po.length (by omega)]
    by_cases hpk : npos < po.length + pk.length
    · simp [hpk]
    · simp only [hpk, if_false]
      simp only at h1
      rcases h1 with h | h | ⟨rfl, rfl⟩
      · exact absurd h hpk
      · cases vp with
        | none => simp at h
        | some v => simp [indexLoop, P.pname]
      · cases vp <;> simp [indexLoop, P.pname]

end JediModel.Call

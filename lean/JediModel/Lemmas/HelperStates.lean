import JediModel.Lemmas.Helper
/-! Helper-side inference states (`Listener._inference_states`) versus the parent's bookkeeping
(`InferenceStateSubprocess._used`, `__del__`, the deletion queue flushed by `run`):
every state the helper holds is queued for deletion or belongs to a live Script that is bound to
this helper and marked `_used`.  Holds for every plan and trace when `self._used = True` stands
before `run(...)`. -/
namespace JediModel.Helper

/-- a live `InferenceStateSubprocess` with id `x`, bound to helper `k`, marked `_used` -/
def Owned (iss : List ISS) (k x : Nat) : Prop := ∃ i ∈ iss, i.s = x ∧ i.proc = k ∧ i.used = true

structure Proc.Kept (iss : List ISS) (p : Proc) : Prop where
  dead : p.alive = false → p.child = []
  own : ∀ x ∈ p.child, x ∈ p.queue ∨ Owned iss p.idx x

theorem kept_of_nil {iss : List ISS} {p : Proc} (h : p.child = []) : p.Kept iss :=
  ⟨fun _ => h, by intro x hx; rw [h] at hx; cases hx⟩

theorem start_same (p : Proc) :
    p.start.idx = p.idx ∧ p.start.queue = p.queue ∧ p.start.child = p.child ∧ p.start.nreq = p.nreq := by
  unfold Proc.start; split <;> simp

theorem cleanup_child_nil (cfg : Cfg) {p : Proc} (h : p.child = []) : (p.cleanup cfg).child = [] := by
  unfold Proc.cleanup Proc.cleanupX; split <;> simp [h]

theorem kill_child_nil (cfg : Cfg) {p : Proc} (h : p.child = []) : (p.kill cfg).child = [] :=
  cleanup_child_nil cfg h

theorem loadFails_child_nil (cfg : Cfg) {p : Proc} (cls : String) (h : p.child = []) :
    (loadFails cfg p cls).1.child = [] := by
  unfold loadFails; split
  · exact kill_child_nil cfg h
  · exact h

theorem cleanup_idx (cfg : Cfg) (p : Proc) : (p.cleanup cfg).idx = p.idx := by
  unfold Proc.cleanup Proc.cleanupX; split <;> rfl
theorem cleanup_queue (cfg : Cfg) (p : Proc) : (p.cleanup cfg).queue = p.queue := by
  unfold Proc.cleanup Proc.cleanupX; split <;> rfl

theorem loadFails_idx_queue (cfg : Cfg) (p : Proc) (cls : String) :
    (loadFails cfg p cls).1.idx = p.idx ∧ (loadFails cfg p cls).1.queue = p.queue := by
  unfold loadFails; split
  · exact ⟨kill_idx cfg p, kill_queue cfg p⟩
  · simp

/-- `_send` never touches the index and the deletion queue of its `CompiledSubprocess` -/
theorem send_idx_queue (cfg : Cfg) (plan : Plan) (p : Proc) (r : Req) :
    (send cfg plan p r).1.idx = p.idx ∧ (send cfg plan p r).1.queue = p.queue := by
  obtain ⟨hi, hq, _, _⟩ := start_same p
  unfold send
  by_cases hcr : p.crashed = true
  · simp [hcr]
  · have hcr' : p.crashed = false := by simpa using hcr
    simp only [hcr', Bool.false_eq_true, if_false]
    generalize (if p.start.alive = true then plan p.start.idx p.start.nreq else Fault.beforeSend) = f
    cases f with
    | beforeSend =>
      simp only []
      split
      · exact ⟨by rw [kill_idx]; exact hi, by rw [kill_queue]; exact hq⟩
      · exact ⟨hi, hq⟩
    | afterSend =>
      simp only []
      have := loadFails_idx_queue cfg (p.start.received r).die "EOFError"
      exact ⟨this.1.trans hi, this.2.trans hq⟩
    | raisesFatal =>
      simp only []
      have := loadFails_idx_queue cfg (p.start.received r).die "EOFError"
      exact ⟨this.1.trans hi, this.2.trans hq⟩
    | trunc cls =>
      simp only []
      have := loadFails_idx_queue cfg (p.start.received r).die cls
      exact ⟨this.1.trans hi, this.2.trans hq⟩
    | raises cls => cases r <;> exact ⟨hi, hq⟩
    | none => exact ⟨hi, hq⟩

theorem drain_idx (cfg : Cfg) (plan : Plan) :
    ∀ (q : List Nat) (p : Proc), (drain cfg plan p q).1.idx = p.idx := by
  intro q
  induction q with
  | nil => intro p; rfl
  | cons d rest ih =>
    intro p
    have := (send_idx_queue cfg plan { p with queue := rest } (.delete d)).1
    unfold drain
    rcases hres : send cfg plan { p with queue := rest } (.delete d) with ⟨p', o⟩
    rw [hres] at this
    cases o with
    | ok => simp only []; rw [ih p']; exact this
    | raised c => exact this
    | remote c => exact this

/-- the helper handles one request: a state is created only for the id of a `call`, a `delete`
removes its id -/
theorem serve_kept (iss : List ISS) (p : Proc) (r : Req) (ha : p.alive = true)
    (hown : ∀ x ∈ p.child, x ∈ p.queue ∨ Owned iss p.idx x ∨ r = .delete x)
    (hcall : ∀ s, r = .call s → Owned iss p.idx s) : (serve p r).1.Kept iss := by
  refine ⟨fun h => by simp [serve, Proc.received, ha] at h, ?_⟩
  intro x hx
  have key : x ∈ p.child ∧ r ≠ .delete x ∨ r = .call x := by
    cases r with
    | info => exact Or.inl ⟨by simpa [serve, childServe] using hx, by simp⟩
    | sysPath => exact Or.inl ⟨by simpa [serve, childServe] using hx, by simp⟩
    | call s =>
      simp only [serve, childServe] at hx
      split at hx
      · exact Or.inl ⟨hx, by simp⟩
      · rcases List.mem_cons.mp hx with rfl | h
        · exact Or.inr rfl
        · exact Or.inl ⟨h, by simp⟩
    | delete d =>
      simp only [serve, childServe] at hx
      split at hx
      · rename_i hc
        simp only [List.mem_filter] at hx
        refine Or.inl ⟨hx.1, ?_⟩
        intro h
        cases h
        simp at hx
      · rename_i hc
        refine Or.inl ⟨hx, ?_⟩
        intro h
        cases h
        exact hc (by simpa using hx)
  rcases key with ⟨hm, hne⟩ | rfl
  · rcases hown x hm with h | h | h
    · exact Or.inl h
    · exact Or.inr h
    · exact absurd h hne
  · exact Or.inr (hcall x rfl)

/-- one `_send`.  `r = .delete x` excuses the state `x` from the precondition (it is what the
request removes); the id of a `call` must belong to a live, `_used` Script of this helper. -/
theorem send_kept (cfg : Cfg) (plan : Plan) (iss : List ISS) (p : Proc) (r : Req) (hf : p.Fin)
    (hd : p.alive = false → p.child = [])
    (hown : ∀ x ∈ p.child, x ∈ p.queue ∨ Owned iss p.idx x ∨ r = .delete x)
    (hcall : ∀ s, r = .call s → Owned iss p.idx s) : (send cfg plan p r).1.Kept iss := by
  obtain ⟨hi, hq, hch, _⟩ := start_same p
  unfold send
  by_cases hcr : p.crashed = true
  · simp only [hcr, if_true]
    obtain ⟨hst, har⟩ := hf.crashedStarted hcr
    exact kept_of_nil (hd (hf.disarmed hst har).2)
  · have hcr' : p.crashed = false := by simpa using hcr
    simp only [hcr', Bool.false_eq_true, if_false]
    have hdie : ∀ q : Proc, q.die.child = [] := fun _ => rfl
    cases hal : p.start.alive with
    | false =>
      simp only [Bool.false_eq_true, if_false]
      split
      · exact kept_of_nil (kill_child_nil cfg rfl)
      · exact kept_of_nil rfl
    | true =>
      simp only [if_true]
      have hs : (serve p.start r).1.Kept iss := by
        apply serve_kept iss p.start r hal
        · intro x hx; rw [hch] at hx; rw [hq, hi]; exact hown x hx
        · intro s hs; rw [hi]; exact hcall s hs
      generalize plan p.start.idx p.start.nreq = f
      cases f with
      | beforeSend =>
        simp only []
        split
        · exact kept_of_nil (kill_child_nil cfg rfl)
        · exact kept_of_nil rfl
      | afterSend => exact kept_of_nil (loadFails_child_nil cfg _ rfl)
      | raisesFatal => exact kept_of_nil (loadFails_child_nil cfg _ rfl)
      | trunc cls => exact kept_of_nil (loadFails_child_nil cfg _ rfl)
      | raises cls => cases r <;> exact hs
      | none => exact hs

/-- the flush loop of `run`: afterwards every state is owned or still queued (the loop stopped) -/
theorem drain_kept (cfg : Cfg) (plan : Plan) (iss : List ISS) :
    ∀ (q : List Nat) (p : Proc), p.Fin → (p.alive = false → p.child = []) →
      (∀ x ∈ p.child, x ∈ q ∨ Owned iss p.idx x) → (drain cfg plan p q).1.Kept iss := by
  intro q
  induction q with
  | nil =>
    intro p _ hd hown
    exact ⟨hd, fun x hx => hown x hx⟩
  | cons d rest ih =>
    intro p hf hd hown
    have hk := send_kept cfg plan iss { p with queue := rest } (.delete d) (hf.withQueue rest) hd
      (by
        intro x hx
        rcases hown x hx with h | h
        · rcases List.mem_cons.mp h with rfl | h
          · exact Or.inr (Or.inr rfl)
          · exact Or.inl h
        · exact Or.inr (Or.inl h))
      (by intro s hs; cases hs)
    have hfin := send_fin cfg plan { p with queue := rest } (.delete d) (hf.withQueue rest)
    have hiq := send_idx_queue cfg plan { p with queue := rest } (.delete d)
    unfold drain
    rcases hres : send cfg plan { p with queue := rest } (.delete d) with ⟨p', o⟩
    rw [hres] at hk hfin hiq
    cases o with
    | ok =>
      simp only []
      apply ih p' hfin hk.dead
      intro x hx
      have := hk.own x hx
      rw [hiq.2] at this
      exact this
    | raised c => exact hk
    | remote c => exact hk

/-- `CompiledSubprocess.run` for a Script that is live, bound to this helper and marked `_used` -/
theorem run_kept (cfg : Cfg) (plan : Plan) (iss : List ISS) (p : Proc) (s : Nat) (hf : p.Fin)
    (hk : p.Kept iss) (hs : Owned iss p.idx s) : (run cfg plan p s).1.Kept iss := by
  unfold run
  have hdk := drain_kept cfg plan iss p.queue p hf hk.dead hk.own
  have hdf := drain_fin cfg plan p.queue p hf
  have hdi := drain_idx cfg plan p.queue p
  rcases hres : drain cfg plan p p.queue with ⟨p', o⟩
  rw [hres] at hdk hdf hdi
  cases o with
  | ok =>
    simp only []
    apply send_kept cfg plan iss p' (.call s) hdf hdk.dead
    · intro x hx
      rcases hdk.own x hx with h | h
      · exact Or.inl h
      · exact Or.inr (Or.inl h)
    · intro t ht
      cases ht
      rw [hdi]; exact hs
  | raised c => exact hdk
  | remote c => exact hdk

/-! ### environment level -/

theorem getProc_idx {e : Env} {k : Nat} {p : Proc} (h : e.getProc k = some p) : p.idx = k := by
  have := List.find?_some h
  simpa using this

def Env.AllKept (e : Env) : Prop := ∀ k p, e.getProc k = some p → p.Kept e.iss

theorem Owned.mono {iss iss' : List ISS} {k x : Nat}
    (h : ∀ i ∈ iss, i.used = true → ∃ j ∈ iss', j.s = i.s ∧ j.proc = i.proc ∧ j.used = true) :
    Owned iss k x → Owned iss' k x := by
  rintro ⟨i, hi, h1, h2, h3⟩
  obtain ⟨j, hj, j1, j2, j3⟩ := h i hi h3
  exact ⟨j, hj, j1.trans h1, j2.trans h2, j3⟩

theorem Proc.Kept.mono {iss iss' : List ISS} {p : Proc}
    (h : ∀ i ∈ iss, i.used = true → ∃ j ∈ iss', j.s = i.s ∧ j.proc = i.proc ∧ j.used = true)
    (hk : p.Kept iss) : p.Kept iss' :=
  ⟨hk.dead, fun x hx => (hk.own x hx).imp id (Owned.mono h)⟩

/-- `find?` by index through a map that keeps indices -/
theorem find_idx_map (f : Proc → Proc) (hf : ∀ q, (f q).idx = q.idx) (k : Nat) :
    ∀ l : List Proc, (l.map f).find? (fun q => q.idx = k) = (l.find? fun q => q.idx = k).map f := by
  intro l
  induction l with
  | nil => rfl
  | cons a t ih =>
    simp only [List.map_cons, List.find?_cons, hf]
    split
    · rfl
    · exact ih

theorem getProc_setProc {e : Env} {p y : Proc} {k : Nat} (h : (e.setProc p).getProc k = some y) :
    y = p ∨ (e.getProc k = some y ∧ y.idx ≠ p.idx) := by
  unfold Env.getProc Env.setProc at h
  simp only at h
  rw [find_idx_map (fun q => if q.idx = p.idx then p else q)
    (by intro q; split <;> simp_all) k] at h
  unfold Env.getProc
  cases hq : e.procs.find? (fun q => q.idx = k) with
  | none => rw [hq] at h; cases h
  | some q =>
    rw [hq] at h
    simp only [Option.map_some, Option.some.injEq] at h
    split at h
    · exact Or.inl h.symm
    · rename_i hne
      exact Or.inr ⟨by rw [h], by rw [← h]; exact hne⟩

theorem markUsed_mono (e : Env) (s : Nat) :
    ∀ i ∈ e.iss, i.used = true → ∃ j ∈ (e.markUsed s).iss, j.s = i.s ∧ j.proc = i.proc ∧ j.used = true := by
  intro i hi hu
  refine ⟨if i.s = s then { i with used := true } else i, ?_, ?_, ?_, ?_⟩
  · exact List.mem_map.mpr ⟨i, hi, rfl⟩
  · split <;> rfl
  · split <;> rfl
  · split
    · rfl
    · exact hu

theorem markUsed_allKept {e : Env} (he : e.AllKept) (s : Nat) : (e.markUsed s).AllKept := by
  intro k p hp
  exact (he k p hp).mono (markUsed_mono e s)

theorem callRun_iss (cfg : Cfg) (plan : Plan) (e : Env) (k s : Nat) :
    (callRun cfg plan e k s).1.iss = e.iss := by
  unfold callRun; split <;> rfl

theorem callRun_allKept (cfg : Cfg) (plan : Plan) (e : Env) (k s : Nat) (hf : e.AllFin)
    (he : e.AllKept) (hs : Owned e.iss k s) : (callRun cfg plan e k s).1.AllKept := by
  unfold callRun
  split
  · exact he
  · rename_i p hp
    intro k' y hy
    rcases getProc_setProc hy with rfl | h
    · have hi := getProc_idx hp
      exact run_kept cfg plan e.iss p s (hf p (getProc_mem hp)) (he k p hp) (by rw [hi]; exact hs)
    · exact he k' y h.1

theorem getSub_allKept (cfg : Cfg) (plan : Plan) (e : Env) (hf : e.AllFin) (he : e.AllKept) :
    (getSub cfg plan e).1.AllKept := by
  have fresh : (getSub.fresh cfg plan e).1.AllKept := by
    unfold getSub.fresh
    have hk := send_kept cfg plan e.iss { idx := e.procs.length } .info (Proc.Fin.init _)
      (fun _ => rfl) (by intro x hx; cases hx) (by intro s hs; cases hs)
    rcases hres : send cfg plan { idx := e.procs.length } .info with ⟨np, o⟩
    rw [hres] at hk
    have key : ({ e with procs := np :: e.procs } : Env).AllKept := by
      intro k y hy
      unfold Env.getProc at hy
      simp only [List.find?_cons] at hy
      split at hy
      · cases hy; exact hk
      · exact he k y hy
    cases o with
    | ok => exact key
    | raised c => simp only []; split <;> exact key
    | remote c => simp only []; split <;> exact key
  unfold getSub
  split
  · split
    · exact fresh
    · exact he
  · exact fresh

theorem mem_eraseP_or_eq {α : Type} (q : α → Bool) :
    ∀ (l : List α) (i j : α), l.find? q = some i → j ∈ l → j = i ∨ j ∈ l.eraseP q := by
  intro l
  induction l with
  | nil => intro i j _ hj; cases hj
  | cons a t ih =>
    intro i j hf hj
    simp only [List.find?_cons] at hf
    cases hq : q a with
    | true =>
      rw [hq] at hf
      simp only [Option.some.injEq] at hf
      subst hf
      rw [List.eraseP_cons_of_pos hq]
      exact List.mem_cons.mp hj
    | false =>
      rw [hq] at hf
      rw [List.eraseP_cons_of_neg (by simp [hq])]
      rcases List.mem_cons.mp hj with rfl | h
      · exact Or.inr List.mem_cons_self
      · exact (ih i j hf h).imp id (List.mem_cons_of_mem _)

/-- the invariant is preserved by every operation, for every plan, when `_used` is set before
`run` -/
theorem step_allKept (cfg : Cfg) (hu : cfg.usedSetBeforeRun = true) (plan : Plan) (e : Env) (op : Op)
    (hf : e.AllFin) (he : e.AllKept) : (step cfg plan e op).1.AllKept := by
  cases op with
  | newState s =>
    unfold step
    have hi := (getSub_allFin cfg plan e hf).2
    have := getSub_allKept cfg plan e hf he
    rcases hres : getSub cfg plan e with ⟨e', o⟩
    rw [hres] at this hi
    cases o with
    | ok =>
      simp only []
      split
      · intro k y hy
        exact (this k y hy).mono (fun i hi' hu' => ⟨i, List.mem_cons_of_mem _ hi', rfl, rfl, hu'⟩)
      · exact this
    | raised c => exact this
    | remote c => exact this
  | sysPath =>
    unfold step
    have hf' := (getSub_allFin cfg plan e hf).1
    have := getSub_allKept cfg plan e hf he
    rcases hres : getSub cfg plan e with ⟨e', o⟩
    rw [hres] at this hf'
    cases o with
    | ok =>
      simp only []
      split
      · rename_i p rest hp
        have hpk : p.Kept e'.iss := this p.idx p (by unfold Env.getProc; rw [hp]; simp)
        have hpf : p.Fin := hf' p (by rw [hp]; exact List.mem_cons_self)
        have hk := send_kept cfg plan e'.iss p .sysPath hpf hpk.dead
          (fun x hx => (hpk.own x hx).imp id Or.inl) (by intro s hs; cases hs)
        have hi := (send_idx_queue cfg plan p .sysPath).1
        rcases hs : send cfg plan p .sysPath with ⟨p', o'⟩
        rw [hs] at hk hi
        intro k y hy
        unfold Env.getProc at hy
        simp only [List.find?_cons] at hy
        simp only at hi
        split at hy
        · cases hy; exact hk
        · rename_i hne
          apply this k y
          unfold Env.getProc
          rw [hp]
          simp only [List.find?_cons]
          rw [hi] at hne
          simp only [hne]
          exact hy
      · exact this
    | raised c => exact this
    | remote c => exact this
  | call s =>
    simp only [step]
    split
    · exact he
    · rename_i i hi
      simp only [hu, if_true]
      apply callRun_allKept cfg plan _ _ s (markUsed_allFin hf s) (markUsed_allKept he s)
      have him := List.mem_of_find?_eq_some hi
      have his : i.s = s := by simpa using List.find?_some hi
      refine ⟨{ i with used := true }, ?_, his, rfl, rfl⟩
      apply List.mem_map.mpr
      exact ⟨i, him, by simp [his]⟩
  | drop s =>
    simp only [step]
    split
    · exact he
    · rename_i i hi
      have him := List.mem_of_find?_eq_some hi
      have his : i.s = s := by simpa using List.find?_some hi
      -- an owner either survives the erase or is `i`
      have owner : ∀ k x, Owned e.iss k x →
          Owned (e.iss.eraseP fun j => j.s = s) k x ∨ (x = s ∧ k = i.proc ∧ i.used = true) := by
        rintro k x ⟨j, hj, j1, j2, j3⟩
        rcases mem_eraseP_or_eq (fun j => j.s = s) e.iss i j (by simpa using hi) hj with rfl | h
        · exact Or.inr ⟨by rw [← j1, his], j2.symm, j3⟩
        · exact Or.inl ⟨j, h, j1, j2, j3⟩
      split
      · rename_i hnone
        intro k y hy
        have hy' : e.getProc k = some y := hy
        refine ⟨(he k y hy').dead, ?_⟩
        intro x hx
        rcases (he k y hy').own x hx with h | h
        · exact Or.inl h
        · rcases owner _ _ h with h | ⟨_, hk, _⟩
          · exact Or.inr h
          · have hyi := getProc_idx hy'
            rw [← hyi, hk] at hy'
            have : e.getProc i.proc = none := hnone
            rw [this] at hy'; cases hy'
      · rename_i p hp
        have hp' : e.getProc i.proc = some p := hp
        have hpi := getProc_idx hp'
        split
        · rename_i hcond
          intro k y hy
          rcases getProc_setProc hy with rfl | h
          · have hpk := he _ _ hp'
            refine ⟨hpk.dead, ?_⟩
            intro x hx
            rcases hpk.own x hx with h | h
            · exact Or.inl (List.mem_cons_of_mem _ h)
            · rcases owner _ _ h with h | ⟨hxs, _, _⟩
              · exact Or.inr h
              · exact Or.inl (by rw [hxs]; exact List.mem_cons_self)
          · obtain ⟨h', hne⟩ := h
            have h' : e.getProc k = some y := h'
            have hyk := he k y h'
            refine ⟨hyk.dead, ?_⟩
            intro x hx
            rcases hyk.own x hx with hq | ho
            · exact Or.inl hq
            · rcases owner _ _ ho with ho | ⟨_, hk, _⟩
              · exact Or.inr ho
              · -- then `y` would be the helper of `i`, which has just been replaced
                exact absurd (by rw [hk]; exact hpi.symm) hne
        · rename_i hcond
          intro k y hy
          have hy' : e.getProc k = some y := hy
          have hyk := he k y hy'
          refine ⟨hyk.dead, ?_⟩
          intro x hx
          rcases hyk.own x hx with hq | ho
          · exact Or.inl hq
          · rcases owner _ _ ho with ho | ⟨_, hk, hused⟩
            · exact Or.inr ho
            · have hyi := getProc_idx hy'
              rw [← hyi, hk, hp'] at hy'
              cases hy'
              -- `i` is used, so the guard failed because the helper has crashed: it holds nothing
              have hc : p.crashed = true := by
                cases hcr : p.crashed
                · simp [hused, hcr] at hcond
                · rfl
              have hyf := hf p (getProc_mem hp')
              obtain ⟨hst, har⟩ := hyf.crashedStarted hc
              have := hyk.dead (hyf.disarmed hst har).2
              rw [this] at hx; cases hx
  | dropEnv =>
    intro k y hy
    simp only [step] at hy
    unfold Env.getProc at hy
    simp only at hy
    rw [find_idx_map (fun p => { p.cleanup cfg with fds := [] }) (fun q => cleanup_idx cfg q) k] at hy
    cases hq : e.procs.find? (fun q => q.idx = k) with
    | none => rw [hq] at hy; cases hy
    | some q =>
      rw [hq] at hy
      simp only [Option.map_some, Option.some.injEq] at hy
      subst hy
      have hqk := he k q hq
      have hch : (q.cleanup cfg).child = [] ∨ q.cleanup cfg = q := by
        unfold Proc.cleanup Proc.cleanupX; split
        · exact Or.inl rfl
        · exact Or.inr rfl
      rcases hch with h | h
      · exact kept_of_nil h
      · refine ⟨?_, ?_⟩
        · intro ha; simp only [h] at ha ⊢; exact hqk.dead ha
        · intro x hx; simp only [h] at hx ⊢; exact hqk.own x hx

theorem exec_allKept (cfg : Cfg) (hu : cfg.usedSetBeforeRun = true) (plan : Plan) :
    ∀ (ops : List Op) (e : Env), e.AllFin → e.AllKept → (exec cfg plan e ops).1.AllKept := by
  intro ops
  induction ops with
  | nil => intro e _ he; exact he
  | cons op ops ih =>
    intro e hf he
    simp only [exec]
    exact ih _ (step_allFin cfg plan e op hf) (step_allKept cfg hu plan e op hf he)

/-! ### a served request has flushed the deletion queue -/

theorem drain_ok_queue (cfg : Cfg) (plan : Plan) :
    ∀ (q : List Nat) (p : Proc), (drain cfg plan p q).2 = .ok → (drain cfg plan p q).1.queue = [] := by
  intro q
  induction q with
  | nil => intro p _; rfl
  | cons d rest ih =>
    intro p
    unfold drain
    rcases hres : send cfg plan { p with queue := rest } (.delete d) with ⟨p', o⟩
    cases o with
    | ok => simp only []; exact ih p'
    | raised c => simp
    | remote c => simp

theorem run_ok_queue (cfg : Cfg) (plan : Plan) (p : Proc) (s : Nat) :
    (run cfg plan p s).2 = .ok → (run cfg plan p s).1.queue = [] := by
  unfold run
  have hq := drain_ok_queue cfg plan p.queue p
  rcases hres : drain cfg plan p p.queue with ⟨p', o⟩
  rw [hres] at hq
  cases o with
  | ok =>
    simp only []
    intro _
    rw [(send_idx_queue cfg plan p' (.call s)).2]
    exact hq rfl
  | raised c => simp
  | remote c => simp

theorem run_idx (cfg : Cfg) (plan : Plan) (p : Proc) (s : Nat) : (run cfg plan p s).1.idx = p.idx := by
  unfold run
  have hi := drain_idx cfg plan p.queue p
  rcases hres : drain cfg plan p p.queue with ⟨p', o⟩
  rw [hres] at hi
  cases o with
  | ok => simp only []; rw [(send_idx_queue cfg plan p' (.call s)).1]; exact hi
  | raised c => exact hi
  | remote c => exact hi

/-- when the request of a Script bound to helper `k` came back without an exception, the deletion
queue of that helper is empty: everything queued was deleted before the request was served -/
theorem callRun_ok_flushed (cfg : Cfg) (plan : Plan) (e : Env) (k s : Nat)
    (h : (callRun cfg plan e k s).2 = .ok) :
    ∀ p, (callRun cfg plan e k s).1.getProc k = some p → p.queue = [] := by
  unfold callRun at h ⊢
  split at h
  · simp at h
  · rename_i q hq
    rename_i x
    simp only [hq]
    intro p hp
    rcases getProc_setProc hp with rfl | ⟨hp', hne⟩
    · exact run_ok_queue cfg plan q s h
    · exfalso
      apply hne
      rw [run_idx, getProc_idx hp', getProc_idx hq]

end JediModel.Helper

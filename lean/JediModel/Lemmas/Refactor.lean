import JediModel.Model.Refactor
import JediModel.Lemmas.Diff
/-! Lemmas about the key set of the maps `inline` and `_replace` build. -/
namespace JediModel.Refactor
open JediModel.Text JediModel.Tree

def keysOf (m : Map) : List Nat := m.map (·.1)

theorem mset_keys (m : Map) (i : Nat) (s : Str) (k : Nat) (h : k ∈ keysOf (mset m i s)) :
    k ∈ keysOf m ∨ k = i := by
  unfold keysOf mset at h
  simp only [List.map_append, List.mem_append, List.mem_map, List.mem_filter] at h
  rcases h with ⟨e, ⟨he, _⟩, rfl⟩ | ⟨e, he, rfl⟩
  · left; exact List.mem_map.mpr ⟨e, he, rfl⟩
  · right; simp at he; rw [he]

theorem foldl_mset_keys (l : List Nat) : ∀ (m : Map) (k : Nat),
    k ∈ keysOf (l.foldl (fun m i => mset m i []) m) → k ∈ keysOf m ∨ k ∈ l := by
  induction l with
  | nil => intro m k h; left; exact h
  | cons a l ih =>
    intro m k h
    simp only [List.foldl_cons] at h
    rcases ih _ k h with h | h
    · rcases mset_keys _ _ _ _ h with h | h
      · left; exact h
      · right; simp [h]
    · right; simp [h]

theorem oneRef_keys (parts : ParenRule) (d : DefInfo) (m : Map) (n : NameInfo) (k : Nat)
    (h : k ∈ keysOf (oneRef parts d m n)) :
    k ∈ keysOf m ∨ k ∈ n.id :: n.parentId :: n.before := by
  unfold oneRef at h
  simp only at h
  split at h
  · rcases mset_keys _ _ _ _ h with h | h
    · rcases foldl_mset_keys _ _ _ h with h | h
      · left; exact h
      · right; simp [h]
    · right; simp [h]
  · rcases mset_keys _ _ _ _ h with h | h
    · left; exact h
    · right; simp [h]

theorem foldl_oneRef_keys (parts : ParenRule) (d : DefInfo) (refs : List NameInfo) :
    ∀ (m : Map) (k : Nat), k ∈ keysOf (refs.foldl (oneRef parts d) m) →
      k ∈ keysOf m ∨ k ∈ refs.flatMap (fun n => n.id :: n.parentId :: n.before) := by
  induction refs with
  | nil => intro m k h; left; exact h
  | cons n refs ih =>
    intro m k h
    simp only [List.foldl_cons] at h
    rcases ih _ k h with h | h
    · rcases oneRef_keys _ _ _ _ _ h with h | h
      · left; exact h
      · right; simp only [List.flatMap_cons, List.mem_append]; left; exact h
    · right; simp only [List.flatMap_cons, List.mem_append]; right; exact h

theorem dropLast_flatten_getLast (ls : List Str) (last : Str) (h : ls.getLast? = some last) :
    ls.dropLast.flatten ++ last = ls.flatten := by
  have : ls = ls.dropLast ++ [last] := by
    have hne : ls ≠ [] := by intro e; subst e; simp at h
    have := List.dropLast_concat_getLast hne
    rw [List.getLast?_eq_some_getLast hne] at h
    simp at h
    rw [h] at this
    exact this.symm
  conv => rhs; rw [this]
  simp

/-! ## lookups in the maps -/

theorem get_mset_other (m : Map) (i j : Nat) (s : Str) (h : j ≠ i) :
    (mset m i s).get? j = m.get? j := by
  unfold mset Map.get?
  induction m with
  | nil => simp [List.find?, h.symm]
  | cons a m ih =>
    by_cases ha : a.1 = i
    · have : (a.1 != i) = false := by simp [ha]
      simp only [List.filter_cons, this, Bool.false_eq_true, ↓reduceIte, List.find?_cons]
      have hj : (a.1 == j) = false := by simp [ha, h.symm]
      simp only [hj]
      exact ih
    · have : (a.1 != i) = true := by simp [ha]
      simp only [List.filter_cons, this, ↓reduceIte, List.cons_append, List.find?_cons]
      cases hj : (a.1 == j) with
      | true => rfl
      | false => exact ih

theorem get_mset_self (m : Map) (i : Nat) (s : Str) : (mset m i s).get? i = some s := by
  unfold mset Map.get?
  induction m with
  | nil => simp
  | cons a m ih =>
    by_cases ha : a.1 = i
    · have : (a.1 != i) = false := by simp [ha]
      simp only [List.filter_cons, this, Bool.false_eq_true, ↓reduceIte]
      exact ih
    · have : (a.1 != i) = true := by simp [ha]
      have hj : (a.1 == i) = false := by simp [ha]
      simp only [List.filter_cons, this, ↓reduceIte, List.cons_append, List.find?_cons, hj]
      exact ih

theorem get_foldl_mset_other (l : List Nat) (j : Nat) (h : j ∉ l) : ∀ m : Map,
    (l.foldl (fun m i => mset m i []) m).get? j = m.get? j := by
  induction l with
  | nil => intro m; rfl
  | cons a l ih =>
    intro m
    simp only [List.foldl_cons]
    rw [ih (fun hh => h (List.mem_cons_of_mem _ hh))]
    exact get_mset_other m a j [] (fun e => h (by simp [e]))


/-! ## the parenthesisation table -/

/-- EXPRESSION_PARTS as in the original source (the translator's `Gen.C06.expressionParts` is
compared with this in `Props/C06.lean`) -/
def originalParts : List String := ["or_test", "and_test", "not_test", "comparison", "expr", "xor_expr",
  "and_expr", "shift_expr", "arith_expr", "term", "factor", "power", "atom_expr"]

/-- the parent types a sound rule needs beyond EXPRESSION_PARTS -/
def fixExtra : List String := ["test", "star_expr", "sync_comp_for", "comp_if"]

/-- the weakest rule of the proposed shape -/
def minimalFixedRule : ParenRule := ⟨originalParts, fixExtra, true, false⟩

def rowName (p : Ctx × Rhs) : String × String := (p.1.name, p.2.type)

theorem mem_allPairs_iff (c : Ctx) (r : Rhs) : (c, r) ∈ allPairs ↔ c ∈ allCtx ∧ r ∈ allRhs := by
  unfold allPairs
  simp only [List.mem_flatMap, List.mem_map, Prod.mk.injEq]
  constructor
  · rintro ⟨c', hc', r', hr', rfl, rfl⟩; exact ⟨hc', hr'⟩
  · rintro ⟨hc, hr⟩; exact ⟨c, hc, r, hr, rfl, rfl⟩

/-- adding parent types to the rule only adds parentheses -/
theorem jediParens_mono (R R' : ParenRule) (hp : ∀ x ∈ R.parts, x ∈ R'.parts)
    (he : ∀ x ∈ R.extra, x ∈ R'.extra) (hd : R.dictRule = true → R'.dictRule = true)
    (rt pt : String) (tn ds : Bool) (h : jediParens R rt pt tn ds = true) :
    jediParens R' rt pt tn ds = true := by
  unfold jediParens at h ⊢
  simp only [Bool.or_eq_true, Bool.and_eq_true, List.contains_iff_mem] at h ⊢
  rcases h with (((h | h) | h) | h) | h
  · exact Or.inl (Or.inl (Or.inl (Or.inl h)))
  · exact Or.inl (Or.inl (Or.inl (Or.inr (hp _ h))))
  · exact Or.inl (Or.inl (Or.inr (he _ h)))
  · exact Or.inl (Or.inr ⟨⟨hd h.1.1, h.1.2⟩, h.2⟩)
  · exact Or.inr h

/-- the weakest rule of the proposed shape is sound on the whole table (58 slots x 20 kinds) -/
theorem minimalFixedRule_sound :
    ∀ c ∈ allCtx, ∀ r ∈ allRhs, needsParens c r = true →
      jediParens minimalFixedRule r.type c.parent c.trailerNext c.dstar = true := by
  decide +kernel

/-- outside the rows `unsoundPairs` lists, the rule adds the parentheses the grammar needs -/
theorem sound_outside_unsound (R : ParenRule) (c : Ctx) (hc : c ∈ allCtx) (r : Rhs) (hr : r ∈ allRhs)
    (hn : rowName (c, r) ∉ (unsoundPairs R).map rowName) (h : needsParens c r = true) :
    jediParens R r.type c.parent c.trailerNext c.dstar = true := by
  cases hj : jediParens R r.type c.parent c.trailerNext c.dstar with
  | true => rfl
  | false =>
    exfalso
    apply hn
    refine List.mem_map.mpr ⟨(c, r), ?_, rfl⟩
    unfold unsoundPairs
    simp only [List.mem_filter, Bool.and_eq_true, Bool.not_eq_true']
    exact ⟨(mem_allPairs_iff c r).mpr ⟨hc, hr⟩, h, hj⟩

/-- every row `unsoundPairs` lists is a counter-example -/
theorem unsound_are_counterexamples (R : ParenRule) :
    ∀ p ∈ (unsoundPairs R).map rowName, ∃ c ∈ allCtx, ∃ r ∈ allRhs, c.name = p.1 ∧ r.type = p.2 ∧
      needsParens c r = true ∧ jediParens R r.type c.parent c.trailerNext c.dstar = false := by
  intro p hp
  obtain ⟨⟨c, r⟩, hcr, rfl⟩ := List.mem_map.mp hp
  unfold unsoundPairs at hcr
  simp only [List.mem_filter, Bool.and_eq_true, Bool.not_eq_true'] at hcr
  obtain ⟨hmem, hneed, hj⟩ := hcr
  obtain ⟨hc, hr⟩ := (mem_allPairs_iff c r).mp hmem
  exact ⟨c, hc, r, hr, rfl, rfl, hneed, hj⟩

end JediModel.Refactor

import JediModel.Model.Refactor
import JediModel.Lemmas.Diff
/-! Lemmas about the key set of the maps `inline` and `_replace` build. -/
namespace JediModel.Refactor
open JediModel.Text JediModel.Tree

def keysOf (m : Map) : List Nat := m.map (·.1)

theorem mset_keys (m : Map) (i : Nat) (s : Str) (k : Nat) (h : k ∈ keysOf (mset m i s)) :
    k ∈ keysOf m ∨ k = i := by
  unfold keysOf mset at h
  simp only [List.map_append, List.mem_append, List.mem_map, List.mem_filter] at h
  rcases h with ⟨e, ⟨he, _⟩, rfl⟩ | ⟨e, he, rfl⟩
  · left; exact List.mem_map.mpr ⟨e, he, rfl⟩
  · right; simp at he; rw [he]

theorem foldl_mset_keys (l : List Nat) : ∀ (m : Map) (k : Nat),
    k ∈ keysOf (l.foldl (fun m i => mset m i []) m) → k ∈ keysOf m ∨ k ∈ l := by
  induction l with
  | nil => intro m k h; left; exact h
  | cons a l ih =>
    intro m k h
    simp only [List.foldl_cons] at h
    rcases ih _ k h with h | h
    · rcases mset_keys _ _ _ _ h with h | h
      · left; exact h
      · right; simp [h]
    · right; simp [h]

theorem oneRef_keys (parts : List String) (d : DefInfo) (m : Map) (n : NameInfo) (k : Nat)
    (h : k ∈ keysOf (oneRef parts d m n)) :
    k ∈ keysOf m ∨ k ∈ n.id :: n.parentId :: n.before := by
  unfold oneRef at h
  simp only at h
  split at h
  · rcases mset_keys _ _ _ _ h with h | h
    · rcases foldl_mset_keys _ _ _ h with h | h
      · left; exact h
      · right; simp [h]
    · right; simp [h]
  · rcases mset_keys _ _ _ _ h with h | h
    · left; exact h
    · right; simp [h]

theorem foldl_oneRef_keys (parts : List String) (d : DefInfo) (refs : List NameInfo) :
    ∀ (m : Map) (k : Nat), k ∈ keysOf (refs.foldl (oneRef parts d) m) →
      k ∈ keysOf m ∨ k ∈ refs.flatMap (fun n => n.id :: n.parentId :: n.before) := by
  induction refs with
  | nil => intro m k h; left; exact h
  | cons n refs ih =>
    intro m k h
    simp only [List.foldl_cons] at h
    rcases ih _ k h with h | h
    · rcases oneRef_keys _ _ _ _ _ h with h | h
      · left; exact h
      · right; simp only [List.flatMap_cons, List.mem_append]; left; exact h
    · right; simp only [List.flatMap_cons, List.mem_append]; right; exact h

theorem dropLast_flatten_getLast (ls : List Str) (last : Str) (h : ls.getLast? = some last) :
    ls.dropLast.flatten ++ last = ls.flatten := by
  have : ls = ls.dropLast ++ [last] := by
    have hne : ls ≠ [] := by intro e; subst e; simp at h
    have := List.dropLast_concat_getLast hne
    rw [List.getLast?_eq_some_getLast hne] at h
    simp at h
    rw [h] at this
    exact this.symm
  conv => rhs; rw [this]
  simp

end JediModel.Refactor

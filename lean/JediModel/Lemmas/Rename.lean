import JediModel.Model.Rename
namespace JediModel.Tree
open JediModel.Text

/-- what `render` needs from a map to behave like the substitution -/
structure GoodMap (m : Map) (R : List Nat) (new : Str) (ls : List LeafInfo) (ns : List Nat) : Prop where
  leaf : ∀ l ∈ ls, m.get? l.id = if R.contains l.id then some (l.pfx ++ new) else none
  node : ∀ i ∈ ns, m.get? i = none

mutual
  theorem render_subst (m : Map) (R : List Nat) (new : Str) :
      (t : T) → GoodMap m R new (leaves t) (nodeIds t) → render m t = code (substT R new t)
    | .leaf i ty p v, h => by
      have := h.leaf ⟨i, ty, p, v⟩ (by simp [leaves])
      simp only at this
      unfold render substT code
      rw [this]
      split <;> simp_all
    | .node i ty cs, h => by
      have hn := h.node i (by simp [nodeIds])
      unfold render substT code
      rw [hn]
      simp only
      exact render_subst_list m R new cs
        ⟨fun l hl => h.leaf l (by simpa [leaves] using hl),
         fun j hj => h.node j (by simp [nodeIds, hj])⟩
  theorem render_subst_list (m : Map) (R : List Nat) (new : Str) :
      (cs : List T) → GoodMap m R new (leavesList cs) (nodeIdsList cs) →
        renderList m cs = codeList (substList R new cs)
    | [], _ => by simp [renderList, substList, codeList]
    | c :: cs, h => by
      unfold renderList substList codeList
      rw [render_subst m R new c
        ⟨fun l hl => h.leaf l (by simp [leavesList, hl]),
         fun j hj => h.node j (by simp [nodeIdsList, hj])⟩,
        render_subst_list m R new cs
        ⟨fun l hl => h.leaf l (by simp [leavesList, hl]),
         fun j hj => h.node j (by simp [nodeIdsList, hj])⟩]
end

/-- the entry `rename` creates for a leaf -/
def entry (R : List Nat) (new : Str) (l : LeafInfo) : Option (Nat × Str) :=
  if R.contains l.id then some (l.id, l.pfx ++ new) else none

theorem renameMap_eq (R : List Nat) (new : Str) (t : T) :
    renameMap R new t = (leaves t).filterMap (entry R new) := rfl

theorem entries_find_none (R : List Nat) (new : Str) (ls : List LeafInfo) (i : Nat)
    (h : ∀ b ∈ ls, R.contains b.id = true → b.id ≠ i) :
    (ls.filterMap (entry R new)).find? (fun x => x.1 == i) = none := by
  rw [List.find?_eq_none]
  intro e he
  obtain ⟨b, hb, hbe⟩ := List.mem_filterMap.mp he
  unfold entry at hbe
  split at hbe
  · rename_i hrb
    cases hbe
    simp only [beq_iff_eq]
    exact h b hb hrb
  · cases hbe

/-- lookup in the rename map -/
theorem renameMap_get (R : List Nat) (new : Str) (ls : List LeafInfo)
    (hnd : (ls.map (·.id)).Nodup) (l : LeafInfo) (hl : l ∈ ls) :
    Map.get? (ls.filterMap (entry R new)) l.id =
      if R.contains l.id then some (l.pfx ++ new) else none := by
  induction ls with
  | nil => simp at hl
  | cons a as ih =>
    simp only [List.map_cons, List.nodup_cons] at hnd
    rcases List.mem_cons.mp hl with rfl | hl'
    · cases hr : R.contains l.id with
      | true =>
        have he : entry R new l = some (l.id, l.pfx ++ new) := by simp only [entry, hr, if_true]
        rw [List.filterMap_cons_some he]
        simp [Map.get?]
      | false =>
        have he : entry R new l = none := by simp only [entry, hr, Bool.false_eq_true, if_false]
        rw [List.filterMap_cons_none he]
        unfold Map.get?
        rw [entries_find_none R new as l.id]
        · simp
        · intro b hb _ hid
          exact hnd.1 (List.mem_map.mpr ⟨b, hb, hid⟩)
    · have hne : a.id ≠ l.id := by
        intro h
        exact hnd.1 (List.mem_map.mpr ⟨l, hl', h.symm⟩)
      have := ih hnd.2 hl'
      cases hr : R.contains a.id with
      | true =>
        have he : entry R new a = some (a.id, a.pfx ++ new) := by simp only [entry, hr, if_true]
        rw [List.filterMap_cons_some he]
        unfold Map.get? at this ⊢
        rw [List.find?_cons]
        have hb : ((a.id, a.pfx ++ new).1 == l.id) = false := by simpa using hne
        simp only [hb]
        exact this
      | false =>
        have he : entry R new a = none := by simp only [entry, hr, Bool.false_eq_true, if_false]
        rw [List.filterMap_cons_none he]
        exact this

theorem renameMap_get_none (R : List Nat) (new : Str) (ls : List LeafInfo) (i : Nat)
    (hi : R.contains i = false) :
    Map.get? (ls.filterMap (entry R new)) i = none := by
  unfold Map.get?
  rw [entries_find_none R new ls i]
  · rfl
  · intro b _ hrb hid
    rw [hid, hi] at hrb
    cases hrb

end JediModel.Tree

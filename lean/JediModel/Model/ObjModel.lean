/-! Model of how `jedi.Interpreter` reaches live Python objects.

* `pyGetattr`      CPython's `object.__getattribute__` / `type.__getattribute__` lookup order,
                   returning the chosen entry **and the trace of user `__get__` calls**
* `getattrStatic`  `jedi/inference/compiled/getattr_static.py:getattr_static` (entry, is_get_descriptor)
* `isAllowedGetattr`  `access.py:DirectObjectAccess.is_allowed_getattr`
* `filterGet`      `value.py:CompiledValueFilter._get` decision table
* `filterGetInfer` `CompiledValueFilter.get` followed by `name.infer()` (= `getattr(obj, name)` for real names)
* `filterValues`   `CompiledValueFilter.values` over `get_dir_infos`
* `pySimpleGetitem`, `mixedSimpleGetitem`, `pyIterList`, `hasIter`, `compiledPyIter`, `pyBool`
                   `access.py` / `value.py` / `mixed.py` item access, iteration, truth value
* `Slot`           what `lookup_special_method_static(obj, name)` finds along `type(obj).__mro__`

Everything that comes from the source (type lists, guard expressions, lookup orders) enters
through `Cfg`; `Model/ObjCfg.lean` instantiates it with `JediModel.Gen.C13`. Core Lean only. -/
namespace JediModel.ObjModel

/-! ## attribute entries -/

/-- what the *type of the stored value* looks like to the attribute lookup machinery -/
inductive Tag where
  | plain                              -- type has neither `__get__` nor `__set__`/`__delete__`
  | getNonData                         -- user class defining `__get__` only
  | getData                            -- user class defining `__get__` and `__set__`/`__delete__`
  | setOnly                            -- user class defining `__set__`/`__delete__`, no `__get__`
  | prop (annotated : Bool)            -- builtin `property`; `fget` is user code; return annotation?
  | slotMember                         -- `member_descriptor` created by `__slots__`
  | builtinDescr (ty : String) (data : Bool)  -- other builtin descriptor type (`function`, `staticmethod`, ...)
deriving DecidableEq, Repr

/-- one `name: value` pair of an instance or class `__dict__`; `id` identifies the stored object -/
structure Entry where
  name : String
  tag : Tag
  id : Nat
deriving DecidableEq, Repr

/-- `'__get__'` is found on `type(value).__mro__` -/
def Tag.hasGet : Tag → Bool
  | .plain => false
  | .setOnly => false
  | _ => true

/-- `'__set__'` or `'__delete__'` is found on `type(value).__mro__` -/
def Tag.hasSet : Tag → Bool
  | .getData => true
  | .setOnly => true
  | .prop _ => true
  | .slotMember => true
  | .builtinDescr _ d => d
  | _ => false

/-- calling `__get__(instance, owner)` with a real instance runs user code -/
def Tag.userGet : Tag → Bool
  | .getNonData => true
  | .getData => true
  | .prop _ => true
  | _ => false

/-- calling `__get__(None, owner)` (attribute found on the class itself, looked up through the
class) runs user code: `property.__get__(None, cls)` returns the property without calling `fget` -/
def Tag.userGetNoInstance : Tag → Bool
  | .getNonData => true
  | .getData => true
  | _ => false

/-- `type(value).__name__` when that type is a builtin one -/
def Tag.typeName : Tag → Option String
  | .prop _ => some "property"
  | .slotMember => some "member_descriptor"
  | .builtinDescr t _ => some t
  | _ => none

/-- `type(value) in <tuple of builtin types>` -/
def typeIn (allowed : List String) (t : Tag) : Bool :=
  match t.typeName with
  | some n => allowed.contains n
  | none => false

def findIn (d : List Entry) (a : String) : Option Entry := d.find? (fun e => e.name == a)

/-- first hit along a list of class `__dict__`s (`_check_class`, `_PyType_Lookup`) -/
def mroLookup (mro : List (List Entry)) (a : String) : Option Entry := mro.findSome? (findIn · a)

/-- the object an attribute is looked up on -/
structure Target where
  isType : Bool                   -- `_is_type(obj)`
  inst : Option (List Entry)      -- instance `__dict__` (`none`: the object has none)
  mro : List (List Entry)         -- `__dict__`s along `type(obj).__mro__` (instance) / `obj.__mro__` (class)
  metaMro : List (List Entry)     -- classes only: `__dict__`s along `type(obj).__mro__`
deriving Repr

/-! ## CPython's lookup -/

structure GetResult where
  found : Option Entry     -- entry whose value (or whose `__get__` result) is the result; `none` = AttributeError
  viaGet : Bool            -- a `__get__` (builtin or user) produced the result
  trace : List Nat         -- ids of the entries whose *user-defined* `__get__` ran, in order
deriving DecidableEq, Repr

def GetResult.miss : GetResult := ⟨none, false, []⟩
def GetResult.direct (e : Entry) : GetResult := ⟨some e, false, []⟩
/-- `descr.__get__(obj, type(obj))` -/
def GetResult.invoke (e : Entry) : GetResult := ⟨some e, true, if e.tag.userGet then [e.id] else []⟩
/-- `descr.__get__(None, cls)` -/
def GetResult.invokeNoInstance (e : Entry) : GetResult :=
  ⟨some e, true, if e.tag.userGetNoInstance then [e.id] else []⟩

/-- `object.__getattribute__` (`_PyObject_GenericGetAttrWithDict`) -/
def pyGetattrInstance (inst : Option (List Entry)) (mro : List (List Entry)) (a : String) : GetResult :=
  match mroLookup mro a with
  | some d =>
    if d.tag.hasGet && d.tag.hasSet then .invoke d
    else match inst.bind (findIn · a) with
      | some i => .direct i
      | none => if d.tag.hasGet then .invoke d else .direct d
  | none =>
    match inst.bind (findIn · a) with
    | some i => .direct i
    | none => .miss

/-- `type.__getattribute__` (`type_getattro`) -/
def pyGetattrType (mro metaMro : List (List Entry)) (a : String) : GetResult :=
  match mroLookup metaMro a with
  | some m =>
    if m.tag.hasGet && m.tag.hasSet then .invoke m
    else match mroLookup mro a with
      | some e => if e.tag.hasGet then .invokeNoInstance e else .direct e
      | none => if m.tag.hasGet then .invoke m else .direct m
  | none =>
    match mroLookup mro a with
    | some e => if e.tag.hasGet then .invokeNoInstance e else .direct e
    | none => .miss

/-- `getattr(obj, a)` for objects whose classes define neither `__getattribute__` nor `__getattr__` -/
def pyGetattr (t : Target) (a : String) : GetResult :=
  if t.isType then pyGetattrType t.mro t.metaMro a else pyGetattrInstance t.inst t.mro a

/-! ## jedi's static lookup -/

structure Cfg where
  allowedDescr : List String                 -- ALLOWED_DESCRIPTOR_ACCESS
  allowedGetitem : List String               -- ALLOWED_GETITEM_TYPES
  isDescriptorCond : Bool → Bool → Bool      -- is_allowed_getattr: (is_get_descriptor, type in allowed)
  getAbsentCond : Bool → Bool → Bool         -- _get: (check_has_attribute, has_attribute)
  getEmptyCond : Bool → Bool → Bool → Bool   -- _get: (is_descriptor, has_attribute, allow_unsafe)
  getNotInDirCond : Bool → Bool → Bool       -- _get: (is_instance, in_dir)
  getitemRefuses : Bool → Bool → Bool        -- py__simple_getitem__: (safe, type in allowed)
  iterListRefuses : Bool → Bool              -- py__iter__list: (type in allowed)
  mixedUsesCompiled : Bool → Bool            -- MixedObject.py__simple_getitem__: (type in allowed)
  boolRefuses : Bool → Bool → Bool           -- py__bool__: (safe, _has_builtin_bool(obj))
  boolLookupOrder : List String              -- _has_builtin_bool: names looked up on the type, in order
  builtinMethodTypes : List String           -- _has_builtin_bool: `type(method) is <one of these>`
  /-- `_has_builtin_bool`: nesting of its two loops. `false`: `for name in <names>` is the outer loop
  and each name is looked up along the whole MRO; `true`: `for klass in <mro>` is the outer loop and
  the first class that has any of the names decides -/
  boolWalkMroOuter : Bool := false

/-- `_shadowed_dict(klass)`: first `__dict__` entry along the MRO that is not the class's own
getset descriptor (`none` = `_sentinel`) -/
def shadowedDict (mro : List (List Entry)) : Option Entry :=
  mro.findSome? fun d =>
    match findIn d "__dict__" with
    | some e => if e.tag == .builtinDescr "getset_descriptor" true then none else some e
    | none => none

/-- the `if dict_attr is _sentinel or type(dict_attr) is MemberDescriptorType or ... GetSetDescriptorType` test -/
def instanceDictReadable (mro : List (List Entry)) : Bool :=
  match shadowedDict mro with
  | none => true
  | some e => e.tag.typeName == some "member_descriptor" || e.tag.typeName == some "getset_descriptor"

/-- `getattr_static(obj, a)`: `none` = AttributeError, else `(attr, is_get_descriptor)`.
Reads dictionaries only.  For types the metaclass is looked at too: a data descriptor found there
has priority over an attribute of the class (as in `type.__getattribute__`), any other metaclass
hit is the last resort; every metaclass hit reports whether it has `__get__`. -/
def getattrStatic (t : Target) (a : String) : Option (Entry × Bool) :=
  let instR : Option Entry :=
    if t.isType then none
    else if instanceDictReadable t.mro then t.inst.bind (findIn · a) else none
  let metaR : Option Entry := if t.isType then mroLookup t.metaMro a else none
  let klassR := mroLookup t.mro a
  let rest : Option (Entry × Bool) :=
    match instR, klassR with
    | some i, some k => if k.tag.hasGet && k.tag.hasSet then some (k, true) else some (i, false)
    | some i, none => some (i, false)
    | none, some k => some (k, k.tag.hasGet)
    | none, none => metaR.map fun m => (m, m.tag.hasGet)
  match metaR, klassR with
  | some m, some _ => if m.tag.hasGet && m.tag.hasSet then some (m, true) else rest
  | _, _ => rest

/-- `DirectObjectAccess.is_allowed_getattr(name, safe)` ↦ (has_attribute, is_descriptor, annotation present).
`dynHas` = what `hasattr(obj, name)` answers when the static lookup fails (only `__getattr__` /
`__getattribute__` can make it `true`). -/
def isAllowedGetattr (cfg : Cfg) (t : Target) (a : String) (safe dynHas : Bool) : Bool × Bool × Bool :=
  match getattrStatic t a with
  | none => if !safe then (dynHas, false, false) else (false, false, false)
  | some (e, isGet) =>
    if cfg.isDescriptorCond isGet (typeIn cfg.allowedDescr e.tag) then
      (true, true, match e.tag with | .prop ann => ann | _ => false)
    else (true, false, false)

inductive GetOutcome where
  | annotated                       -- names made from the property's return annotation
  | absent                          -- `[]`
  | emptyName                       -- `EmptyCompiledName` (infers to nothing, runs nothing)
  | realName (isDescriptor : Bool)  -- `CompiledName`: inferring it is `getattr(obj, name)`
deriving DecidableEq, Repr

/-- `CompiledValueFilter._get` -/
def filterGet (cfg : Cfg) (has isDescr annPresent annValues checkHas allowUnsafe isInstance inDir : Bool) :
    GetOutcome :=
  if annPresent && annValues then .annotated
  else if cfg.getAbsentCond checkHas has then .absent
  else if cfg.getEmptyCond isDescr has allowUnsafe then .emptyName
  else if cfg.getNotInDirCond isInstance inDir then .absent
  else .realName isDescr

/-- `CompiledValueFilter.get(name)` (check_has_attribute=True, safe = not allow_unsafe) -/
def filterGetOutcome (cfg : Cfg) (t : Target) (a : String)
    (allowUnsafe isInstance inDir dynHas annValues : Bool) : GetOutcome :=
  let (has, isDescr, ann) := isAllowedGetattr cfg t a (!allowUnsafe) dynHas
  filterGet cfg has isDescr ann annValues true allowUnsafe isInstance inDir

/-- `get(name)` then `.infer()` on every returned name: the user `__get__` calls this causes.
Only a real `CompiledName` touches the object (`create_from_name` → `getattr_paths` → `getattr`). -/
def filterGetInfer (cfg : Cfg) (t : Target) (a : String)
    (allowUnsafe isInstance inDir dynHas annValues : Bool) : GetOutcome × List Nat :=
  let o := filterGetOutcome cfg t a allowUnsafe isInstance inDir dynHas annValues
  match o with
  | .realName _ => (o, (pyGetattr t a).trace)
  | _ => (o, [])

/-- one element of `get_dir_infos()`: name ↦ `is_allowed_getattr(name)` (always safe=True) -/
structure DirInfo where
  name : String
  has : Bool
  isDescr : Bool
  annPresent : Bool
  annValues : Bool
deriving Repr

/-- the names `CompiledValueFilter.values()` yields for the object's own `dir()` -/
def filterValues (cfg : Cfg) (infos : List DirInfo) (allowUnsafe isInstance : Bool) : List String :=
  infos.flatMap fun i =>
    match filterGet cfg i.has i.isDescr i.annPresent i.annValues false allowUnsafe isInstance true with
    | .absent => []
    | _ => [i.name]

/-! ## item access, iteration, truth value -/

/-- what `lookup_special_method_static(obj, name)` (= `_check_class(type(obj), name)`,
`_PyType_Lookup`) finds for a special method name: the raw entry of the first class `__dict__`
along `type(obj).__mro__` that has the name -/
inductive Slot where
  | absent                  -- no class along the MRO has the name
  | builtin (ty : String)   -- a builtin descriptor of type `ty` (`wrapper_descriptor`, ...): C code
  | user                    -- a Python function: calling it runs user code
  | noneVal                 -- the entry is `None` (`__iter__ = None`)
  | other                   -- any other entry (generator function, property, ...)
deriving DecidableEq, Repr

/-- the special methods of a user-defined class (`type(obj)` is not a builtin type) -/
structure UserType where
  id : Nat
  getitem : Slot
  iter : Slot
  next : Slot
  bool : Slot
  len : Slot
deriving DecidableEq, Repr

/-- `type(obj)`, exactly (a subclass of `list` is a user type) -/
inductive Ty where
  | builtin (name : String)
  | user (u : UserType)
deriving DecidableEq, Repr

inductive Ev where
  | getitem | iter | next | bool | len
  | get (id : Nat)     -- user `__get__` of entry `id`
deriving DecidableEq, Repr

/-- `type(obj) in <tuple of builtin types>` -/
def tyIn (allowed : List String) : Ty → Bool
  | .builtin n => allowed.contains n
  | .user _ => false

/-- calling the entry runs a user-defined function -/
def Slot.runsUser : Slot → Bool
  | .user => true
  | _ => false

/-- user code run by `obj[index]` -/
def subscriptEvents : Ty → List Ev
  | .user u => if u.getitem.runsUser then [.getitem] else []
  | .builtin _ => []

/-- user code run by `for part in obj`: `__iter__`, `__next__` of the iterator when the object is
its own iterator, `__getitem__` for the sequence protocol -/
def loopEvents : Ty → List Ev
  | .user u => (if u.iter.runsUser then [.iter] else []) ++ (if u.next.runsUser then [.next] else [])
      ++ (if u.iter == .absent && u.getitem.runsUser then [.getitem] else [])
  | .builtin _ => []

/-- user code run by `bool(obj)`: `__bool__`, else `__len__` -/
def boolCallEvents : Ty → List Ev
  | .user u => if u.bool.runsUser then [.bool] else if u.bool == .absent && u.len.runsUser then [.len] else []
  | .builtin _ => []

/-- `DirectObjectAccess.py__simple_getitem__(index, safe=safe)`: reached? + user code run -/
def pySimpleGetitem (cfg : Cfg) (ty : Ty) (safe : Bool) : Bool × List Ev :=
  if cfg.getitemRefuses safe (tyIn cfg.allowedGetitem ty) then (false, [])
  else (true, subscriptEvents ty)

/-- `MixedObject.py__simple_getitem__`: the live object is subscripted only through the compiled
value, and only for allowed types (otherwise the tree value answers, no live access) -/
def mixedSimpleGetitem (cfg : Cfg) (ty : Ty) (allowUnsafe : Bool) : Bool × List Ev :=
  if cfg.mixedUsesCompiled (tyIn cfg.allowedGetitem ty) then pySimpleGetitem cfg ty (!allowUnsafe)
  else (false, [])

inductive IterOutcome where
  | noIter        -- `None`: the type has no `__iter__` (or `__iter__ = None`)
  | annotation    -- `[return annotation of __iter__]`
  | refused       -- `[]`
  | items         -- the object was iterated
deriving DecidableEq, Repr

/-- `DirectObjectAccess.py__iter__list`; `iter` = what the static lookup of `__iter__` on the
type finds (default `None`); the entry is only asked for its return annotation, never called -/
def pyIterList (cfg : Cfg) (ty : Ty) (iter : Slot) (annotated : Bool) : IterOutcome × List Ev :=
  match iter with
  | .absent => (.noIter, [])
  | .noneVal => (.noIter, [])
  | _ =>
    if annotated then (.annotation, [])
    else if cfg.iterListRefuses (tyIn cfg.allowedGetitem ty) then (.refused, [])
    else (.items, loopEvents ty)

/-- `DirectObjectAccess.has_iter`: two static lookups on the type, nothing is called.
`__iter__` decides when present (`None` = declared not iterable), else the sequence protocol. -/
def hasIter (iter getitem : Slot) : Bool :=
  match iter with
  | .absent => getitem != .absent
  | .noneVal => false
  | _ => true

/-- `CompiledValue.py__iter__`: `has_iter()` (runs nothing) then `py__iter__list()` -/
def compiledPyIter (cfg : Cfg) (ty : Ty) (iter : Slot) (annotated : Bool) : List Ev :=
  (pyIterList cfg ty iter annotated).2

/-- the special-method table of a type as far as `bool()` is concerned -/
def Ty.slot (ty : Ty) (name : String) : Slot :=
  match ty with
  | .user u => if name == "__bool__" then u.bool else if name == "__len__" then u.len else .absent
  | .builtin _ => .builtin "wrapper_descriptor"   -- builtin types: slot wrappers (or nothing)

/-- `_has_builtin_bool(obj)`: the first name of the lookup order found on the type decides -/
def hasBuiltinBool (cfg : Cfg) (ty : Ty) : Bool :=
  match cfg.boolLookupOrder.find? (fun n => ty.slot n != .absent) with
  | none => true
  | some n =>
    match ty.slot n with
    | .builtin t => cfg.builtinMethodTypes.contains t
    | _ => false

/-- `DirectObjectAccess.py__bool__(safe=safe)`: `bool(obj)` reached? + user code run -/
def pyBool (cfg : Cfg) (ty : Ty) (safe : Bool) : Bool × List Ev :=
  if cfg.boolRefuses safe (hasBuiltinBool cfg ty) then (false, [])
  else (true, boolCallEvents ty)

/-- events that are calls of user-defined container / truth protocol methods -/
def Ev.isProtocol : Ev → Bool
  | .get _ => false
  | _ => true

/-! ## truth value, at the level of the class dictionaries along `type(obj).__mro__`

`Ty.slot` above is the *result* of the static lookup (one `Slot` per name, the MRO already
flattened).  The functions below transcribe the walk itself: which class dictionary is asked for
which name in which order.  That order is what decides for classes with several bases, e.g.
`class R(list, Mixin)` with `Mixin.__bool__`: `list` provides `__len__` only and comes first. -/

/-- the part of one class `__dict__` that concerns special methods: name ↦ classified raw entry -/
abbrev ClassSlots := List (String × Slot)

/-- `name in class_dict` / `class_dict[name]` -/
def ClassSlots.get? (d : ClassSlots) (n : String) : Option Slot :=
  match d.find? (fun e => e.1 == n) with
  | some e => some e.2
  | none => none

/-- `_check_class(type(obj), name)` (= `lookup_special_method_static`, `_PyType_Lookup`): the entry of
the first class dictionary along the MRO that has the name; `none` = `_sentinel` -/
def lookupSpecial (mro : List ClassSlots) (n : String) : Option Slot :=
  mro.findSome? (fun d => d.get? n)

/-- `type(method) is WrapperDescriptorType` (the accepted types are read from the source) -/
def slotIsBuiltinMethod (cfg : Cfg) : Slot → Bool
  | .builtin t => cfg.builtinMethodTypes.contains t
  | _ => false

/-- `_has_builtin_bool`, names in the outer loop: `for name in names: method = lookup(obj, name);
if method is not _sentinel: return type(method) is ...` ; `return True` -/
def hasBuiltinBoolNames (cfg : Cfg) (mro : List ClassSlots) : List String → Bool
  | [] => true
  | n :: ns =>
    match lookupSpecial mro n with
    | some s => slotIsBuiltinMethod cfg s
    | none => hasBuiltinBoolNames cfg mro ns

/-- `_has_builtin_bool`, classes in the outer loop: `for klass in mro: for name in names:
if name in klass.__dict__: return type(klass.__dict__[name]) is ...` ; `return True` -/
def hasBuiltinBoolClasses (cfg : Cfg) (names : List String) : List ClassSlots → Bool
  | [] => true
  | d :: ds =>
    match names.findSome? (fun n => d.get? n) with
    | some s => slotIsBuiltinMethod cfg s
    | none => hasBuiltinBoolClasses cfg names ds

/-- `_has_builtin_bool(obj)` on the class dictionaries of `type(obj).__mro__` -/
def hasBuiltinBoolMro (cfg : Cfg) (mro : List ClassSlots) : Bool :=
  if cfg.boolWalkMroOuter then hasBuiltinBoolClasses cfg cfg.boolLookupOrder mro
  else hasBuiltinBoolNames cfg mro cfg.boolLookupOrder

/-- user code run by CPython's `bool(obj)`: `nb_bool` is `__bool__` found *anywhere* along the MRO;
only when no class has `__bool__` the length slot (`__len__`, again the whole MRO) is used -/
def boolCallEventsMro (mro : List ClassSlots) : List Ev :=
  match lookupSpecial mro "__bool__" with
  | some s => if s.runsUser then [.bool] else []
  | none =>
    match lookupSpecial mro "__len__" with
    | some s => if s.runsUser then [.len] else []
    | none => []

/-- `DirectObjectAccess.py__bool__(safe=safe)` on the class dictionaries: reached? + user code run -/
def pyBoolMro (cfg : Cfg) (mro : List ClassSlots) (safe : Bool) : Bool × List Ev :=
  if cfg.boolRefuses safe (hasBuiltinBoolMro cfg mro) then (false, [])
  else (true, boolCallEventsMro mro)

/-- every stored entry is a real entry (`.absent` is the lookup result "not found") -/
def mroStoresEntries (mro : List ClassSlots) : Bool :=
  mro.all fun d => d.all fun e => e.2 != .absent

/-- the flattened special-method table (`Ty.slot` of a user type) that belongs to an MRO -/
def flatSlot (mro : List ClassSlots) (n : String) : Slot :=
  match lookupSpecial mro n with
  | some s => s
  | none => .absent

end JediModel.ObjModel

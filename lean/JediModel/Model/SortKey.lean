/-! The sort key of `jedi/api/helpers.py:sorted_definitions`, the last step of `Script.infer`,
`Script.goto`, `Script.help` and `Script.get_references`:

    sorted(defs, key=lambda x: (str(x.module_path or ''), x.line or 0, x.column or 0,
                                x.name, x._name.api_type))

Transcribed with Python's comparison semantics: a key is a tuple of values that are `None`, an
`int` or a `str`; tuples compare lexicographically, `==` never raises, `<` raises `TypeError`
unless both sides are ints or both are strs.  Definitions without a tree position (compiled
modules and their members, namespace packages, keywords) have `line == column == None` and
`module_path is None`.  Core Lean only. -/
namespace JediModel.SortKey

/-- a component of a key tuple -/
inductive PyVal where
  | none
  | int (n : Nat)
  | str (s : List Char)
  deriving DecidableEq, Repr

/-- what the key function reads of one definition (`classes.Name`) -/
structure Defn where
  modulePath : Option (List Char)
  line : Option Nat
  column : Option Nat
  name : List Char
  apiType : List Char
  deriving DecidableEq, Repr

/-- the attributes the key mentions -/
inductive Attr where
  | modulePath | line | column | name | apiType
  deriving DecidableEq, Repr

/-- one element of the key tuple as written in the source: `[str(] x.<attr> [or <default>] [)]` -/
structure Component where
  attr : Attr
  /-- `or <literal>`: the literal (an int or a str), if there is one -/
  orDefault : Option PyVal
  /-- wrapped in `str(...)` -/
  str : Bool
  deriving DecidableEq, Repr

abbrev KeySpec := List Component

def Attr.read (d : Defn) : Attr → PyVal
  | .modulePath => match d.modulePath with | some p => .str p | Option.none => .none
  | .line => match d.line with | some n => .int n | Option.none => .none
  | .column => match d.column with | some n => .int n | Option.none => .none
  | .name => .str d.name
  | .apiType => .str d.apiType

/-- Python truthiness of a component value -/
def PyVal.truthy : PyVal → Bool
  | .none => false
  | .int n => n != 0
  | .str s => !s.isEmpty

/-- `str(v)`: of a str the str itself, of None / an int some str (its content is irrelevant for
raising; digits are not modelled) -/
def PyVal.toStr : PyVal → PyVal
  | .none => .str ['N', 'o', 'n', 'e']
  | .int n => .str (toString n).toList
  | .str s => .str s

def Component.eval (c : Component) (d : Defn) : PyVal :=
  let v := c.attr.read d
  let v := match c.orDefault with
    | some dflt => if v.truthy then v else dflt
    | Option.none => v
  if c.str then v.toStr else v

def keyOf (spec : KeySpec) (d : Defn) : List PyVal := spec.map (·.eval d)

inductive Err where
  | typeError
  deriving DecidableEq, Repr

/-- `a < b` on component values -/
def PyVal.lt : PyVal → PyVal → Except Err Bool
  | .int a, .int b => .ok (decide (a < b))
  | .str a, .str b => .ok (decide (a < b))
  | _, _ => .error .typeError

/-- tuple `<`: the first position where the components are not equal decides (with `<` of the
components, which may raise); a proper prefix is smaller -/
def tupleLt : List PyVal → List PyVal → Except Err Bool
  | [], [] => .ok false
  | [], _ :: _ => .ok true
  | _ :: _, [] => .ok false
  | a :: as, b :: bs => if a = b then tupleLt as bs else a.lt b

/-- every comparison `sorted` may make on the list succeeds: all ordered pairs (a two-element
list makes exactly one of them, so nothing weaker is sufficient for all lists) -/
def comparable (spec : KeySpec) (a b : Defn) : Bool :=
  match tupleLt (keyOf spec a) (keyOf spec b) with
  | .ok _ => true
  | .error _ => false

/-- the shape of the key in the source, parameterised by the two `or` defaults of the position -/
def stdSpec (lineDefault colDefault : Option PyVal) : KeySpec :=
  [⟨.modulePath, some (.str []), true⟩, ⟨.line, lineDefault, false⟩, ⟨.column, colDefault, false⟩,
   ⟨.name, Option.none, false⟩, ⟨.apiType, Option.none, false⟩]

end JediModel.SortKey

import JediModel.Model.Tree
/-! What parso's tokenizer actually assigns as `start_pos`, where it differs from the pure
layout law of `Model/Tree.positions`: a leading U+FEFF (byte order mark) is kept in the first
leaf's prefix (so it is part of `code` and of the buffer's first line) but is *not counted* in
the columns of line 1 (`parso/python/tokenize.py`: `if line.startswith(BOM_UTF8_STRING): …
line = line[1:]`, then `pos = 0`).  Every other line is unaffected. -/
namespace JediModel.ParsoPos
open JediModel.Text JediModel.Tree

def bom : Char := Char.ofNat 0xFEFF

def startsWithBom (s : Str) : Bool := s.head? == some bom

/-- shift a line-1 position one column to the left -/
def unshift (p : Pos) : Pos := if p.line = 1 then ⟨1, p.col - 1⟩ else p

/-- `leaf.start_pos` as parso reports it -/
def parsoPositions (t : T) : List (LeafInfo × Pos) :=
  if startsWithBom (code t) then (positions t).map fun lp => (lp.1, unshift lp.2)
  else positions t

end JediModel.ParsoPos

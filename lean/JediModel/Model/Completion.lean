import JediModel.Model.Match
/-! Model of `jedi/api/completion.py:filter_names`, the final sort in
`Completion.complete`, `_remove_duplicates`, and of
`jedi/api/classes.py:Completion._complete/complete/name_with_symbols/
get_completion_prefix_length`.

`lower : List Char → List Char` is CPython's `str.lower`, a parameter. -/
namespace JediModel.Completion
open JediModel.Match

/-- what the model needs to know of a candidate `Name` object -/
structure Cand where
  str : List Char      -- `name.string_name`
  pub : List Char      -- `name.get_public_name()` (`param=` for keyword params)
  isFunc : Bool        -- `Completion.type == 'function'`
  isDel : Bool         -- tree definition is a `del_stmt`
deriving DecidableEq, Repr

structure Settings where
  caseInsens : Bool    -- settings.case_insensitive_completion
  addBracket : Bool    -- settings.add_bracket_after_function
deriving Repr

/-- a `classes.Completion` object -/
structure Comp where
  cand : Cand
  likeLen : Nat        -- `_like_name_length`
  fuzzy : Bool
deriving DecidableEq, Repr

/-- `Completion.name` -/
def Comp.name (c : Comp) : List Char := c.cand.pub

/-- `Completion._complete(like_name)` -/
def Comp.completeRaw (st : Settings) (c : Comp) (useLike : Bool) : List Char :=
  (if useLike then c.cand.pub.drop c.likeLen else c.cand.pub) ++
    (if st.addBracket && c.cand.isFunc then ['('] else [])

/-- `Completion.complete` -/
def Comp.complete (st : Settings) (c : Comp) : Option (List Char) :=
  if c.fuzzy then none else some (c.completeRaw st true)

/-- `Completion.name_with_symbols` -/
def Comp.nameWithSymbols (st : Settings) (c : Comp) : List Char := c.completeRaw st false

/-- `Completion.get_completion_prefix_length()` -/
def Comp.prefixLength (c : Comp) : Nat := c.likeLen

abbrev Key := List Char × Option (List Char)

def Comp.dedupKey (st : Settings) (c : Comp) : Key := (c.name, c.complete st)

/-- `string.lower()` when `settings.case_insensitive_completion` -/
def foldCase (st : Settings) (lower : List Char → List Char) (s : List Char) : List Char :=
  if st.caseInsens then lower s else s

/-- the `Completion` object `filter_names` builds for a candidate -/
def mkComp (likeLen : Nat) (fuzzy : Bool) (c : Cand) : Comp :=
  { cand := c, likeLen := likeLen, fuzzy := fuzzy }

/-- what one iteration of the `for name in completion_names` loop does -/
inductive Step where
  | skip                 -- `continue` / no match / key already seen
  | mark (k : Key)       -- key recorded, but the name is a `del` target: not yielded
  | yield (c : Comp) (k : Key)

def filterStep (st : Settings) (lower : List Char → List Char) (like' : List Char) (likeLen : Nat)
    (fuzzy : Bool) (imported : List (List Char)) (c : Cand) (seen : List Key) : Step :=
  if imported.contains c.str && c.str != like' then .skip
  else if pmatch (foldCase st lower c.str) like' fuzzy then
    if seen.contains ((mkComp likeLen fuzzy c).dedupKey st) then .skip
    else if c.isDel then .mark ((mkComp likeLen fuzzy c).dedupKey st)
    else .yield (mkComp likeLen fuzzy c) ((mkComp likeLen fuzzy c).dedupKey st)
  else .skip

/-- the loop of `filter_names`; `seen` is `comp_dct`, `like'` the (possibly lowered) fragment,
`likeLen` the length of the fragment measured before lowering -/
def filterLoop (st : Settings) (lower : List Char → List Char) (like' : List Char) (likeLen : Nat)
    (fuzzy : Bool) (imported : List (List Char)) : List Cand → List Key → List Comp
  | [], _ => []
  | c :: cs, seen =>
    match filterStep st lower like' likeLen fuzzy imported c seen with
    | .skip => filterLoop st lower like' likeLen fuzzy imported cs seen
    | .mark k => filterLoop st lower like' likeLen fuzzy imported cs (k :: seen)
    | .yield new k => new :: filterLoop st lower like' likeLen fuzzy imported cs (k :: seen)

/-- `filter_names(...)` -/
def filterNames (st : Settings) (lower : List Char → List Char) (cands : List Cand)
    (like : List Char) (fuzzy : Bool) (imported : List (List Char)) : List Comp :=
  filterLoop st lower (foldCase st lower like) like.length fuzzy imported cands []

/-! ### sort key -/

def b2n (b : Bool) : List Nat := [if b then 1 else 0]
def codes (s : List Char) : List Nat := s.map Char.toNat

/-- one component of the key tuple, selected by the tag the translator extracts
from the `lambda` in `Completion.complete` -/
def keyComponent (lower : List Char → List Char) (like : List Char) (name : List Char) :
    String → List Nat
  | "not_startswith_like" => b2n (!(like.isPrefixOf name))
  | "startswith_dunder" => b2n (['_', '_'].isPrefixOf name)
  | "startswith_under" => b2n (['_'].isPrefixOf name)
  | "lower" => codes (lower name)
  | _ => []

/-- the key tuple: components in the order given by the source -/
def sortKey (components : List String) (lower : List Char → List Char) (like : List Char)
    (c : Comp) : List (List Nat) :=
  components.map (keyComponent lower like c.name)

def keyLE (components : List String) (lower : List Char → List Char) (like : List Char)
    (a b : Comp) : Bool :=
  decide (sortKey components lower like a ≤ sortKey components lower like b)

/-- `sorted(completions, key=...)` (Python's sort is stable, so is `mergeSort`) -/
def sortCompletions (components : List String) (lower : List Char → List Char)
    (like : List Char) (cs : List Comp) : List Comp :=
  cs.mergeSort (keyLE components lower like)

/-- `_remove_duplicates(prefixed, completions)` on names -/
def removeDuplicates (prefixed : List (List Char)) (cs : List Comp) : List (List Char) :=
  prefixed.filter (fun n => !(cs.map Comp.name).contains n)

/-- the non-string branch of `Completion.complete` after candidate collection -/
def completePython (components : List String) (st : Settings) (lower : List Char → List Char)
    (cands : List Cand) (like : List Char) (fuzzy : Bool) (imported : List (List Char)) :
    List Comp :=
  sortCompletions components lower like (filterNames st lower cands like fuzzy imported)

/-! ### case folding as the source spells it

`filter_names` folds the fragment and every candidate with a `str` method when
`settings.case_insensitive_completion`; which method, and whether the fragment is measured
before or after folding, is read from the source by the translator (`Gen.C04.fold*`). -/

/-- CPython's case mappings; parameters of the model -/
structure Folds where
  lower : List Char → List Char
  casefold : List Char → List Char
  upper : List Char → List Char

/-- `getattr(s, method)()` for the method names the translator knows -/
def Folds.by (F : Folds) : String → List Char → List Char
  | "lower" => F.lower
  | "casefold" => F.casefold
  | "upper" => F.upper
  | _ => id

/-- shape of the folding statements of `filter_names` -/
structure FoldShape where
  likeMethod : String      -- `like_name = like_name.<m>()`
  nameMethod : String      -- `string = string.<m>()`
  lengthFirst : Bool       -- `like_name_length = len(like_name)` stands before the fold
deriving DecidableEq, Repr

/-- `filter_names(...)` with the folding statements as found in the source -/
def filterNamesSrc (sh : FoldShape) (st : Settings) (F : Folds) (cands : List Cand)
    (like : List Char) (fuzzy : Bool) (imported : List (List Char)) : List Comp :=
  let like' := foldCase st (F.by sh.likeMethod) like
  filterLoop st (F.by sh.nameMethod) like'
    (if sh.lengthFirst then like.length else like'.length) fuzzy imported cands []

/-- the non-string branch of `Completion.complete` with the source's folding statements; the
sort key always uses `str.lower` -/
def completePythonSrc (components : List String) (sh : FoldShape) (st : Settings) (F : Folds)
    (cands : List Cand) (like : List Char) (fuzzy : Bool) (imported : List (List Char)) :
    List Comp :=
  sortCompletions components F.lower like (filterNamesSrc sh st F cands like fuzzy imported)

/-- a case mapping that works code point by code point; one code point may map to several
(`ß` ↦ `ss` under `casefold`, `İ` ↦ `i̇` under `lower`) -/
def expand (f : Char → List Char) (s : List Char) : List Char := s.flatMap f

/-- every code point of `s` maps to exactly one code point -/
def unitOn (f : Char → List Char) (s : List Char) : Bool := s.all fun ch => (f ch).length == 1

end JediModel.Completion

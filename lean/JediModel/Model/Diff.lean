import JediModel.Model.Text
/-! `ChangedFile.get_diff` (jedi/api/refactoring/__init__.py) with the differ as a parameter.

* `normLines`   — `split_lines(code, keepends=True)` + "append `\n` to a non-empty last line"
* `Op`/`Group`  — difflib's `SequenceMatcher.get_grouped_opcodes(3)` output (a *parameter*:
                  the theorems hold for every opcode list that is `Valid`, whatever difflib chose)
* `format`      — the hunks `difflib.unified_diff` emits for those groups
* `diffText`    — the text `''.join(diff).rstrip(' ')`
* `applyPatch`  — an independent unified-diff applier (checks context, removed lines and
                  both header ranges)
-/
namespace JediModel.Diff
open JediModel.Text

abbrev Line := Str

/-- `if lines[-1] != '': lines[-1] += '\n'`; `lines[-1]` of an empty list is an `IndexError` -/
def normLast : List Line → Option (List Line)
  | [] => none
  | [l] => if l = [] then some [l] else some [l ++ ['\n']]
  | l :: ls => (normLast ls).map (l :: ·)

def normLines (code : Str) : Option (List Line) := normLast (splitLines code)

inductive Tag where
  | equal | replace | delete | insert
deriving DecidableEq, Repr

/-- one difflib opcode `(tag, i1, i2, j1, j2)` -/
structure Op where
  tag : Tag
  i1 : Nat
  i2 : Nat
  j1 : Nat
  j2 : Nat
deriving DecidableEq, Repr

abbrev Group := List Op

/-- python `l[i:j]` for `i ≤ j` -/
def slice {α} (l : List α) (i j : Nat) : List α := (l.take j).drop i

/-- the lines one opcode contributes (inner loop of `difflib.unified_diff`) -/
def opLines (a b : List Line) (o : Op) : List (Char × Line) :=
  match o.tag with
  | .equal => (slice a o.i1 o.i2).map (' ', ·)
  | .replace => (slice a o.i1 o.i2).map ('-', ·) ++ (slice b o.j1 o.j2).map ('+', ·)
  | .delete => (slice a o.i1 o.i2).map ('-', ·)
  | .insert => (slice b o.j1 o.j2).map ('+', ·)

/-- a hunk as printed: `@@ -s1,l1 +s2,l2 @@` followed by its lines -/
structure Hunk where
  s1 : Nat
  l1 : Nat
  s2 : Nat
  l2 : Nat
  lines : List (Char × Line)
deriving DecidableEq, Repr

/-- `_format_range_unified(start, stop)` as the pair (beginning, length) -/
def fmtRange (start stop : Nat) : Nat × Nat :=
  if stop - start = 0 then (start, 0) else (start + 1, stop - start)

/-- `first, last = group[0], group[-1]` (an empty group is an `IndexError`) -/
def groupHunk (a b : List Line) (g : Group) : Option Hunk :=
  match g.head?, g.getLast? with
  | some f, some l =>
    let r1 := fmtRange f.i1 l.i2
    let r2 := fmtRange f.j1 l.j2
    some ⟨r1.1, r1.2, r2.1, r2.2, g.flatMap (opLines a b)⟩
  | _, _ => none

def format (a b : List Line) : List Group → Option (List Hunk)
  | [] => some []
  | g :: gs => match groupHunk a b g, format a b gs with
    | some h, some hs => some (h :: hs)
    | _, _ => none

/-! ## text -/

def natStr (n : Nat) : Str := (toString n).toList

/-- `'{}'.format(beginning)` when `length == 1`, else `'{},{}'` -/
def rangeStr (s l : Nat) : Str :=
  if l = 1 then natStr s else natStr s ++ [','] ++ natStr l

def hunkText (h : Hunk) : Str :=
  "@@ -".toList ++ rangeStr h.s1 h.l1 ++ " +".toList ++ rangeStr h.s2 h.l2 ++ " @@\n".toList
    ++ (h.lines.map fun p => p.1 :: p.2).flatten

/-- `str.rstrip(' ')` -/
def rstripSpaces (s : Str) : Str := (s.reverse.dropWhile (· = ' ')).reverse

/-- `''.join(difflib.unified_diff(old, new, fromfile, tofile)).rstrip(' ')`:
nothing at all when there is no group, otherwise the two header lines and the hunks -/
def diffText (fromfile tofile : Str) : List Hunk → Str
  | [] => []
  | h :: hs => rstripSpaces ("--- ".toList ++ fromfile ++ ['\n'] ++ "+++ ".toList ++ tofile ++ ['\n']
      ++ ((h :: hs).map hunkText).flatten)

/-! ## validity of an opcode list (what any differ must deliver) -/

def opOk (a b : List Line) (o : Op) : Bool :=
  decide (o.i1 ≤ o.i2) && decide (o.i2 ≤ a.length) && decide (o.j1 ≤ o.j2) && decide (o.j2 ≤ b.length) &&
  match o.tag with
  | .equal => decide (slice a o.i1 o.i2 = slice b o.j1 o.j2)
  | .replace => true
  | .delete => decide (o.j1 = o.j2)
  | .insert => decide (o.i1 = o.i2)

/-- the opcodes of one group are well-shaped and contiguous from `(i, j)`; the end cursor -/
def chain (a b : List Line) : Nat → Nat → List Op → Option (Nat × Nat)
  | i, j, [] => some (i, j)
  | i, j, o :: os =>
    if o.i1 = i ∧ o.j1 = j ∧ opOk a b o = true then chain a b o.i2 o.j2 os else none

/-- groups are non-empty, increasing, internally contiguous, `equal` blocks are equal, and
everything *between* the groups (which the diff does not mention) is equal too -/
def validFrom (a b : List Line) : Nat → Nat → List Group → Bool
  | i, j, [] => decide (i ≤ a.length) && decide (j ≤ b.length) && decide (a.drop i = b.drop j)
  | _, _, [] :: _ => false
  | i, j, (o :: os) :: gs =>
    decide (i ≤ o.i1) && decide (j ≤ o.j1) && decide (o.i1 ≤ a.length) && decide (o.j1 ≤ b.length) &&
    decide (slice a i o.i1 = slice b j o.j1) &&
    match chain a b o.i1 o.j1 (o :: os) with
    | some (i', j') => validFrom a b i' j' gs
    | none => false

def Valid (gs : List Group) (a b : List Line) : Prop := validFrom a b 0 0 gs = true

instance (gs : List Group) (a b : List Line) : Decidable (Valid gs a b) := by
  unfold Valid; exact inferInstance

/-! ## applying a patch -/

/-- run the body of one hunk against the remaining old lines: (produced lines, old lines left) -/
def applyLines : List (Char × Line) → List Line → Option (List Line × List Line)
  | [], rest => some ([], rest)
  | (c, l) :: more, rest =>
    if c = ' ' then
      match rest with
      | r :: rest' => if r = l then (applyLines more rest').map fun p => (l :: p.1, p.2) else none
      | [] => none
    else if c = '-' then
      match rest with
      | r :: rest' => if r = l then applyLines more rest' else none
      | [] => none
    else if c = '+' then (applyLines more rest).map fun p => (l :: p.1, p.2)
    else none

/-- 0-based index of the first line of a printed range -/
def start0 (s l : Nat) : Nat := if l = 0 then s else s - 1

/-- `pos` / `opos`: how many old lines have been consumed / new lines produced so far -/
def applyHunks : List Hunk → Nat → Nat → List Line → Option (List Line)
  | [], _, _, rest => some rest
  | h :: hs, pos, opos, rest =>
    if start0 h.s1 h.l1 < pos then none else
    let skip := start0 h.s1 h.l1 - pos
    if rest.length < skip then none else
    if start0 h.s2 h.l2 ≠ opos + skip then none else
    match applyLines h.lines (rest.drop skip) with
    | none => none
    | some (out, rest') =>
      if out.length ≠ h.l2 then none else
      if (rest.drop skip).length ≠ h.l1 + rest'.length then none else
      (applyHunks hs (start0 h.s1 h.l1 + h.l1) (start0 h.s2 h.l2 + h.l2) rest').map
        fun tl => rest.take skip ++ out ++ tl

def applyPatch (hs : List Hunk) (a : List Line) : Option (List Line) := applyHunks hs 0 0 a

end JediModel.Diff

import JediModel.Model.Refs
/-! `jedi/inference/references.py:_find_global_variables` with its decision made explicit: WHICH of the
module's `global x` statements are linked to the names found so far.

```
for name in names:                                   -- the found names (start + goto answers)
    ...
    for global_name in module.get_global_filter().get(search_name):   -- every `global x` of the module
        [guard]                                      -- may skip this statement
        yield global_name
        c = module_context.create_context(global_name.tree_name)      -- the scope of the statement
        yield from _add_names_in_same_context(c, global_name.string_name)
```

The unchanged source has no guard (`sameScopeOnly = false`): every statement is linked, whatever
the found names are.  The other recognised shape (`sameScopeOnly = true`) links a statement only to
found names whose `parent_context` is the module or the very scope of the statement.  The
translator reads the shape from the source (`Gen.C05.globalStepSameScopeOnly`). -/
namespace JediModel.Refs
open JediModel.Scopes

/-- `name.parent_context` of an answer of `goto`: a `global` name reached through the
`GlobalNameFilter` belongs to the module context; a parameter (`ParamName`) to
`function_value.get_default_param_context()` = the context the function is defined in (for a
function in a class body `MethodValue` answers the class context); every other name to its scope -/
def parentCtxOfFound (p : Prog) (d : Nat) : Option Nat :=
  match p.occs[d]? with
  | none => none
  | some o =>
    match o.role with
    | .globalDecl => some 0
    | .param => some (p.parent o.scope)
    | _ => some o.scope

/-- the `parent_context`s of the names `_find_global_variables` is called with
(`_find_names`: the name under the cursor, created in its own scope, and its goto answers) -/
def foundCtxs (p : Prog) (u : Nat) : List Nat :=
  (match p.occs[u]? with | some o => [o.scope] | none => []) ++
  (gotoSel id p u).filterMap (parentCtxOfFound p)

/-- the guard: is the `global` statement sitting in scope `gscope` linked, given the contexts of
the found names?  `c == 0` is `context.is_module()`. -/
def globalLinked (sameScopeOnly : Bool) (ctxs : List Nat) (gscope : Nat) : Bool :=
  !sameScopeOnly || ctxs.any fun c => c == 0 || c == gscope

/-- `_find_global_variables(names, x)`: the linked `global x` names plus all definitions of `x`
in the scopes where those statements sit -/
def globalVariablesOf (sameScopeOnly : Bool) (p : Prog) (ctxs : List Nat) (x : Nat) : List Nat :=
  (globalDecls p x).foldl (fun acc g =>
    match p.occs[g]? with
    | some o =>
      if globalLinked sameScopeOnly ctxs o.scope then insertAll (addNew acc g) (allDefsIn p o.scope x)
      else acc
    | none => acc) []

/-- `_find_defining_names` with the global step parametrised (otherwise `definingNames`) -/
def definingNamesG (sameScopeOnly : Bool) (p : Prog) (u : Nat) : List Nat :=
  match p.occs[u]? with
  | none => []
  | some o =>
    let x := o.name
    let f0 := findNames id p u
    let gv := globalVariablesOf sameScopeOnly p (foundCtxs p u) x
    let f1 := insertAll f0 gv
    let ctxs : List Nat :=
      (match ctxOfStart p u with | some c => [c] | none => []) ++
      ((gotoSel id p u).filterMap (ctxOfFound p)) ++
      (gv.filterMap fun d =>
        match p.occs[d]? with
        | some od => if od.role = .param then none
                     else if od.role = .globalDecl then some 0 else some od.scope
        | none => none)
    ctxs.foldl (fun acc c => insertAll acc (allDefsIn p c x)) f1

/-- `find_references` (one module) with the global step parametrised -/
def refsG (sameScopeOnly : Bool) (p : Prog) (u : Nat) : List Nat :=
  match p.occs[u]? with
  | none => []
  | some o =>
    ((occurrencesOf p o.name).foldl (scanStep p)
      { found := definingNamesG sameScopeOnly p u, nonMatching := [] }).found

end JediModel.Refs

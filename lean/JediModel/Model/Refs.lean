import JediModel.Model.Scopes
/-! Model of `jedi/inference/references.py:find_references` (one module) over `Scopes.Prog`:
`_find_names`, `_find_defining_names` (with flow analysis switched off, so every definition of
the first non-empty filter is found, not only the last), `_find_global_variables`,
`_add_names_in_same_context`, and the scan over every same-spelled token with the merge of
late matches. -/
namespace JediModel.Refs
open JediModel.Scopes

/-- `AbstractTreeName.goto` with `_check_flows` = `sel` -/
def gotoSel (sel : List Nat → List Nat) (p : Prog) (u : Nat) : List Nat :=
  match p.occs[u]? with
  | none => []
  | some o =>
    if o.role.isDef then [u]
    else gotoFromSel sel p o.name (p.scopes.length + 1) o.scope (some o.stmt)

def addNew (l : List Nat) (n : Nat) : List Nat := if l.contains n then l else l ++ [n]
def insertAll (l new : List Nat) : List Nat := new.foldl addNew l

/-- `_find_names(module_context, tree_name)` = `{name} ∪ name.goto()` -/
def findNames (sel : List Nat → List Nat) (p : Prog) (u : Nat) : List Nat :=
  insertAll [u] (gotoSel sel p u)

/-- `_add_names_in_same_context(context, x)`: every definition of `x` whose scope is `s` -/
def allDefsIn (p : Prog) (s x : Nat) : List Nat := defsIn p s x none

/-- the context a found name object carries (`name.parent_context`), `none` for parameters
(`api_type == 'param'`: skipped by `_find_defining_names`):
a `global` declaration reached through the `GlobalNameFilter` belongs to the module context,
every other name to the scope it sits in -/
def ctxOfFound (p : Prog) (d : Nat) : Option Nat :=
  match p.occs[d]? with
  | none => none
  | some o =>
    match o.role with
    | .param => none
    | .globalDecl => some 0
    | _ => some o.scope

/-- the context of the name under the cursor itself (`create_name` → `create_context`) -/
def ctxOfStart (p : Prog) (u : Nat) : Option Nat :=
  match p.occs[u]? with
  | none => none
  | some o => if o.role = .param then none else some o.scope

/-- `_find_global_variables`: every `global x` name of the module plus all definitions of `x`
in the scopes where those declarations sit -/
def globalVariables (p : Prog) (x : Nat) : List Nat :=
  let gs := globalDecls p x
  gs.foldl (fun acc g =>
    match p.occs[g]? with
    | some o => insertAll (addNew acc g) (allDefsIn p o.scope x)
    | none => acc) []

/-- `_find_defining_names` -/
def definingNames (p : Prog) (u : Nat) : List Nat :=
  match p.occs[u]? with
  | none => []
  | some o =>
    let x := o.name
    let f0 := findNames id p u
    let gv := globalVariables p x
    let f1 := insertAll f0 gv
    -- contexts of the name objects collected so far
    let ctxs : List Nat :=
      (match ctxOfStart p u with | some c => [c] | none => []) ++
      ((gotoSel id p u).filterMap (ctxOfFound p)) ++
      (gv.filterMap fun d =>
        match p.occs[d]? with
        | some od => if od.role = .param then none
                     else if od.role = .globalDecl then some 0 else some od.scope
        | none => none)
    ctxs.foldl (fun acc c => insertAll acc (allDefsIn p c x)) f1

structure ScanState where
  found : List Nat
  nonMatching : List (Nat × List Nat)
deriving Repr

/-- one iteration of the loop over `get_used_names()[search_name]` -/
def scanStep (p : Prog) (st : ScanState) (o : Nat) : ScanState :=
  let new := findNames lastOf p o
  if new.any (st.found.contains ·) then
    let found1 := insertAll st.found new
    let merged := st.nonMatching.filter fun kg => new.contains kg.1
    { found := merged.foldl (fun acc kg => insertAll acc kg.2) found1,
      nonMatching := st.nonMatching.filter fun kg => !new.contains kg.1 }
  else
    { found := st.found, nonMatching := st.nonMatching ++ new.map fun t => (t, new) }

/-- all occurrences spelled like `x`, in source order -/
def occurrencesOf (p : Prog) (x : Nat) : List Nat := p.indices fun _ o => o.name == x

/-- `find_references(module_context, tree_name, only_in_module=True)` as a set of positions -/
def refs (p : Prog) (u : Nat) : List Nat :=
  match p.occs[u]? with
  | none => []
  | some o =>
    ((occurrencesOf p o.name).foldl (scanStep p)
      { found := definingNames p u, nonMatching := [] }).found

end JediModel.Refs

/-! Model of jedi's helper-process protocol, parent and child side:
`jedi/inference/compiled/subprocess/__init__.py` (`CompiledSubprocess._send/_kill/run/
delete_inference_state/_get_process`, `_cleanup_process`, `InferenceStateSubprocess`,
`Listener._run/listen`) and `jedi/api/environment.py` (`Environment._get_subprocess`,
`get_inference_state_subprocess`, `get_sys_path`).

The channel (pipes, pickle framing, process death) is the parameter `Plan`: for helper start `h`
and request index `k` it says what happens to the helper while that request is exchanged.
The `except` clauses of `_send` and `_get_subprocess` are the parameter `Cfg` (instantiated with
the lists the translator reads from the source, `Gen.C14`). -/
namespace JediModel.Helper

/-- what happens to the helper while request `k` of helper start `h` is exchanged -/
inductive Fault
  | none
  | beforeSend            -- the helper is already dead when the request is written (EPIPE)
  | afterSend             -- the helper reads the request and dies before writing a reply byte
  | trunc (cls : String)  -- the helper serves the request, writes a proper prefix of the reply and
                          -- dies; `cls` = the class CPython's Unpickler raises on that prefix
  | raises (cls : String) -- the requested function raises an `Exception` of class `cls` inside the
                          -- helper: it replies `(True, traceback, exc)` and lives.  A deletion request
                          -- has no function: it is served normally
  | raisesFatal           -- serving raises a non-`Exception` BaseException: the helper dies silently
deriving DecidableEq, Repr

abbrev Plan := Nat → Nat → Fault

/-- the parent's ends of the three pipes to one helper (`Popen(stdin=PIPE, stdout=PIPE, stderr=PIPE)`) -/
inductive Stream
  | stdin
  | stdout
  | stderr
deriving DecidableEq, Repr

def Stream.all : List Stream := [.stdin, .stdout, .stderr]

def Stream.ofName? (n : String) : Option Stream :=
  if n = "process.stdin" then some .stdin
  else if n = "process.stdout" then some .stdout
  else if n = "process.stderr" then some .stderr
  else none

/-- the except clauses of the source and the shape of the close loop of `_cleanup_process` -/
structure Cfg where
  dumpCatch : List String   -- `_send`, around `pickle_dump`
  loadCatch : List String   -- `_send`, around `pickle_load`
  envCatch  : List String   -- `Environment._get_subprocess`, around the handshake
  closeStreams : List Stream := Stream.all  -- `for stream in [...]` of `_cleanup_process`
  closePerStream : Bool := true             -- the `try/except` is INSIDE that loop (one per stream)
  closeCatch : List String := ["OSError"]   -- its except clause (the handler body is `pass`)
  usedSetBeforeRun : Bool := true           -- `InferenceStateSubprocess.__getattr__.wrapper`: `self._used = True`
                                            -- stands BEFORE `self._compiled_subprocess.run(...)`
  listenCatch : List String := ["Exception"] -- `Listener.listen`: the except clause around `self._run(*payload)`
                                            -- (its handler replies `(True, traceback, e)`; the helper lives)
deriving Repr

/-- CPython class hierarchy of the exception classes that occur (how an `except` clause matches) -/
def mro (cls : String) : List String :=
  if cls = "BrokenPipeError" then
    ["BrokenPipeError", "ConnectionError", "OSError", "IOError", "Exception", "BaseException"]
  else if cls = "UnpicklingError" then
    ["UnpicklingError", "pickle.UnpicklingError", "_pickle.UnpicklingError", "PickleError",
     "pickle.PickleError", "Exception", "BaseException"]
  else if cls = "InternalError" then ["InternalError", "_JediError", "Exception", "BaseException"]
  else if cls = "KeyError" then ["KeyError", "LookupError", "Exception", "BaseException"]
  else if cls = "KeyboardInterrupt" then ["KeyboardInterrupt", "BaseException"]
  else if cls = "SystemExit" then ["SystemExit", "BaseException"]
  else if cls = "GeneratorExit" then ["GeneratorExit", "BaseException"]
  else if cls = "CancelledError" then ["CancelledError", "asyncio.CancelledError", "BaseException"]
  else if cls = "VerifFatal" then ["VerifFatal", "BaseException"]   -- a direct subclass of BaseException
  else if cls = "BaseException" then ["BaseException"]
  else [cls, "Exception", "BaseException"]

/-- does `except <clause>:` catch an exception of class `cls` -/
def caught (cls : String) (clause : List String) : Bool :=
  (mro cls).any fun c => clause.contains c

/-- CPython: is `cls` a subclass of `Exception` -/
def isException (cls : String) : Bool := caught cls ["Exception"]

/-- "the helper raises": `self._run(*payload)` of `Listener.listen` raises an exception of class `cls`
while it serves a request.  The except clause around it decides: caught = the helper replies
`(True, traceback, e)` and lives (`Fault.raises`), not caught = the exception leaves the request loop
and the interpreter of the helper terminates without a reply (`Fault.raisesFatal`). -/
def listenFault (cfg : Cfg) (cls : String) : Fault :=
  if caught cls cfg.listenCatch then .raises cls else .raisesFatal

inductive Out
  | ok
  | raised (cls : String)   -- raised by the parent's own code
  | remote (cls : String)   -- an exception object the helper sent back (`is_exception`), re-raised by `_send`
deriving DecidableEq, Repr

/-- one `CompiledSubprocess` object together with the OS process and `Listener` it owns -/
structure Proc where
  idx : Nat                 -- helper start index (position in the plan)
  crashed : Bool := false   -- `is_crashed`
  started : Bool := false   -- `_get_process` has run (memoised Popen)
  alive : Bool := false     -- the OS process is running
  reaped : Bool := false    -- `process.wait()` has returned
  armed : Bool := false     -- the `weakref.finalize` object is alive
  cleanups : Nat := 0       -- number of times the body of `_cleanup_process` ran
  queue : List Nat := []    -- `_inference_state_deletion_queue`; head = right end of the deque
  child : List Nat := []    -- keys of `Listener._inference_states`
  nreq : Nat := 0           -- requests the helper has read so far
  announced : List Nat := []-- ghost: every state id ever written to the helper
  created : Nat := 0        -- ghost: how many inference states the `Listener` has created
  fds : List Stream := []   -- the parent's pipe ends to this helper that are still open (file descriptors)
  broken : List Stream := []-- streams whose `close()` raises `BrokenPipeError` (stdin: an unflushed
                            -- request is still buffered for a reader that is gone)
deriving Repr

/-- `stream.close()` of one of the three pipe objects: what it raises.  The file descriptor is
released in either case (CPython's buffered `close()` closes the raw file also when the final
flush fails). -/
abbrev CloseRaises := Stream → Option String

/-- `for stream in streams: try: stream.close() except <catch>: pass` - the try/except INSIDE the
loop.  Result: the descriptors still open, the exception that escapes the loop. -/
def closeEach (clause : List String) (raises : CloseRaises) : List Stream → List Stream → List Stream × Option String
  | [], fds => (fds, none)
  | s :: rest, fds =>
    let fds' := fds.filter (· != s)
    match raises s with
    | none => closeEach clause raises rest fds'
    | some cls => if caught cls clause then closeEach clause raises rest fds' else (fds', some cls)

/-- `try: for stream in streams: stream.close() except <catch>: pass` - ONE try/except around the
whole loop: the first `close()` that raises ends the loop. -/
def closeUntilRaise (clause : List String) (raises : CloseRaises) : List Stream → List Stream → List Stream × Option String
  | [], fds => (fds, none)
  | s :: rest, fds =>
    let fds' := fds.filter (· != s)
    match raises s with
    | none => closeUntilRaise clause raises rest fds'
    | some cls => (fds', if caught cls clause then none else some cls)

/-- the close loop of `_cleanup_process` in the shape the source has -/
def closeLoop (cfg : Cfg) (raises : CloseRaises) (fds : List Stream) : List Stream × Option String :=
  if cfg.closePerStream then closeEach cfg.closeCatch raises cfg.closeStreams fds
  else closeUntilRaise cfg.closeCatch raises cfg.closeStreams fds

def Proc.closeRaises (p : Proc) : CloseRaises :=
  fun s => if p.broken.contains s then some "BrokenPipeError" else none

/-- calling the `weakref.finalize` object: runs `_cleanup_process` at most once (kill, wait, join,
close loop).  Second component: the exception that escapes from it. -/
def Proc.cleanupX (cfg : Cfg) (p : Proc) : Proc × Option String :=
  if p.armed then
    let r := closeLoop cfg p.closeRaises p.fds
    ({ p with armed := false, cleanups := p.cleanups + 1, alive := false, reaped := true, child := [],
              fds := r.1 }, r.2)
  else (p, none)

def Proc.cleanup (cfg : Cfg) (p : Proc) : Proc := (p.cleanupX cfg).1

/-- `CompiledSubprocess._kill`: `is_crashed = True`, then the finalizer -/
def Proc.kill (cfg : Cfg) (p : Proc) : Proc := { p.cleanup cfg with crashed := true }

/-- what the `except` handler of `_send` raises after `self._kill()`: `InternalError`, unless an
exception escaped from the finalizer (then that one propagates out of the handler) -/
def Proc.killOut (cfg : Cfg) (p : Proc) : Out :=
  match (p.cleanupX cfg).2 with
  | some cls => .raised cls
  | none => .raised "InternalError"

/-- `CompiledSubprocess._get_process` (memoised): Popen with three pipes -/
def Proc.start (p : Proc) : Proc :=
  if p.started then p else { p with started := true, alive := true, armed := true, fds := Stream.all }

/-- `pickle_dump` raised `BrokenPipeError` in its `flush()`: the request stays in the buffer of the
`stdin` object, whose `close()` will try to flush it again -/
def Proc.writeFailed (p : Proc) : Proc := { p with broken := .stdin :: p.broken }

/-- the OS process dies -/
def Proc.die (p : Proc) : Proc := { p with alive := false, child := [] }

/-- the four request shapes of the protocol -/
inductive Req
  | info             -- `(None, _get_info)`
  | sysPath          -- `(None, get_sys_path)`
  | call (s : Nat)   -- `(id, function)`
  | delete (s : Nat) -- `(id, None)`
deriving DecidableEq, Repr

def Req.sid : Req → Option Nat
  | .call s => some s
  | .delete s => some s
  | _ => none

/-- state effect of `Listener._run` up to the call of the function: `(states, KeyError?)` -/
def childServe (child : List Nat) : Req → List Nat × Bool
  | .call s => (if child.contains s then child else s :: child, false)
  | .delete s => if child.contains s then (child.filter (· != s), false) else (child, true)
  | _ => (child, false)

/-- the parent's `pickle_load` raised `cls` -/
def loadFails (cfg : Cfg) (p : Proc) (cls : String) : Proc × Out :=
  if caught cls cfg.loadCatch then (p.kill cfg, p.killOut cfg) else (p, .raised cls)

def Proc.received (p : Proc) (r : Req) : Proc :=
  { p with nreq := p.nreq + 1, announced := r.sid.toList ++ p.announced }

/-- the helper reads request `r` and `Listener._run` handles it: for `(id, function)` the state
`id` is looked up / CREATED first (`_get_inference_state`), then the function runs; `(id, None)`
deletes the state (`KeyError` if it is not there) -/
def serve (p : Proc) (r : Req) : Proc × Out :=
  let c := childServe p.child r
  ({ p.received r with
      child := c.1,
      created := p.created + (match r with
        | .call s => if p.child.contains s then 0 else 1
        | _ => 0) },
   if c.2 then .remote "KeyError" else .ok)

/-- `CompiledSubprocess._send` -/
def send (cfg : Cfg) (plan : Plan) (p : Proc) (r : Req) : Proc × Out :=
  if p.crashed then (p, .raised "InternalError") else
  let p := p.start
  match (if p.alive then plan p.idx p.nreq else Fault.beforeSend) with
  | .beforeSend =>
    let p := p.die.writeFailed
    if caught "BrokenPipeError" cfg.dumpCatch then (p.kill cfg, p.killOut cfg)
    else (p, .raised "BrokenPipeError")
  | .afterSend => loadFails cfg (p.received r).die "EOFError"
  | .raisesFatal => loadFails cfg (p.received r).die "EOFError"
  | .trunc cls => loadFails cfg (p.received r).die cls
  | .raises cls =>
    match r with
    | .delete _ => serve p r
    | _ => ((serve p r).1, .remote cls)
  | .none => serve p r

/-- the `while True: pop; _send(delete_id, None)` loop of `CompiledSubprocess.run` -/
def drain (cfg : Cfg) (plan : Plan) : Proc → List Nat → Proc × Out
  | p, [] => ({ p with queue := [] }, .ok)
  | p, d :: rest =>
    match send cfg plan { p with queue := rest } (.delete d) with
    | (p', .ok) => drain cfg plan p' rest
    | (p', e) => (p', e)

/-- `CompiledSubprocess.run` -/
def run (cfg : Cfg) (plan : Plan) (p : Proc) (s : Nat) : Proc × Out :=
  match drain cfg plan p p.queue with
  | (p', .ok) => send cfg plan p' (.call s)
  | (p', e) => (p', e)

/-- an `InferenceStateSubprocess` object -/
structure ISS where
  s : Nat          -- `_inference_state_id` (`id(self)`)
  used : Bool      -- `_used`
  proc : Nat       -- index of the `CompiledSubprocess` it was created with
deriving DecidableEq, Repr

/-- an `Environment` with every `CompiledSubprocess` it ever created (newest first: the head is
`Environment._subprocess`) and the live `InferenceStateSubprocess` objects -/
structure Env where
  procs : List Proc := []
  iss : List ISS := []
deriving Repr

def Env.setProc (e : Env) (p : Proc) : Env :=
  { e with procs := e.procs.map fun q => if q.idx = p.idx then p else q }

def Env.getProc (e : Env) (i : Nat) : Option Proc := e.procs.find? fun q => q.idx = i

def Env.markUsed (e : Env) (s : Nat) : Env :=
  { e with iss := e.iss.map fun j => if j.s = s then { j with used := true } else j }

/-- `Environment._get_subprocess` -/
def getSub (cfg : Cfg) (plan : Plan) (e : Env) : Env × Out :=
  match e.procs with
  | p :: _ =>
    if p.crashed then fresh e else (e, .ok)
  | [] => fresh e
where
  fresh (e : Env) : Env × Out :=
    let (np, o) := send cfg plan { idx := e.procs.length } .info
    let e' := { e with procs := np :: e.procs }
    match o with
    | .ok => (e', .ok)
    | .raised c =>
      if caught c cfg.envCatch then (e', .raised "InvalidPythonEnvironment") else (e', .raised c)
    | .remote c =>
      if caught c cfg.envCatch then (e', .raised "InvalidPythonEnvironment") else (e', .remote c)

/-- `self._compiled_subprocess.run(self._inference_state_id, func, ...)` of the Script bound to
helper `k` -/
def callRun (cfg : Cfg) (plan : Plan) (e : Env) (k s : Nat) : Env × Out :=
  match e.getProc k with
  | none => (e, .raised "NoSuchProc")
  | some p =>
    let r := run cfg plan p s
    (e.setProc r.1, r.2)

/-- what the API layer does with the helper -/
inductive Op
  | newState (s : Nat)  -- `Environment.get_inference_state_subprocess` (a new `InferenceState`)
  | sysPath             -- `Environment.get_sys_path` on a memo miss
  | call (s : Nat)      -- any `inference_state.compiled_subprocess.<function>(...)`
  | drop (s : Nat)      -- `InferenceStateSubprocess.__del__`
  | dropEnv             -- the `Environment`, its helpers and every Script bound to them are garbage collected
deriving DecidableEq, Repr

def step (cfg : Cfg) (plan : Plan) (e : Env) : Op → Env × Out
  | .newState s =>
    match getSub cfg plan e with
    | (e', .ok) =>
      match e'.procs with
      | p :: _ => ({ e' with iss := { s := s, used := false, proc := p.idx } :: e'.iss }, .ok)
      | [] => (e', .raised "AttributeError")
    | r => r
  | .sysPath =>
    match getSub cfg plan e with
    | (e', .ok) =>
      match e'.procs with
      | p :: rest =>
        let (p', o) := send cfg plan p .sysPath
        ({ e' with procs := p' :: rest }, o)
      | [] => (e', .raised "AttributeError")
    | r => r
  | .call s =>
    match e.iss.find? fun i => i.s = s with
    | none => (e, .raised "NoSuchState")
    | some i =>
      -- `wrapper`: `self._used = True` stands before `run(...)`, or after it (then it is reached
      -- only when `run` returns)
      if cfg.usedSetBeforeRun then callRun cfg plan (e.markUsed s) i.proc s
      else
        let r := callRun cfg plan e i.proc s
        (if r.2 == .ok then r.1.markUsed s else r.1, r.2)
  | .drop s =>
    match e.iss.find? fun i => i.s = s with
    | none => (e, .ok)
    | some i =>
      -- the object found above goes away (ids of live objects are distinct: it is the only one)
      let e := { e with iss := e.iss.eraseP fun j => j.s = s }
      match e.getProc i.proc with
      | none => (e, .ok)
      | some p =>
        if i.used && !p.crashed then (e.setProc { p with queue := s :: p.queue }, .ok) else (e, .ok)
  | .dropEnv =>
    -- the finalizers run; then the `Popen` objects and their three file objects are deallocated,
    -- which releases whatever descriptor the close loop left open
    ({ e with procs := e.procs.map fun p => { p.cleanup cfg with fds := [] } }, .ok)

/-- run a trace; every outcome is recorded -/
def exec (cfg : Cfg) (plan : Plan) : Env → List Op → Env × List Out
  | e, [] => (e, [])
  | e, op :: ops =>
    let (e', o) := step cfg plan e op
    let (e'', os) := exec cfg plan e' ops
    (e'', o :: os)

/-! ### plans as data (for the driver and the witnesses) -/

/-- a plan given as a list of `(helper start, request index, fault)` -/
def planOf (l : List (Nat × Nat × Fault)) : Plan := fun h k =>
  match l.find? fun t => t.1 = h ∧ t.2.1 = k with
  | some t => t.2.2
  | none => .none

end JediModel.Helper

/-! Model of `jedi/api/helpers.py:_start_match/_fuzzy_match/match`.
Python `str` = `List Char` (code points). -/
namespace JediModel.Match

/-- `string.startswith(like_name)` -/
def startMatch (s like : List Char) : Bool := like.isPrefixOf s

/-- `string[string.find(c)+1:]`, `none` when `find` returns -1 -/
def dropAfterFirst (c : Char) : List Char → Option (List Char)
  | [] => none
  | x :: xs => if x = c then some xs else dropAfterFirst c xs

/-- `_fuzzy_match(string, like_name)`: the `len(like_name) <= 1` branch is
`like_name in string`, the other branch finds the first character and recurses. -/
def fuzzyMatch : List Char → List Char → Bool
  | _, [] => true                         -- '' in string
  | s, [c] => s.contains c                -- one character: membership
  | s, c :: c' :: cs =>
    match dropAfterFirst c s with
    | some rest => fuzzyMatch rest (c' :: cs)
    | none => false

/-- `helpers.match(string, like_name, fuzzy)` -/
def pmatch (s like : List Char) (fuzzy : Bool) : Bool :=
  if fuzzy then fuzzyMatch s like else startMatch s like

end JediModel.Match

import JediModel.Model.ApiHelpers
/-! `jedi/api/helpers.py:_iter_arguments` — the argument scan behind `Signature.index`
(`CallDetails.calculate_index`) and keyword-argument completion
(`iter_used_keyword_arguments`, `count_positional_arguments`) — transcribed statement by
statement over parso nodes, with every partial Python operation explicit:

* `x.value` on a node that is not a leaf  → `AttributeError`
* `node.children[k]`, `nodes_before[-1]` out of range → `IndexError`

Property C01 asks that nothing of this ever happens, for whatever is being typed.  The scan reads
`.value` at seven places; what makes five of them safe is a test on the same object a few tokens
earlier (`x.type == 'name'`, `isinstance(x, tree.PythonLeaf)`).  Whether those tests are there is
read from the source by the translator (`Guards`, filled in `sourceGuards` of
`Lemmas/IterArgsSpec.lean`), so the model follows an edit that drops one of them — and then raises
where the real code raises.

Core Lean only. -/
namespace JediModel.IterArgs
open JediModel.ApiHelpers

abbrev Str := List Char
/-- `(line, column)` as parso counts them -/
abbrev Pos := Nat × Nat

/-- Python tuple comparison `a < b` -/
def Pos.lt (a b : Pos) : Bool := a.1 < b.1 || (a.1 == b.1 && a.2 < b.2)

/-- what `_iter_arguments` can observe of a parso node.  `value = none`: the object has no
attribute `value` (a `BaseNode`); `cmp`: `node == 'str'` compares `node.value` (parso
`Operator` / `Keyword`, `_StringComparisonMixin`) — every other object compares by identity, so
is never equal to a `str`; `pyLeaf`: `isinstance(node, tree.PythonLeaf)`. -/
inductive Node where
  | mk (type : Str) (value : Option Str) (cmp : Bool) (pyLeaf : Bool) (start : Pos) (children : List Node)

instance : Inhabited Node := ⟨.mk [] none false false (0, 0) []⟩

namespace Node
def type : Node → Str | .mk t _ _ _ _ _ => t
def value : Node → Option Str | .mk _ v _ _ _ _ => v
def cmp : Node → Bool | .mk _ _ k _ _ _ => k
def pyLeaf : Node → Bool | .mk _ _ _ l _ _ => l
def start : Node → Pos | .mk _ _ _ _ s _ => s
def children : Node → List Node | .mk _ _ _ _ _ cs => cs
end Node

mutual
/-- parso `get_first_leaf()`: a leaf is its own first leaf, a node asks `children[0]`
(`none` = `IndexError` on an empty child list) -/
def Node.firstLeaf : Node → Option Node
  | .mk t (some v) k l s cs => some (.mk t (some v) k l s cs)
  | .mk _ none _ _ _ cs => firstLeafList cs
def firstLeafList : List Node → Option Node
  | [] => none
  | c :: _ => c.firstLeaf
end

mutual
def Node.depth : Node → Nat
  | .mk _ _ _ _ _ cs => depthList cs + 1
def depthList : List Node → Nat
  | [] => 0
  | c :: cs => max c.depth (depthList cs)
end

inductive Err where
  | attributeError | indexError | fuel
deriving DecidableEq, Repr

/-- `(star_count, key_start, had_equal)`; `key = none` is Python's `None` -/
structure Triple where
  star : Nat
  key : Option Str
  eq : Bool
deriving DecidableEq, Repr

/-- which of the `.value` reads are protected by a test on the same object (read from the
source; all `true` in the code as it stands) -/
structure Guards where
  /-- `remove_after_pos`: `if name.type != 'name': return None` in front of `name.value[...]` -/
  removeAfterPos : Bool
  /-- keyword `argument` node: `… and first.type == 'name'` in front of `first.value` -/
  argKwFirst : Bool
  /-- `isinstance(node, tree.PythonLeaf) and node.value == ','` -/
  commaLeaf : Bool
  /-- `isinstance(node, tree.PythonLeaf) and node.value in ('*', '**')` -/
  starLeaf : Bool
  /-- bare `=` leaf: `if before.type == 'name':` in front of `before.value` -/
  eqBefore : Bool
deriving DecidableEq, Repr

def stdGuards : Guards := ⟨true, true, true, true, true⟩

def sName : Str := ['n', 'a', 'm', 'e']
def sArgument : Str := ['a', 'r', 'g', 'u', 'm', 'e', 'n', 't']
def sArglist : Str := ['a', 'r', 'g', 'l', 'i', 's', 't']
def sTestlistStarExpr : Str := ['t', 'e', 's', 't', 'l', 'i', 's', 't', '_', 's', 't', 'a', 'r', '_', 'e', 'x', 'p', 'r']
def sStarExpr : Str := ['s', 't', 'a', 'r', '_', 'e', 'x', 'p', 'r']
def sEq : Str := ['=']
def sStar : Str := ['*']
def sStarStar : Str := ['*', '*']
def sComma : Str := [',']

/-- `x.value` -/
def readValue (n : Node) : Except Err Str :=
  match n.value with
  | some v => .ok v
  | none => .error .attributeError

/-- `node == '<s>'` -/
def Node.eqStr (n : Node) (s : Str) : Bool := n.cmp && n.value == some s

/-- `xs[k]` for `k ≥ 0` -/
def idx (xs : List Node) (k : Nat) : Except Err Node :=
  match xs[k]? with
  | some x => .ok x
  | none => .error .indexError

/-- ```
def remove_after_pos(name):
    if name.type != 'name':
        return None
    return name.value[:position[1] - name.start_pos[1]]
``` -/
def removeAfterPos (g : Guards) (pos : Pos) (n : Node) : Except Err (Option Str) :=
  if g.removeAfterPos && n.type != sName then .ok none
  else do
    let v ← readValue n
    .ok (some (pySliceTo v ((pos.2 : Int) - (n.start.2 : Int))))

/-- loop state: `previous_node_yielded`, `stars_seen`, `nodes_before[i - 1]` -/
structure State where
  yielded : Bool
  stars : Nat
  prev : Node

/-- `node.children[::2]` -/
def everyOther : List Node → List Node
  | [] => []
  | [x] => [x]
  | x :: _ :: rest => x :: everyOther rest

/-- the `for n in node.children[::2]` loop of the `testlist_star_expr` branch -/
def testlistLoop (g : Guards) (pos : Pos) : List Node → Nat → Except Err (List Triple)
  | [], _ => .ok []
  | n :: rest, stars => do
    let (stars1, n1) ← (if n.type == sStarExpr then do
        let c ← idx n.children 1
        pure (1, c) else pure (stars, n) : Except Err (Nat × Node))
    let k ← removeAfterPos g pos n1
    let more ← testlistLoop g pos rest 0
    .ok (⟨stars1, k, false⟩ :: more)

/-- one iteration of `for i, node in enumerate(nodes_before)` -/
def step (g : Guards) (pos : Pos) (st : State) (node : Node) : Except Err (List Triple × State) :=
  if node.type == sArgument then do
    let first ← idx node.children 0
    let second ← idx node.children 1
    let t ← (if second.eqStr sEq then
        if second.start.lt pos && (!g.argKwFirst || first.type == sName) then do
          let v ← readValue first
          pure ⟨0, some v, true⟩
        else do
          let k ← removeAfterPos g pos first
          pure ⟨0, k, false⟩
      else if first.eqStr sStar || first.eqStr sStarStar then do
        let v ← readValue first
        let k ← removeAfterPos g pos second
        pure ⟨v.length, k, false⟩
      else
        match node.firstLeaf with
        | none => .error .indexError
        | some fl =>
          if fl.type == sName && !(fl.start.lt pos) then do
            let k ← removeAfterPos g pos fl
            pure ⟨0, k, false⟩
          else pure ⟨0, none, false⟩ : Except Err Triple)
    .ok ([t], { yielded := true, stars := 0, prev := node })
  else if node.type == sTestlistStarExpr then do
    let ts ← testlistLoop g pos (everyOther node.children) st.stars
    -- `stars_seen` after the loop: 0 if the loop ran at all
    let stars := if (everyOther node.children).isEmpty then st.stars else 0
    .ok (ts, { yielded := node.children.length % 2 != 0, stars := stars, prev := node })
  else do
    -- `isinstance(node, tree.PythonLeaf) and node.value == ','`
    let isComma ← (if g.commaLeaf && !node.pyLeaf then pure false
      else do let v ← readValue node; pure (v == sComma) : Except Err Bool)
    if isComma then
      if !st.yielded then .ok ([⟨st.stars, some [], false⟩], { yielded := false, stars := 0, prev := node })
      else .ok ([], { yielded := false, stars := st.stars, prev := node })
    else do
      -- `isinstance(node, tree.PythonLeaf) and node.value in ('*', '**')`
      let isStar ← (if g.starLeaf && !node.pyLeaf then pure false
        else do let v ← readValue node; pure (v == sStar || v == sStarStar) : Except Err Bool)
      if isStar then do
        let v ← readValue node
        .ok ([], { st with stars := v.length, prev := node })
      else if node.eqStr sEq then
        -- `node == '=' and nodes_before[-1]` (a parso node is always truthy)
        let before := st.prev
        if !g.eqBefore || before.type == sName then do
          let v ← readValue before
          .ok ([⟨0, some v, true⟩], { yielded := true, stars := 0, prev := node })
        else
          .ok ([⟨0, none, false⟩], { yielded := true, stars := 0, prev := node })
      else .ok ([], { st with prev := node })

def loop (g : Guards) (pos : Pos) : List Node → State → Except Err (List Triple × State)
  | [], st => .ok ([], st)
  | n :: rest, st => do
    let (ts, st1) ← step g pos st n
    let (ts', st2) ← loop g pos rest st1
    .ok (ts ++ ts', st2)

/-- `_iter_arguments` after the `arglist` test; `last = nodes_before[-1]` (which is also what
`nodes_before[i - 1]` means at `i = 0`) -/
def flat (g : Guards) (pos : Pos) (nb : List Node) (last : Node) : Except Err (List Triple) := do
  let (ts, st) ← loop g pos nb { yielded := false, stars := 0, prev := last }
  if !st.yielded then
    if last.type == sName then do
      let k ← removeAfterPos g pos last
      .ok (ts ++ [⟨st.stars, k, false⟩])
    else .ok (ts ++ [⟨st.stars, some [], false⟩])
  else .ok ts

/-- `list(_iter_arguments(nodes, position))`.  The recursion into the last `arglist` is bounded by
`fuel` (`depthList nodes + 1` suffices: `iterArguments_total`). -/
def iterArguments (g : Guards) (pos : Pos) : Nat → List Node → Except Err (List Triple)
  | 0, _ => .error .fuel
  | fuel + 1, nodes =>
    let nb := nodes.filter (fun c => c.start.lt pos)
    match nb.getLast? with
    | none => .error .indexError
    | some last =>
      if last.type == sArglist then iterArguments g pos fuel last.children
      else flat g pos nb last

end JediModel.IterArgs

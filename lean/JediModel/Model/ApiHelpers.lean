import JediModel.Model.Text
import JediModel.Model.Validate
/-! Pure helpers under the query methods, transcribed with Python's slice / index semantics
explicit (negative bounds count from the end, out-of-range slices clamp, out-of-range indices
raise = `.error "IndexError"`).

* `jedi/api/helpers.py:get_on_completion_name`, the branch taken when the cursor is in a string,
  comment, error leaf or past the last leaf: `re.search(r'(?!\d)\w+$|$', line[:col]).group(0)`
* `jedi/api/helpers.py:_get_code`
* `jedi/parser_utils.py:cut_value_at_position` -/
namespace JediModel.ApiHelpers
open JediModel.Text JediModel.Validate

/-- clamp a Python slice bound to `[0, len]` -/
def clampIdx (len : Nat) (i : Int) : Nat :=
  if i < 0 then ((len : Int) + i).toNat else min i.toNat len

/-- `xs[a:b]` -/
def pySlice {α : Type} (xs : List α) (a b : Int) : List α :=
  (xs.take (clampIdx xs.length b)).drop (clampIdx xs.length a)

/-- `xs[:b]` -/
def pySliceTo {α : Type} (xs : List α) (b : Int) : List α := xs.take (clampIdx xs.length b)

/-- `xs[a:]` -/
def pySliceFrom {α : Type} (xs : List α) (a : Int) : List α := xs.drop (clampIdx xs.length a)

/-! ### get_on_completion_name (regex branch) -/

/-- `re.search(r'(?!\d)\w+$|$', s).group(0)`: leftmost start at which the first alternative
matches (the rest of the string is non-empty, all `\w`, and does not begin with a digit);
otherwise the empty match at the end. `isWord` / `isDigit` are Python's unicode `\w` / `\d`. -/
def searchName (isWord isDigit : Char → Bool) : Str → Str
  | [] => []
  | c :: rest =>
    if !isDigit c && (c :: rest).all isWord then c :: rest
    else searchName isWord isDigit rest

/-- `line = lines[position[0] - 1]; return search(line[:position[1]])` -/
def onCompletionName (isWord isDigit : Char → Bool) (lines : List Str) (line col : Int) :
    Except String Str :=
  match pyIndex lines (line - 1) with
  | none => .error "IndexError"
  | some l => .ok (searchName isWord isDigit (pySliceTo l col))

/-! ### _get_code -/

/-- ```
lines = code_lines[start_pos[0] - 1:end_pos[0]]
lines[-1] = lines[-1][:end_pos[1]]
lines[0] = lines[0][start_pos[1]:]
return ''.join(lines)
``` -/
def getCode (codeLines : List Str) (sl sc el ec : Int) : Except String Str :=
  let lines := pySlice codeLines (sl - 1) el
  match lines.getLast? with
  | none => .error "IndexError"                       -- lines[-1] of an empty list
  | some last =>
    let lines1 := lines.dropLast ++ [pySliceTo last ec]
    match lines1 with
    | [] => .error "IndexError"                       -- lines[0] of an empty list (unreachable)
    | h :: t => .ok ((pySliceFrom h sc :: t).flatten)

/-! ### cut_value_at_position -/

/-- ```
lines = split_lines(leaf.value, keepends=True)[:position[0] - leaf.line + 1]
column = position[1]
if leaf.line == position[0]:
    column -= leaf.column
if not lines:
    return ''
lines[-1] = lines[-1][:column]
return ''.join(lines)
``` -/
def cutValue (value : Str) (leafLine leafCol posLine posCol : Int) : Str :=
  let lines := pySliceTo (splitLines value) (posLine - leafLine + 1)
  let column := if leafLine = posLine then posCol - leafCol else posCol
  match lines.getLast? with
  | none => []
  | some last => (lines.dropLast ++ [pySliceTo last column]).flatten

end JediModel.ApiHelpers

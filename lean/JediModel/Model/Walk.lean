/-! Model of jedi's project file discovery (property C19).

* `sync`            — `jedi/file_io.py:FolderIO.walk`: the two-pointer loop that carries the
                      caller's pruning of `modified_folder_ios` back into `os.walk`'s `dirs`.
* `gitignoredPaths` — `jedi/inference/references.py:gitignored_paths`
* `expandRel`       — `…:expand_relative_ignore_paths`
* `walkRoot`        — `…:recurse_find_python_folders_and_files` driven by `FolderIO.walk` over an
                      ordered directory tree (the listing order of `os.walk` is the order of the
                      lists in the tree: a parameter).
* `searchInFileIos` — `…:search_in_file_ios` (open / parse limits, regex pre-filter as the
                      parameter `mentions`).

Python `str`/`bytes` = `List Char` (ASCII only in `.gitignore` contents: `decode('utf-8','ignore')`
is the identity there).  Python sets are lists; only membership is ever asked.

`file_io.path` is a `pathlib.Path` (parso's `FileIO` converts), `folder_io.path` and the `.gitignore`
entries are `str`; the code compares everything as `str` (`set(str(p) for p in except_paths)`,
`str(path) not in …`), so the model has one kind of path: `Str`.  `str(Path(s)) = s` is assumed for
the file paths `os.path.join(root, name)` the walk builds (normalised project root). -/
namespace JediModel.Walk

abbrev Str := List Char

/-! ## small string functions -/

/-- `os.path.join(a, b)` (posixpath, two arguments) -/
def osJoin (a b : Str) : Str :=
  if b.head? = some '/' then b
  else if a = [] ∨ a.getLast? = some '/' then a ++ b
  else a ++ '/' :: b

/-- `s.lstrip('/')` -/
def lstripSlash : Str → Str
  | [] => []
  | c :: cs => if c = '/' then lstripSlash cs else c :: cs

/-- `s.rstrip('/')` -/
def rstripSlash (s : Str) : Str := (lstripSlash s.reverse).reverse

/-- `bytes.splitlines()`: breaks at `\n`, `\r`, `\r\n`; no empty last line.
`cur` is the line being collected (reversed); `afterCR`: the previous byte was a `\r` that
already ended a line (a directly following `\n` belongs to the same break). -/
def splitlinesAux : Str → Bool → Str → List Str
  | cur, _, [] => if cur = [] then [] else [cur.reverse]
  | cur, afterCR, c :: rest =>
    if c = '\n' then
      if afterCR then splitlinesAux [] false rest
      else cur.reverse :: splitlinesAux [] false rest
    else if c = '\r' then cur.reverse :: splitlinesAux [] true rest
    else splitlinesAux (c :: cur) false rest

def splitlines (s : Str) : List Str := splitlinesAux [] false s

/-- `PurePath(name).suffix` for a single path component (CPython 3.12 `pathlib`):
`i = name.rfind('.')`; the suffix is `name[i:]` iff `0 < i < len(name) - 1`. -/
def lastDot : Str → Option Nat
  | [] => none
  | c :: cs => match lastDot cs with
    | some i => some (i + 1)
    | none => if c = '.' then some 0 else none

def suffix (name : Str) : Str :=
  match lastDot name with
  | some i => if 0 < i ∧ i + 1 < name.length then name.drop i else []
  | none => []

/-! ## configuration read from the source by the translator -/

structure Cfg where
  ignoreFolders : List Str
  pySuffixes : List Str
  gitignoreName : Str
  /-- the conjuncts of the folder filter, by name, as found in the source -/
  conjuncts : List String
  /-- the conjuncts of the file filter (second `for file_io in file_ios` loop) -/
  fileConjuncts : List String
  skipPrefixes : List Char
  skipContains : List Char

/-! ## FolderIO.walk synchronisation -/

/-- the reversed loop of `FolderIO.walk`: `orig` = `reversed(enumerate(dirs))` (identity of the
i-th original FolderIO = `i`), `modified` = `reversed(modified_folder_ios)` as identities
(objects that are not one of the originals get an identity ≥ `len(dirs)`), result = the entries of
`dirs` that are *not* deleted, still reversed. -/
def syncRev {α} : List (Nat × α) → List Nat → List α
  | [], _ => []
  | (_, _) :: os, [] => syncRev os []            -- `current is None`: delete
  | (i, d) :: os, m :: ms =>
    if m = i then d :: syncRev os ms             -- `current is folder_io`: keep, advance
    else syncRev os (m :: ms)                    -- delete `dirs[i]`

/-- value of `dirs` after the loop, given what the consumer left in `modified_folder_ios` -/
def sync {α} (dirs : List α) (modified : List Nat) : List α :=
  (syncRev (List.zip (List.range dirs.length) dirs).reverse modified.reverse).reverse

/-! ## .gitignore -/

/-- one line of `.gitignore`: `none` (skipped), `inl abs`, `inr (folder, name)` -/
def gitignoreLine (cfg : Cfg) (folder : Str) (l : Str) : Option (Str ⊕ (Str × Str)) :=
  if l = [] ∨ (∃ c ∈ cfg.skipPrefixes, l.head? = some c) ∨ (∃ c ∈ cfg.skipContains, c ∈ l) then none
  else
    let p := rstripSlash l
    if '/' ∈ p then some (.inl (osJoin folder (lstripSlash p)))
    else some (.inr (folder, p))

/-- `gitignored_paths(folder_io, file_io)` → `(ignored_paths_abs, ignored_paths_rel)` -/
def gitignoredPaths (cfg : Cfg) (folder : Str) (content : Str) : List Str × List (Str × Str) :=
  let ls := (splitlines content).filterMap (gitignoreLine cfg folder)
  (ls.filterMap (fun x => match x with | .inl a => some a | .inr _ => none),
   ls.filterMap (fun x => match x with | .inl _ => none | .inr r => some r))

/-- the test of `expand_relative_ignore_paths`: the entries of the `.gitignore` in folder `g` apply in
`curr` iff `curr == g or curr.startswith(g.rstrip(os.path.sep) + os.path.sep)` -/
def covers (g curr : Str) : Bool :=
  decide (curr = g) || (rstripSlash g ++ ['/']).isPrefixOf curr

/-- `expand_relative_ignore_paths(folder_io, relative_paths)` -/
def expandRel (curr : Str) (rel : List (Str × Str)) : List Str :=
  (rel.filter (fun p => covers p.1 curr)).map (fun p => osJoin curr p.2)

/-! ## the directory tree and the walk -/

structure FileEnt where
  name : Str
  /-- bytes of the file; only read when the name is `.gitignore` -/
  content : Str
deriving Repr, DecidableEq

/-- an ordered list of sibling directories (first child / next sibling form):
`cons name files children rest`.  The order is the listing order `os.walk` produces. -/
inductive Forest where
  | nil
  | cons (name : Str) (files : List FileEnt) (children : Forest) (rest : Forest)
deriving Repr

/-- the state `recurse_find_python_folders_and_files` carries through the whole walk.  After
`except_paths = set(str(p) for p in except_paths)` every member of `except_paths` is a `str`. -/
structure St where
  /-- `except_paths` -/
  exc : List Str
  /-- `except_paths_relative`: `(folder of the .gitignore, name)` -/
  rel : List (Str × Str)
deriving Repr, DecidableEq

/-- ghost information about one directory entered on the way to an event: the path of its parent,
its name, and its file listing (as `os.walk` produced it) -/
structure Anc where
  parent : Str
  name : Str
  files : List FileEnt
deriving Repr, DecidableEq

/-- what the generator yields: `isFile`, `path` (= `str(file_io.path)` / `folder_io.path`).
`name` and `anc` are ghost information for the theorems: the name of the entry in its listing and
the directories entered below the root on the way to this entry, outermost first; for a folder
event the folder itself is the last element. -/
structure Ev where
  isFile : Bool
  path : Str
  name : Str
  anc : List Anc
deriving Repr, DecidableEq

def isPy (cfg : Cfg) (name : Str) : Bool := cfg.pySuffixes.contains (suffix name)

/-- the first `for file_io in file_ios` loop of one `os.walk` step: every `.gitignore` of the
listing is read -/
def readGitignores (cfg : Cfg) (root : Str) : St → List FileEnt → St
  | st, [] => st
  | st, f :: fs =>
    if f.name = cfg.gitignoreName then
      let g := gitignoredPaths cfg root f.content
      readGitignores cfg root { exc := st.exc ++ g.1, rel := st.rel ++ g.2 } fs
    else readGitignores cfg root st fs

/-- one conjunct of the file filter / the folder filter, by the name the translator gave it;
`root` is the directory being listed, `name` the entry -/
def conjunct (cfg : Cfg) (root : Str) (st : St) (name : Str) (c : String) : Bool :=
  if c = "not_in_except_paths" then !(decide (osJoin root name ∈ st.exc))
  else if c = "not_in_relative_expanded" then !(decide (osJoin root name ∈ expandRel root st.rel))
  else if c = "base_name_not_ignored" then !(decide (name ∈ cfg.ignoreFolders))
  else true

/-- `str(path) not in except_paths and str(path) not in except_paths_relative_expanded` -/
def fileOk (cfg : Cfg) (root : Str) (st : St) (name : Str) : Bool :=
  cfg.fileConjuncts.all (conjunct cfg root st name)

/-- the second `for file_io in file_ios` loop: the `.py/.pyi` files that pass the file filter -/
def fileEvents (cfg : Cfg) (root : Str) (anc : List Anc) (st : St) (files : List FileEnt) : List Ev :=
  (files.filter (fun f => isPy cfg f.name && fileOk cfg root st f.name)).map
    (fun f => ⟨true, osJoin root f.name, f.name, anc⟩)

/-- the filter of `folder_ios[:] = [...]` -/
def keepDir (cfg : Cfg) (root : Str) (st : St) (name : Str) : Bool :=
  cfg.conjuncts.all (conjunct cfg root st name)

/-- `for folder_io in folder_ios: yield folder_io, None` after the filter -/
def folderEvents (cfg : Cfg) (root : Str) (anc : List Anc) (st : St) : Forest → List Ev
  | .nil => []
  | .cons name files _ rest =>
    if keepDir cfg root st name then
      Ev.mk false (osJoin root name) name (anc ++ [⟨root, name, files⟩]) :: folderEvents cfg root anc st rest
    else folderEvents cfg root anc st rest

/-- `os.walk` descending (top-down) into the sibling list `dirs` of `root` after the consumer
pruned it with the state `frozen` (the state at the end of the step for `root`); `st` is the
state threaded through the generator.  By `walk_sync_filter` the directories `os.walk` still
sees are exactly those that pass `keepDir … frozen`. -/
def walkForest (cfg : Cfg) (root : Str) (anc : List Anc) (frozen : St) : St → Forest → List Ev × St
  | st, .nil => ([], st)
  | st, .cons name files children rest =>
    if keepDir cfg root frozen name then
      let p := osJoin root name
      let anc' := anc ++ [⟨root, name, files⟩]
      let s := readGitignores cfg p st files
      let fe := fileEvents cfg p anc' s files
      let fev := folderEvents cfg p anc' s children
      let r1 := walkForest cfg p anc' s s children
      let r2 := walkForest cfg root anc frozen r1.2 rest
      (fe ++ fev ++ r1.1 ++ r2.1, r2.2)
    else walkForest cfg root anc frozen st rest

/-- `recurse_find_python_folders_and_files(FolderIO(root), except_paths)` on the tree whose top
directory `root` lists `files` and the directories `children` -/
def walkRoot (cfg : Cfg) (root : Str) (st : St) (files : List FileEnt) (children : Forest) : List Ev × St :=
  let s := readGitignores cfg root st files
  let fe := fileEvents cfg root [] s files
  let fev := folderEvents cfg root [] s children
  let r1 := walkForest cfg root [] s s children
  (fe ++ fev ++ r1.1, r1.2)

/-! ## open / parse limits -/

/-- the loop of `search_in_file_ios`: `mentions f` = `_check_fs` returned a module (the regex
found the name in the file).  `opened`, `parsed` are the counters so far. -/
def searchLoop {α} (mentions : α → Bool) (parseLimit openLimit : Nat) : Nat → Nat → List α → List α
  | _, _, [] => []
  | opened, parsed, f :: fs =>
    let opened := opened + 1
    if mentions f then
      let parsed := parsed + 1
      if parsed ≥ parseLimit then [f]
      else if opened ≥ openLimit then [f]
      else f :: searchLoop mentions parseLimit openLimit opened parsed fs
    else if opened ≥ openLimit then []
    else searchLoop mentions parseLimit openLimit opened parsed fs

def searchInFileIos {α} (mentions : α → Bool) (parseLimit openLimit : Nat) (files : List α) : List α :=
  searchLoop mentions parseLimit openLimit 0 0 files

end JediModel.Walk

/-! PyCore: a pure core of Python — literals, names, tuples, constant indexing, calls of
single-`return` functions, classes with class attributes, instantiation, attribute access,
single inheritance, `a if <opaque> else b` — with two interpreters over one skeleton:

* `evalC` — the concrete semantics (one branch of every conditional, values carry the index of
  the `def`/`class` statement that created them).  The fragment has no mutation, so the value
  of a name is the value of the right-hand side of its (single) binding statement; `evalC`
  re-evaluates it on demand.  Validated against CPython by the harness on every run.
* `mayE` — jedi's set-valued inference (`infer_node`, `tree_name_to_values`, `infer_expr_stmt`,
  `check_tuple_assignments`, `infer_trailer`, function execution with argument-bound parameters,
  class/instance attribute filters along the base chain): both arms of a conditional, last
  definition before the position at module level, no position limit from inside a function.

Both are fuel-indexed with identical recursion structure. -/
namespace JediModel.PyCore

inductive Expr where
  | int | str
  | name (x : Nat)
  | tuple (es : List Expr)
  | index (e : Expr) (k : Nat)
  | call (f : Expr) (args : List Expr)
  | attr (e : Expr) (a : Nat)
  | tern (c : Bool) (a b : Expr)     -- `a if <opaque> else b`; `c` = the branch the run takes
deriving Repr

inductive Stmt where
  | assign (x : Nat) (e : Expr)
  | unpack (xs : List Nat) (e : Expr)
  | defn (f : Nat) (params : List Nat) (ret : Expr)
  | klass (c : Nat) (base : Option Nat) (attrs : List (Nat × Expr))
  | probe (e : Expr)
deriving Repr

abbrev Prog := List Stmt

/-- index of `x` in a list of names -/
def indexOf (xs : List Nat) (x : Nat) : Option Nat :=
  match xs with
  | [] => none
  | y :: ys => if y = x then some 0 else (indexOf ys x).map (· + 1)

def Stmt.binds (s : Stmt) (x : Nat) : Bool :=
  match s with
  | .assign y _ => y == x
  | .unpack ys _ => ys.contains x
  | .defn f _ _ => f == x
  | .klass c _ _ => c == x
  | .probe _ => false

/-- the last statement before position `lim` that binds `x` (jedi: last reachable definition
before the position; Python: the binding that is in effect) -/
def lastBinder (p : Prog) (x lim : Nat) : Option Nat :=
  ((p.take lim).zipIdx.filter fun (s, _) => s.binds x).getLast?.map (·.2)

/-- the last assignment to attribute `a` in a class body -/
def lastAttr (attrs : List (Nat × Expr)) (a : Nat) : Option Expr :=
  ((attrs.filter fun ae => ae.1 == a).getLast?).map (·.2)

/-! ## concrete -/

inductive Val where
  | int | str
  | tuple (vs : List Val)
  | func (id : Nat)
  | cls (id : Nat)
  | inst (id : Nat)
deriving Repr

/-- evaluation context: module level at a statement position, or the body of function `id`
with its arguments -/
inductive CtxC where
  | module (pos : Nat)
  | func (id : Nat) (args : List Val)

def mapOpt {α β} (f : α → Option β) : List α → Option (List β)
  | [] => some []
  | a :: as =>
    match f a, mapOpt f as with
    | some b, some bs => some (b :: bs)
    | _, _ => none

mutual
/-- value of expression `e` in context `ctx` -/
def evalC (p : Prog) : Nat → CtxC → Expr → Option Val
  | 0, _, _ => none
  | fuel + 1, ctx, e =>
    match e with
    | .int => some .int
    | .str => some .str
    | .name x =>
      match ctx with
      | .module pos => nameC p fuel x pos
      | .func id args =>
        match p[id]? with
        | some (.defn _ params _) =>
          match indexOf params x with
          | some i => args[i]?
          | none => nameC p fuel x p.length
        | _ => none
    | .tuple es => (mapOpt (evalC p fuel ctx) es).map .tuple
    | .index e k =>
      match evalC p fuel ctx e with
      | some (.tuple vs) => vs[k]?
      | _ => none
    | .call f args =>
      match evalC p fuel ctx f, mapOpt (evalC p fuel ctx) args with
      | some (.func id), some vs =>
        match p[id]? with
        | some (.defn _ params ret) =>
          if params.length = vs.length then evalC p fuel (.func id vs) ret else none
        | _ => none
      | some (.cls id), some vs => if vs.isEmpty then some (.inst id) else none
      | _, _ => none
    | .attr e a =>
      match evalC p fuel ctx e with
      | some (.inst id) => attrC p fuel id a
      | some (.cls id) => attrC p fuel id a
      | _ => none
    | .tern c a b => if c then evalC p fuel ctx a else evalC p fuel ctx b

/-- value of module-level name `x` seen from statement position `lim` -/
def nameC (p : Prog) : Nat → Nat → Nat → Option Val
  | 0, _, _ => none
  | fuel + 1, x, lim =>
    match lastBinder p x lim with
    | none => none
    | some j =>
      match p[j]? with
      | some (.assign _ e) => evalC p fuel (.module j) e
      | some (.unpack xs e) =>
        match evalC p fuel (.module j) e, indexOf xs x with
        | some (.tuple vs), some i => if vs.length = xs.length then vs[i]? else none
        | _, _ => none
      | some (.defn _ _ _) => some (.func j)
      | some (.klass _ _ _) => some (.cls j)
      | _ => none

/-- attribute `a` of class `id` (own body, then the base class) -/
def attrC (p : Prog) : Nat → Nat → Nat → Option Val
  | 0, _, _ => none
  | fuel + 1, id, a =>
    match p[id]? with
    | some (.klass _ base attrs) =>
      match lastAttr attrs a with
      | some e => evalC p fuel (.module id) e
      | none =>
        match base with
        | none => none
        | some b =>
          match nameC p fuel b id with
          | some (.cls bid) => attrC p fuel bid a
          | _ => none
    | _ => none
end

/-! ## jedi -/

inductive Shape where
  | int | str
  | tuple (elems : List (List Shape))
  | func (id : Nat)
  | cls (id : Nat)
  | inst (id : Nat)
deriving Repr

inductive CtxA where
  | module (pos : Nat)
  | func (id : Nat) (args : List (List Shape))

mutual
def mayE (p : Prog) : Nat → CtxA → Expr → List Shape
  | 0, _, _ => []
  | fuel + 1, ctx, e =>
    match e with
    | .int => [.int]
    | .str => [.str]
    | .name x =>
      match ctx with
      | .module pos => nameA p fuel x pos
      | .func id args =>
        match p[id]? with
        | some (.defn _ params _) =>
          match indexOf params x with
          | some i => (args[i]?).getD []
          | none => nameA p fuel x p.length
        | _ => []
    | .tuple es => [.tuple (es.map (mayE p fuel ctx))]
    | .index e k =>
      (mayE p fuel ctx e).flatMap fun s =>
        match s with
        | .tuple elems =>
          -- out of range: `py__simple_getitem__` raises IndexError, jedi falls back to the
          -- union of all elements
          match elems[k]? with
          | some s => s
          | none => elems.flatten
        | .cls id => [.cls id]      -- `C[0]`: jedi treats a subscripted class as the class (generics)
        | _ => []
    | .call f args =>
      let as := args.map (mayE p fuel ctx)
      (mayE p fuel ctx f).flatMap fun s =>
        match s with
        | .func id =>
          match p[id]? with
          | some (.defn _ _ ret) => mayE p fuel (.func id as) ret
          | _ => []
        | .cls id => [.inst id]
        | _ => []
    | .attr e a =>
      (mayE p fuel ctx e).flatMap fun s =>
        match s with
        | .inst id => attrA p fuel id a
        | .cls id => attrA p fuel id a
        | _ => []
    | .tern _ a b => mayE p fuel ctx a ++ mayE p fuel ctx b

def nameA (p : Prog) : Nat → Nat → Nat → List Shape
  | 0, _, _ => []
  | fuel + 1, x, lim =>
    match lastBinder p x lim with
    | none => []
    | some j =>
      match p[j]? with
      | some (.assign _ e) => mayE p fuel (.module j) e
      | some (.unpack xs e) =>
        match indexOf xs x with
        | some i =>
          (mayE p fuel (.module j) e).flatMap fun s =>
            match s with
            | .tuple elems => (elems[i]?).getD []
            | _ => []
        | none => []
      | some (.defn _ _ _) => [.func j]
      | some (.klass _ _ _) => [.cls j]
      | _ => []

def attrA (p : Prog) : Nat → Nat → Nat → List Shape
  | 0, _, _ => []
  | fuel + 1, id, a =>
    match p[id]? with
    | some (.klass _ base attrs) =>
      match lastAttr attrs a with
      | some e => mayE p fuel (.module id) e
      | none =>
        match base with
        | none => []
        | some b =>
          (nameA p fuel b id).flatMap fun s =>
            match s with
            | .cls bid => attrA p fuel bid a
            | _ => []
    | _ => []
end

/-- the probes of a program, in order, with the statement position they sit at -/
def probes (p : Prog) : List (Nat × Expr) :=
  p.zipIdx.filterMap fun (s, i) =>
    match s with
    | .probe e => some (i, e)
    | _ => none

end JediModel.PyCore

/-! PyCore: a pure core of Python — literals, names, tuples, constant indexing, calls of
single-`return` functions, classes with class attributes, `__init__` storing `self.a = e`,
methods, instantiation with arguments, attribute access on instances and classes, bound method
calls, single inheritance, `a if <opaque> else b` — with two interpreters over one skeleton:

* `evalC` — the concrete semantics (one branch of every conditional, values carry the index of
  the `def`/`class` statement that created them; an instance remembers its constructor
  arguments).  The fragment has no mutation after construction, so the value of a name or of an
  instance attribute is the value of the right-hand side of its binding statement; `evalC`
  re-evaluates it on demand.  Validated against CPython by the harness on every run.
* `mayE` — jedi's set-valued inference (`infer_node`, `tree_name_to_values`, `infer_expr_stmt`,
  `check_tuple_assignments`, `infer_trailer`, function/method execution with argument-bound
  parameters, `SelfAttributeFilter` + class filters along the base chain): both arms of a
  conditional, last definition before the position at module level, no position limit from
  inside a function.

Both are fuel-indexed with identical recursion structure. -/
namespace JediModel.PyCore

inductive Expr where
  | int | str
  | name (x : Nat)
  | self                              -- the first parameter of a method
  | tuple (es : List Expr)
  | index (e : Expr) (k : Nat)
  | call (f : Expr) (args : List Expr)
  | attr (e : Expr) (a : Nat)
  | tern (c : Bool) (a b : Expr)     -- `a if <opaque> else b`; `c` = the branch the run takes
deriving Repr

/-- `def __init__(self, params): self.a1 = e1; ...` -/
structure Init where
  params : List Nat
  assigns : List (Nat × Expr)
deriving Repr

/-- `def m(self, params): return ret` -/
structure Method where
  name : Nat
  params : List Nat
  ret : Expr
deriving Repr

inductive Stmt where
  | assign (x : Nat) (e : Expr)
  | unpack (xs : List Nat) (e : Expr)
  | defn (f : Nat) (params : List Nat) (ret : Expr)
  | klass (c : Nat) (base : Option Nat) (attrs : List (Nat × Expr)) (init : Option Init)
      (methods : List Method)
  | probe (e : Expr)
deriving Repr

abbrev Prog := List Stmt

/-- index of `x` in a list of names -/
def indexOf (xs : List Nat) (x : Nat) : Option Nat :=
  match xs with
  | [] => none
  | y :: ys => if y = x then some 0 else (indexOf ys x).map (· + 1)

def Stmt.binds (s : Stmt) (x : Nat) : Bool :=
  match s with
  | .assign y _ => y == x
  | .unpack ys _ => ys.contains x
  | .defn f _ _ => f == x
  | .klass c _ _ _ _ => c == x
  | .probe _ => false

/-- the last statement before position `lim` that binds `x` (jedi: last reachable definition
before the position; Python: the binding that is in effect) -/
def lastBinder (p : Prog) (x lim : Nat) : Option Nat :=
  ((p.take lim).zipIdx.filter fun (s, _) => s.binds x).getLast?.map (·.2)

/-- the last assignment to attribute `a` in a class body / an `__init__` body -/
def lastAttr (attrs : List (Nat × Expr)) (a : Nat) : Option Expr :=
  ((attrs.filter fun ae => ae.1 == a).getLast?).map (·.2)

/-- every assignment to attribute `a` (jedi's `SelfAttributeFilter` reports them all) -/
def allAttr (attrs : List (Nat × Expr)) (a : Nat) : List Expr :=
  (attrs.filter fun ae => ae.1 == a).map (·.2)

def findMethod (ms : List Method) (a : Nat) : Option Method :=
  (ms.filter fun m => m.name == a).getLast?

/-- parameters of the function a method context executes: `m = none` is `__init__` -/
def methodParams (p : Prog) (cid : Nat) (m : Option Nat) : Option (List Nat) :=
  match p[cid]? with
  | some (.klass _ _ _ init methods) =>
    match m with
    | none => init.map (·.params)
    | some a => (findMethod methods a).map (·.params)
  | _ => none

/-! ## concrete -/

inductive Val where
  | int | str
  | tuple (vs : List Val)
  | func (id : Nat)
  | cls (id : Nat)
  | inst (id : Nat) (args : List Val)
  | bound (recv : Val) (cid : Nat) (m : Nat)     -- bound method `recv.m`, defined in class `cid`
deriving Repr

/-- evaluation context: module level at a statement position, the body of function `id`, or the
body of a method (`m = none`: `__init__`) of class `cid` with `self` and its arguments -/
inductive CtxC where
  | module (pos : Nat)
  | func (id : Nat) (args : List Val)
  | meth (cid : Nat) (m : Option Nat) (self : Val) (args : List Val)

def mapOpt {α β} (f : α → Option β) : List α → Option (List β)
  | [] => some []
  | a :: as =>
    match f a, mapOpt f as with
    | some b, some bs => some (b :: bs)
    | _, _ => none

/-- outcome of looking for an instance attribute -/
inductive Found (α : Type) where
  | found (v : α)
  | missing          -- not an instance attribute: go on with the class
  | error

mutual
/-- value of expression `e` in context `ctx` -/
def evalC (p : Prog) : Nat → CtxC → Expr → Option Val
  | 0, _, _ => none
  | fuel + 1, ctx, e =>
    match e with
    | .int => some .int
    | .str => some .str
    | .name x =>
      match ctx with
      | .module pos => nameC p fuel x pos
      | .func id args =>
        match p[id]? with
        | some (.defn _ params _) =>
          match indexOf params x with
          | some i => args[i]?
          | none => nameC p fuel x p.length
        | _ => none
      | .meth cid m _ args =>
        match methodParams p cid m with
        | some params =>
          match indexOf params x with
          | some i => args[i]?
          | none => nameC p fuel x p.length
        | none => none
    | .self =>
      match ctx with
      | .meth _ _ s _ => some s
      | _ => none
    | .tuple es => (mapOpt (evalC p fuel ctx) es).map .tuple
    | .index e k =>
      match evalC p fuel ctx e with
      | some (.tuple vs) => vs[k]?
      | _ => none
    | .call f args =>
      match evalC p fuel ctx f, mapOpt (evalC p fuel ctx) args with
      | some (.func id), some vs =>
        match p[id]? with
        | some (.defn _ params ret) =>
          if params.length = vs.length then evalC p fuel (.func id vs) ret else none
        | _ => none
      | some (.cls id), some vs =>
        -- `__init__` of the first class in the chain that defines one must accept the arguments
        match initArityC p fuel id with
        | some n => if n = vs.length then some (.inst id vs) else none
        | none => none
      | some (.bound recv cid m), some vs =>
        match p[cid]? with
        | some (.klass _ _ _ _ methods) =>
          match findMethod methods m with
          | some md =>
            if md.params.length = vs.length then evalC p fuel (.meth cid (some m) recv vs) md.ret
            else none
          | none => none
        | _ => none
      | _, _ => none
    | .attr e a =>
      match evalC p fuel ctx e with
      | some (.inst id args) =>
        match selfAttrC p fuel id (.inst id args) args a with
        | .found v => some v
        | .missing => attrC p fuel (some (.inst id args)) id a
        | .error => none
      | some (.cls id) => attrC p fuel none id a
      | _ => none
    | .tern c a b => if c then evalC p fuel ctx a else evalC p fuel ctx b
termination_by structural n _ _ => n

/-- value of module-level name `x` seen from statement position `lim` -/
def nameC (p : Prog) : Nat → Nat → Nat → Option Val
  | 0, _, _ => none
  | fuel + 1, x, lim =>
    match lastBinder p x lim with
    | none => none
    | some j =>
      match p[j]? with
      | some (.assign _ e) => evalC p fuel (.module j) e
      | some (.unpack xs e) =>
        match evalC p fuel (.module j) e, indexOf xs x with
        | some (.tuple vs), some i => if vs.length = xs.length then vs[i]? else none
        | _, _ => none
      | some (.defn _ _ _) => some (.func j)
      | some (.klass _ _ _ _ _) => some (.cls j)
      | _ => none
termination_by structural n _ _ => n

/-- number of parameters (besides `self`) of the `__init__` that runs for class `id`:
the first one found along the base chain, 0 when there is none (`object.__init__`) -/
def initArityC (p : Prog) : Nat → Nat → Option Nat
  | 0, _ => none
  | fuel + 1, id =>
    match p[id]? with
    | some (.klass _ base _ init _) =>
      match init with
      | some i => some i.params.length
      | none =>
        match base with
        | none => some 0
        | some b =>
          match nameC p fuel b id with
          | some (.cls bid) => initArityC p fuel bid
          | _ => none
    | _ => none
termination_by structural n _ => n

/-- instance attribute `a` of an instance of class `id`: only the `__init__` that runs — the
first one along the base chain — fills the instance dict -/
def selfAttrC (p : Prog) : Nat → Nat → Val → List Val → Nat → Found Val
  | 0, _, _, _, _ => .error
  | fuel + 1, id, selfv, args, a =>
    match p[id]? with
    | some (.klass _ base _ init _) =>
      match init with
      | some i =>
        match lastAttr i.assigns a with
        | some e =>
          match evalC p fuel (.meth id none selfv args) e with
          | some v => .found v
          | none => .error
        | none => .missing
      | none =>
        match base with
        | none => .missing
        | some b =>
          match nameC p fuel b id with
          | some (.cls bid) => selfAttrC p fuel bid selfv args a
          | _ => .error
    | _ => .error
termination_by structural n _ _ _ _ => n

/-- attribute `a` looked up on class `id` (own body, then the base class); a method found for
an instance receiver is bound to it -/
def attrC (p : Prog) : Nat → Option Val → Nat → Nat → Option Val
  | 0, _, _, _ => none
  | fuel + 1, recv, id, a =>
    match p[id]? with
    | some (.klass _ base attrs _ methods) =>
      match lastAttr attrs a with
      | some e => evalC p fuel (.module id) e
      | none =>
        match findMethod methods a, recv with
        | some _, some r => some (.bound r id a)
        | some _, none => none       -- `C.m` (plain function object): outside the fragment
        | none, _ =>
          match base with
          | none => none
          | some b =>
            match nameC p fuel b id with
            | some (.cls bid) => attrC p fuel recv bid a
            | _ => none
    | _ => none
termination_by structural n _ _ _ => n
end

/-! ## jedi -/

inductive Shape where
  | int | str
  | tuple (elems : List (List Shape))
  | func (id : Nat)
  | cls (id : Nat)
  | inst (id : Nat) (args : List (List Shape))
  | bound (recv : Shape) (cid : Nat) (m : Nat)
deriving Repr

inductive CtxA where
  | module (pos : Nat)
  | func (id : Nat) (args : List (List Shape))
  | meth (cid : Nat) (m : Option Nat) (self : Shape) (args : List (List Shape))

/-- first candidate that yields something -/
def firstSome {α β} (f : α → Option β) : List α → Option β
  | [] => none
  | a :: as =>
    match f a with
    | some b => some b
    | none => firstSome f as

mutual
def mayE (p : Prog) : Nat → CtxA → Expr → List Shape
  | 0, _, _ => []
  | fuel + 1, ctx, e =>
    match e with
    | .int => [.int]
    | .str => [.str]
    | .name x =>
      match ctx with
      | .module pos => nameA p fuel x pos
      | .func id args =>
        match p[id]? with
        | some (.defn _ params _) =>
          match indexOf params x with
          | some i => (args[i]?).getD []
          | none => nameA p fuel x p.length
        | _ => []
      | .meth cid m _ args =>
        match methodParams p cid m with
        | some params =>
          match indexOf params x with
          | some i => (args[i]?).getD []
          | none => nameA p fuel x p.length
        | none => []
    | .self =>
      match ctx with
      | .meth _ _ s _ => [s]
      | _ => []
    | .tuple es => [.tuple (es.map (mayE p fuel ctx))]
    | .index e k =>
      (mayE p fuel ctx e).flatMap fun s =>
        match s with
        | .tuple elems =>
          -- out of range: `py__simple_getitem__` raises IndexError, jedi falls back to the
          -- union of all elements
          match elems[k]? with
          | some s => s
          | none => elems.flatten
        | .cls id => [.cls id]      -- `C[0]`: jedi treats a subscripted class as the class (generics)
        | _ => []
    | .call f args =>
      (mayE p fuel ctx f).flatMap fun s =>
        match s with
        | .func id =>
          match p[id]? with
          | some (.defn _ _ ret) => mayE p fuel (.func id (args.map (mayE p fuel ctx))) ret
          | _ => []
        | .cls id => [.inst id (args.map (mayE p fuel ctx))]
        | .bound recv cid m =>
          match p[cid]? with
          | some (.klass _ _ _ _ methods) =>
            match findMethod methods m with
            | some md => mayE p fuel (.meth cid (some m) recv (args.map (mayE p fuel ctx))) md.ret
            | none => []
          | _ => []
        | _ => []
    | .attr e a =>
      (mayE p fuel ctx e).flatMap fun s =>
        match s with
        | .inst id args =>
          match selfAttrA p fuel id (.inst id args) args a with
          | some r => r
          | none => attrA p fuel (some (.inst id args)) id a
        | .cls id => attrA p fuel none id a
        | _ => []
    | .tern _ a b => mayE p fuel ctx a ++ mayE p fuel ctx b
termination_by structural n _ _ => n

def nameA (p : Prog) : Nat → Nat → Nat → List Shape
  | 0, _, _ => []
  | fuel + 1, x, lim =>
    match lastBinder p x lim with
    | none => []
    | some j =>
      match p[j]? with
      | some (.assign _ e) => mayE p fuel (.module j) e
      | some (.unpack xs e) =>
        match indexOf xs x with
        | some i =>
          (mayE p fuel (.module j) e).flatMap fun s =>
            match s with
            | .tuple elems => (elems[i]?).getD []
            | _ => []
        | none => []
      | some (.defn _ _ _) => [.func j]
      | some (.klass _ _ _ _ _) => [.cls j]
      | _ => []
termination_by structural n _ _ => n

/-- `SelfAttributeFilter` along the MRO: the first class whose `__init__` assigns `self.a`
(whether or not that `__init__` is the one Python runs), the union over all its assignments
to `self.a` (not only the last); `none` = no class has it -/
def selfAttrA (p : Prog) : Nat → Nat → Shape → List (List Shape) → Nat → Option (List Shape)
  | 0, _, _, _, _ => none
  | fuel + 1, id, selfs, args, a =>
    match p[id]? with
    | some (.klass _ base _ init _) =>
      match (match init with
             | some i => allAttr i.assigns a
             | none => []) with
      | e :: es => some ((e :: es).flatMap (mayE p fuel (.meth id none selfs args)))
      | [] =>
        match base with
        | none => none
        | some b =>
          -- the base name denotes one class in SSA programs; with several candidates jedi
          -- takes the first that has the attribute
          firstSome (fun s =>
            match s with
            | .cls bid => selfAttrA p fuel bid selfs args a
            | _ => none) (nameA p fuel b id)
    | _ => none
termination_by structural n _ _ _ _ => n

def attrA (p : Prog) : Nat → Option Shape → Nat → Nat → List Shape
  | 0, _, _, _ => []
  | fuel + 1, recv, id, a =>
    match p[id]? with
    | some (.klass _ base attrs _ methods) =>
      match lastAttr attrs a with
      | some e => mayE p fuel (.module id) e
      | none =>
        match findMethod methods a, recv with
        | some _, some r => [.bound r id a]
        | some _, none => []
        | none, _ =>
          match base with
          | none => []
          | some b =>
            (nameA p fuel b id).flatMap fun s =>
              match s with
              | .cls bid => attrA p fuel recv bid a
              | _ => []
    | _ => []
termination_by structural n _ _ _ => n
end

/-- the probes of a program, in order, with the statement position they sit at -/
def probes (p : Prog) : List (Nat × Expr) :=
  p.zipIdx.filterMap fun (s, i) =>
    match s with
    | .probe e => some (i, e)
    | _ => none

end JediModel.PyCore

namespace JediModel.PyCore

/-- the names jedi offers after `obj.` for an instance (`inst = true`: `SelfAttributeFilter`s
first) or a class of class statement `id`: `self.x` targets of `__init__`, class-body names and
method names of the class and, recursively, of its base -/
def complNames (p : Prog) : Nat → Bool → Nat → List Nat
  | 0, _, _ => []
  | fuel + 1, inst, id =>
    match p[id]? with
    | some (.klass _ base attrs init methods) =>
      (if inst then (match init with
                     | some i => i.assigns.map (·.1)
                     | none => []) else []) ++
      attrs.map (·.1) ++ methods.map (·.name) ++
      (match base with
       | none => []
       | some b =>
         (nameA p fuel b id).flatMap fun s =>
           match s with
           | .cls bid => complNames p fuel inst bid
           | _ => [])
    | _ => []

end JediModel.PyCore

/-! The ORDER of the element stream of a generator function
(jedi/inference/value/function.py:BaseFunctionExecutionContext.get_yield_lazy_values).

```
for_parents = [(y, y.search_ancestor('for_stmt', 'funcdef', 'while_stmt', 'if_stmt')) for y in yields]
yields_order = []; last_for_stmt = None
for yield_, for_stmt in for_parents:
    if <for_stmt is a for directly in the body with one loop name>:
        if for_stmt == last_for_stmt: yields_order[-1][1].append(yield_)
        else:                         yields_order.append((for_stmt, [yield_]))
    elif for_stmt == self.tree_node:  yields_order.append((None, [yield_]))
    else:  <give up: one lazy value holding the union of all yields>; return
    last_for_stmt = for_stmt
for for_stmt, yields in yields_order:
    if for_stmt is None: every yield once
    else: for every element of the iterated sequence: every yield of the group
```

Yields are numbers (source order), for statements are numbers.  `groupAdj` is the grouping above:
yields of one for statement that follow each other form one group, every top-level yield is a
group of its own (written as a recursion over the list that joins a yield with the FOLLOWING group
of the same for statement - the same maximal runs as joining with the preceding one).
`groupKeyed` is the other shape the translator recognises (an insertion-ordered dict keyed by the
for statement, `setdefault(key, []).append(yield_)`, key None for top-level yields). -/
namespace JediModel.YieldOrder

/-- where a `yield` sits, as the function classifies it -/
inductive Par where
  | top                  -- directly in the function body
  | simpleFor (f : Nat)  -- in for statement `f`: directly in the body, one loop name
  | other                -- behind if / while / a nested or tuple-target for
deriving DecidableEq, Repr

/-- `(for_stmt or None, yields)` -/
abbrev Group := Option Nat × List Nat

def groupAdj : List (Nat × Par) → Option (List Group)
  | [] => some []
  | (y, p) :: rest =>
    match groupAdj rest with
    | none => none
    | some gs =>
      match p with
      | .other => none
      | .top => some ((none, [y]) :: gs)
      | .simpleFor f =>
        match gs with
        | (some f', ys) :: gs' =>
          if f' = f then some ((some f, y :: ys) :: gs') else some ((some f, [y]) :: gs)
        | _ => some ((some f, [y]) :: gs)

/-- `dct.setdefault(k, []).append(y)` on an insertion-ordered dict -/
def insertKeyed (k : Option Nat) (y : Nat) : List Group → List Group
  | [] => [(k, [y])]
  | (k', ys) :: gs => if k' = k then (k', ys ++ [y]) :: gs else (k', ys) :: insertKeyed k y gs

def groupKeyedFrom (acc : List Group) : List (Nat × Par) → Option (List Group)
  | [] => some acc
  | (_, .other) :: _ => none
  | (y, .top) :: rest => groupKeyedFrom (insertKeyed none y acc) rest
  | (y, .simpleFor f) :: rest => groupKeyedFrom (insertKeyed (some f) y acc) rest

/-- the grouping of the source: `keyed` is read by the translator -/
def group (keyed : Bool) (ps : List (Nat × Par)) : Option (List Group) :=
  if keyed then groupKeyedFrom [] ps else groupAdj ps

/-- an element of the stream: which yield, in which iteration of its for statement -/
abbrev Pos := Nat × Option Nat

/-- the second loop of the function; `len f` = number of elements of the sequence `f` iterates -/
def emitGroup (len : Nat → Nat) : Group → List Pos
  | (none, ys) => ys.map fun y => (y, none)
  | (some f, ys) => (List.range (len f)).flatMap fun i => ys.map fun y => (y, some i)

def emit (len : Nat → Nat) (gs : List Group) : List Pos := gs.flatMap (emitGroup len)

/-- `get_yield_lazy_values`: `none` = the order is given up (union of all yields) -/
def order (keyed : Bool) (len : Nat → Nat) (ps : List (Nat × Par)) : Option (List Pos) :=
  (group keyed ps).map (emit len)

/-! ### the generator function as written, and its run -/

/-- a statement of the body: a plain `yield`, or a simple for with at least one yield -/
inductive Seg where
  | top (y : Nat)
  | loop (f : Nat) (y : Nat) (ys : List Nat)
deriving DecidableEq, Repr

/-- `for_parents` of the yields of one statement, in source order -/
def Seg.parents : Seg → List (Nat × Par)
  | .top y => [(y, .top)]
  | .loop f y ys => (y :: ys).map fun z => (z, .simpleFor f)

def parents (segs : List Seg) : List (Nat × Par) := segs.flatMap Seg.parents

/-- what executing the statement yields -/
def Seg.run (len : Nat → Nat) : Seg → List Pos
  | .top y => [(y, none)]
  | .loop f y ys => (List.range (len f)).flatMap fun i => (y :: ys).map fun z => (z, some i)

/-- the run of the generator: statement after statement -/
def run (len : Nat → Nat) (segs : List Seg) : List Pos := segs.flatMap (Seg.run len)

def Seg.group : Seg → Group
  | .top y => (none, [y])
  | .loop f y ys => (some f, y :: ys)

def headFor : List Seg → Option Nat
  | .loop f _ _ :: _ => some f
  | _ => none

/-- two for statements that follow each other are different statements (always so in a tree) -/
def distinctFors : List Seg → Bool
  | [] => true
  | .top _ :: rest => distinctFors rest
  | .loop f _ _ :: rest => headFor rest != some f && distinctFors rest

end JediModel.YieldOrder

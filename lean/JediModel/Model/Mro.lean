import JediModel.Model.Recursion
/-! # Model of `ClassMixin.py__mro__` (C15: the work for a tree of n class definitions)

Transcribed from `jedi/inference/value/klass.py`:

```
@inference_state_method_generator_cache()
def py__mro__(self):
    mro = [self]
    yield self
    for lazy_cls in self.py__bases__():
        for cls in lazy_cls.infer():
            ... mro_method = cls.py__mro__ ...
            for cls_new in mro_method():
                if cls_new not in mro:
                    mro.append(cls_new)
                    yield cls_new
```

Classes are natural numbers, `bases c` is the flattened list of the inferred base classes of `c`
(`object` is an ordinary node without bases).  The element that is appended to the local
de-duplication list `mro` is a parameter (`record base new`), so that the one line that makes the
listing linear — *the appended element is the yielded element* — is visible: the source
instance is `recordYielded`; `recordBase` is the `cls`/`cls_new` mix-up.

The generator cache makes the body of `py__mro__` run once per class and inference state, so the
work of one body is the number of iterations of its inner loop (`steps`) and the number of
list cells compared by `cls_new not in mro` (`scan`); a base's listing is replayed from the cache.
Python nesting depth is the fuel (`Err.fuel` = RecursionError / no termination).  Core Lean only. -/
namespace JediModel.Mro
open JediModel.Recursion (Err)

/-- the state of one running `py__mro__` body -/
structure St where
  /-- the local list `mro` -/
  seen : List Nat
  /-- the elements yielded so far, in order -/
  out : List Nat
  /-- iterations of the inner loop `for cls_new in mro_method()` -/
  steps : Nat
  /-- list cells visited by `cls_new not in mro` (worst case: the whole list per test) -/
  scan : Nat
deriving Repr, DecidableEq

/-- `mro = [self]; yield self` -/
def St.init (c : Nat) : St := { seen := [c], out := [c], steps := 0, scan := 0 }

/-- `mro.append(cls_new)`: what the source does -/
def recordYielded : Nat → Nat → Nat := fun _ clsNew => clsNew
/-- `mro.append(cls)`: the direct base instead of the class just yielded -/
def recordBase : Nat → Nat → Nat := fun cls _ => cls

/-- `for cls_new in mro_method(): if cls_new not in mro: mro.append(<record cls cls_new>); yield cls_new`
for one base `cls` whose listing is `l` -/
def inner (record : Nat → Nat → Nat) (cls : Nat) : St → List Nat → St
  | s, [] => s
  | s, x :: xs =>
    let s1 : St := { s with steps := s.steps + 1, scan := s.scan + s.seen.length }
    if x ∈ s.seen then inner record cls s1 xs
    else inner record cls { s1 with seen := s.seen ++ [record cls x], out := s.out ++ [x] } xs

/-- `for lazy_cls in self.py__bases__(): for cls in lazy_cls.infer(): …` over the flattened bases;
`sub b` is `b.py__mro__()` consumed to the end -/
def outer (record : Nat → Nat → Nat) (sub : Nat → Except Err (List Nat)) : St → List Nat → Except Err St
  | s, [] => .ok s
  | s, b :: bs =>
    match sub b with
    | .error e => .error e
    | .ok l => outer record sub (inner record b s l) bs

def outOf : Except Err St → Except Err (List Nat)
  | .error e => .error e
  | .ok s => .ok s.out

/-- one `py__mro__` body run to the end, `fuel` = available Python nesting depth -/
def mroWith (record : Nat → Nat → Nat) (bases : Nat → List Nat) : Nat → Nat → Except Err St
  | 0, _ => .error .fuel
  | fuel + 1, c => outer record (fun b => outOf (mroWith record bases fuel b)) (St.init c) (bases c)

/-- `list(c.py__mro__())` as jedi computes it -/
def mro (bases : Nat → List Nat) (fuel c : Nat) : Except Err (List Nat) :=
  outOf (mroWith recordYielded bases fuel c)

/-- number of base-class edges among the classes `< n` -/
def inheritEdges (bases : Nat → List Nat) : Nat → Nat
  | 0 => 0
  | n + 1 => inheritEdges bases n + (bases n).length

/-- the work of all `py__mro__` bodies of the classes `< n` (each runs once: generator cache) -/
def totalSteps (record : Nat → Nat → Nat) (bases : Nat → List Nat) (fuel : Nat) : Nat → Nat
  | 0 => 0
  | n + 1 => totalSteps record bases fuel n +
      (match mroWith record bases fuel n with | .ok s => s.steps | .error _ => 0)

/-- nested class diamonds: `C_i = 3i`, `A_i = 3i-2`, `B_i = 3i-1`;
`class C_i(A_i, B_i)`, `class A_i(C_{i-1})`, `class B_i(C_{i-1})` -/
def diamondBases (v : Nat) : List Nat :=
  if v = 0 then [] else if v % 3 = 0 then [v - 2, v - 1] else if v % 3 = 1 then [v - 1] else [v - 2]

end JediModel.Mro

/-! `TreeContextMixin.create_context`, inner `from_scope_node`, branch for a comprehension scope
node (`comp_for` / `sync_comp_for`):

    parent_context = from_scope_node(parent_scope(scope_node.parent))
    if node.start_pos >= scope_node.children[-1].start_pos:
        return parent_context
    return CompForContext(parent_context, scope_node)

Which context a node of a comprehension is looked up from.  Positions are parso's
`(line, column)` tuples, compared the way Python compares tuples.  The comparison operator and
the two return values are read from the source by the translator (`Gen/C03.lean`); the model is
parameterised by them.  Core Lean only. -/
namespace JediModel.CompCtx

abbrev Pos := Nat × Nat

/-- Python's `<` on 2-tuples of ints -/
def Pos.lt (a b : Pos) : Bool := decide (a.1 < b.1) || (a.1 == b.1 && decide (a.2 < b.2))

def Pos.le (a b : Pos) : Bool := Pos.lt a b || (a.1 == b.1 && a.2 == b.2)

/-- the comparison named by its source token; an unknown token is `none` (the Python code would
not have been translated) -/
def cmp (op : String) (a b : Pos) : Option Bool :=
  match op with
  | ">=" => some (Pos.le b a)
  | ">" => some (Pos.lt b a)
  | "<=" => some (Pos.le a b)
  | "<" => some (Pos.lt a b)
  | "==" => some (a.1 == b.1 && a.2 == b.2)
  | "!=" => some (!(a.1 == b.1 && a.2 == b.2))
  | _ => none

/-- the parts of a `sync_comp_for` node `for <targets> in <iterable> [comp_iter]` the decision
reads (`lastStart` = `children[-1].start_pos`: the iterable when the comprehension has no further
`for` / `if` clause, otherwise that clause) and the parts the property speaks about -/
structure CompFor where
  iterStart : Pos
  iterEnd : Pos
  lastStart : Pos
deriving Repr

inductive Ctx where
  | parent   -- the context enclosing the comprehension
  | comp     -- `CompForContext(parent_context, scope_node)`
deriving DecidableEq, Repr

def ctxOfTag : String → Option Ctx
  | "parent" => some .parent
  | "comp" => some .comp
  | _ => none

/-- the branch, parameterised by the source's operator and return values -/
def nodeContext (op thenTag elseTag : String) (c : CompFor) (node : Pos) : Option Ctx :=
  match cmp op node c.lastStart with
  | none => none
  | some true => ctxOfTag thenTag
  | some false => ctxOfTag elseTag

end JediModel.CompCtx

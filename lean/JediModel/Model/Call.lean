/-! Model of the call-signature machinery (property C11).

Transcribed, branch by branch, from
* `jedi/inference/names.py`: `_ActualTreeParamName.get_kind`, `BaseTreeParamName.to_string /
  get_public_name`, `_ParamMixin._kind_string`
* `jedi/inference/signature.py`: `_SignatureMixin.to_string`, `TreeSignature.get_param_names`,
  `_remove_bound_param`
* `jedi/inference/star_args.py`: `process_params` for a body that forwards neither `*args` nor
  `**kwargs` (no callables found), and for a body that forwards `**kwargs` (only) to callees that
  forward nothing themselves (`_remove_given_params`, the `star_count=2` recursion)
* `jedi/api/helpers.py`: `_iter_arguments`, `CallDetails.calculate_index /
  count_positional_arguments / iter_used_keyword_arguments`
* `jedi/api/classes.py`: `BaseName.docstring` (assembly of signature line(s) and raw text)

Python side (ground truth the theorems compare against): `Sig` = a syntactically valid parameter
list with `inspect`'s kinds, `pyBind` = CPython's *call* binding of one argument.

Python `str` = `List Char`.  Core Lean only. -/
namespace JediModel.Call

abbrev Str := List Char

/-- `inspect.Parameter.kind` -/
inductive Kind where
  | posOnly | posOrKw | varPos | kwOnly | varKw
deriving DecidableEq, Repr

/-- the integer value of the `inspect._ParameterKind` enum member -/
def Kind.toNat : Kind → Nat
  | .posOnly => 0 | .posOrKw => 1 | .varPos => 2 | .kwOnly => 3 | .varKw => 4

/-! ## parameter lists as parso shows them -/

/-- a child of parso's `parameters` node (parentheses and the commas that parso keeps inside
`param` nodes dropped): a `param` node, or a bare `*` / `/` operator leaf -/
inductive PTok where
  | param (name : Str) (stars : Nat) (ann dflt : Option Str)
  | star
  | slash
deriving DecidableEq, Repr

/-- `name.startswith('__')` -/
def dunder (s : Str) : Bool := ['_', '_'].isPrefixOf s

/-- `p.star_count` truthiness / `p == '*'` tests of the loop use this -/
def PTok.isSlash : PTok → Bool
  | .slash => true
  | _ => false

/-- the `for p in parent.children` loop of `get_kind`; `i` = index of `tree_param` among the
children (node identity is position), `j` = index of `p`, `appeared` = `param_appeared` -/
def kindLoop (i : Nat) : List PTok → Nat → Bool → Kind
  | [], _, _ => .posOrKw
  | p :: rest, j, appeared =>
    if appeared then
      if p.isSlash then .posOnly else kindLoop i rest (j + 1) true
    else
      match p with
      | .star => .kwOnly
      | .param _ stars _ _ =>
        if stars ≠ 0 then .kwOnly
        else kindLoop i rest (j + 1) (j == i)
      | .slash => kindLoop i rest (j + 1) false

/-- `_ActualTreeParamName.get_kind` for the `param` node `name stars` at child index `i` -/
def getKind (toks : List PTok) (i : Nat) (name : Str) (stars : Nat) : Kind :=
  if stars = 1 then .varPos
  else if stars = 2 then .varKw
  else if dunder name then .posOnly
  else kindLoop i toks 0 false

/-- a parameter name object: `string_name`, `get_kind()`, `annotation_node`, `default_node`
(annotation and default are their source text) -/
structure PName where
  name : Str
  kind : Kind
  ann : Option Str
  dflt : Option Str
deriving DecidableEq, Repr

/-- `function_value.get_param_names()` for child list `toks`, starting at child index `j` of the
whole list `all` -/
def paramNamesFrom (all : List PTok) : List PTok → Nat → List PName
  | [], _ => []
  | .param n s a d :: rest, j => ⟨n, getKind all j n s, a, d⟩ :: paramNamesFrom all rest (j + 1)
  | _ :: rest, j => paramNamesFrom all rest (j + 1)

def paramNames (toks : List PTok) : List PName := paramNamesFrom toks toks 0

/-! ## `process_params` when nothing is forwarded -/

/-- the first loop of `process_params(param_names, star_count=3)`: yields positional-only and
positional-or-keyword names at once, remembers the last `*args`, the last `**kwargs`, collects
keyword-only names.  Result: (yielded, original_arg_name, kw_only_names, original_kwarg_name,
used_names) -/
def ppScan : List PName → (List PName × Option PName × List PName × Option PName × List Str)
  | [] => ([], none, [], none, [])
  | p :: rest =>
    let (ys, a, ks, k, used) := ppScan rest
    match p.kind with
    | .varPos => (ys, some (a.getD p), ks, k, used)
    | .varKw => (ys, a, ks, some (k.getD p), used)
    | .kwOnly => (ys, a, p :: ks, k, used)
    | .posOnly => (p :: ys, a, ks, k, used)
    | .posOrKw => (p :: ys, a, ks, k, p.name :: used)

/-- the `for p in kw_only_names: if p.string_name in used_names: continue; yield p; add` loop -/
def ppKwOnly : List PName → List Str → List PName
  | [], _ => []
  | p :: rest, used =>
    if used.contains p.name then ppKwOnly rest used else p :: ppKwOnly rest (p.name :: used)

/-- `process_params(param_names)` with no call in the body that receives `*args` / `**kwargs`
(`arg_callables` and `kwarg_callables` empty).  Note `original_arg_name` is the LAST `*args`
seen by the loop (`ppScan` goes right to left, so `a.getD p` keeps the later one). -/
def processParams (ps : List PName) : List PName :=
  let (ys, a, ks, k, used) := ppScan ps
  ys ++ a.toList ++ ppKwOnly ks used ++ k.toList

/-- `_remove_bound_param(param_names)`: `self`/`cls` is bound to the first parameter, except when
that parameter is `*args` (which swallows it and stays).  The empty list takes the
`param_names[1:]` branch (`param_names and …` is falsy). -/
def removeBoundParam : List PName → List PName
  | [] => []
  | p :: rest => if p.kind = .varPos then p :: rest else rest

/-- `TreeSignature.get_param_names(resolve_stars=True)` -/
def signatureParams (bound : Bool) (ps : List PName) : List PName :=
  if bound then removeBoundParam (processParams ps) else processParams ps

/-! ## `process_params` when `**kwargs` is forwarded (one level) -/

/-- `maybe_positional_argument()` / `maybe_keyword_argument()` (stars included) -/
def maybePositional (p : PName) : Bool :=
  decide (p.kind = .posOnly) || decide (p.kind = .posOrKw) || decide (p.kind = .varPos)

def maybeKeyword (p : PName) : Bool :=
  decide (p.kind = .kwOnly) || decide (p.kind = .posOrKw) || decide (p.kind = .varKw)

/-- `_remove_given_params(arguments, param_names)`: `count` = number of positional arguments the
forwarding call `g(e1, …, k1=…, **kwargs)` gives itself, `keys` = the keyword names it gives -/
def removeGiven : Nat → List Str → List PName → List PName
  | _, _, [] => []
  | count, keys, p :: rest =>
    if count ≠ 0 && maybePositional p then removeGiven (count - 1) keys rest
    else if keys.contains p.name && maybeKeyword p then removeGiven count keys rest
    else p :: removeGiven count keys rest

/-- first loop of `process_params(param_names, star_count=2)`: `*args` and positional-only
names are skipped (`star_count & 1` is 0), positional-or-keyword names become
`ParamNameFixedKind(p, KEYWORD_ONLY)`.  Result: (kw_only_names, original_kwarg_name) -/
def ppScan2 : List PName → (List PName × Option PName)
  | [] => ([], none)
  | p :: rest =>
    let (ks, k) := ppScan2 rest
    match p.kind with
    | .varPos => (ks, k)
    | .varKw => (ks, some (k.getD p))
    | .kwOnly => (p :: ks, k)
    | .posOnly => (ks, k)
    | .posOrKw => ({ p with kind := .kwOnly } :: ks, k)

/-- `process_params(param_names, star_count=2)` for a callee whose own body forwards nothing:
the keyword-only names (`used_names` starts empty), then its `**kwargs` -/
def processParams2 (ps : List PName) : List PName :=
  let (ks, k) := ppScan2 ps
  ppKwOnly ks [] ++ k.toList

/-- `process_params(param_names)` (star_count 3) when `*args` is forwarded nowhere and the
`**kwargs` parameter is forwarded to calls whose callees show the parameter lists `callees`
(each = `_remove_given_params(arguments, signature.get_param_names(resolve_stars=False))`, in the
order `_iter_nodes_for_param` finds the calls; every callee has exactly one signature and forwards
nothing itself).  With `callees = []` this is `processParams`. -/
def processParamsKw (ps : List PName) (callees : List (List PName)) : List PName :=
  let (ys, a, ks, k, used) := ppScan ps
  let inner := callees.flatMap processParams2
  let kwargNames := inner.filter fun p => decide (p.kind = .varKw)
  let kwOnly := inner.filter fun p => decide (p.kind = .kwOnly)
  ys ++ a.toList ++ ppKwOnly (ks ++ kwOnly) used ++
    (if callees.isEmpty then k.toList else kwargNames.head?.toList)

/-- what a callee hands to the forwarding machinery: `signature.get_param_names(resolve_stars=False)`
(bound ⇒ `_remove_bound_param`, no `process_params`) through `_remove_given_params` -/
def calleeParams (bound : Bool) (count : Nat) (keys : List Str) (ps : List PName) : List PName :=
  removeGiven count keys (if bound then removeBoundParam ps else ps)

/-! ## `to_string` -/

/-- `get_public_name` -/
def publicName (s : Str) : Str := if dunder s then s.drop 2 else s

/-- `_kind_string` -/
def kindString : Kind → Str
  | .varPos => ['*']
  | .varKw => ['*', '*']
  | _ => []

/-- `BaseTreeParamName.to_string` -/
def PName.toStr (n : PName) : Str :=
  kindString n.kind ++ publicName n.name ++
    (match n.ann with | some a => [':', ' '] ++ a | none => []) ++
    (match n.dflt with | some d => ['='] ++ d | none => [])

/-- what `param_strings()` yields -/
inductive STok where
  | slash | star | p (n : PName)
deriving DecidableEq, Repr

/-- generator `param_strings()` of `_SignatureMixin.to_string`;
state = (`is_positional`, `is_kw_only`) -/
def paramStrings : List PName → Bool → Bool → List STok
  | [], isPos, _ => if isPos then [.slash] else []
  | n :: rest, isPos, isKw =>
    let isPos1 := isPos || decide (n.kind = .posOnly)
    let slashNow := isPos1 && decide (n.kind ≠ .posOnly)
    let isPos2 := if slashNow then false else isPos1
    let starNow := decide (n.kind ≠ .varPos) && decide (n.kind = .kwOnly) && !isKw
    let isKw2 := if n.kind = .varPos then true else if starNow then true else isKw
    (if slashNow then [STok.slash] else []) ++ (if starNow then [STok.star] else []) ++
      STok.p n :: paramStrings rest isPos2 isKw2

def STok.toStr : STok → Str
  | .slash => ['/']
  | .star => ['*']
  | .p n => n.toStr

/-- `', '.join(xs)` -/
def joinComma : List Str → Str
  | [] => []
  | [x] => x
  | x :: y :: rest => x ++ [',', ' '] ++ joinComma (y :: rest)

/-- `_SignatureMixin.to_string` : name, parameters, `-> annotation` when non-empty -/
def sigToString (fname : Str) (ps : List PName) (ret : Str) : Str :=
  fname ++ ['('] ++ joinComma ((paramStrings ps false false).map STok.toStr) ++ [')'] ++
    (if ret.isEmpty then [] else [' ', '-', '>', ' '] ++ ret)

/-- parso's reading of the text `to_string` produced (token level): what the children of
`parameters` are when `def f(<to_string parameters>)` is parsed again -/
def stars : Kind → Nat
  | .varPos => 1
  | .varKw => 2
  | _ => 0

def reparse : List STok → List PTok
  | [] => []
  | .slash :: r => .slash :: reparse r
  | .star :: r => .star :: reparse r
  | .p n :: r => .param (publicName n.name) (stars n.kind) n.ann n.dflt :: reparse r

/-! ## Python: a syntactically valid parameter list and `inspect`'s kinds -/

/-- name, annotation text, default text -/
structure P where
  name : Str
  ann : Option Str
  dflt : Option Str
deriving DecidableEq, Repr

/-- `def f(po…, /, pk…, *vp | *, ko…, **vk)`; the grammar demands `ko ≠ []` for a bare `*`, which
is why the bare star is derived, not stored -/
structure Sig where
  po : List P
  pk : List P
  vp : Option P
  ko : List P
  vk : Option P
deriving DecidableEq, Repr

def P.tok (stars : Nat) (p : P) : PTok := .param p.name stars p.ann p.dflt
def P.pname (k : Kind) (p : P) : PName := ⟨p.name, k, p.ann, p.dflt⟩

/-- `*args`, or the bare `*` that must precede keyword-only parameters when there is no `*args` -/
def midToks (vp : Option P) (ko : List P) : List PTok :=
  match vp with
  | some p => [p.tok 1]
  | none => if ko.isEmpty then [] else [.star]

def vkToks (vk : Option P) : List PTok :=
  match vk with
  | some p => [p.tok 2]
  | none => []

/-- the children of `parameters` for the definition text of `s` -/
def Sig.toks (s : Sig) : List PTok :=
  s.po.map (P.tok 0) ++ (if s.po.isEmpty then [] else [.slash]) ++ s.pk.map (P.tok 0) ++
    midToks s.vp s.ko ++ s.ko.map (P.tok 0) ++ vkToks s.vk

/-- `inspect.signature(f).parameters` : names with Python's kinds -/
def Sig.params (s : Sig) : List PName :=
  s.po.map (P.pname .posOnly) ++ s.pk.map (P.pname .posOrKw) ++ (s.vp.map (P.pname .varPos)).toList ++
    s.ko.map (P.pname .kwOnly) ++ (s.vk.map (P.pname .varKw)).toList

def Sig.names (s : Sig) : List Str := s.params.map PName.name

/-- the same signature with `get_public_name` applied to every name -/
def P.pub (p : P) : P := { p with name := publicName p.name }
def Sig.pub (s : Sig) : Sig :=
  ⟨s.po.map P.pub, s.pk.map P.pub, s.vp.map P.pub, s.ko.map P.pub, s.vk.map P.pub⟩

/-! ## `_iter_arguments` -/

/-- `(star_count, key_start, had_equal)` ; `key = none` is Python's `None` -/
structure Triple where
  star : Nat
  key : Option Str
  eq : Bool
deriving DecidableEq, Repr

/-- what `_iter_arguments` can tell apart about one element of `nodes_before` -/
inductive Node0 where
  /-- `argument` node whose second child is `=`; `first` = `some value` when the first child is
  a `name` leaf, `cut` = `position[1] - first.start_pos[1]`, `eqBefore` = `second.start_pos < position` -/
  | argKw (first : Option Str) (cut : Nat) (eqBefore : Bool)
  /-- `argument` node whose first child is `*` / `**`; `second` as above -/
  | argStar (k : Nat) (second : Option Str) (cut : Nat)
  /-- any other `argument` node (comprehension, walrus): `get_first_leaf()` as above and
  `first_leaf.start_pos >= position` -/
  | argOther (firstLeaf : Option Str) (cut : Nat) (atOrAfter : Bool)
  | comma
  | starLeaf (k : Nat)
  | eqLeaf
  | nameLeaf (v : Str) (cut : Nat)
  /-- any other leaf or node (number, atom, `(`, a nested non-final `arglist`, …) -/
  | other
deriving DecidableEq, Repr

/-- an element of `nodes_before`: an `arglist` node (with its children that start before the
position) or anything else -/
inductive Node where
  | arglist (children : List Node0)
  | plain (n : Node0)
deriving Repr

/-- `remove_after_pos(name)` : `None` unless `name.type == 'name'`, else `value[:cut]` -/
def removeAfterPos (v : Option Str) (cut : Nat) : Option Str := v.map (·.take cut)

/-- loop state of `_iter_arguments` -/
structure IterState where
  yielded : Bool := false          -- previous_node_yielded
  starsSeen : Nat := 0
  prev : Option Node0 := none      -- nodes_before[i - 1]  (`none` at i = 0)
deriving Repr

/-- one iteration of `for i, node in enumerate(nodes_before)`; `last` = `nodes_before[-1]`
(what `nodes_before[i - 1]` is at `i = 0`).  Returns the triples yielded and the new state. -/
def iterStep (last : Node0) (st : IterState) (node : Node0) : List Triple × IterState :=
  match node with
  | .argKw first cut eqBefore =>
    let t : Triple :=
      if eqBefore && first.isSome then ⟨0, first, true⟩ else ⟨0, removeAfterPos first cut, false⟩
    ([t], { yielded := true, starsSeen := 0, prev := some node })
  | .argStar k second cut =>
    ([⟨k, removeAfterPos second cut, false⟩], { yielded := true, starsSeen := 0, prev := some node })
  | .argOther firstLeaf cut atOrAfter =>
    let t : Triple :=
      if firstLeaf.isSome && atOrAfter then ⟨0, removeAfterPos firstLeaf cut, false⟩ else ⟨0, none, false⟩
    ([t], { yielded := true, starsSeen := 0, prev := some node })
  | .comma =>
    if !st.yielded then ([⟨st.starsSeen, some [], false⟩], { yielded := false, starsSeen := 0, prev := some node })
    else ([], { st with yielded := false, prev := some node })
  | .starLeaf k => ([], { st with starsSeen := k, prev := some node })
  | .eqLeaf =>
    let before := st.prev.getD last
    let t : Triple := match before with
      | .nameLeaf v _ => ⟨0, some v, true⟩
      | _ => ⟨0, none, false⟩
    ([t], { yielded := true, starsSeen := 0, prev := some node })
  | .nameLeaf _ _ => ([], { st with prev := some node })
  | .other => ([], { st with prev := some node })

def iterLoop (last : Node0) : List Node0 → IterState → List Triple × IterState
  | [], st => ([], st)
  | n :: rest, st =>
    let (ts, st1) := iterStep last st n
    let (ts', st2) := iterLoop last rest st1
    (ts ++ ts', st2)

/-- the part of `_iter_arguments` after the `arglist` test, on a non-empty list -/
def iterFlat (nodes : List Node0) (last : Node0) : List Triple :=
  let (ts, st) := iterLoop last nodes {}
  ts ++ (if !st.yielded then
          match last with
          | .nameLeaf v cut => [⟨st.starsSeen, some (v.take cut), false⟩]
          | _ => [⟨st.starsSeen, some [], false⟩]
        else [])

def Node.flat : Node → Node0
  | .plain n => n
  | .arglist _ => .other

/-- `list(_iter_arguments(nodes, position))`; `none` = `IndexError` from `nodes_before[-1]` -/
def iterArguments (nodesBefore : List Node) : Option (List Triple) :=
  match nodesBefore.getLast? with
  | none => none
  | some (.arglist cs) =>
    match cs.getLast? with
    | none => none
    | some l => some (iterFlat cs l)
  | some (.plain l) => some (iterFlat (nodesBefore.map Node.flat) l)

/-! ## `CallDetails.calculate_index` and friends -/

/-- first loop: (`is_kwarg`, `positional_count`, `used_names`) -/
def scanArgs : List Triple → (Bool × Nat × List Str)
  | [] => (false, 0, [])
  | t :: rest =>
    let (kw, pc, used) := scanArgs rest
    let kw' := kw || t.eq || t.star == 2
    if t.star ≠ 0 then (kw', pc, used)
    else if rest.isEmpty then (kw', pc, used)       -- `i + 1 != len(args)` fails: last
    else if t.eq then (kw', pc, (t.key.getD []) :: used)
    else (kw', pc + 1, used)

/-- `name.startswith(key)` / `name == key` -/
def keyMatches (last : Triple) (name : Str) : Bool :=
  match last.key with
  | some k => if last.eq then name == k else k.isPrefixOf name
  | none => false

/-- second loop `for i, param_name in enumerate(param_names)` from index `i` on -/
def indexLoop (isKwarg : Bool) (pc : Nat) (used : List Str) (last : Triple) :
    List PName → Nat → Option Nat
  | [], _ => none
  | p :: rest, i =>
    if !isKwarg && p.kind = .varPos then some i
    else if !isKwarg && (p.kind = .posOrKw || p.kind = .posOnly) && i == pc then some i
    else if (last.key.isSome && last.star != 1) || last.star == 2 then
      if !used.contains p.name && (p.kind = .kwOnly || (p.kind = .posOrKw && pc ≤ i))
          && (last.star != 0 || keyMatches last p.name) then some i
      else if p.kind = .varKw then some i
      else indexLoop isKwarg pc used last rest (i + 1)
    else indexLoop isKwarg pc used last rest (i + 1)

/-- `CallDetails.calculate_index(param_names)` -/
def calculateIndex (ps : List PName) (args : List Triple) : Option Nat :=
  match args.getLast? with
  | none => if ps.isEmpty then none else some 0
  | some last =>
    let (kw, pc, used) := scanArgs args
    indexLoop kw pc used last ps 0

/-- `count_positional_arguments` : loop over `args[:-1]`, stop at the first starred / keyed one -/
def countPositional : List Triple → Nat
  | [] => 0
  | [_] => 0
  | t :: rest =>
    if t.star ≠ 0 || (match t.key with | some k => !k.isEmpty | none => false) then 0
    else 1 + countPositional rest

/-- `iter_used_keyword_arguments` -/
def usedKeywords (args : List Triple) : List Str :=
  args.filterMap fun t =>
    if t.eq then (match t.key with | some k => if k.isEmpty then none else some k | none => none) else none

/-! ## generator level: a call prefix and the nodes parso + `get_signature_details` hand over -/

/-- a positional expression is a bare name or something else -/
inductive Expr where
  | name (s : Str)
  | other
deriving DecidableEq, Repr

/-- a complete argument followed by a comma -/
inductive Arg where
  | pos (e : Expr)
  | kw (n : Str)              -- `n=<expr>`
  | star (k : Nat) (e : Expr)   -- `*e` / `**e`
deriving DecidableEq, Repr

/-- the argument under the cursor (what of it starts before the cursor) -/
inductive Cur where
  | empty                                   -- nothing typed in this slot
  | name (s : Str) (cut : Nat)              -- a bare name, `cut` characters before the cursor
  | expr                                    -- a non-name expression
  | kwArg (s : Str) (cut : Nat) (eqBefore : Bool)  -- `s=<expr>` parsed as an `argument` node
  | kwOpen (s : Str)                        -- `s=` with nothing behind it (loose leaves)
  | starOpen (k : Nat)                      -- `*` / `**` with nothing behind it
  | starArg (k : Nat) (e : Expr) (cut : Nat)    -- `*e` parsed as an `argument` node
deriving DecidableEq, Repr

def exprName : Expr → Option Str
  | .name s => some s
  | .other => none

def Arg.nodes : Arg → List Node0
  | .pos (.name s) => [.nameLeaf s s.length]
  | .pos .other => [.other]
  | .kw n => [.argKw (some n) n.length true]
  | .star k e => [.argStar k (exprName e) ((exprName e).getD []).length]

def Cur.nodes : Cur → List Node0
  | .empty => []
  | .name s cut => [.nameLeaf s cut]
  | .expr => [.other]
  | .kwArg s cut eqBefore => [.argKw (some s) cut eqBefore]
  | .kwOpen s => [.nameLeaf s s.length, .eqLeaf]
  | .starOpen k => [.starLeaf k]
  | .starArg k e cut => [.argStar k (exprName e) cut]

/-- `nodes_before`, flattened: `(`, the complete arguments each followed by its comma, the
current one -/
def nodesOf (prev : List Arg) (cur : Cur) : List Node0 :=
  .other :: (prev.flatMap fun a => a.nodes ++ [.comma]) ++ cur.nodes

/-- composition "parso + `_iter_arguments`" at generator level -/
def argTriples (prev : List Arg) (cur : Cur) : List Triple :=
  let ns := nodesOf prev cur
  iterFlat ns (ns.getLastD .other)

/-! ## CPython call binding -/

/-- a complete earlier argument as the interpreter sees it -/
inductive CArg where
  | pos
  | kw (n : Str)
deriving DecidableEq, Repr

def CArg.isPos : CArg → Bool
  | .pos => true
  | _ => false

def kwNames : List CArg → List Str
  | [] => []
  | .kw n :: r => n :: kwNames r
  | .pos :: r => kwNames r

def optIdx (l : List Str) (n : Str) : Option Nat :=
  let i := l.idxOf n
  if i < l.length then some i else none

/-- the parameter (index into `s.params`) to which CPython binds the argument `cur` of a call
whose earlier arguments are `prev` (positional ones first, then distinct keywords, `cur`'s keyword
different from the earlier ones); `none` = `TypeError`.
Positional arguments fill `po ++ pk` in order, the overflow goes to `*vp`; a keyword is looked up
among `pk ++ ko` ("multiple values" when a positional argument already filled it), everything
else – unknown names and names of positional-only parameters – goes to `**vk`. -/
def pyBind (s : Sig) (prev : List CArg) (cur : CArg) : Option Nat :=
  let npos := (prev.filter CArg.isPos).length
  let nfix := s.po.length + s.pk.length
  let nvp := s.vp.toList.length
  match cur with
  | .pos =>
    if npos < nfix then some npos
    else if s.vp.isSome then some nfix
    else none
  | .kw n =>
    match optIdx (s.pk.map P.name) n with
    | some j => if s.po.length + j < npos then none else some (s.po.length + j)
    | none =>
      match optIdx (s.ko.map P.name) n with
      | some j => some (nfix + nvp + j)
      | none => if s.vk.isSome then some (nfix + nvp + s.ko.length) else none

/-- the keyword `n` of a call with `npos` positional arguments finds a place: a positional-or-keyword
parameter not filled positionally, a keyword-only parameter, or `**vk` -/
def pyKwOk (s : Sig) (npos : Nat) (n : Str) : Bool :=
  match optIdx (s.pk.map P.name) n with
  | some j => !decide (s.po.length + j < npos)
  | none => (s.ko.map P.name).contains n || s.vk.isSome

/-- CPython accepts the call `f(e1, …, e_npos, k1=…, …)` (keywords `kws` distinct): no
`TypeError` from argument binding.  Positional arguments must fit (`*vp` takes the overflow), every
keyword must name a not yet filled positional-or-keyword or a keyword-only parameter or go to
`**vk`, and every parameter without a default must have been given. -/
def pyAccepts (s : Sig) (npos : Nat) (kws : List Str) : Bool :=
  (decide (npos ≤ s.po.length + s.pk.length) || s.vp.isSome) &&
  kws.all (pyKwOk s npos) &&
  (s.po.drop npos).all (fun p => p.dflt.isSome) &&
  (s.pk.drop (npos - s.po.length)).all (fun p => p.dflt.isSome || kws.contains p.name) &&
  s.ko.all (fun p => p.dflt.isSome || kws.contains p.name)

/-- the signature a pure `**kwargs` pass-through wrapper `def f(**kwargs): return g(**kwargs)` of
`g` (parameter list `s`) should show: `g`'s keyword-capable parameters, keyword-only -/
def kwForwarded (s : Sig) : Sig := ⟨[], [], none, s.pk ++ s.ko, s.vk⟩

/-- the call `f(e1, …, e_npos, k1=…, …)` of that wrapper runs without `TypeError`: `f` itself takes
no positional argument, then `g(k1=…, …)` must be accepted -/
def pyRunsKwWrapper (s : Sig) (npos : Nat) (kws : List Str) : Bool :=
  decide (npos = 0) && pyAccepts s 0 kws

/-! ## Python: the signature of a bound method -/

/-- `inspect._signature_bound_method`: the first positional parameter is consumed by
`self`/`cls`; a leading `*args` absorbs it and stays; `none` = `ValueError('invalid method
signature')` (no parameter at all, or the first one is keyword-only / `**kwargs`: every call through
the instance raises `TypeError`). -/
def pyBound (s : Sig) : Option Sig :=
  match s.po, s.pk with
  | _ :: po, _ => some { s with po := po }
  | [], _ :: pk => some { s with pk := pk }
  | [], [] => if s.vp.isSome then some s else none

/-! ## `BaseName.docstring` -/

/-- `docstring(raw=False)` from the signature text and the raw docstring -/
def docAssemble (sig doc : Str) : Str :=
  if !sig.isEmpty && !doc.isEmpty then sig ++ ['\n', '\n'] ++ doc else sig ++ doc

/-- `'\n'.join(signature.to_string() for signature in signatures)` -/
def joinLines : List Str → Str
  | [] => []
  | [x] => x
  | x :: y :: rest => x ++ ['\n'] ++ joinLines (y :: rest)

end JediModel.Call

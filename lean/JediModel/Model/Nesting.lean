import JediModel.Model.Scopes
/-! Lexical nesting (C18): `Script.get_context`, `Name.parent()`, `Name.full_name`.

The flat symbol table of `Model/Scopes` extended with source positions.  A program is the list
of its parso *leaves* in source order (start / end position, the scope node jedi's
`parent_scope(leaf)` walk reaches, whether the leaf is a parameter's own name) and the table of
its *scope nodes* (`file_input` = 0, `funcdef`, `classdef`, `lambdef`, `sync_comp_for`) with
`start_pos`, the position of the first `:` child, `children[-1].start_pos`, `end_pos`, the
result of `parent_scope(node)` and the start of the statement (`async def`: the `async` keyword).  The harness derives source text and table from one abstract
program (`harness/gen/nesting.py`), and cross-checks the table against the parso tree.

jedi side (transcriptions):
* `getContext`  — `Script.get_context` (jedi/api/__init__.py) with
  `TreeContextMixin.create_context` / `create_value` (jedi/inference/context.py) and
  `BaseName.parent`;
* `parentOf`    — `BaseName.parent` (jedi/api/classes.py): functions, classes and parameters by
  `search_ancestor`, lambdas by `create_context(lambda node)` (the `parent_context` of a function
  value, from which `FunctionValue.from_context` removes the class contexts, is not consulted);
* `fullName`    — `BaseName.full_name` over `get_qualified_names` (jedi/inference/names.py,
  value/function.py `FunctionAndClassBase` / `MethodValue`, context.py).

Python side: `enclosers` / `innermostBody` (which `def` / `class` statements contain a position)
and `qualname` (`__qualname__`, with `<locals>`). -/
namespace JediModel.Nesting
open JediModel.Scopes (Kind)

structure Pos where
  line : Nat
  col : Nat
deriving DecidableEq, Repr

instance : LT Pos := ⟨fun a b => a.line < b.line ∨ (a.line = b.line ∧ a.col < b.col)⟩
instance : LE Pos := ⟨fun a b => a.line < b.line ∨ (a.line = b.line ∧ a.col ≤ b.col)⟩
instance (a b : Pos) : Decidable (a < b) :=
  inferInstanceAs (Decidable (a.line < b.line ∨ (a.line = b.line ∧ a.col < b.col)))
instance (a b : Pos) : Decidable (a ≤ b) :=
  inferInstanceAs (Decidable (a.line < b.line ∨ (a.line = b.line ∧ a.col ≤ b.col)))

inductive LeafRole where
  | other | newline | endmarker | use | bind | param
  | defName (s : Nat)      -- the name of the `def` / `class` statement that is scope `s`
deriving DecidableEq, Repr

structure Leaf where
  start : Pos
  stop : Pos
  /-- `parent_scope(leaf)` of `create_context` as a scope index -/
  pscope : Nat
  /-- `leaf.parent.type == 'param' and leaf.parent.name == leaf` -/
  isParamName : Bool
  role : LeafRole
  name : String
deriving Repr

structure NScope where
  kind : Kind
  /-- `parent_scope(node)`; for a comprehension `parent_scope(node.parent)` -/
  pscope : Nat
  start : Pos
  colon : Pos
  /-- `node.children[-1].start_pos` -/
  suite : Pos
  stop : Pos
  name : String
  /-- `node.parent.start_pos` when the parent is an `async_stmt` / `async_funcdef`, else
  `node.start_pos`: the position whose column the indentation loop of `get_context` looks at -/
  stmt : Pos := start
deriving Repr

structure NProg where
  scopes : List NScope
  leaves : List Leaf
  /-- `ModuleValue.string_names` of the script (`none` when jedi cannot name the module) -/
  modNames : Option (List String)
deriving Repr

inductive Err where
  | valueError        -- position outside the module: parso raises ValueError
  | internal          -- a partial operation of the Python code failed (never on WF tables)
deriving DecidableEq, Repr

def NProg.kind (p : NProg) (s : Nat) : Kind :=
  match p.scopes[s]? with
  | some sc => sc.kind
  | none => .module

def NProg.pscope (p : NProg) (s : Nat) : Nat :=
  match p.scopes[s]? with
  | some sc => sc.pscope
  | none => 0

def NProg.sname (p : NProg) (s : Nat) : String :=
  match p.scopes[s]? with
  | some sc => sc.name
  | none => ""

def NProg.isDef (p : NProg) (s : Nat) : Bool :=
  p.kind s == .function || p.kind s == .klass

def NProg.fuel (p : NProg) : Nat := p.scopes.length + 1

/-! ## jedi side -/

/-- parso `BaseNode.get_leaf_for_position(pos, include_prefixes=True)`: the binary search over
`end_pos` finds the first leaf whose end is not before `pos` -/
def firstEndGE (pos : Pos) : List Leaf → Nat → Option Nat
  | [], _ => none
  | l :: rest, i => if pos ≤ l.stop then some i else firstEndGE pos rest (i + 1)

/-- the leaf `Script.get_context` works with: on a prefix (or on the end marker) the previous
leaf, if there is one -/
def chooseLeaf (p : NProg) (pos : Pos) : Except Err Nat :=
  if pos < ⟨1, 0⟩ then .error .valueError else
  match firstEndGE pos p.leaves 0 with
  | none => .error .valueError
  | some i =>
    match p.leaves[i]? with
    | none => .error .internal
    | some l =>
      if pos < l.start ∨ l.role = .endmarker then
        (if i = 0 then .ok i else .ok (i - 1))
      else .ok i

/-- `node.search_ancestor('funcdef', 'classdef')` along the `parent_scope` chain, starting at
scope `s` itself -/
def defFrom (p : NProg) : Nat → Nat → Option Nat
  | 0, _ => none
  | fuel + 1, s =>
    match p.kind s with
    | .function | .klass => some s
    | .module => none
    | _ => defFrom p fuel (p.pscope s)

/-- `create_context`, first half: `scope_node = parent_scope(node)`; a node in the header of a
`def` / `class` (before its colon) that is not a parameter's own name belongs one scope up -/
def scopeOfNode (p : NProg) (nodeStart : Pos) (s : Nat) (isParamName : Bool) : Nat :=
  match p.scopes[s]? with
  | none => s
  | some sc =>
    if (sc.kind == .function || sc.kind == .klass) && decide (nodeStart < sc.colon) && !isParamName
    then sc.pscope else s

/-- `from_scope_node`: module / function / lambda / class nodes become their own context; a
comprehension is a `CompForContext` unless the node sits in the comprehension's last child -/
def fromScope (p : NProg) (nodeStart : Pos) : Nat → Nat → Nat
  | 0, s => s
  | fuel + 1, s =>
    match p.scopes[s]? with
    | none => s
    | some sc =>
      if sc.kind == .comp then
        (if sc.suite ≤ nodeStart then fromScope p nodeStart fuel sc.pscope else s)
      else s

/-- `create_context(node)` for a node starting at `nodeStart` whose `parent_scope` is `s` -/
def createContext (p : NProg) (nodeStart : Pos) (s : Nat) (isParamName : Bool) : Nat :=
  fromScope p nodeStart p.fuel (scopeOfNode p nodeStart s isParamName)

/-- `create_context(scope node c)`: the context a `def` / `class` / `lambda` statement sits in -/
def nodeCtx (p : NProg) (c : Nat) : Nat :=
  match p.scopes[c]? with
  | none => 0
  | some sc => createContext p sc.start sc.pscope false

/-- `while context.name is None: context = context.parent_context  # comprehensions`
(the parent context of a comprehension context is `from_scope_node(parent_scope(..))` of the same
`create_context` call) -/
def skipComps (p : NProg) : Nat → Nat → Nat
  | 0, c => c
  | fuel + 1, c => if p.kind c = .comp then skipComps p fuel (p.pscope c) else c

/-- `search_ancestor('funcdef', 'classdef', 'file_input')` from a scope node or a parameter:
first function / class on the chain, else the module -/
def defOrModule (p : NProg) (s : Nat) : Nat :=
  match defFrom p p.fuel s with
  | some d => d
  | none => 0

/-- `classes.Name(context.name).parent()` for the name of the context of scope `c`
(`none` = Python `None`, for the module) -/
def parentOfScope (p : NProg) (c : Nat) : Option Nat :=
  match p.kind c with
  | .module => none
  | .function | .klass =>
    -- type in ('function', 'class') and tree_name is not None: the tree decides
    some (defOrModule p (p.pscope c))
  | .lambda =>
    -- LambdaName (also wrapped in FunctionNameInClass) has no tree_name:
    -- `context = module_context.create_context(lambda_value.tree_node)`, comprehensions skipped
    some (skipComps p p.fuel (nodeCtx p c))
  | .comp => none     -- a comprehension context has no name

/-- the indentation loop of `get_context`: climb while the definition's statement (`async def`:
the `async` keyword) does not start left of `column` (lambdas, having no tree name, always climb) -/
def walkUp (p : NProg) (column : Nat) : Nat → Nat → Except Err Nat
  | 0, _ => .error .internal
  | fuel + 1, c =>
    match p.scopes[c]? with
    | none => .error .internal
    | some sc =>
      if sc.kind == .module then .ok c
      else if (sc.kind == .function || sc.kind == .klass) && decide (sc.stmt.col < column) then .ok c
      else match parentOfScope p c with
        | none => .error .internal     -- `None.type` would raise AttributeError
        | some c' => walkUp p column fuel c'

/-- the header rule of `get_context`: `n = leaf.search_ancestor('funcdef', 'classdef')` and
`n.start_pos < pos <= n.children[-1].start_pos` -/
def headerOf (p : NProg) (pos : Pos) (l : Leaf) : Option Nat :=
  match defFrom p p.fuel l.pscope with
  | none => none
  | some n =>
    match p.scopes[n]? with
    | none => none
    | some sc => if sc.start < pos ∧ pos ≤ sc.suite then some n else none

/-- the context of the chosen leaf before the indentation loop, comprehension contexts skipped -/
def contextOfLeaf (p : NProg) (pos : Pos) (l : Leaf) : Nat :=
  match headerOf p pos l with
  | some n => n                                      -- create_value(n).as_context()
  | none => skipComps p p.fuel (createContext p l.start l.pscope l.isParamName)

def contextAt (p : NProg) (pos : Pos) : Except Err Nat :=
  match chooseLeaf p pos with
  | .error e => .error e
  | .ok i =>
    match p.leaves[i]? with
    | none => .error .internal
    | some l => .ok (contextOfLeaf p pos l)

/-- `Script.get_context(line, column)`: the scope whose name is returned -/
def getContext (p : NProg) (pos : Pos) : Except Err Nat :=
  match contextAt p pos with
  | .error e => .error e
  | .ok c => walkUp p pos.col (2 * p.fuel) c

/-- `Name.parent()` for a definition name obtained from `get_names` (leaf index `i`):
`some (some s)` the name of scope `s`, `some none` Python `None`, `none` not a definition -/
def parentOfLeaf (p : NProg) (i : Nat) : Option Nat :=
  match p.leaves[i]? with
  | none => none
  | some l =>
    match l.role with
    | .defName s => some (defOrModule p (p.pscope s))     -- get_definition() is the funcdef / classdef
    | .param => some (defOrModule p l.pscope)             -- get_definition() is the param node
    | .bind => some (skipComps p p.fuel (createContext p l.start l.pscope l.isParamName))
    | _ => none

/-- iterate `parent()` from scope name `c` until `None`: the visited scopes -/
def chainFrom (p : NProg) : Nat → Nat → List Nat
  | 0, _ => []
  | fuel + 1, c =>
    match parentOfScope p c with
    | none => [c]
    | some c' => c :: chainFrom p fuel c'

/-- the `parent()` chain of the definition at leaf `i` -/
def parentChain (p : NProg) (i : Nat) : List Nat :=
  match parentOfLeaf p i with
  | none => []
  | some c => chainFrom p (2 * p.fuel) c

/-! ### qualified names -/

/-- `context.get_qualified_names()` / `value.get_qualified_names()` of the context of scope `c` -/
def ctxQual (p : NProg) : Nat → Nat → Option (List String)
  | 0, _ => none
  | fuel + 1, c =>
    match p.kind c with
    | .module => some []
    | .comp => some []            -- AbstractContext.get_qualified_names
    | .klass | .function | .lambda =>
      -- FunctionAndClassBase / MethodValue.get_qualified_names; for a function in a class the
      -- class context is `class_context`, `parent_context` has the classes skipped
      let par := nodeCtx p c
      match p.kind par with
      | .klass => (ctxQual p fuel par).map (· ++ [p.sname c])
      | .module => some [p.sname c]
      | _ => none

/-- `_mapping` lookup of `BaseName.full_name` on the first component -/
def applyMapping (mapping : List (String × String)) : List String → List String
  | [] => []
  | n :: rest =>
    match mapping.lookup n with
    | some v => v :: rest
    | none => n :: rest

/-- one operand of the `+` chain that `AbstractNameDefinition.get_qualified_names` returns when
`include_module_names` is set: the local `module_names` (`get_root_context().string_names`) or the
local `qualified_names` (`self._get_qualified_names()`).  The translator admits no other operand. -/
def joinOperand (m q : List String) (x : String) : List String :=
  if x = "module_names" then m else if x = "qualified_names" then q else []

/-- the final `return` of `get_qualified_names(include_module_names=True)`, evaluated: `join` is the
list of operands of its `+` chain as the translator reads them from jedi/inference/names.py
(`Gen.C18.moduleJoin`; `return module_names + qualified_names` = `["module_names",
"qualified_names"]`).  The function has no other way to combine the two tuples: the translator
refuses (TieBroken) any further statement, in particular a conditional that drops or rewrites
components. -/
def joinNames (join : List String) (m q : List String) : List String :=
  join.flatMap (joinOperand m q)

/-- `Name.full_name` as a list of components (joined with '.'); `none` = Python `None`.
Definition names from `get_names` are `TreeNameDefinition`s: qualified names of
`create_context(name)` plus the name itself (`AbstractTreeName._get_qualified_names`), then the
module names (`get_qualified_names`, operand order `join`); parameters have none. -/
def fullNameOfLeaf (mapping : List (String × String)) (join : List String) (p : NProg) (i : Nat) :
    Option (List String) :=
  match p.leaves[i]? with
  | none => none
  | some l =>
    match l.role with
    | .defName _ | .bind =>
      match ctxQual p p.fuel (createContext p l.start l.pscope l.isParamName), p.modNames with
      | some q, some m => some (applyMapping mapping (joinNames join m (q ++ [l.name])))
      | _, _ => none
    | _ => none

/-- `full_name` of the name of the context of scope `c` (what `get_context` / `parent()` /
`infer()` return: a `ValueName`, whose `_get_qualified_names` is the value's) -/
def fullNameOfScope (mapping : List (String × String)) (join : List String) (p : NProg) (c : Nat) :
    Option (List String) :=
  match p.kind c with
  | .lambda | .comp => none          -- LambdaName: no qualified names
  | _ =>
    match ctxQual p p.fuel c, p.modNames with
    | some q, some m => some (applyMapping mapping (joinNames join m q))
    | _, _ => none

/-! ## Python side -/

/-- the `def` / `class` scopes on the `parent_scope` chain from `s` (inclusive), innermost first:
the lexically enclosing definitions as the tree sees them -/
def defChain (p : NProg) : Nat → Nat → List Nat
  | 0, _ => []
  | fuel + 1, s =>
    match p.kind s with
    | .module => []
    | .function | .klass => s :: defChain p fuel (p.pscope s)
    | _ => defChain p fuel (p.pscope s)

/-- the `def` / `class` statement `s` contains `pos`: after the first character of its keyword,
up to the end of its last line -/
def encloses (sc : NScope) (pos : Pos) : Bool :=
  (sc.kind == .function || sc.kind == .klass) && decide (sc.start < pos) && decide (pos ≤ sc.stop)

/-- all `def` / `class` statements containing `pos`, outermost first (table order) -/
def enclosers (p : NProg) (pos : Pos) : List Nat :=
  (p.scopes.zipIdx.filter fun (sc, _) => encloses sc pos).map (·.2)

/-- the innermost function or class containing `pos`, the module (0) otherwise -/
def innermostBody (p : NProg) (pos : Pos) : Nat :=
  ((enclosers p pos).getLast?).getD 0

/-- `__qualname__` components of the function / class / lambda of scope `s`: a function parent
contributes `<locals>` -/
def qualname (p : NProg) : Nat → Nat → List String
  | 0, _ => []
  | fuel + 1, s =>
    match p.kind s with
    | .module => []
    | _ =>
      let par := skipComps p p.fuel (p.pscope s)   -- comprehensions are inlined (3.12)
      match p.kind par with
      | .module => [p.sname s]
      | .klass => qualname p fuel par ++ [p.sname s]
      | _ => qualname p fuel par ++ ["<locals>", p.sname s]

/-- `__qualname__` at a fuel that matches `ctxQual p p.fuel` one level up -/
def qualnameOf (p : NProg) (s : Nat) : List String := qualname p (p.fuel + 1) s

/-- every scope on the chain above `s` is a class (or the module) -/
def allClassAncestors (p : NProg) : Nat → Nat → Bool
  | 0, _ => false
  | fuel + 1, s =>
    match p.kind (p.pscope s) with
    | .module => true
    | .klass => allClassAncestors p fuel (p.pscope s)
    | _ => false

end JediModel.Nesting

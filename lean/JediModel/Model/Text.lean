/-! Text model shared by several properties.
Python `str` = `List Char`.  `splitLines` is `parso.split_lines(s, keepends=True)`:
breaks after `\n`, `\r\n` and a lone `\r`; form feed, `\v`, U+2028 … are ordinary
characters; `""` ↦ `[""]`; a text ending in a terminator gets a final empty line. -/
namespace JediModel.Text

abbrev Str := List Char

/-- put `c` in front of the first line -/
def consHead (c : Char) : List Str → List Str
  | [] => [[c]]
  | l :: ls => (c :: l) :: ls

def splitLines : Str → List Str
  | [] => [[]]
  | c :: rest =>
    if c = '\n' then ['\n'] :: splitLines rest
    else if c = '\r' then
      match rest with
      | [] => ['\r'] :: splitLines []
      | d :: rest' =>
        if d = '\n' then ['\r', '\n'] :: splitLines rest'
        else ['\r'] :: splitLines (d :: rest')
    else consHead c (splitLines rest)

/-- jedi's notion of the length of a line for column validation
(`validate_line_column`): one trailing `\r\n` or `\n` is not counted, a lone `\r` is. -/
def lineLen (l : Str) : Nat :=
  if ['\n', '\r'].isPrefixOf l.reverse then l.length - 2
  else if ['\n'].isPrefixOf l.reverse then l.length - 1
  else l.length

/-- a position: 1-based line, 0-based column (in code points) -/
structure Pos where
  line : Nat
  col : Nat
deriving DecidableEq, Repr

instance : LT Pos := ⟨fun a b => a.line < b.line ∨ (a.line = b.line ∧ a.col < b.col)⟩
instance : LE Pos := ⟨fun a b => a.line < b.line ∨ (a.line = b.line ∧ a.col ≤ b.col)⟩
instance (a b : Pos) : Decidable (a < b) := by unfold LT.lt instLTPos; simp only; exact inferInstance
instance (a b : Pos) : Decidable (a ≤ b) := by unfold LE.le instLEPos; simp only; exact inferInstance

/-- where the cursor is after reading one more character sequence `s` from `p`
(parso `Leaf.end_pos` / prefix handling: count the line breaks of `splitLines`,
column restarts after the last break) -/
def advance (p : Pos) (s : Str) : Pos :=
  match splitLines s with
  | [] => p                                      -- impossible
  | [l] => { line := p.line, col := p.col + l.length }
  | l :: ls => { line := p.line + ls.length, col := ((l :: ls).getLast?.getD []).length }

/-- the line (1-based) of a text, `none` when out of range -/
def lineAt (ls : List Str) (line : Nat) : Option Str :=
  if line = 0 then none else ls[line - 1]?

/-- the text starting at position `p` (to the end of the text) -/
def textFrom (ls : List Str) (p : Pos) : Option Str :=
  match lineAt ls p.line with
  | none => none
  | some l => if p.col ≤ l.length then some (l.drop p.col ++ (ls.drop p.line).flatten) else none

end JediModel.Text

/-! Model of the caches a buffer's answers pass through inside ONE process (property C08).

Transcribed from
* `jedi/api/__init__.py: Script.__init__` — `parse_and_get_code(code, path, cache=False,
  diff_cache=settings.fast_parser, cache_path=…)`, then `cache.clear_time_caches()`;
* parso `grammar.py: Grammar._parse` (cache / diff_cache branches) and `cache.py`
  (`parser_cache[hashed][path]`, `_NodeCacheItem`, `load_module`, `try_to_save_module`);
* `jedi/parser_utils.py: get_parso_cache_node, _get_parent_scope_cache` and
  `jedi/inference/filters.py: _definition_name_cache, _get_definition_names` — weak dictionaries
  keyed on the *cache item*;
* `jedi/inference/__init__.py: InferenceState.__init__` (`self.memoize_cache = {}`), `jedi/inference/cache.py`;
* `jedi/cache.py: clear_time_caches, signature_time_cache` and `jedi/api/helpers.py: cache_signatures`.

Parameters (modelled, not verified): `parse : L → T` (a from-scratch parse; the property's premise
is that the diff parser's in-place result equals it) and `compute : T → K → V` (what a derived
lookup — definition names of a name key, parent scope of a node, value set before a bracket —
computes on a tree).  Python object identity is explicit: an item has a generation number `gen`
(a new `_NodeCacheItem` object per `try_to_save_module`), a module node has an identity `obj` and
its content lives in `heap` because the diff parser mutates it in place.

Which object the caches are keyed on is the parameter `Cfg`; the value the theorems use is the one
the translator reads from the source (`Gen.C08.cfg`). -/
namespace JediModel.Caches

/-! ## association lists (Python dicts): at most one binding per key -/
abbrev AMap (κ ν : Type) := List (κ × ν)

namespace AMap
variable {κ ν : Type} [DecidableEq κ]

def get? : AMap κ ν → κ → Option ν
  | [], _ => none
  | (k', v) :: r, k => if k' = k then some v else get? r k

/-- keep the bindings whose key satisfies `p` -/
def keep (m : AMap κ ν) (p : κ → Bool) : AMap κ ν := m.filter fun e => p e.1

/-- `m[k] = v`: the old binding of `k` is replaced -/
def set (m : AMap κ ν) (k : κ) (v : ν) : AMap κ ν := (k, v) :: keep m fun k' => decide (k' ≠ k)

def keys (m : AMap κ ν) : List κ := (m.map (·.1)).eraseDups
end AMap

/-- design decisions of the source the property rests on -/
structure Cfg where
  /-- derived caches keyed on the module *node* (`true`) or on the parso cache *item* (`false`) -/
  keyOnTree : Bool
  /-- the signature cache key contains the `re.Match` object itself (compared by identity, so never
  equal to an older key) whenever `re.match(r'.*\(', whole)` matched -/
  sigKeyFresh : Bool
  /-- a key whose middle component is `None` (the regex did not match: the cursor is on a later line
  than the bracket and no other `(` lies between) is cached as well -/
  sigCachesUnmatched : Bool
  /-- `memoize_cache` is created in `InferenceState.__init__` (one per Script) -/
  memoPerScript : Bool
  /-- `Script.__init__` parses with `cache=True` (mtime-validated `load_module` before anything else) -/
  scriptCache : Bool
  /-- `settings.fast_parser` (diff parser against the cached item) -/
  diffCache : Bool
  /-- `settings.call_signatures_validity`, in clock ticks -/
  validity : Nat
  /-- where `Script.__init__` takes `self._module_node` from: `0` = from parso on every construction
  (one unconditional `parse_and_get_code` call); `n > 0` = a process-wide table of the module nodes
  of the last `n` (path, text) states of buffers with a path is consulted first and parso is not
  asked on a hit (an "undo/redo" memo of node *objects*) -/
  treeMemo : Nat := 0
deriving DecidableEq, Repr

/-- `_NodeCacheItem` -/
structure Item (L : Type) where
  gen : Nat          -- identity of the item object
  obj : Nat          -- identity of `item.node`
  lines : L
  changeTime : Nat
deriving Repr

/-- the newest `Script` -/
structure Script where
  key : Option String   -- `self.path`
  obj : Nat             -- identity of `self._module_node`
deriving Repr, DecidableEq

structure State (L T K V : Type) where
  nextGen : Nat := 0
  nextObj : Nat := 0
  nextMatch : Nat := 0
  clock : Nat := 0
  parser : AMap (Option String) (Item L) := []     -- `parser_cache[grammar._hashed]`
  heap : AMap Nat T := []                           -- module node identity ↦ its present content
  derived : AMap (Nat × K) V := []                  -- `_definition_name_cache` / parent-scope cache
  memo : AMap K V := []                             -- `inference_state.memoize_cache`
  sig : AMap (Option String × Option Nat × Nat) (Nat × V) := [] -- `_time_caches['call_signatures_validity']`:
                                                    -- (module_path, before_bracket, bracket position)
  cur : Option Script := none
  recent : AMap (String × L) Nat := []              -- remembered module nodes (only if `treeMemo > 0`),
                                                    -- newest first: (path, text) ↦ node identity

inductive Op (L K : Type)
  /-- `Script(text, path=key)`; `ptime` = mtime of `path` on disk (`none`: no such file) -/
  | script (key : Option String) (text : L) (ptime : Option Nat)
  /-- one derived-cache lookup made by a query of the newest Script -/
  | lookup (k : K)
  /-- `get_signatures` of the newest Script reaching `cache_signatures` for the bracket at `pos`;
  `matched` = `re.match(r'.*\(', whole)` found something (always when the cursor is on the bracket's
  line); `k` = what `infer(leaf before the bracket)` looks up -/
  | sigq (pos : Nat) (matched : Bool) (k : K)
  | tick (dt : Nat)
  /-- garbage collection: weak entries of dead items disappear -/
  | gc

section
variable {L T K V : Type} [DecidableEq L] [DecidableEq K]
variable (cfg : Cfg) (parse : L → T) (compute : T → K → V)

/-- `try_to_save_module`: a NEW item object for `key` -/
def save (st : State L T K V) (key : Option String) (obj : Nat) (text : L) (ptime : Option Nat) :
    State L T K V :=
  { st with
    nextGen := st.nextGen + 1
    parser := st.parser.set key
      { gen := st.nextGen, obj := obj, lines := text, changeTime := ptime.getD st.clock } }

/-- `clear_time_caches()`: drop the expired entries (`if t < time.time(): del tc[key]`) -/
def expire (st : State L T K V) : State L T K V :=
  { st with sig := st.sig.filter fun e => !(decide (e.2.1 < st.clock)) }

/-- the parse inside `Script.__init__`; returns the identity of the module node and the state -/
def parseBuffer (st : State L T K V) (key : Option String) (text : L) (ptime : Option Nat) :
    Nat × State L T K V :=
  -- `if cache and file_io.path is not None: load_module(...)`
  let cached : Option Nat :=
    if cfg.scriptCache && key.isSome then
      match ptime, st.parser.get? key with
      | some t, some it => if t ≤ it.changeTime then some it.obj else none
      | _, _ => none
    else none
  match cached with
  | some o => (o, st)
  | none =>
    match (if cfg.diffCache then st.parser.get? key else none) with
    | some it =>
      if it.lines = text then (it.obj, st)     -- `old_lines == lines`: same node, same item
      else
        -- diff parser: the node object is updated in place, a new item is saved
        (it.obj, save { st with heap := st.heap.set it.obj (parse text) } key it.obj text ptime)
    | none =>
      -- from-scratch parse; saved because `cache or diff_cache`
      let o := st.nextObj
      let st1 := { st with nextObj := o + 1, heap := st.heap.set o (parse text) }
      (o, if cfg.scriptCache || cfg.diffCache then save st1 key o text ptime else st1)

/-- the remembered module node `Script.__init__` would use instead of asking parso -/
def remembered (st : State L T K V) (key : Option String) (text : L) : Option Nat :=
  match key with
  | none => none                              -- a path-less buffer has no identity
  | some p => if cfg.treeMemo = 0 then none else st.recent.get? (p, text)

/-- how `Script.__init__` gets `self._module_node`: a remembered node object (parso is not asked;
whatever the diff parser has done to that object in the meantime is what the Script sees), else
the parse; with a table, the parsed node object is remembered under (path, text) and the oldest
entry makes room -/
def obtainTree (st : State L T K V) (key : Option String) (text : L) (ptime : Option Nat) :
    Nat × State L T K V :=
  match remembered cfg st key text with
  | some o => (o, st)
  | none =>
    let (o, st1) := parseBuffer cfg parse st key text ptime
    match key with
    | none => (o, st1)
    | some p =>
      if cfg.treeMemo = 0 then (o, st1)
      else (o, { st1 with recent := AMap.set (st1.recent.take (cfg.treeMemo - 1)) (p, text) o })

def script (st : State L T K V) (key : Option String) (text : L) (ptime : Option Nat) :
    State L T K V :=
  let (o, st1) := obtainTree cfg parse st key text ptime
  let st2 := expire st1
  { st2 with cur := some { key := key, obj := o },
             memo := if cfg.memoPerScript then [] else st2.memo }

/-- the key of the derived caches for the newest Script: `none` = no caching (path-less buffer),
`some none` = `KeyError` in `get_parso_cache_node` -/
def cacheNode (st : State L T K V) (sc : Script) : Option (Option Nat) :=
  match sc.key with
  | none => none
  | some p =>
    match st.parser.get? (some p) with
    | none => some none
    | some it => some (some (if cfg.keyOnTree then it.obj else it.gen))

/-- `_get_definition_names` / `get_cached_parent_scope` behind the per-Script memo.
`none` = an internal error (KeyError); unreachable by `Inv`. -/
def lookup (st : State L T K V) (k : K) : Option V × State L T K V :=
  match st.cur with
  | none => (none, st)
  | some sc =>
    match st.heap.get? sc.obj with
    | none => (none, st)
    | some tree =>
      match st.memo.get? k with
      | some v => (some v, st)
      | none =>
        match cacheNode cfg st sc with
        | none =>
          let v := compute tree k
          (some v, { st with memo := st.memo.set k v })
        | some none => (none, st)
        | some (some g) =>
          match st.derived.get? (g, k) with
          | some v => (some v, { st with memo := st.memo.set k v })
          | none =>
            let v := compute tree k
            (some v, { st with derived := st.derived.set (g, k) v, memo := st.memo.set k v })

/-- `cache_signatures` through `signature_time_cache` -/
def sigq (st : State L T K V) (pos : Nat) (matched : Bool) (k : K) : Option V × State L T K V :=
  match st.cur with
  | none => (none, st)
  | some sc =>
    match st.heap.get? sc.obj with
    | none => (none, st)
    | some tree =>
      -- `before_bracket`: a new match object, or `None`
      let m : Option Nat := if matched then some (if cfg.sigKeyFresh then st.nextMatch else 0) else none
      let st := { st with nextMatch := st.nextMatch + 1 }
      let nocache := sc.key.isNone || (!matched && !cfg.sigCachesUnmatched)
      if nocache then (some (compute tree k), st)      -- `yield None  # Don't cache!`
      else
        let key := (sc.key, m, pos)
        let miss : Option V × State L T K V :=
          let v := compute tree k
          (some v, { st with sig := st.sig.set key (st.clock + cfg.validity, v) })
        match st.sig.get? key with
        | some (expiry, v) => if expiry > st.clock then (some v, st) else miss
        | none => miss

/-- weak dictionaries: entries whose key object is no longer referenced by the parser cache vanish -/
def gc (st : State L T K V) : State L T K V :=
  { st with derived := st.derived.keep fun gk =>
      st.parser.any fun e => (if cfg.keyOnTree then e.2.obj else e.2.gen) == gk.1 }

def step (st : State L T K V) : Op L K → State L T K V
  | .script key text ptime => script cfg parse st key text ptime
  | .lookup k => (lookup cfg compute st k).2
  | .sigq pos m k => (sigq cfg compute st pos m k).2
  | .tick dt => { st with clock := st.clock + dt }
  | .gc => gc cfg st

def run (st : State L T K V) (h : List (Op L K)) : State L T K V :=
  h.foldl (step cfg parse compute) st

def init : State L T K V := {}

/-- what the newest Script was constructed with: the lines of the item under its key -/
def curLines (st : State L T K V) : Option L :=
  match st.cur with
  | none => none
  | some sc => (st.parser.get? sc.key).map (·.lines)

/-! ## queries: any function of derived lookups and signature lookups -/

inductive Q (K V A : Type)
  | done (a : A)
  | ask (k : K) (cont : V → Q K V A)
  | askSig (pos : Nat) (matched : Bool) (k : K) (cont : V → Q K V A)

/-- the query run against the caches of the process -/
def runQ {A : Type} (st : State L T K V) : Q K V A → Option A × State L T K V
  | .done a => (some a, st)
  | .ask k cont =>
    match lookup cfg compute st k with
    | (some v, st') => runQ st' (cont v)
    | (none, st') => (none, st')
  | .askSig pos m k cont =>
    match sigq cfg compute st pos m k with
    | (some v, st') => runQ st' (cont v)
    | (none, st') => (none, st')

/-- the query answered directly from a tree -/
def evalQ {A : Type} (f : K → V) : Q K V A → A
  | .done a => a
  | .ask k cont => evalQ f (cont (f k))
  | .askSig _ _ k cont => evalQ f (cont (f k))

/-- every signature lookup of the query has a cursor for which the regex matches -/
def Q.Matched {A : Type} : Q K V A → Prop
  | .done _ => True
  | .ask _ cont => ∀ v, (cont v).Matched
  | .askSig _ m _ cont => m = true ∧ ∀ v, (cont v).Matched

/-- the answer of the newest Script after history `h` -/
def answer {A : Type} (h : List (Op L K)) (q : Q K V A) : Option A :=
  (runQ cfg compute (run cfg parse compute init h) q).1

end
end JediModel.Caches

/-! # Model of `jedi/api/refactoring/extract.py:_check_for_non_extractables`

```
def _check_for_non_extractables(nodes, in_loop=False):
    for n in nodes:
        try:
            children = n.children
        except AttributeError:                  # a leaf
            return / yield                      -> RefactoringError
            break / continue and not in_loop    -> RefactoringError
        else:
            if n.type in ('for_stmt', 'while_stmt'):   <loop commands>
            elif n.type in ('funcdef', 'classdef', 'lambdef'):   <scope commands>
            else:   <other commands>
            <tail commands>
```

The three branches and the statements behind the `if` chain are *data* (`Prog`, read from the source by the
translator): a sequence of
  * `call part flag`   `_check_for_non_extractables(children | children[:else_index] | children[else_index:], flag)`
  * `setFlag flag`     `in_loop = flag`  (the local of THIS invocation: it stays set for the later siblings of `n`)
  * `narrow`           `children = children[:else_index]`
with `flag` = `True` | `False` (also: argument omitted) | `in_loop`.  `else_index` = position of the `else` keyword of a
loop statement (its length without one), so the children of a loop node are kept as two forests `body` / `els`.

A selection (and every list of children) is a forest in first-child / next-sibling form (`Sel`), so that the model is
structurally recursive.  `check` returns (refused, value of the local `in_loop` when the loop over the siblings ends).
Core Lean only. -/
namespace JediModel.NonExtractable

inductive Flag | tt | ff | cur
  deriving DecidableEq, Repr

inductive Part | all | body | els
  deriving DecidableEq, Repr

inductive Cmd
  | call (p : Part) (f : Flag)
  | setFlag (f : Flag)
  | narrow
  deriving DecidableEq, Repr

structure Prog where
  /-- keywords that are refused wherever they occur -/
  always : List String
  /-- keywords that are refused when `in_loop` is false -/
  jumps : List String
  loop : List Cmd
  scope : List Cmd
  other : List Cmd
  tail : List Cmd
  deriving DecidableEq, Repr

/-- a forest of parso nodes: `leaf kw rest` = a leaf with that value, then its later siblings -/
inductive Sel
  | done
  | leaf (kw : String) (rest : Sel)
  /-- `for` / `while` statement: the children in front of the `else` keyword, those from it on, later siblings -/
  | loop (body els rest : Sel)
  /-- funcdef / classdef / lambdef -/
  | scope (children rest : Sel)
  /-- any other node with children -/
  | other (children rest : Sel)
  deriving Repr, Inhabited

def Flag.eval (cur : Bool) : Flag → Bool
  | .tt => true
  | .ff => false
  | .cur => cur

structure St where
  flag : Bool
  narrowed : Bool
  refused : Bool

/-- one command; `cA` / `cB` / `cE` = the recursive call on all children / those before `else` / those from `else` on,
as a function of the flag that is passed -/
def step (cA cB cE : Bool → Bool) (s : St) : Cmd → St
  | .call p f =>
    let fl := f.eval s.flag
    let r := match s.narrowed, p with
      | false, .all => cA fl
      | false, .body => cB fl
      | false, .els => cE fl
      | true, .els => false          -- children[:else_index][else_index:] is empty
      | true, _ => cB fl
    { s with refused := s.refused || r }
  | .setFlag f => { s with flag := f.eval s.flag }
  | .narrow => { s with narrowed := true }

def run (cmds : List Cmd) (cA cB cE : Bool → Bool) (flag : Bool) : St :=
  cmds.foldl (step cA cB cE) ⟨flag, false, false⟩

def leafRefused (P : Prog) (kw : String) (inLoop : Bool) : Bool :=
  P.always.contains kw || (P.jumps.contains kw && !inLoop)

/-- (refused, `in_loop` of this invocation after the last sibling) -/
def check (P : Prog) : Sel → Bool → Bool × Bool
  | .done, fl => (false, fl)
  | .leaf kw rest, fl =>
    let r := check P rest fl
    (leafRefused P kw fl || r.1, r.2)
  | .loop b e rest, fl =>
    let cB := fun f => (check P b f).1
    let cE := fun f => (check P e f).1
    -- all children = body then else part, one invocation: the flag is threaded through
    let cA := fun f => (check P b f).1 || (check P e (check P b f).2).1
    let s := run (P.loop ++ P.tail) cA cB cE fl
    let r := check P rest s.flag
    (s.refused || r.1, r.2)
  | .scope c rest, fl =>
    let cA := fun f => (check P c f).1
    let s := run (P.scope ++ P.tail) cA cA (fun _ => false) fl
    let r := check P rest s.flag
    (s.refused || r.1, r.2)
  | .other c rest, fl =>
    let cA := fun f => (check P c f).1
    let s := run (P.other ++ P.tail) cA cA (fun _ => false) fl
    let r := check P rest s.flag
    (s.refused || r.1, r.2)

/-- `_check_for_non_extractables(nodes)` raises RefactoringError -/
def refuses (P : Prog) (sel : Sel) : Bool := (check P sel false).1

/-! ## the specification, independent of the code: what must not be moved into a new function -/

/-- the selection contains `return` / `yield`, or a `break` / `continue` that is not enclosed by a loop of the
selection (`inLoop`: an enclosing loop of the selection exists; a nested def / class / lambda starts afresh; the
`else` clause of a loop does not belong to that loop) -/
def loose : Sel → Bool → Bool
  | .done, _ => false
  | .leaf kw rest, inLoop =>
    (decide (kw = "return") || decide (kw = "yield")
      || ((decide (kw = "break") || decide (kw = "continue")) && !inLoop)) || loose rest inLoop
  | .loop b e rest, inLoop => loose b true || loose e inLoop || loose rest inLoop
  | .scope c rest, inLoop => loose c false || loose rest inLoop
  | .other c rest, inLoop => loose c inLoop || loose rest inLoop

/-! ## decoding the translator's rendering of the source -/

def Flag.decode : String → Option Flag
  | "True" => some .tt
  | "False" => some .ff
  | "in_loop" => some .cur
  | _ => none

def Part.decode : String → Option Part
  | "children" => some .all
  | "children[:else_index]" => some .body
  | "children[else_index:]" => some .els
  | _ => none

/-- ("call", part, flag) | ("set", "in_loop", flag) | ("narrow", "children", "children[:else_index]") -/
def Cmd.decode : String × String × String → Option Cmd
  | ("call", p, f) => do pure (.call (← Part.decode p) (← Flag.decode f))
  | ("set", "in_loop", f) => do pure (.setFlag (← Flag.decode f))
  | ("narrow", "children", "children[:else_index]") => some .narrow
  | _ => none

def Prog.decode (always jumps : List String) (loop scope other tail : List (String × String × String)) :
    Option Prog := do
  pure { always, jumps, loop := ← loop.mapM Cmd.decode, scope := ← scope.mapM Cmd.decode,
         other := ← other.mapM Cmd.decode, tail := ← tail.mapM Cmd.decode }

/-- the function as it is in jedi (with the fix c06-6) -/
def reference : Prog :=
  { always := ["return", "yield"], jumps := ["break", "continue"],
    loop := [.call .body .tt, .call .els .cur], scope := [.call .all .ff], other := [.call .all .cur], tail := [] }

/-- the `tidied` variant: one shared recursive call, the flag is rebound in front of it -/
def sharedCall : Prog :=
  { always := ["return", "yield"], jumps := ["break", "continue"],
    loop := [.call .els .cur, .narrow, .setFlag .tt], scope := [.setFlag .ff], other := [],
    tail := [.call .all .cur] }

end JediModel.NonExtractable

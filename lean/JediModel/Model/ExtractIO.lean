/-! # Model of `jedi/api/refactoring/extract.py:_find_inputs_and_outputs`

The function walks the name leaves of the selected statements in source order and builds two
lists of strings: `inputs` (the parameters of the extracted function = the arguments of the call)
and `outputs` (the names the selection binds).  Transcription of the loop, one `step` per name:

```
for name in _find_non_global_names(nodes):
    if name.is_definition():
        if name not in outputs:          # a parso Name is never equal to a str: always true
            outputs.append(name.value)
        [is_read = _is_augmented_assignment_target(name)]      -- only with the proposed fix c06-4
    else / if is_read:
        if name.value not in inputs:
            name_definitions = context.goto(name, <position>)
            if not name_definitions or _is_name_input(module_context, name_definitions, first, last):
                inputs.append(name.value)
```

What the lookup answers (`context.goto`, `_is_name_input`: inference, flow analysis) is *not* modelled:
every occurrence carries the verdict `outer` = "the lookup of THIS occurrence finds nothing or a
definition outside the selection".  The harness computes that verdict with the real functions for
every occurrence, whether or not jedi's loop asks for it.  Core Lean only. -/
namespace JediModel.ExtractIO

/-- one name leaf of the selection -/
structure Occ where
  value : String
  /-- `name.is_definition()` -/
  isDef : Bool
  /-- the name is the target of an augmented assignment (`x += 1`) -/
  augTarget : Bool
  /-- verdict of the real lookup of this occurrence: no definition, or one outside the selection -/
  outer : Bool
deriving Repr, DecidableEq

/-- the two shapes of the loop that the translator accepts -/
structure Cfg where
  /-- proposed fix c06-4: the target of an augmented assignment is looked up as a read as well -/
  readsAugTarget : Bool
deriving Repr, DecidableEq

structure St where
  inputs : List String
  outputs : List String
deriving Repr, DecidableEq

/-- `if name.value not in inputs: ... if <outer>: inputs.append(name.value)` -/
def checkRead (st : St) (o : Occ) : St :=
  if st.inputs.contains o.value then st
  else if o.outer then { st with inputs := st.inputs ++ [o.value] }
  else st

/-- does the loop look this occurrence up? -/
def isRead (cfg : Cfg) (o : Occ) : Bool :=
  !o.isDef || (cfg.readsAugTarget && o.augTarget)

/-- `if name.is_definition(): outputs.append(name.value)` -/
def addOutput (st : St) (o : Occ) : St :=
  if o.isDef then { st with outputs := st.outputs ++ [o.value] } else st

def step (cfg : Cfg) (st : St) (o : Occ) : St :=
  if isRead cfg o then checkRead (addOutput st o) o else addOutput st o

def findInputsOutputs (cfg : Cfg) (occs : List Occ) : St :=
  occs.foldl (step cfg) ⟨[], []⟩

/-! ### a variant that is NOT the source: "look every name up only once"

The shape of the seeded defect C06-2 (`if name.value not in resolved: resolved.add(name.value); ...`): the verdict
of the first occurrence of a name sticks.  Kept to state (Props/C06 `resolve_once_misses_later_outer_read`) why the
only admissible guard is `name.value not in inputs`. -/

structure StOnce where
  inputs : List String
  outputs : List String
  resolved : List String
deriving Repr, DecidableEq

def stepOnce (st : StOnce) (o : Occ) : StOnce :=
  if o.isDef then { st with outputs := st.outputs ++ [o.value] }
  else if st.resolved.contains o.value then st
  else
    let st1 := { st with resolved := st.resolved ++ [o.value] }
    if o.outer then { st1 with inputs := st1.inputs ++ [o.value] } else st1

def findInputsOnce (occs : List Occ) : StOnce := occs.foldl stepOnce ⟨[], [], []⟩

end JediModel.ExtractIO

/-! `jedi/inference/imports.py:follow_error_node_imports_if_possible` — called from
`InferenceState.infer` / `TreeNameDefinition.goto` for EVERY name that is not a definition (so
from `Script.infer`, `goto`, `help`, `get_references`, `Name.goto`, `Name.infer`) — asks, for a
name inside a parso `error_node` (half-typed code), where the statement of that name starts:

```
start_index = 0
for index, n in enumerate(error_node.children):
    if n.start_pos > name.start_pos:
        break
    if n == ';':
        start_index = index + 1
nodes = error_node.children[start_index:]
first_name = nodes[0].get_first_leaf().value
```

`nodes[0]` is a partial operation: if `start_index` ends up behind the last child the slice is
empty and `IndexError` leaves the query API.  Property C01 asks that this never happens, whatever
is being typed.  The comparison operator, the attribute of the name that is compared, the order
of the two tests of the loop body, the initial value and the offset are read from the source
(`Spec`, filled in `Props/C01.lean` from `Gen.C01.es*`), so the model follows an edit of the
boundary — and then raises where the real code raises.

Core Lean only. -/
namespace JediModel.ErrStart

/-- `(line, column)` as parso counts them -/
abbrev Pos := Nat × Nat

/-- Python tuple comparison `a < b` -/
def Pos.lt (a b : Pos) : Bool := a.1 < b.1 || (a.1 == b.1 && a.2 < b.2)

/-- what the scan observes of a child of the error node: `n.start_pos`, `n == ';'` -/
structure Child where
  start : Pos
  semi : Bool
deriving DecidableEq, Repr

/-- the shape of the loop as found in the source -/
structure Spec where
  /-- `start_index = <init>` -/
  init : Nat
  /-- the break test is `n.start_pos > bound` (`true`) or `n.start_pos >= bound` (`false`) -/
  strict : Bool
  /-- the bound is `name.end_pos` (`true`) or `name.start_pos` (`false`) -/
  nameEnd : Bool
  /-- the break test stands in front of the `n == ';'` test -/
  breakFirst : Bool
  /-- `start_index = index + <offset>` -/
  offset : Nat
deriving DecidableEq, Repr

/-- the code as it stands -/
def stdSpec : Spec := ⟨0, true, false, true, 1⟩

inductive Err where
  | indexError
deriving DecidableEq, Repr

/-- `n.start_pos > bound` / `n.start_pos >= bound` -/
def past (spec : Spec) (bound : Pos) (c : Child) : Bool :=
  if spec.strict then bound.lt c.start else !(c.start.lt bound)

/-- the `for index, n in enumerate(children)` loop from `index` on; `acc` is `start_index` -/
def scan (spec : Spec) (bound : Pos) : List Child → Nat → Nat → Nat
  | [], _, acc => acc
  | c :: rest, index, acc =>
    if spec.breakFirst then
      if past spec bound c then acc
      else scan spec bound rest (index + 1) (if c.semi then index + spec.offset else acc)
    else
      let acc' := if c.semi then index + spec.offset else acc
      if past spec bound c then acc' else scan spec bound rest (index + 1) acc'

/-- `start_index` after the loop -/
def startIndex (spec : Spec) (children : List Child) (nameStart nameEnd : Pos) : Nat :=
  scan spec (if spec.nameEnd then nameEnd else nameStart) children 0 spec.init

/-- `nodes = children[start_index:]; nodes[0]`: the index (in `children`) of the node whose first
leaf is read, or `IndexError` when the slice is empty -/
def firstNode (spec : Spec) (children : List Child) (nameStart nameEnd : Pos) : Except Err Nat :=
  let s := startIndex spec children nameStart nameEnd
  if s < children.length then .ok s else .error .indexError

end JediModel.ErrStart

import JediModel.Model.Tree
/-! `Refactoring` / `ChangedFile` (jedi/api/refactoring/__init__.py) as a file-system state
machine, and the prologue of `Script.extract_variable/extract_function`
(jedi/api/__init__.py) that computes the `until` position.

A path is its list of components.  `FS = Path → Option Str` (file contents as text; a
directory is the set of paths below it).  Modelled-not-verified: `open(..,'w')` succeeds
for a path the module was read from, `os.rename` of an existing source to a free target,
pathlib's ordering (the order of changes / renames is the order jedi reports). -/
namespace JediModel.RefactorFS
open JediModel.Text JediModel.Tree

abbrev Path := List String
abbrev FS := Path → Option Str

/-- one entry of `file_to_node_changes`: the key (`None` for a `Script` without path), the
module node and the node → string map -/
structure FileChange where
  path : Option Path
  tree : T
  map : Map

structure Refactoring where
  /-- in the order of `get_changed_files()` -/
  changes : List FileChange
  /-- in the order of `get_renames()` -/
  renames : List (Path × Path)

/-- `ChangedFile.get_new_code` -/
def newCode (c : FileChange) : Str := render c.map c.tree

/-- `TextIOWrapper.write` newline translation for `open(p, 'w', newline=arg)`:
`None` → every `\n` becomes `os.linesep`; `''` and `'\n'` → nothing is translated;
`'\r'`, `'\r\n'` → every `\n` becomes that string -/
def xlate (arg : Option String) (linesep : Str) (s : Str) : Str :=
  match arg with
  | none => s.flatMap fun c => if c = '\n' then linesep else [c]
  | some x => if x = "" ∨ x = "\n" then s else s.flatMap fun c => if c = '\n' then x.toList else [c]

def write (fs : FS) (p : Path) (s : Str) : FS := fun q => if q = p then some s else fs q

/-- `old.rename(new)`: `old` (a file, or a package directory with everything below it)
is afterwards found at `new` -/
def rename (fs : FS) (old new : Path) : FS := fun q =>
  if new <+: q then fs (old ++ q.drop new.length)
  else if old <+: q then none
  else fs q

inductive Err where
  | refactoringError
deriving DecidableEq, Repr

structure Outcome where
  fs : FS
  err : Option Err

/-- `for f in self.get_changed_files().values(): f.apply()` — `ChangedFile.apply` raises
`RefactoringError` for a change without path; what was written before stays written -/
def applyWrites (newlineArg : Option String) (linesep : Str) : List FileChange → FS → Outcome
  | [], fs => ⟨fs, none⟩
  | c :: cs, fs =>
    match c.path with
    | none => ⟨fs, some .refactoringError⟩
    | some p => applyWrites newlineArg linesep cs (write fs p (xlate newlineArg linesep (newCode c)))

/-- `for old, new in self.get_renames(): old.rename(new)` -/
def applyRenames : List (Path × Path) → FS → FS
  | [], fs => fs
  | (o, n) :: rs, fs => applyRenames rs (rename fs o n)

/-- `Refactoring.apply`, the phases in the order found in the source (`order` comes from
the translator: `["writes", "renames"]`, with `"refuse-pathless"` in front once the source has
`if None in self._file_to_node_changes: raise RefactoringError(..)` before the loops) -/
def applyPhases (newlineArg : Option String) (linesep : Str) (r : Refactoring) :
    List String → FS → Outcome
  | [], fs => ⟨fs, none⟩
  | ph :: phs, fs =>
    if ph = "writes" then
      match applyWrites newlineArg linesep r.changes fs with
      | ⟨fs', none⟩ => applyPhases newlineArg linesep r phs fs'
      | out => out
    else if ph = "renames" then applyPhases newlineArg linesep r phs (applyRenames r.renames fs)
    else if ph = "refuse-pathless" then
      (if r.changes.any (fun c => c.path.isNone) then ⟨fs, some .refactoringError⟩
       else applyPhases newlineArg linesep r phs fs)
    else applyPhases newlineArg linesep r phs fs

/-- `calculate_to_path`: plain *string* prefix replacement, rename after rename
(paths here as strings, exactly as the code does it) -/
def toPathStr (renames : List (Str × Str)) (p : Str) : Str :=
  renames.foldl (fun p r => if r.1.isPrefixOf p then r.2 ++ p.drop r.1.length else p) p

/-- the requests a client can make on a refactoring result -/
inductive Req where
  | getDiff | getNewCode | getChangedFiles | getRenames | apply
deriving DecidableEq, Repr

/-- one step of the state machine: only `apply` touches the file system -/
def step (newlineArg : Option String) (linesep : Str) (order : List String)
    (r : Refactoring) (q : Req) (fs : FS) : Outcome :=
  match q with
  | .apply => applyPhases newlineArg linesep r order fs
  | _ => ⟨fs, none⟩

/-! ## paths as shown in the diff header -/

/-- `Path(s).parts` for a POSIX path string: `"/"` first for an absolute path, empty and `.`
components dropped -/
def partsOf (s : Str) : Path :=
  let comps := ((String.ofList s).splitOn "/").filter fun c => c ≠ "" ∧ c ≠ "."
  if s.head? = some '/' then "/" :: comps else comps

/-- `str(Path(*parts))` -/
def pathStr (p : Path) : Str :=
  match p with
  | [] => ['.']
  | "/" :: rest => ('/' :: ("/".intercalate rest).toList)
  | parts => ("/".intercalate parts).toList

/-- `p.relative_to(project)` falling back to `p` (the `except ValueError` branch), as
components: a path inside the project loses the project's components, any other path is
shown as it is -/
def displayParts (project p : Path) : Path :=
  if project <+: p then p.drop project.length else p

/-- what a path should be shown as: `None` as the empty string, a path relative to the
project when it is inside, else unchanged -/
def displayPath (project : Path) : Option Path → Str
  | none => []
  | some p => pathStr (displayParts project p)

/-- reading a shown path back, as a client of the diff does: an absolute path is itself, a
relative one is below the project -/
def resolveParts (project shown : Path) : Path :=
  if shown.head? = some "/" then shown else project ++ shown

/-- an absolute POSIX path as pathlib holds it: the root, then components none of which is
the root marker -/
def AbsPath (p : Path) : Prop := p.head? = some "/" ∧ "/" ∉ p.tail

/-! ### the header computation of `ChangedFile.get_diff`, as written in the source

```
if <guard> is None: v = <noneText>
else:
    try: v = <subject>.relative_to(project_path)
    except ValueError: v = <fallback>
... fromfile=str(from_p), tofile=str(to_p)
```
`guard`, `subject`, `fallback` are the attribute expressions found in the source (translator
constants `diffFromHeader` / `diffToHeader`); the model evaluates them, it does not assume
that they are the same attribute. -/

inductive HdrErr where
  /-- `None.relative_to(..)` -/
  | attributeError
  /-- an expression the model has no meaning for -/
  | unknownExpr
deriving DecidableEq, Repr

/-- the value of an attribute expression of a `ChangedFile` -/
def cfAttr (expr : String) (fromP toP : Option Path) : Except HdrErr (Option Path) :=
  if expr = "self._from_path" then .ok fromP
  else if expr = "self._to_path" then .ok toP
  else .error .unknownExpr

/-- `str(x)` for a path or `None` -/
def strOpt : Option Path → Str
  | none => "None".toList
  | some p => pathStr p

def headerPath (spec : String × String × String × String) (project : Path)
    (fromP toP : Option Path) : Except HdrErr Str :=
  match cfAttr spec.1 fromP toP with
  | .error e => .error e
  | .ok none => .ok spec.2.1.toList
  | .ok (some _) =>
    match cfAttr spec.2.2.1 fromP toP with
    | .error e => .error e
    | .ok none => .error .attributeError
    | .ok (some p) =>
      if project <+: p then .ok (pathStr (p.drop project.length))
      else match cfAttr spec.2.2.2 fromP toP with
        | .error e => .error e
        | .ok q => .ok (strOpt q)

/-! ### the `rename from … / rename to …` lines of `Refactoring.get_diff` -/

/-- `_try_relative_to(path, base)` with the roles read from the source: `sel = (r, a, f)`
means `try: return args[r].relative_to(args[a])  except ValueError: return args[f]` -/
def tryRelativeTo (sel : Nat × Nat × Nat) (path base : Path) : Path :=
  let arg := fun (i : Nat) => if i = 0 then path else base
  if arg sel.2.1 <+: arg sel.1 then (arg sel.1).drop (arg sel.2.1).length else arg sel.2.2

/-- `pieces[0] % a0 % pieces[1] …` — the `%s` format with the arguments in source order;
`args` selects the element of the rename pair for each `%s` -/
def renameLine (sel : Nat × Nat × Nat) (pieces : List String) (args : List Nat) (project : Path)
    (r : Path × Path) : Str :=
  match pieces with
  | [] => []
  | p0 :: rest =>
    p0.toList ++ ((args.zip rest).flatMap fun (a, piece) =>
      pathStr (tryRelativeTo sel (if a = 0 then r.1 else r.2) project) ++ piece.toList)

def renameLines (sel : Nat × Nat × Nat) (pieces : List String) (args : List Nat) (project : Path)
    (rs : List (Path × Path)) : Str :=
  rs.flatMap (renameLine sel pieces args project)

/-- where `rename fs old new` puts the file that was at `q` -/
def renamedPath (old new q : Path) : Path := if old <+: q then new ++ q.drop old.length else q

/-- `calculate_to_path` in the two shapes the translator knows: `"string-prefix"` (string
`startswith` / slicing on `str(path)`) and `"components"` (`to.joinpath(p.relative_to(from_))`) -/
def toPath (mode : String) (renames : List (Path × Path)) (p : Path) : Path :=
  if mode = "components" then renames.foldl (fun p r => renamedPath r.1 r.2 p) p
  else partsOf (toPathStr (renames.map fun r => (pathStr r.1, pathStr r.2)) (pathStr p))

/-- the loop of `calculate_to_path` when it *returns* at the first rename the path is below
(`return to.joinpath(p.relative_to(from_))`) instead of assigning and going on -/
def toPathFirst : List (Path × Path) → Path → Path
  | [], p => p
  | (o, n) :: rs, p => if o <+: p then n ++ p.drop o.length else toPathFirst rs p

/-- `calculate_to_path(p)` on what it is really called with: the keys of `file_to_node_changes`,
`None` for a `Script` without a path.
```
[if p is None: return p]                 -- noneGuard
for from_, to in renames:
    try: p = to.joinpath(p.relative_to(from_))   -- loop = "fold" | `return ...` = "first"
    except ValueError: pass
return p
```
Without the guard `None.relative_to(..)` is an `AttributeError` (not caught by `except ValueError`)
in the first iteration; with no renames the loop body never runs and `None` comes back. -/
def calcToPath (noneGuard : Bool) (loop mode : String) (renames : List (Path × Path)) :
    Option Path → Except HdrErr (Option Path)
  | none => if noneGuard || renames.isEmpty then .ok none else .error .attributeError
  | some p => .ok (some (if loop = "first" then toPathFirst renames p else toPath mode renames p))

/-! ## `until` position of extract_variable / extract_function -/

inductive Exc where
  | valueError | indexError
deriving DecidableEq, Repr

/-- python `lst[i]` for a list of length `n`: the 0-based index, `none` = `IndexError` -/
def pyIndex (n : Nat) (i : Int) : Option Nat :=
  if 0 ≤ i then (if i < n then some i.toNat else none)
  else (if -i ≤ n then some (n + i).toNat else none)

/-- ```
if until_line is None and until_column is None: until_pos = None
else:
    if until_line is None: until_line = line
    if until_column is None: until_column = len(self._code_lines[until_line - 1])
    until_pos = until_line, until_column
```
`validated` = the source checks `0 < until_line <= len(self._code_lines)` (raising
`ValueError`) before indexing (translator constant `untilValidated`). -/
def untilIndex (validated : Bool) (nlines : Nat) (lineLen : Nat → Nat) (ul : Int) :
    Except Exc (Option (Int × Int)) :=
  if validated && !(decide (0 < ul) && decide (ul ≤ nlines)) then .error .valueError
  else match pyIndex nlines (ul - 1) with
    | none => .error .indexError
    | some k => .ok (some (ul, lineLen k))

def untilPos (validated : Bool) (nlines : Nat) (lineLen : Nat → Nat) (line : Nat)
    (ul uc : Option Int) : Except Exc (Option (Int × Int)) :=
  match ul, uc with
  | none, none => .ok none
  | _, some c => .ok (some (ul.getD line, c))
  | _, none => untilIndex validated nlines lineLen (ul.getD line)

end JediModel.RefactorFS

/-! # Keyword arguments and the parameters they bind (C05)

`names.py:AbstractTreeName.goto`, branch "named param goto": the keyword `k` of a call `f(k=...)`
is resolved to the parameters of the callee's signature that are spelled `k` and whose kind passes
the filter written in the source (the unchanged source has no filter: every kind passes).
`find_references` / `rename` reach the call-site keywords of a parameter through this goto only.

Core Lean only. Kinds carry the numbers of `inspect.Parameter`. -/
namespace JediModel.KwBind

abbrev Kind := Nat
def posOnly : Kind := 0
def posOrKw : Kind := 1
def varPos : Kind := 2
def kwOnly : Kind := 3
def varKw : Kind := 4

structure Param where
  name : Nat
  kind : Kind
deriving DecidableEq, Repr

/-- Python's call binding: a keyword argument can only bind a positional-or-keyword or a
keyword-only parameter -/
def bindable (p : Param) : Bool := p.kind == posOrKw || p.kind == kwOnly

/-- the parameters of the signature the keyword `k` of a call binds in Python (at most one in a
well-formed signature; a keyword that binds none goes to the `**` dictionary as a string key) -/
def pyBinds (sig : List Param) (k : Nat) : List Param :=
  sig.filter (fun p => p.name == k && bindable p)

/-- what the named-param goto answers: the parameters spelled `k` whose kind is in `accepted` -/
def gotoKeyword (accepted : List Kind) (sig : List Param) (k : Nat) : List Param :=
  sig.filter (fun p => p.name == k && accepted.contains p.kind)

end JediModel.KwBind

/-! # Argument-to-parameter binding

`bindJ`  : transcription, statement by statement, of
           `jedi/inference/param.py:get_executed_param_names_and_issues`
           (with `jedi/inference/utils.py:PushBackIterator`: the iterator is the list of remaining
           `(key, argument)` pairs, `push_back` is cons, `next(it, (None, None))` is a match on
           the list).
`bindPy` : CPython's call-binding rules (the specification; validated against CPython itself
           on every run of the check).

Core Lean only.  Names and arguments are natural numbers (the harness maps parameter / keyword
names and the source position of every argument expression to indices). -/
namespace JediModel.ArgBind

abbrev Name := Nat
/-- identity of an argument expression of the call (index of its tree node) -/
abbrev Arg := Nat

inductive Kind
  | pos | star | kwOnly | dstar
deriving DecidableEq, Repr

/-- one element of parso's `funcdef.get_params()`.  A bare `*` separator is *not* an element
(`parso/python/tree.py:_create_params` drops it), so for jedi a keyword-only parameter looks
like a normal one: `star_count == 0` for both `pos` and `kwOnly`. -/
structure Param where
  name : Name
  kind : Kind
  hasDefault : Bool
deriving DecidableEq, Repr

/-- `param.star_count` -/
def Kind.starCount : Kind → Nat
  | .pos => 0
  | .kwOnly => 0
  | .star => 1
  | .dstar => 2

/-- what a parameter is bound to: the lazy value of an argument expression, the default
expression of the parameter, `FakeTuple` of argument lazy values, `FakeDict` (insertion ordered)
of keyword -> argument lazy value, `LazyUnknownValue` -/
inductive Bound
  | arg (a : Arg)
  | default
  | tuple (as : List Arg)
  | dict (kvs : List (Name × Arg))
  | unknown
deriving DecidableEq, Repr

inductive Issue
  | tooFew
  | tooMany (a : Arg)
  | multipleValues (k : Name)
  | unexpectedKeyword (k : Name)
deriving DecidableEq, Repr

/-- The structural facts of the source the model is parameterised by (extracted by
`translator/gen_c02.py` into `Gen/C02.lean`). -/
structure Cfg where
  /-- the `*args` loop does `var_arg_iterator.push_back((key, argument))` before `break` -/
  pushBack : Bool
  /-- `if param.star_count == <n>:` of the branch that builds the `FakeTuple` -/
  tupleStarCount : Nat
  /-- `elif param.star_count == <n>:` of the branch that builds the `FakeDict` -/
  dictStarCount : Nat
  /-- `keys_used[param.name.value] = result_params[-1]` is guarded by
  `if not isinstance(result_arg, LazyUnknownValue)` -/
  skipUnknown : Bool
  /-- `non_matching_keys = {}` after the `FakeDict` is built -/
  resetNonMatching : Bool
  /-- `param_dict` also holds the `*args` / `**kwargs` parameters (the source before the repair
  `if not param.star_count: param_dict[param.name.value] = param`) -/
  starNamesInParamDict : Bool
deriving DecidableEq, Repr

/-- the source as validated (translator/pinned.json) -/
def cfgRef : Cfg :=
  { pushBack := true, tupleStarCount := 1, dictStarCount := 2, skipUnknown := true,
    resetNonMatching := true, starNamesInParamDict := false }

/-! ## jedi -/

/-- the iterator: remaining `(key, argument)` pairs (pushed-back items in front) -/
abbrev It := List (Option Name × Arg)

/-- `key in param_dict` (`if not param.star_count: param_dict[param.name.value] = param` for
every param - `starNames`: without that `if`, the source before the repair; only membership and
the name of `param_dict[key]`, which is `key`, are used) -/
def inParamDict (starNames : Bool) (ps : List Param) (k : Name) : Bool :=
  ps.any fun p => p.name == k && (starNames || p.kind.starCount == 0)

/-- `d[k] = v` on an insertion-ordered dict -/
def dictSet (d : List (Name × Arg)) (k : Name) (v : Arg) : List (Name × Arg) :=
  match d with
  | [] => [(k, v)]
  | (k', v') :: r => if k' == k then (k', v) :: r else (k', v') :: dictSet r k v

/-- the mutable locals of the function other than the iterator.  `keysUsed`: newest binding in
front, only looked up by key (a dict). -/
structure St where
  keysUsed : List (Name × Bound) := []
  nonMatching : List (Name × Arg) := []
  keysOnly : Bool := false
  hadMulti : Bool := false
  result : List (Name × Bound) := []
  issues : List Issue := []
deriving DecidableEq, Repr

/-- body of `while key is not None:` up to (not including) the trailing `next` -/
def keyStep (sn : Bool) (ps : List Param) (s : St) (key : Name) (argument : Arg) : St :=
  -- keys_only = True (first statement of the body, written into every branch)
  if !inParamDict sn ps key then                                             -- except KeyError
    { s with keysOnly := true, nonMatching := dictSet s.nonMatching key argument }
  else if (s.keysUsed.lookup key).isSome then
    { s with keysOnly := true, hadMulti := true, issues := s.issues ++ [Issue.multipleValues key] }
  else
    { s with keysOnly := true, keysUsed := (key, .arg argument) :: s.keysUsed }

/-- `while key is not None: ...; key, argument = next(var_arg_iterator, (None, None))`.
`cur` is the current `(key, argument)`; `none` stands for `(None, None)`.  Returns the final
`argument` (`None` or a positional argument), the iterator and the locals. -/
def whileKeys (sn : Bool) (ps : List Param) :
    Option (Option Name × Arg) → It → St → Option Arg × It × St
  | none, it, s => (none, it, s)
  | some (none, a), it, s => (some a, it, s)
  | some (some key, a), it, s =>
    let s := keyStep sn ps s key a
    match it with
    | [] => (none, [], s)
    | x :: it' => whileKeys sn ps (some x) it' s

/-- `for key, argument in var_arg_iterator:` of the `*args` branch: collect positional arguments
until a key argument is found, which is pushed back (or, in a source without the `push_back`,
consumed and lost) -/
def starLoop (pushBack : Bool) : It → List Arg → List Arg × It
  | [], acc => (acc, [])
  | (some k, a) :: r, acc => (acc, if pushBack then (some k, a) :: r else r)
  | (none, a) :: r, acc => starLoop pushBack r (acc ++ [a])

/-- `result_params.append(ExecutedParamName(.., param, result_arg)); if not isinstance(result_arg,
LazyUnknownValue): keys_used[param.name.value] = result_params[-1]` -/
def finish (cfg : Cfg) (p : Param) (b : Bound) (s : St) : St :=
  { s with
    result := s.result ++ [(p.name, b)]
    keysUsed := if cfg.skipUnknown && b == .unknown then s.keysUsed else (p.name, b) :: s.keysUsed }

/-- `next(var_arg_iterator, (None, None))`: `none` stands for `(None, None)` -/
def pop : It → Option (Option Name × Arg) × It
  | [] => (none, [])
  | x :: r => (some x, r)

/-- the body of the `for param` loop after the `while key is not None` loop -/
def bodyJ (cfg : Cfg) (p : Param) (argument : Option Arg) (it : It) (s : St) : It × St :=
  match s.keysUsed.lookup p.name with
  | some b => (it, { s with result := s.result ++ [(p.name, b)] })       -- try: ...; continue
  | none =>
    if p.kind.starCount == cfg.tupleStarCount then
      match argument with
      | none => (it, finish cfg p (.tuple []) s)
      | some a =>
        let (lst, it) := starLoop cfg.pushBack it [a]
        (it, finish cfg p (.tuple lst) s)
    else if p.kind.starCount == cfg.dictStarCount then
      let s := match argument with
        | some a => { s with issues := s.issues ++ [Issue.tooMany a] }
        | none => s
      let b := Bound.dict s.nonMatching
      let s := { s with nonMatching := if cfg.resetNonMatching then [] else s.nonMatching }
      (it, finish cfg p b s)
    else
      match argument with
      | none =>
        if !p.hasDefault then
          let s := if !s.keysOnly then { s with issues := s.issues ++ [Issue.tooFew] } else s
          (it, finish cfg p .unknown s)
        else (it, finish cfg p .default s)
      | some a => (it, finish cfg p (.arg a) s)

/-- one iteration of `for param in funcdef.get_params():` -/
def stepJ (cfg : Cfg) (ps : List Param) (p : Param) (it : It) (s : St) : It × St :=
  -- key, argument = next(var_arg_iterator, (None, None))
  let (cur, it) := pop it
  -- while key is not None: ...
  let (argument, it, s) := whileKeys cfg.starNamesInParamDict ps cur it s
  bodyJ cfg p argument it s

/-- the `for param in funcdef.get_params()` loop -/
def loopJ (cfg : Cfg) (all : List Param) : List Param → It → St → It × St
  | [], it, s => (it, s)
  | p :: ps, it, s =>
    let (it, s) := stepJ cfg all p it s
    loopJ cfg all ps it s

/-- the code after the loop (issues only; `set(param_dict) - set(keys_used)` taken in parameter
order, one calling node) -/
def epilogue (cfg : Cfg) (ps : List Param) (it : It) (s : St) : List Issue :=
  let few :=
    if s.keysOnly then
      (ps.filter fun p => inParamDict cfg.starNamesInParamDict ps p.name &&
          (s.keysUsed.lookup p.name).isNone &&
          !(!s.nonMatching.isEmpty || s.hadMulti || p.kind.starCount != 0 || p.hasDefault)).map
        fun _ => Issue.tooFew
    else []
  let unexpected := s.nonMatching.map fun (k, _) => Issue.unexpectedKeyword k
  let many := match it with
    | [] => []
    | (_, a) :: _ => [Issue.tooMany a]
  s.issues ++ few ++ unexpected ++ many

/-- `get_executed_param_names_and_issues`: (result_params, issues) -/
def bindJFull (cfg : Cfg) (ps : List Param) (args : It) : List (Name × Bound) × List Issue :=
  let (it, s) := loopJ cfg ps ps args {}
  (s.result, epilogue cfg ps it s)

/-- `get_executed_param_names`: parameter name -> what it is bound to, in parameter order -/
def bindJ (cfg : Cfg) (ps : List Param) (args : It) : List (Name × Bound) :=
  (bindJFull cfg ps args).1

def issuesJ (cfg : Cfg) (ps : List Param) (args : It) : List Issue :=
  (bindJFull cfg ps args).2

/-- the arguments as `TreeArguments.unpack` yields them for a call without `*`/`**` unpacking:
positional arguments, then keyword arguments (Python's grammar) -/
def callArgs (pos : List Arg) (kws : List (Name × Arg)) : It :=
  pos.map (fun a => (none, a)) ++ kws.map (fun (k, a) => (some k, a))

/-! ## CPython (specification) -/

/-- a parameter that can be given by keyword -/
def Param.byKeyword (p : Param) : Bool := p.kind == .pos || p.kind == .kwOnly

/-- keyword `k` names a parameter that can be given by keyword -/
def namesKwParam (ps : List Param) (k : Name) : Bool := ps.any fun p => p.byKeyword && p.name == k

/-- what goes into `**kwargs`: the keyword arguments that name no parameter, in call order -/
def extraKws (ps : List Param) (kws : List (Name × Arg)) : List (Name × Arg) :=
  kws.filter fun (k, _) => !namesKwParam ps k

/-- a parameter not filled positionally: its keyword argument, else its default; `unknown`
marks "missing" (such calls are rejected by `accepts`) -/
def kwOrDefault (kws : List (Name × Arg)) (p : Param) : Bound :=
  match kws.lookup p.name with
  | some a => .arg a
  | none => if p.hasDefault then .default else .unknown

/-- positional fill, left to right over the `pos` parameters; surplus to `*args`; everything
else per parameter by lookup -/
def fill (kws extras : List (Name × Arg)) : List Param → List Arg → List (Name × Bound)
  | [], _ => []
  | p :: ps, pos =>
    match p.kind, pos with
    | .pos, a :: pos' => (p.name, .arg a) :: fill kws extras ps pos'
    | .pos, [] => (p.name, kwOrDefault kws p) :: fill kws extras ps []
    | .star, pos => (p.name, .tuple pos) :: fill kws extras ps []
    | .kwOnly, pos => (p.name, kwOrDefault kws p) :: fill kws extras ps pos
    | .dstar, pos => (p.name, .dict extras) :: fill kws extras ps pos

def nPos (ps : List Param) : Nat := (ps.filter (·.kind == .pos)).length
def hasStar (ps : List Param) : Bool := ps.any (·.kind == .star)
def hasDStar (ps : List Param) : Bool := ps.any (·.kind == .dstar)

/-- names of the parameters filled positionally -/
def filledPositionally (ps : List Param) (n : Nat) : List Name :=
  ((ps.filter (·.kind == .pos)).take n).map (·.name)

/-- TypeError: takes N positional arguments but M were given -/
def tooManyPositional (ps : List Param) (pos : List Arg) : Bool :=
  !hasStar ps && nPos ps < pos.length

/-- TypeError: got multiple values for argument -/
def multipleValues (ps : List Param) (pos : List Arg) (kws : List (Name × Arg)) : Bool :=
  kws.any fun (k, _) => (filledPositionally ps pos.length).contains k

/-- TypeError: got an unexpected keyword argument -/
def unexpectedKeyword (ps : List Param) (kws : List (Name × Arg)) : Bool :=
  !hasDStar ps && !(extraKws ps kws).isEmpty

/-- TypeError: missing required (keyword-only) argument -/
def missingRequired (ps : List Param) (pos : List Arg) (kws : List (Name × Arg)) : Bool :=
  (fill kws [] ps pos).any fun (_, b) => b == .unknown

/-- the call does not raise TypeError -/
def accepts (ps : List Param) (pos : List Arg) (kws : List (Name × Arg)) : Bool :=
  !tooManyPositional ps pos && !multipleValues ps pos kws && !unexpectedKeyword ps kws &&
    !missingRequired ps pos kws

/-- CPython's binding of a call `f(*pos, **kws)` (keywords distinct) to the signature `ps`:
`none` = TypeError -/
def bindPy (ps : List Param) (pos : List Arg) (kws : List (Name × Arg)) : Option (List (Name × Bound)) :=
  if accepts ps pos kws then some (fill kws (extraKws ps kws) ps pos) else none

/-! ## what Python's grammar guarantees about a signature -/

/-- `Pos* Star? KwOnly* DStar?`, defaults trailing among `Pos`, `*args`/`**kwargs` have no
default.  `posOk`: positional parameters (and `*args`) may still come; `seenDefault`: a
positional parameter with a default has been seen. -/
def wfOrder : Bool → Bool → List Param → Bool
  | _, _, [] => true
  | posOk, seenDefault, p :: ps =>
    match p.kind with
    | .pos => posOk && (p.hasDefault || !seenDefault) && wfOrder true (seenDefault || p.hasDefault) ps
    | .star => posOk && !p.hasDefault && wfOrder false seenDefault ps
    | .kwOnly => wfOrder false seenDefault ps
    | .dstar => !p.hasDefault && ps.isEmpty

def namesNodup : List Name → Bool
  | [] => true
  | n :: ns => !ns.contains n && namesNodup ns

/-- distinct parameter names, grammatical order -/
def WFSig (ps : List Param) : Bool := namesNodup (ps.map (·.name)) && wfOrder true false ps

/-- no keyword argument is spelled like the `*args` / `**kwargs` parameter -/
def kwsAvoidStarNames (ps : List Param) (kws : List (Name × Arg)) : Bool :=
  kws.all fun (k, _) => !(ps.any fun p => !p.byKeyword && p.name == k)

end JediModel.ArgBind

/-! # Class-level attribute lookup: which class a classmethod found on a base is bound to

Transcription of `jedi/inference/value/klass.py:ClassMixin.get_filters` (one `ClassFilter` per class
of the MRO), `ClassFilter._convert_names` (every name of a filter becomes a `ClassName` that carries
the filter's `_class_value`), `ClassName.infer` (`py__get__(instance=None, class_value=..)`) and
`jedi/plugins/stdlib.py:ClassMethodObject.py__get__` (`ClassMethodGet(.., class_value, ..)`: the
value the parameter `cls` is bound to), for single inheritance.  Core Lean only. -/
namespace JediModel.ClassLookup

abbrev ClsId := Nat
abbrev Name := Nat

/-- one class statement: its base (an earlier class, by index) and the names of the classmethods
its body defines -/
structure ClassDef where
  base : Option ClsId
  cms : List Name
deriving Repr, DecidableEq

/-- the classes of a module; a class is identified by its index -/
abbrev Hier := List ClassDef

/-- `py__mro__` under single inheritance: the class, its base, the base of the base ..
(fuel: the number of classes; a dangling base ends the walk) -/
def mroFuel (h : Hier) : Nat → ClsId → List ClsId
  | 0, _ => []
  | fuel + 1, c =>
    match h[c]? with
    | none => []
    | some d => c :: (match d.base with
        | none => []
        | some b => mroFuel h fuel b)

def mro (h : Hier) (c : ClsId) : List ClsId := mroFuel h h.length c

def defines (h : Hier) (k : ClsId) (n : Name) : Bool :=
  match h[k]? with
  | none => false
  | some d => d.cms.contains n

/-- a `ClassFilter`: the class its names are bound for, and the class whose body it searches -/
structure Filter where
  classValue : ClsId
  node : ClsId
deriving Repr, DecidableEq

/-- `ClassMixin.get_filters`: `for cls in self.py__mro__(): yield ClassFilter(<first>,
node_context=cls.as_context(), ..)`; `lookupClassFirst` says that `<first>` is `self` (the class
the attribute is looked up on) and not `cls` (the class of the MRO being searched) -/
def getFilters (lookupClassFirst : Bool) (h : Hier) (c : ClsId) : List Filter :=
  (mro h c).map fun cls => ⟨if lookupClassFirst then c else cls, cls⟩

/-- `c.n` for a classmethod `n`: the first filter whose class body defines the name wins; its
`ClassName` hands the filter's class value to `py__get__`, `ClassMethodGet` binds `cls` to it -/
def jediBoundCls (lookupClassFirst : Bool) (h : Hier) (c : ClsId) (n : Name) : Option ClsId :=
  ((getFilters lookupClassFirst h c).find? fun f => defines h f.node n).map (·.classValue)

/-- CPython: `type.__getattribute__(c, n)` finds the classmethod object in the `__dict__` of the
first class of `c.__mro__` that has it, `classmethod.__get__(None, c)` binds `cls` to `c` itself -/
def pyBoundCls (h : Hier) (c : ClsId) (n : Name) : Option ClsId :=
  if (mro h c).any (fun k => defines h k n) then some c else none

/-- what `return cls()` inside that classmethod creates an instance of -/
def jediCreates (lookupClassFirst : Bool) (h : Hier) (c : ClsId) (n : Name) : Option ClsId :=
  jediBoundCls lookupClassFirst h c n

end JediModel.ClassLookup

import JediModel.Model.Recursion
/-! # `ModuleMixin.star_imports` (jedi/inference/value/module.py)

```
@inference_state_method_cache([])          -- `_memoize_default(default=[])`
def star_imports(self):
    modules = []
    for i in self.tree_node.iter_imports():
        if i.is_star_import():
            new = Importer(...).follow()
            for module in new:
                if isinstance(module, ModuleValue):
                    modules += module.star_imports()
            modules += new
    return modules
```
Modules are numbers; `imports v` = the modules the star imports of `v` resolve to, in statement
order (one `ModuleValue` each; an unresolvable import contributes nothing and is left out).  The
memoiser is `Model.Recursion.eval`; this file only supplies the graph: which calls the body makes and
how it builds its list from their results. -/
namespace JediModel.StarImports
open JediModel.Recursion

/-- the two decisive shapes of the source: the memoiser's re-entry default (`none` = `_NO_DEFAULT`)
and whether the test in front of the recursive call also demands `module is not self` -/
structure Cfg where
  default : Option (List Nat)
  skipSelf : Bool

/-- the test in front of `module.star_imports()` -/
def recurses (cfg : Cfg) (v c : Nat) : Bool := !(cfg.skipSelf && c == v)

/-- the loop body over the star imports `cs` of `v`, given the results of the recursive calls
(one per import that passes the test, in order): `modules += module.star_imports()` (if tested),
then `modules += new` -/
def body (cfg : Cfg) (v : Nat) : List Nat → List (List Nat) → List Nat
  | [], _ => []
  | c :: cs, vals =>
    if recurses cfg v c then
      match vals with
      | r :: rs => r ++ c :: body cfg v cs rs
      | [] => c :: body cfg v cs []
    else c :: body cfg v cs vals

def graph (cfg : Cfg) (imports : Nat → List Nat) : Graph (List Nat) :=
  { deps := fun v => (imports v).filter (recurses cfg v),
    combine := fun v vals => body cfg v (imports v) vals,
    «default» := cfg.default }

/-- `module.star_imports()` on the memo `m` of the inference state -/
def starEval (cfg : Cfg) (imports : Nat → List Nat) (fuel : Nat) (m : Memo (List Nat)) (v : Nat) :
    Except Err (Memo (List Nat) × List Nat × Work) :=
  eval (graph cfg imports) fuel m v

/-- `k` nested diamonds: module `3i` star-imports `3i-1` and `3i-2`, which both star-import `3i-3` -/
def diamondImports (v : Nat) : List Nat :=
  if v = 0 then [] else if v % 3 = 0 then [v - 1, v - 2] else [v - v % 3]

/-- the ring `0 → 1 → … → n-1 → 0` -/
def ringImports (n : Nat) (v : Nat) : List Nat := [(v + 1) % n]

end JediModel.StarImports

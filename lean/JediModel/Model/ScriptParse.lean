/-! Which tree a `jedi.Script` works on (property C17, histories of ONE path).

Every `line` / `column` a Script reports is read off `Script._module_node`; the text the user sees
(`get_line_code()`, the buffer, the file) is `Script._code`.  The two come from one call in
`Script.__init__`:

```
if code is None:  code = open(path, 'rb').read()
self._module_node, code = inference_state.parse_and_get_code(code=code, path=self.path,
        cache=<policy>, diff_cache=settings.fast_parser, cache_path=settings.cache_directory)
self._code_lines = parso.split_lines(code, keepends=True); self._code = code
```

and parso's `Grammar.parse` (transcribed below: `load_module`, the `diff_cache` branch,
`try_to_save_module`) answers from caches keyed by the PATH - the in-memory `parser_cache` of the
process and the pickle in the cache directory - which are validated by time stamps only
(`p_time <= item.change_time`, `p_time > getmtime(pickle)`), never by the code that was handed in.

A text enters the model as a number (the model only compares texts); a tree is identified with the
text it was parsed from (`get_code()`; the from-scratch parser and the diff parser are assumed to
produce the tree of the lines they are given - re-checked by stream `leaves` and by the
correspondence stream `scriptparse`).  One path; time stamps are numbers. -/
namespace JediModel.ScriptParse

abbrev Text := Nat

/-- `_NodeCacheItem(node, lines, change_time)` -/
structure Item where
  changeTime : Nat
  lines : Text
  node : Text          -- the text of the cached tree
deriving DecidableEq, Repr

/-- the pickle of an item in `cache_path`, with the mtime of the pickle file -/
structure Pickle where
  pmtime : Nat
  item : Item
deriving DecidableEq, Repr

structure File where
  mtime : Nat
  content : Text
deriving DecidableEq, Repr

/-- what parso remembers for the path -/
structure Caches where
  mem : Option Item := none        -- `parser_cache[grammar._hashed][path]` of this process
  pickle : Option Pickle := none   -- the cache directory
deriving DecidableEq, Repr

/-- `parso.cache.load_module(hashed, file_io, cache_path)`; `ptime = file_io.get_last_modified()`
(`None`: no such file).  The pickle is only looked at on `KeyError`. -/
def loadModule (c : Caches) (ptime : Option Nat) : Option (Text × Caches) :=
  match ptime with
  | none => none
  | some pt =>
    match c.mem with
    | some it => if pt ≤ it.changeTime then some (it.node, c) else none
    | none =>
      match c.pickle with
      | some pk => if pt > pk.pmtime then none else some (pk.item.node, { c with mem := some pk.item })
      | none => none

/-- `try_to_save_module(..., pickling=cache)`: `_NodeCacheItem(module, lines, p_time)` with
`change_time = time.time()` when `p_time is None`; the pickle is written now -/
def save (cache : Bool) (c : Caches) (ptime : Option Nat) (now : Nat) (code : Text) : Caches :=
  let it : Item := { changeTime := (match ptime with | some t => t | none => now), lines := code, node := code }
  { mem := some it, pickle := if cache then some { pmtime := now, item := it } else c.pickle }

/-- `Grammar.parse(code=code, path=path, cache=cache, diff_cache=diff, cache_path=…)` for a path
that is not None: the text of the returned tree and the caches afterwards -/
def grammarParse (cache diff : Bool) (code : Text) (ptime : Option Nat) (now : Nat) (c : Caches) :
    Text × Caches :=
  match (if cache then loadModule c ptime else none) with
  | some r => r
  | none =>
    match (if diff then c.mem else none) with
    | some it =>
      if it.lines = code then (it.node, c)                 -- `old_lines == lines`
      else (code, save cache c ptime now code)             -- diff parser: the tree of the new lines
    | none => (code, if cache || diff then save cache c ptime now code else c)

/-- the `cache=` keyword of the parse call in `Script.__init__` -/
inductive Policy where
  | never       -- `cache=False`
  | fromDisk    -- a name bound to `code is None`
  | always      -- `cache=True`
deriving DecidableEq, Repr

def policyOf (s : String) : Option Policy :=
  if s = "never" then some .never else if s = "from-disk" then some .fromDisk
  else if s = "always" then some .always else none

structure Cfg where
  policy : Policy
  diff : Bool          -- `settings.fast_parser`
deriving DecidableEq, Repr

/-- the configuration for the strings / flags the translator read; an unknown policy is treated as
the most cache-friendly one -/
def cfgOf (policy : String) (diff : Bool) : Cfg :=
  ⟨match policyOf policy with | some p => p | none => .always, diff⟩

def Cfg.cacheFlag (cfg : Cfg) (fromDisk : Bool) : Bool :=
  match cfg.policy with
  | .never => false
  | .fromDisk => fromDisk
  | .always => true

/-- what a Script keeps: the text of `_module_node` and `_code` -/
structure Script where
  tree : Text
  code : Text
deriving DecidableEq, Repr

/-- `Script(code, path=p)` (`code = none`: `Script(path=p)`, jedi reads the file; no file:
`FileNotFoundError`, no Script) -/
def scriptInit (cfg : Cfg) (code : Option Text) (file : Option File) (now : Nat) (c : Caches) :
    Option Script × Caches :=
  match code, file with
  | none, none => (none, c)
  | none, some f =>
    let r := grammarParse (cfg.cacheFlag true) cfg.diff f.content (some f.mtime) now c
    (some ⟨r.1, f.content⟩, r.2)
  | some t, _ =>
    let r := grammarParse (cfg.cacheFlag false) cfg.diff t (file.map (·.mtime)) now c
    (some ⟨r.1, t⟩, r.2)

/-- one step of the history of a path -/
inductive Op where
  | write (content : Text) (mtime : Nat)     -- the writer chooses the mtime (`mv`, `cp -p`, `os.utime`)
  | remove
  | script (code : Option Text) (now : Nat)  -- `jedi.Script(code, path=p)` at clock `now`
  | parse (cache diff : Bool) (code : Option Text) (now : Nat)
                                             -- `grammar.parse(code=…, path=p, cache=…, diff_cache=…)` itself
  | restart                                  -- a new process: `parser_cache` is empty, pickles stay
deriving DecidableEq, Repr

structure World where
  file : Option File := none
  caches : Caches := {}
deriving DecidableEq, Repr

/-- the Script (or bare tree, as a Script whose code is what was parsed) a step produces -/
def step (cfg : Cfg) (w : World) : Op → Option Script × World
  | .write t m => (none, { w with file := some ⟨m, t⟩ })
  | .remove => (none, { w with file := none })
  | .restart => (none, { w with caches := { w.caches with mem := none } })
  | .script code now =>
    let r := scriptInit cfg code w.file now w.caches
    (r.1, { w with caches := r.2 })
  | .parse cache diff code now =>
    match code, w.file with
    | none, none => (none, w)
    | none, some f =>
      let r := grammarParse cache diff f.content (some f.mtime) now w.caches
      (some ⟨r.1, f.content⟩, { w with caches := r.2 })
    | some t, _ =>
      let r := grammarParse cache diff t (w.file.map (·.mtime)) now w.caches
      (some ⟨r.1, t⟩, { w with caches := r.2 })

def run (cfg : Cfg) : World → List Op → List (Option Script)
  | _, [] => []
  | w, op :: ops => (step cfg w op).1 :: run cfg (step cfg w op).2 ops

def worldAfter (cfg : Cfg) : World → List Op → World
  | w, [] => w
  | w, op :: ops => worldAfter cfg (step cfg w op).2 ops

/-- the history consists of file operations and `Script(...)` constructions only -/
def Op.isUserOp : Op → Bool
  | .parse .. => false
  | _ => true

/-- every cached item holds the tree of its own lines -/
def Caches.WF (c : Caches) : Prop :=
  (∀ it, c.mem = some it → it.node = it.lines) ∧ (∀ pk, c.pickle = some pk → pk.item.node = pk.item.lines)

end JediModel.ScriptParse

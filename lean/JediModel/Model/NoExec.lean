/-! Model of the only path from a jedi query to a real `__import__`:
`jedi/inference/imports.py` (`import_module`, `_load_builtin_module`, `_load_python_module`),
`jedi/api/project.py:Project._get_base_sys_path`, `jedi/inference/compiled/access.py:load_module`,
`jedi/inference/compiled/subprocess/functions.py:get_module_info`.

The finder (`_find_module`: which file, if any, a name resolves to) is a parameter `Found`;
the outcome of the real import is a parameter `ImpOutcome`. -/
namespace JediModel.NoExec

/-- what `compiled_subprocess.get_module_info` reports for the last name -/
inductive Found
  | notFound     -- `is_pkg is None`
  | source       -- a `FileIO` with source code (any `.py`, whatever it is called)
  | noSource     -- `file_io_or_ns is None`: builtin, extension module, sourceless `.pyc`
  | namespace    -- `ImplicitNSInfo`
deriving DecidableEq, Repr

/-- what `import_module` does with the name -/
inductive Action
  | nothing                                     -- `NO_VALUES`
  | parse                                       -- `_load_python_module`: read and parse only
  | namespaceValue
  | realImport (dotted : String) (path : List String)  -- `access.load_module(dotted, sys_path=path)`
  | internalError                               -- `import_names[0]` on an empty tuple
deriving DecidableEq, Repr

/-- `Project._get_base_sys_path`: the environment's `sys.path` with the first `''` removed -/
def baseSysPath (envPath : List String) : List String := envPath.erase ""

/-- `_load_builtin_module` -/
def loadBuiltin (unsafeExt : Bool) (envPath sysPath : List String) (names : List String) : Action :=
  .realImport (".".intercalate names)
    (if unsafeExt then sysPath else sysPath.filter fun p => (baseSysPath envPath).contains p)

/-- `import_module` (`sysPath` = the `sys_path` argument, or `inference_state.get_sys_path()` when
it is `None`) -/
def importModule (auto : List String) (unsafeExt : Bool) (envPath sysPath : List String)
    (names : List String) (found : Found) : Action :=
  match names with
  | [] => .internalError
  | n0 :: _ =>
    if auto.contains n0 then loadBuiltin unsafeExt envPath sysPath names
    else match found with
      | .notFound => .nothing
      | .namespace => .namespaceValue
      | .noSource => loadBuiltin unsafeExt envPath sysPath names
      | .source => .parse

/-! ### the helper side: `sys.path` is swapped for the call and restored -/

/-- how the guarded call (`__import__` / `_find_module`) ends -/
inductive ImpOutcome
  | ok
  | raises (cls : String)   -- class of the exception
deriving DecidableEq, Repr

/-- the helper's `sys.path` binding: an object identity and its contents -/
structure PathObj where
  ident : Nat
  items : List String
deriving DecidableEq, Repr

structure HState where
  sysPath : PathObj
  seenDuringCall : Option PathObj := none   -- ghost: `sys.path` while the importer ran
deriving Repr

def isSub (cls : String) (handler : String) : Bool :=
  handler == cls || handler == "BaseException" ||
  (handler == "Exception" && cls != "KeyboardInterrupt" && cls != "SystemExit" && cls != "GeneratorExit")

inductive Result
  | value            -- normal return of a value
  | noneReturned     -- a handler returned `None` / `(None, None)`
  | propagates (cls : String)
deriving DecidableEq, Repr

/-- `swap; try: call  except <handlers>: return None  finally: [restore]` -/
def guardedCall (handlers : List String) (finallyRestores : Bool) (st : HState) (sp : PathObj)
    (o : ImpOutcome) : HState × Result :=
  let temp := st.sysPath
  let during : HState := { sysPath := sp, seenDuringCall := some sp }
  let res : Result := match o with
    | .ok => .value
    | .raises cls => if handlers.any (isSub cls) then .noneReturned else .propagates cls
  let after : HState := if finallyRestores then { during with sysPath := temp } else during
  (after, res)

/-- `functions.get_module_info`: the swap and the restore are both under `if sys_path is not None` -/
def getModuleInfo (handlers : List String) (finallyRestores : Bool) (st : HState)
    (sp : Option PathObj) (o : ImpOutcome) : HState × Result :=
  match sp with
  | some p => guardedCall handlers finallyRestores st p o
  | none =>
    ({ st with seenDuringCall := some st.sysPath },
      match o with
      | .ok => .value
      | .raises cls => if handlers.any (isSub cls) then .noneReturned else .propagates cls)

end JediModel.NoExec

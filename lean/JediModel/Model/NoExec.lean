/-! Model of the only path from a jedi query to a real `__import__`:
`jedi/inference/imports.py` (`import_module`, `_load_builtin_module`, `_load_python_module`),
`jedi/api/project.py:Project._get_base_sys_path`, `jedi/inference/compiled/access.py:load_module`,
`jedi/inference/compiled/subprocess/functions.py:get_module_info`.

The finder (`_find_module`: which file, if any, a name resolves to) is a parameter `Found`;
the outcome of the real import is a parameter `ImpOutcome`. -/
namespace JediModel.NoExec

/-- what `compiled_subprocess.get_module_info` reports for the last name -/
inductive Found
  | notFound     -- `is_pkg is None`
  | source       -- a `FileIO` with source code (any `.py`, whatever it is called)
  | noSource     -- `file_io_or_ns is None`: builtin, extension module, sourceless `.pyc`
  | namespace    -- `ImplicitNSInfo`
deriving DecidableEq, Repr

/-- what `import_module` does with the name -/
inductive Action
  | nothing                                     -- `NO_VALUES`
  | parse                                       -- `_load_python_module`: read and parse only
  | namespaceValue
  | realImport (dotted : String) (path : List String)  -- `access.load_module(dotted, sys_path=path)`
  | internalError                               -- `import_names[0]` on an empty tuple
deriving DecidableEq, Repr

/-- `Project._get_base_sys_path`: the environment's `sys.path` with the first `''` removed -/
def baseSysPath (envPath : List String) : List String := envPath.erase ""

/-- `_load_builtin_module` -/
def loadBuiltin (unsafeExt : Bool) (envPath sysPath : List String) (names : List String) : Action :=
  .realImport (".".intercalate names)
    (if unsafeExt then sysPath else sysPath.filter fun p => (baseSysPath envPath).contains p)

/-- `import_module` (`sysPath` = the `sys_path` argument, or `inference_state.get_sys_path()` when
it is `None`) -/
def importModule (auto : List String) (unsafeExt : Bool) (envPath sysPath : List String)
    (names : List String) (found : Found) : Action :=
  match names with
  | [] => .internalError
  | n0 :: _ =>
    if auto.contains n0 then loadBuiltin unsafeExt envPath sysPath names
    else match found with
      | .notFound => .nothing
      | .namespace => .namespaceValue
      | .noSource => loadBuiltin unsafeExt envPath sysPath names
      | .source => .parse

/-! ### the helper side: `sys.path` is swapped for the call and restored -/

/-- how the guarded call (`__import__` / `_find_module`) ends -/
inductive ImpOutcome
  | ok
  | raises (cls : String)   -- class of the exception
deriving DecidableEq, Repr

/-- the helper's `sys.path` binding: an object identity and its contents -/
structure PathObj where
  ident : Nat
  items : List String
deriving DecidableEq, Repr

structure HState where
  sysPath : PathObj
  seenDuringCall : Option PathObj := none   -- ghost: `sys.path` while the importer ran
deriving Repr

def isSub (cls : String) (handler : String) : Bool :=
  handler == cls || handler == "BaseException" ||
  (handler == "Exception" && cls != "KeyboardInterrupt" && cls != "SystemExit" && cls != "GeneratorExit")

inductive Result
  | value            -- normal return of a value
  | noneReturned     -- a handler returned `None` / `(None, None)`
  | propagates (cls : String)
deriving DecidableEq, Repr

/-- `swap; try: call  except <handlers>: return None  finally: [restore]` -/
def guardedCall (handlers : List String) (finallyRestores : Bool) (st : HState) (sp : PathObj)
    (o : ImpOutcome) : HState × Result :=
  let temp := st.sysPath
  let during : HState := { sysPath := sp, seenDuringCall := some sp }
  let res : Result := match o with
    | .ok => .value
    | .raises cls => if handlers.any (isSub cls) then .noneReturned else .propagates cls
  let after : HState := if finallyRestores then { during with sysPath := temp } else during
  (after, res)

/-- `functions.get_module_info`: the swap and the restore are both under `if sys_path is not None` -/
def getModuleInfo (handlers : List String) (finallyRestores : Bool) (st : HState)
    (sp : Option PathObj) (o : ImpOutcome) : HState × Result :=
  match sp with
  | some p => guardedCall handlers finallyRestores st p o
  | none =>
    ({ st with seenDuringCall := some st.sysPath },
      match o with
      | .ok => .value
      | .raises cls => if handlers.any (isSub cls) then .noneReturned else .propagates cls)

/-! ### the host side: jedi's own lazy `import` statements of optional dependencies

`jedi/inference/docstrings.py:_get_numpy_doc_string_cls` runs
`from numpydoc.docscrape import NumpyDocString` in the process that runs jedi, every time a
docstring is consulted.  What that statement can execute is decided by the search path it sees.
The finder (`provides d`: directory `d` holds a top-level `numpydoc`) is a parameter. -/

/-- how the function composes the `sys.path` the import statement sees (read from the source) -/
inductive PathShape
  | hostOnly        -- no write to `sys.path` in the function: the host's own path
  | hostThenExtra   -- `temp = sys.path; sys.path = temp + [p for p in extra if p not in temp]`
  | extraThenHost   -- `sys.path = extra + temp`
  | extraOnly       -- `temp, sys.path = sys.path, extra`
deriving DecidableEq, Repr

def PathShape.ofString : String → Option PathShape
  | "hostOnly" => some .hostOnly
  | "hostThenExtra" => some .hostThenExtra
  | "extraThenHost" => some .extraThenHost
  | "extraOnly" => some .extraOnly
  | _ => none

/-- the path the import statement is resolved against; `extra` = what the callers hand over
(the analysed project's sys path) -/
def searchPath (shape : PathShape) (hostPath extra : List String) : List String :=
  match shape with
  | .hostOnly => hostPath
  | .hostThenExtra => hostPath ++ extra.filter fun p => !hostPath.contains p
  | .extraThenHost => extra ++ hostPath
  | .extraOnly => extra

/-- the import system's path search: the first directory that provides the name -/
def provider (provides : String → Bool) (path : List String) : Option String := path.find? provides

/-- the host's state as far as this import is concerned -/
structure LazyState where
  loadedFrom : Option String := none   -- directory of the package now in `sys.modules`
  executed : List String := []          -- ghost: directories whose package code ran, in order
deriving DecidableEq, Repr

/-- one call of `_get_numpy_doc_string_cls` (a failing import is an `ImportError` the callers
swallow: `except Exception: return []`; a successful one leaves the package in `sys.modules`, so
the statement executes nothing the next time) -/
def lazyImport (shape : PathShape) (provides : String → Bool) (hostPath : List String)
    (st : LazyState) (extra : List String) : LazyState :=
  match st.loadedFrom with
  | some _ => st
  | none =>
    match provider provides (searchPath shape hostPath extra) with
    | some d => { loadedFrom := some d, executed := st.executed ++ [d] }
    | none => st

/-- a history of docstring look-ups, each made for a query with its own project sys path -/
def lazyHistory (shape : PathShape) (provides : String → Bool) (hostPath : List String)
    (st : LazyState) (extras : List (List String)) : LazyState :=
  extras.foldl (lazyImport shape provides hostPath) st

end JediModel.NoExec

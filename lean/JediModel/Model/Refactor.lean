import JediModel.Model.Tree
/-! Models for `inline` (jedi/api/refactoring/__init__.py) and `_replace`
(jedi/api/refactoring/extract.py).

1. the parenthesisation rule of `inline` (`jediParens`) against a specification table
   `needsParens` derived from Python's grammar (precedence level of the inlined expression
   vs. the level the syntactic slot of the reference requires);
2. `inline` itself: the chain of refusals, then the node → string map;
3. `_replace`: where the extracted line is inserted and what happens to the prefixes. -/
namespace JediModel.Refactor
open JediModel.Text JediModel.Tree

/-! ## 1. parentheses -/

/-- kind of the right-hand side that gets inlined: parso node type of `expr_stmt.get_rhs()`,
its binding strength (grammar level: the higher the tighter) and a sample text -/
structure Rhs where
  type : String
  level : Int
  sample : String
deriving DecidableEq, Repr

def allRhs : List Rhs := [
  ⟨"testlist_star_expr", -1, "a, b"⟩,
  ⟨"lambdef", 0, "lambda: a"⟩,
  ⟨"test", 1, "a if b else c"⟩,
  ⟨"or_test", 2, "a or b"⟩,
  ⟨"and_test", 3, "a and b"⟩,
  ⟨"not_test", 4, "not a"⟩,
  ⟨"comparison", 5, "a < b"⟩,
  ⟨"expr", 6, "a | b"⟩,
  ⟨"xor_expr", 7, "a ^ b"⟩,
  ⟨"and_expr", 8, "a & b"⟩,
  ⟨"shift_expr", 9, "a << b"⟩,
  ⟨"arith_expr", 10, "a + b"⟩,
  ⟨"term", 11, "a * b"⟩,
  ⟨"factor", 12, "-a"⟩,
  ⟨"power", 13, "a ** b"⟩,
  ⟨"atom_expr", 14, "t[b]"⟩,
  ⟨"atom", 15, "(a)"⟩,
  ⟨"name", 15, "a"⟩,
  ⟨"number", 15, "1"⟩,
  ⟨"string", 15, "'s'"⟩]

/-- the syntactic slot of a reference: type of `tree_name.parent`, whether that parent (when it
is a trailer) has a next sibling, the weakest level the slot accepts without changing the
parse, and a statement template (`X` marks the reference) -/
structure Ctx where
  name : String
  parent : String
  trailerNext : Bool
  /-- the previous sibling of the reference is the operator `**` -/
  dstar : Bool
  req : Int
  template : String
deriving DecidableEq, Repr

def allCtx : List Ctx := [
  ⟨"or-first", "or_test", false, false, 3, "y = X or q"⟩,
  ⟨"or-later", "or_test", false, false, 3, "y = q or X"⟩,
  ⟨"and-first", "and_test", false, false, 4, "y = X and q"⟩,
  ⟨"and-later", "and_test", false, false, 4, "y = q and X"⟩,
  ⟨"not", "not_test", false, false, 4, "y = not X"⟩,
  ⟨"cmp-first", "comparison", false, false, 6, "y = X < q"⟩,
  ⟨"cmp-later", "comparison", false, false, 6, "y = q < X"⟩,
  ⟨"bor-first", "expr", false, false, 6, "y = X | q"⟩,
  ⟨"bor-later", "expr", false, false, 7, "y = q | X"⟩,
  ⟨"xor-first", "xor_expr", false, false, 7, "y = X ^ q"⟩,
  ⟨"xor-later", "xor_expr", false, false, 8, "y = q ^ X"⟩,
  ⟨"band-first", "and_expr", false, false, 8, "y = X & q"⟩,
  ⟨"band-later", "and_expr", false, false, 9, "y = q & X"⟩,
  ⟨"shift-first", "shift_expr", false, false, 9, "y = X << q"⟩,
  ⟨"shift-later", "shift_expr", false, false, 10, "y = q << X"⟩,
  ⟨"arith-first", "arith_expr", false, false, 10, "y = X + q"⟩,
  ⟨"arith-later", "arith_expr", false, false, 11, "y = q - X"⟩,
  ⟨"term-first", "term", false, false, 11, "y = X * q"⟩,
  ⟨"term-later", "term", false, false, 12, "y = q * X"⟩,
  ⟨"factor", "factor", false, false, 12, "y = -X"⟩,
  ⟨"power-base", "power", false, false, 14, "y = X ** q"⟩,
  ⟨"power-exp", "power", false, false, 12, "y = q ** X"⟩,
  ⟨"subscripted", "atom_expr", false, false, 14, "y = X[0]"⟩,
  ⟨"called", "atom_expr", false, false, 14, "y = X(1)"⟩,
  ⟨"call-arg", "trailer", false, false, 0, "y = f(X)"⟩,
  ⟨"call-arg-then", "trailer", true, false, 0, "y = f(X).real"⟩,
  ⟨"index", "trailer", false, false, -1, "y = s[X]"⟩,
  ⟨"index-then", "trailer", true, false, -1, "y = s[X].real"⟩,
  ⟨"arglist", "arglist", false, false, 0, "y = f(X, 1)"⟩,
  ⟨"kwarg", "argument", false, false, 0, "y = f(k=X)"⟩,
  ⟨"star-arg", "argument", false, false, 0, "y = f(*X)"⟩,
  ⟨"dstar-arg", "argument", false, false, 0, "y = f(**X)"⟩,
  ⟨"star-expr", "star_expr", false, false, 6, "y = [*X]"⟩,
  ⟨"dict-dstar", "dictorsetmaker", false, true, 6, "y = {**X}"⟩,
  ⟨"dict-key", "dictorsetmaker", false, false, 0, "y = {X: 1}"⟩,
  ⟨"dict-value", "dictorsetmaker", false, false, 0, "y = {1: X}"⟩,
  ⟨"ternary-value", "test", false, false, 2, "y = X if q else r"⟩,
  ⟨"ternary-cond", "test", false, false, 2, "y = q if X else r"⟩,
  ⟨"ternary-else", "test", false, false, 0, "y = q if r else X"⟩,
  ⟨"lambda-body", "lambdef", false, false, 0, "y = lambda: X"⟩,
  ⟨"comp-iter", "sync_comp_for", false, false, 2, "y = [v for v in X]"⟩,
  ⟨"comp-if", "comp_if", false, false, 2, "y = [v for v in s if X]"⟩,
  ⟨"list-elem", "testlist_comp", false, false, 0, "y = [X, 1]"⟩,
  ⟨"tuple-elem", "testlist_comp", false, false, 0, "y = (X, 1)"⟩,
  ⟨"bare-tuple-elem", "testlist_star_expr", false, false, 0, "y = X, 1"⟩,
  ⟨"paren", "atom", false, false, -1, "y = (X)"⟩,
  ⟨"list-single", "atom", false, false, 0, "y = [X]"⟩,
  ⟨"set-single", "atom", false, false, 0, "y = {X}"⟩,
  ⟨"assign", "expr_stmt", false, false, -1, "y = X"⟩,
  ⟨"if", "if_stmt", false, false, 0, "if X: pass"⟩,
  ⟨"while", "while_stmt", false, false, 0, "while X: pass"⟩,
  ⟨"for-iter", "for_stmt", false, false, -1, "for v in X: pass"⟩,
  ⟨"slice", "subscript", false, false, 0, "y = s[X:1]"⟩,
  ⟨"index-list", "subscriptlist", false, false, 0, "y = s[X, 1]"⟩,
  ⟨"default", "param", false, false, 0, "def g(u=X): pass"⟩,
  ⟨"assert", "assert_stmt", false, false, 0, "assert X"⟩,
  ⟨"with", "with_item", false, false, 0, "with X as y: pass"⟩,
  ⟨"return", "return_stmt", false, false, -1, "def g():\n    return X"⟩]

/-- the parenthesisation rule of `inline` as read from the source by the translator:
`parts` = EXPRESSION_PARTS; `extra` = the other lists `X.parent.type in <list>` of the condition
(none in the original source); `dictRule` = the disjunct `X.parent.type == 'dictorsetmaker' and
X.get_previous_sibling() == '**'` is present; `attrSlot` = for a reference `obj.name` (final
trailer) the node `X` that is inspected is `obj.name`, not `name`. -/
structure ParenRule where
  parts : List String
  extra : List String
  dictRule : Bool
  attrSlot : Bool
deriving Repr

/-- the condition in `inline` (X = `tree_name`, or `replaced` in the fixed source):
`rhs.type == 'testlist_star_expr' or X.parent.type in EXPRESSION_PARTS
 [or X.parent.type in <extra>] [or X.parent.type == 'dictorsetmaker' and X.get_previous_sibling() == '**']
 or X.parent.type == 'trailer' and X.parent.get_next_sibling() is not None` -/
def jediParens (R : ParenRule) (rhsType parentType : String) (trailerNext dstar : Bool) : Bool :=
  rhsType == "testlist_star_expr" || R.parts.contains parentType || R.extra.contains parentType ||
    (R.dictRule && parentType == "dictorsetmaker" && dstar) ||
    (parentType == "trailer" && trailerNext)

/-- the specification: the inlined text must be parenthesised iff it binds weaker than the slot
requires (validated against CPython's parser for every row on every run) -/
def needsParens (c : Ctx) (r : Rhs) : Bool := decide (r.level < c.req)

def allPairs : List (Ctx × Rhs) := allCtx.flatMap fun c => allRhs.map fun r => (c, r)

/-- rows where the rule of `inline` is wrong: parentheses needed, none added -/
def unsoundPairs (R : ParenRule) : List (Ctx × Rhs) :=
  allPairs.filter fun p => needsParens p.1 p.2 && !jediParens R p.2.type p.1.parent p.1.trailerNext p.1.dstar

/-! ## 2. inline -/

/-- what `inline` looks at for one of the `names` -/
structure NameInfo where
  apiType : String
  hasTree : Bool
  isDef : Bool
  id : Nat
  pfx : Str
  parentType : String
  parentNext : Bool
  parentId : Nat
  dotTrailer : Bool
  firstPfx : Str
  before : List Nat
  /-- the previous sibling of the name is `**` -/
  prevDstar : Bool := false
  /-- for `obj.name`: type of the parent of the whole `obj.name`, whether that parent (a trailer) has
  a next sibling, whether `**` precedes `obj.name` -/
  slotParentType : String := ""
  slotParentNext : Bool := false
  slotPrevDstar : Bool := false

/-- what `inline` looks at for the defining statement -/
structure DefInfo where
  stmtType : String
  stmtId : Nat
  nDefined : Nat
  child1Type : String
  child1Value : Str
  child1Code : Str
  annLen : Nat
  ann2Value : Str
  rhsType : String
  rhsCode : Str
  stmtPfx : Str
  nextId : Nat
  nextPfx : Str
  nextType : String
  nextValue : Str

def mset (m : Map) (i : Nat) (s : Str) : Map := (m.filter (·.1 != i)) ++ [(i, s)]

/-- `_remove_indent_of_prefix`: `''.join(split_lines(prefix, keepends=True)[:-1])` -/
def removeIndentOfPrefix (p : Str) : Str := (splitLines p).dropLast.flatten

/-- `str.strip(' \t')` is empty -/
def blankSpTab (s : Str) : Bool := s.all fun c => c = ' ' || c = '\t'

/-- the fixed parts of the refusal messages, in source order -/
def refusals : List String := [
  "There is no name under the cursor",
  "Cannot inline imports, modules or namespaces",
  "Cannot inline builtins/extensions",
  "No definition found to inline",
  "Cannot inline a name with multiple definitions",
  "There are no references to this name",
  "Cannot inline a %s",
  "Cannot inline a statement with multiple definitions",
  "Cannot inline a statement that is defined by an annotation",
  "Cannot inline a statement with \"%s\""]

/-- does the reference get parentheses?  `replaced` = the name, or (fixed source only) the whole
`obj.name` when the name is the final `.name` trailer -/
def refParens (R : ParenRule) (d : DefInfo) (n : NameInfo) : Bool :=
  if R.attrSlot && n.dotTrailer && !n.parentNext then
    jediParens R d.rhsType n.slotParentType n.slotParentNext n.slotPrevDstar
  else jediParens R d.rhsType n.parentType n.parentNext n.prevDstar

def oneRef (R : ParenRule) (d : DefInfo) (m : Map) (n : NameInfo) : Map :=
  let s := if refParens R d n
    then ['('] ++ d.rhsCode ++ [')'] else d.rhsCode
  if n.dotTrailer then
    mset (n.before.foldl (fun m i => mset m i []) m) n.parentId (n.firstPfx ++ s)
  else mset m n.id (n.pfx ++ s)

/-- the refusals that depend on the names only (first six `raise`s) -/
def namesCheck (names : List NameInfo) : Option String :=
  if names.isEmpty then some "There is no name under the cursor"
  else if names.any (fun n => n.apiType == "module" || n.apiType == "namespace") then
    some "Cannot inline imports, modules or namespaces"
  else if names.any (fun n => !n.hasTree) then some "Cannot inline builtins/extensions"
  else if (names.filter (·.isDef)).length = 0 then some "No definition found to inline"
  else if (names.filter (·.isDef)).length > 1 then some "Cannot inline a name with multiple definitions"
  else if names.length = 1 then some "There are no references to this name"
  else none

/-- `first_child = expr_stmt.children[1]`, replaced by the `=` of a 4-child `annassign` -/
def firstChild (d : DefInfo) : String × Str :=
  if d.child1Type = "annassign" ∧ d.annLen = 4 then ("operator", d.ann2Value)
  else (d.child1Type, d.child1Value)

/-- the refusals that depend on the defining statement (last four `raise`s) -/
def stmtCheck (d : DefInfo) : Option String :=
  if d.stmtType ≠ "expr_stmt" then
    some ("Cannot inline a " ++ (if d.stmtType = "funcdef" then "function"
      else if d.stmtType = "classdef" then "class" else d.stmtType))
  else if d.nDefined > 1 then some "Cannot inline a statement with multiple definitions"
  else if ¬ (((firstChild d).1 = "operator" ∨ (firstChild d).1 = "keyword") ∧ (firstChild d).2 = ['=']) then
    if (firstChild d).1 = "annassign" then some "Cannot inline a statement that is defined by an annotation"
    else some ("Cannot inline a statement with \"" ++ String.ofList d.child1Code ++ "\"")
  else none

/-- the map `inline` builds once nothing is refused -/
def inlineMap (R : ParenRule) (names : List NameInfo) (d : DefInfo) : Map :=
  let m := mset ((names.filter (fun n => !n.isDef)).foldl (oneRef R d) []) d.stmtId
    (removeIndentOfPrefix d.stmtPfx)
  if blankSpTab d.nextPfx && (d.nextType == "newline" || d.nextValue == [';'])
  then mset m d.nextId [] else m

/-- `inline(inference_state, names)`; `d` describes the statement of the (single) definition.
`Except.error` = `RefactoringError(message)`. -/
def inline (R : ParenRule) (names : List NameInfo) (d : DefInfo) : Except String Map :=
  match namesCheck names with
  | some e => .error e
  | none => match stmtCheck d with
    | some e => .error e
    | none => .ok (inlineMap R names d)

/-- every node id `inline` may put into the map -/
def allowedKeys (names : List NameInfo) (d : DefInfo) : List Nat :=
  (names.filter (fun n => !n.isDef)).flatMap (fun n => n.id :: n.parentId :: n.before)
    ++ [d.stmtId, d.nextId]

/-! ## 3. `_replace` (extract) -/

/-- `jedi.common.indent_block(text, indention)` -/
def indentBlock (text indention : Str) : Str :=
  let body := (text.reverse.dropWhile (· = '\n')).reverse
  let tail := (text.reverse.takeWhile (· = '\n'))
  let lines := (String.ofList body).splitOn "\n"
  ("\n".intercalate (lines.map fun l => String.ofList indention ++ l)).toList ++ tail

/-- `lines = split_lines(prefix, keepends=True); [lines[:-1] = remaining_prefix];
lines[-1:-1] = [indent_block(extracted, lines[-1]) + '\n']; ''.join(lines)` -/
def insertBefore (ind : Str → Str → Str) (pfx : Str) (remaining : Option Str) (extracted : Str) :
    Option Str :=
  let lines := splitLines pfx
  match lines.getLast? with
  | none => none
  | some last =>
    let head := match remaining with
      | some rp => rp
      | none => lines.dropLast.flatten
    some (head ++ ind extracted last ++ ['\n'] ++ last)

/-- `_replace(nodes, expression_replacement, extracted, pos, insert_before_leaf, remaining_prefix)`
`same` = `first_node_leaf is insert_before_leaf` -/
def replaceMap (ind : Str → Str → Str) (same : Bool) (node0 : Nat) (firstPfx : Str)
    (insId : Nat) (insPfx insValue : Str) (rest : List Nat) (replacement extracted : Str)
    (remaining : Option Str) : Option Map :=
  match insertBefore ind insPfx (if same then remaining else none) extracted with
  | none => none
  | some ep =>
    let m : Map :=
      if same then mset [] node0 (ep ++ replacement)
      else
        let p := match remaining with
          | none => firstPfx
          | some rp => rp ++ ((splitLines firstPfx).getLast?.getD [])
        mset (mset [] node0 (p ++ replacement)) insId (ep ++ insValue)
    some (rest.foldl (fun m i => mset m i []) m)

end JediModel.Refactor

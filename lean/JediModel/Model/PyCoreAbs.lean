import JediModel.Model.PyCore
/-! The abstraction relation between run-time values and jedi's shapes. -/
namespace JediModel.PyCore

mutual
  /-- shape `s` describes value `v`: same kind, same creating statement; a tuple shape describes
  a tuple value of the same length whose every element is described by one of the shapes
  offered for that position -/
  def covers : Val → Shape → Bool
    | .int, .int => true
    | .str, .str => true
    | .func i, .func j => i == j
    | .cls i, .cls j => i == j
    | .inst i vs, .inst j ss => i == j && coversList vs ss
    | .bound r c m, .bound r' c' m' => covers r r' && c == c' && m == m'
    | .tuple vs, .tuple ss => coversList vs ss
    | _, _ => false
  def coversList : List Val → List (List Shape) → Bool
    | [], [] => true
    | v :: vs, s :: ss => coversAny v s && coversList vs ss
    | _, _ => false
  def coversAny : Val → List Shape → Bool
    | _, [] => false
    | v, s :: ss => covers v s || coversAny v ss
end

/-- the "class" a value/shape belongs to, as `Script.infer` presents it: builtin type name or the
creating statement -/
inductive Top where
  | int | str | tuple
  | func (id : Nat) | cls (id : Nat) | inst (id : Nat)
  | meth (cid : Nat) (m : Nat)
deriving DecidableEq, Repr

def Val.top : Val → Top
  | .int => .int | .str => .str | .tuple _ => .tuple
  | .func i => .func i | .cls i => .cls i | .inst i _ => .inst i
  | .bound _ c m => .meth c m

def Shape.top : Shape → Top
  | .int => .int | .str => .str | .tuple _ => .tuple
  | .func i => .func i | .cls i => .cls i | .inst i _ => .inst i
  | .bound _ c m => .meth c m

end JediModel.PyCore

/-! # The regex pre-filter of the project search (`search_in_file_ios` / `_check_fs`)

`search_in_file_ios` compiles `\b` + escape(name) + (`\b` unless complete) once; `_check_fs` reads a
file, decodes it (`python_bytes_to_unicode`), and parses it only if `regex.search` finds the pattern.
The filter has to be a NECESSARY condition for "the file defines the name".

Modelled: `regex.search` for exactly this family of patterns over an arbitrary alphabet `α` with a
word-character predicate `w` (python: `\w` of a str pattern = unicode alphanumerics and `_`; of a
bytes pattern or with `re.ASCII` = `[A-Za-z0-9_]`), and the step order of `_check_fs`, which decides
what `regex.search` sees: the decoded text (code points) or the raw bytes.  Python's type rule is an
explicit outcome: a str pattern on bytes (or the reverse) raises `TypeError` = `none`.
Core Lean only. -/
namespace JediModel.Prefilter

/-- `\b`: exactly one of the two neighbours is a word character (the ends of the subject count as
non-word) -/
def headWord {α} (w : α → Bool) (o : Option α) : Bool := match o with | some c => w c | none => false

def boundary {α} (w : α → Bool) (before after : Option α) : Bool :=
  headWord w before != headWord w after

/-- the pattern as transcribed from the source -/
structure Pattern where
  /-- `\b` before the name -/
  lead : Bool
  /-- the leading `\b` only if the name starts with a word character (shape after the proposed fix) -/
  leadGuarded : Bool
  /-- `\b` after the name unless `complete` -/
  trail : Bool
  trailGuarded : Bool
  deriving Repr, DecidableEq

/-- reads the translator's part list; `none` = a shape the model does not know -/
def patternOf : List String → Option Pattern
  | ["\\b", "escape(name)", "\\b unless complete"] => some ⟨true, false, true, false⟩
  | ["\\b if name starts with \\w", "escape(name)", "\\b unless complete if name ends with \\w"] =>
      some ⟨true, true, true, true⟩
  | _ => none

/-- is the leading / trailing `\b` part of the compiled pattern for this name? -/
def leadOn {α} (w : α → Bool) (p : Pattern) (name : List α) : Bool :=
  p.lead && (!p.leadGuarded || headWord w name.head?)
def trailOn {α} (w : α → Bool) (p : Pattern) (complete : Bool) (name : List α) : Bool :=
  p.trail && !complete && (!p.trailGuarded || headWord w name.getLast?)

/-- does the pattern match at this position: `prev` = the character before, `rest` = from here on -/
def matchHere {α} [BEq α] (w : α → Bool) (lead trail : Bool) (name : List α) (prev : Option α) (rest : List α) : Bool :=
  name.isPrefixOf rest &&
  (!lead || boundary w prev name.head?) &&
  (!trail || boundary w name.getLast? (rest.drop name.length).head?)

/-- `regex.search`: some position matches -/
def search {α} [BEq α] (w : α → Bool) (lead trail : Bool) (name : List α) : Option α → List α → Bool
  | prev, [] => matchHere w lead trail name prev []
  | prev, c :: cs => matchHere w lead trail name prev (c :: cs) || search w lead trail name (some c) cs

/-- in `_check_fs`: does `regex.search(code)` run after `code = python_bytes_to_unicode(code)`? -/
def searchSeesText (steps : List String) : Bool :=
  (steps.takeWhile (· != "search")).contains "decode"

/-- `[A-Za-z0-9_]` on a byte / code point number -/
def asciiWord (n : Nat) : Bool :=
  (48 ≤ n && n ≤ 57) || (65 ≤ n && n ≤ 90) || n == 95 || (97 ≤ n && n ≤ 122)

/-- the filter step of `_check_fs` for one file: `data` = the bytes read, `text` = what
`python_bytes_to_unicode` makes of them, `enc` = `str.encode('utf-8')` (for a bytes pattern),
`uw` = `\w` on code points, `asciiFlag` = re.ASCII given.  `none` = TypeError (str pattern on bytes or
bytes pattern on str), `some b` = the file is parsed iff `b`. -/
def passes (uw : Char → Bool) (enc : List Char → List Nat) (steps : List String) (p : Pattern) (isBytes asciiFlag : Bool)
    (complete : Bool) (name : List Char) (data : List Nat) (text : List Char) : Option Bool :=
  if !steps.contains "search" then some true            -- no filter at all
  else if searchSeesText steps then
    if isBytes then none
    else
      let w : Char → Bool := if asciiFlag then (fun c => asciiWord c.toNat) else uw
      some (search w (leadOn w p name) (trailOn w p complete name) name none text)
  else
    if isBytes then
      let nm := enc name
      some (search asciiWord (leadOn asciiWord p nm) (trailOn asciiWord p complete nm) nm none data)
    else none

/-! ### a concrete UTF-8 encoder for witnesses (code points below U+0800 are enough) -/
def utf8Char (c : Char) : List Nat :=
  let n := c.toNat
  if n < 128 then [n]
  else if n < 2048 then [192 + n / 64, 128 + n % 64]
  else if n < 65536 then [224 + n / 4096, 128 + (n / 64) % 64, 128 + n % 64]
  else [240 + n / 262144, 128 + (n / 4096) % 64, 128 + (n / 64) % 64, 128 + n % 64]

def utf8 (s : List Char) : List Nat := s.flatMap utf8Char

/-- a stand-in for python's unicode `\w` good enough for witnesses: ASCII word characters and every
code point from U+00C0 on (letters of Latin-1 and beyond) -/
def latinWord (c : Char) : Bool := asciiWord c.toNat || 192 ≤ c.toNat

end JediModel.Prefilter

import JediModel.Model.Nesting
/-! Members reached through references (C18, `full_name` clause).

`Script.infer()` / `Script.goto()` on `receiver.attr` hand out the Name of a definition that lives in
the body of some class along the receiver's MRO.  A class hierarchy is the list of its class
statements in source order: qualified path (the names of the lexically enclosing classes and its
own), bases (indices of earlier classes) and the names bound in its body (`def`s and nested classes).

jedi side (transcriptions):
* `mro`         — `ClassMixin.py__mro__` (jedi/inference/value/klass.py): the class itself, then for
  every base in order every class of the base's `py__mro__()` that is not listed yet (a plain
  depth-first listing, not C3);
* `lookup`      — attribute lookup on a class or an instance: one `ClassFilter` /
  `InstanceClassFilter` per class of the mro, the first one that has the name wins;
* `memberQual`  — `get_qualified_names` of the value found.  For access through the class it is the
  `MethodValue` (value/function.py: `class_context.get_qualified_names() + (name,)`, the class whose
  body holds the `def`), for access through an instance a `BoundMethod` (value/instance.py), a
  `ValueWrapper`: unless it defines `get_qualified_names` itself (`ownQual`, read by the translator)
  the call reaches the wrapped `MethodValue`.  `ownQual = true` stands for the other source of names a
  `BoundMethod` has: the class it was looked up through (`_class_context`).
* `memberFullName` — `BaseName.full_name` on top of it (module names, `_mapping`).

Python side: `__qualname__` of an object defined in a class body is the class's `__qualname__`
followed by its name (`defQualname`), whichever class it is fetched through. -/
namespace JediModel.Members
open JediModel.Nesting (applyMapping joinNames)

structure Cls where
  path : List String
  bases : List Nat
  members : List String
  deriving Repr, DecidableEq

abbrev Hier := List Cls

def Hier.basesOf (h : Hier) (c : Nat) : List Nat :=
  match h[c]? with
  | some k => k.bases
  | none => []

def Hier.pathOf (h : Hier) (c : Nat) : List String :=
  match h[c]? with
  | some k => k.path
  | none => []

def Hier.membersOf (h : Hier) (c : Nat) : List String :=
  match h[c]? with
  | some k => k.members
  | none => []

/-- `if cls_new not in mro: mro.append(cls_new)` over one base's mro -/
def addNew (acc new : List Nat) : List Nat :=
  new.foldl (fun a x => if a.contains x then a else a ++ [x]) acc

/-- `py__mro__` with fuel (bases are earlier classes: `h.length + 1` suffices) -/
def mroAux (h : Hier) : Nat → Nat → List Nat
  | 0, c => [c]
  | fuel + 1, c => (h.basesOf c).foldl (fun acc b => addNew acc (mroAux h fuel b)) [c]

def mro (h : Hier) (c : Nat) : List Nat := mroAux h (h.length + 1) c

/-- the class whose filter answers `attr` -/
def lookup (h : Hier) (c : Nat) (attr : String) : Option Nat :=
  (mro h c).find? fun d => (h.membersOf d).contains attr

/-- qualified names of the value a reference `<c or instance of c>.attr` infers to -/
def memberQual (ownQual : Bool) (h : Hier) (c : Nat) (attr : String) : Option (List String) :=
  match lookup h c attr with
  | none => none
  | some d => some ((if ownQual then h.pathOf c else h.pathOf d) ++ [attr])

def memberFullName (mapping : List (String × String)) (join : List String) (ownQual : Bool)
    (mods : List String) (h : Hier) (c : Nat) (attr : String) : Option (List String) :=
  (memberQual ownQual h c attr).map fun q => applyMapping mapping (joinNames join mods q)

/-- Python: `__qualname__` of the object bound to `attr` in the body of class `d` -/
def defQualname (h : Hier) (d : Nat) (attr : String) : List String := h.pathOf d ++ [attr]

end JediModel.Members

/-! # The time cache in front of the callee inference of `get_signatures`

Transcription of `jedi/api/helpers.py: cache_signatures` (computes the key, then infers) run through
`jedi/cache.py: signature_time_cache` (the dictionary `_time_caches['call_signatures_validity']`).
`get_signatures` of EVERY Script goes through it; the dictionary is global, so what one Script stored
is seen by the next Script.  The value is the inferred callee, which belongs to the tree of the
Script that computed it: `fresh` below.  Core Lean only. -/
namespace JediModel.SigCache

abbrev Pos := Nat × Nat

/-- second component of the key -/
inductive Mid where
  /-- a `re.Match` object (`before_bracket`): compares by identity, `id` = allocation number -/
  | obj (id : Nat)
  /-- the matched text (`before_bracket.group(0)`) -/
  | text (s : List Char)
  deriving DecidableEq, Repr

structure Key where
  path : String
  mid : Mid
  pos : Pos
  deriving DecidableEq, Repr

structure Cfg where
  /-- the key tuple holds the matched text instead of the match object -/
  textKey : Bool
  /-- `settings.call_signatures_validity` (clock ticks) -/
  validity : Nat
  deriving Repr

/-- one `cache_signatures(inference_state, context, bracket_leaf, code_lines, user_pos)` call -/
structure Req (V : Type) where
  /-- `context.get_root_context().py__file__()` -/
  path : Option String
  /-- `code_lines` (line endings included) -/
  lines : List (List Char)
  /-- `bracket_leaf.start_pos` (line 1-based) -/
  bracket : Pos
  /-- `user_pos` (line 1-based, validated by `validate_line_column`) -/
  cursor : Pos
  /-- `time.time()` when the asking Script was constructed (`Script.__init__` -> `clear_time_caches()`) -/
  scriptAt : Nat
  /-- `time.time()` during the call -/
  now : Nat
  /-- what `infer(inference_state, context, leaf)` yields on the tree of THIS Script -/
  fresh : V

structure State (V : Type) where
  /-- `_time_caches['call_signatures_validity']`: key -> (expiry, value) -/
  dct : List (Key × Nat × V) := []
  /-- number of match objects allocated so far -/
  nextObj : Nat := 0

/-- `re.match(r'.*\(', whole, re.DOTALL)`: greedy, so the longest prefix that ends in `(` -/
def upToLastParen : List Char → Option (List Char)
  | [] => none
  | c :: rest =>
    match upToLastParen rest with
    | some r => some (c :: r)
    | none => if c = '(' then some [c] else none

/-- `whole`; `none` = IndexError of `code_lines[line_index]` -/
def whole {V} (rq : Req V) : Option (List Char) :=
  let lineIndex := rq.cursor.1 - 1
  match rq.lines[lineIndex]? with
  | none => none
  | some l =>
    let beforeCursor := l.take rq.cursor.2
    -- code_lines[bracket_leaf.start_pos[0]:line_index]
    let otherLines := (rq.lines.drop rq.bracket.1).take (lineIndex - rq.bracket.1)
    some (otherLines.flatten ++ beforeCursor)

/-- the first `yield` of `cache_signatures`; `none` = `yield None  # Don't cache!` -/
def keyOf {V} (cfg : Cfg) (nextObj : Nat) (rq : Req V) (w : List Char) : Option Key :=
  match rq.path, upToLastParen w with
  | some p, some t => some ⟨p, if cfg.textKey then .text t else .obj nextObj, rq.bracket⟩
  | _, _ => none

def lookup {V} (k : Key) : List (Key × Nat × V) → Option (Nat × V)
  | [] => none
  | (k', e) :: rest => if k' = k then some e else lookup k rest

def store {V} (k : Key) (e : Nat × V) (d : List (Key × Nat × V)) : List (Key × Nat × V) :=
  (k, e) :: d.filter (fun x => x.1 ≠ k)

/-- `signature_time_cache.wrapper`; answer `none` = the IndexError above -/
def call {V} (cfg : Cfg) (st : State V) (rq : Req V) : Option V × State V :=
  match whole rq with
  | none => (none, st)
  | some w =>
    let key := keyOf cfg st.nextObj rq w          -- key = next(generator)
    let st1 := { st with nextObj := st.nextObj + 1 }
    match key with
    | none => (some rq.fresh, st1)                -- dct[None]: KeyError; `if key is not None` fails
    | some k =>
      let miss : Option V × State V :=
        (some rq.fresh, { st1 with dct := store k (rq.now + cfg.validity, rq.fresh) st.dct })
      match lookup k st.dct with
      | some (expiry, v) => if expiry > rq.now then (some v, st1) else miss
      | none => miss

/-- `cache.clear_time_caches()` (called by `Script.__init__`): `if t < time.time(): del tc[key]` -/
def newScript {V} (st : State V) (now : Nat) : State V :=
  { st with dct := st.dct.filter fun e => !decide (e.2.1 < now) }

/-- a new Script is constructed, then asked -/
def request {V} (cfg : Cfg) (st : State V) (rq : Req V) : Option V × State V :=
  call cfg (newScript st rq.scriptAt) rq

/-- successive requests (a new Script each, any paths) against the one global dictionary -/
def run {V} (cfg : Cfg) : State V → List (Req V) → List (Option V)
  | _, [] => []
  | st, rq :: rest => (request cfg st rq).1 :: run cfg (request cfg st rq).2 rest

/-- what the property demands of each request on its own: the callee of the analysed source -/
def demanded {V} (rq : Req V) : Option V := (whole rq).map fun _ => rq.fresh

end JediModel.SigCache

import JediModel.Model.Match
import JediModel.Model.Walk
/-! Model of the search front end (property C19):

* `splitSearchString` — `jedi/api/helpers.py:split_search_string`
* `searchFilter`      — the final loop of `jedi/api/completion.py:search_in_module` for a search
                        string without dots (`wanted_names` has one element; the dotted case goes
                        through inference and is outside the model)
* `skipDuplicates`    — `jedi/api/project.py:_try_to_skip_duplicates`
* `projectSearch`     — `Project._search_func` steps 1 and 2 on the events of `Walk.walkRoot`; the file
                        branch of step 1 (where `file_ios.append` stands) is a parameter transcribed
                        from the source by the translator

`lower` is CPython's `str.lower` (parameter). -/
namespace JediModel.Search
open JediModel.Walk JediModel.Match

/-- `s.rpartition(' ')` as `some (before, after)`; `none` when there is no space -/
def rpartSpace : Str → Option (Str × Str)
  | [] => none
  | c :: cs =>
    match rpartSpace cs with
    | some (b, a) => some (c :: b, a)
    | none => if c = ' ' then some ([], cs) else none

/-- `s.split('.')` -/
def splitDot : Str → List Str
  | [] => [[]]
  | c :: cs =>
    if c = '.' then [] :: splitDot cs
    else match splitDot cs with
      | [] => [[c]]
      | w :: ws => (c :: w) :: ws

def applyAlias (alias : List (Str × Str)) (t : Str) : Str :=
  match alias.find? (·.1 == t) with
  | some p => p.2
  | none => t

/-- `split_search_string(name)` → `(type, dotted_names.split('.'))` -/
def splitSearchString (alias : List (Str × Str)) (s : Str) : Str × List Str :=
  match rpartSpace s with
  | some (t, d) => (applyAlias alias t, splitDot d)
  | none => (applyAlias alias [], splitDot s)

/-- what the filter looks at in a name: `string_name`, the `.type` of the resulting
`classes.Name` / `Completion`, and the identity used by `_try_to_skip_duplicates`:
`treeId` = identity of `tree_name` (`none` for names without one: modules),
`modPath` = `module_path` -/
structure Nm where
  str : Str
  type : Str
  treeId : Option Nat
  modPath : Option Str
  line : Nat
deriving Repr, DecidableEq

def nameMatches (lower : Str → Str) (last : Str) (complete fuzzy : Bool) (n : Nm) : Bool :=
  if complete then pmatch (lower n.str) (lower last) fuzzy else lower n.str == lower last

def typeOk (wantedType : Str) (n : Nm) : Bool := wantedType == [] || wantedType == n.type

/-- final loop of `search_in_module` (no `SubModuleName`, `convert` is the identity on the
generated inputs) -/
def searchFilter (lower : Str → Str) (names : List Nm) (wantedType last : Str) (complete fuzzy : Bool) : List Nm :=
  names.filter fun n => nameMatches lower last complete fuzzy n && typeOk wantedType n

/-- `_try_to_skip_duplicates`: `seenTree` = `found_tree_nodes` (may contain `None`),
`seenMod` = `found_modules` -/
def skipLoop : List (Option Nat) → List Str → List Nm → List Nm
  | _, _, [] => []
  | seenTree, seenMod, d :: ds =>
    if d.treeId.isSome ∧ d.treeId ∈ seenTree then skipLoop seenTree seenMod ds
    else match (if d.type = "module".toList then d.modPath else none) with
      | some p =>
        if p ∈ seenMod then skipLoop seenTree seenMod ds
        else d :: skipLoop (d.treeId :: seenTree) (p :: seenMod) ds
      | none => d :: skipLoop (d.treeId :: seenTree) seenMod ds

def skipDuplicates (l : List Nm) : List Nm := skipLoop [] [] l

/-- per-path facts about the generated project that come from outside the walk model:
for a folder: the module name object of the package (`load_module_from_path(__init__.py)` /
namespace), for a file: its module name object, whether the regex finds the searched word in it,
and the definition names `get_module_names` + `_remove_imports` yields (already for the
requested `all_scopes`). -/
structure PathInfo where
  path : Str
  modName : Nm
  mentions : Bool
  names : List Nm
deriving Repr

def lookup (tbl : List PathInfo) (p : Str) : Option PathInfo := tbl.find? (·.path == p)

/-- last path component of an event path built by `osJoin` -/
def baseName (p : Str) : Str := ((p.reverse.takeWhile (· ≠ '/'))).reverse

/-! ### `Project._search_func`, step 1 and the collection of the files for step 2

```
file_ios = []
for folder_io, file_io in ios:
    if file_io is None:  <folder: named like the word or like word + '-stubs' → m = package, else continue>
    else:                <FILE BRANCH>
    yield from search_in_module(.., names=[m.name], ..)
for module_context in search_in_file_ios(inference_state, file_ios, name, ..): <identifiers>
```
The file branch is not fixed in the model: the translator transcribes it from the source as a
list of statements (`FileBranch`) over `append` (`file_ios.append(file_io)`), `load`
(`m = load_module_from_path(..)`), `continue` and one `if_named` (`if Path(file_io.path).name in
(name + '.py', name + '.pyi')`) with simple statements in both branches; `runBranch` executes it.
Which files reach step 2 is therefore read off the source, statement order included. -/

/-- (statement, then-branch, else-branch); the branches are only used by `if_named` -/
abbrev FileBranch := List (String × List String × List String)

/-- state of one pass through the file branch: was the file appended to `file_ios`, was `m`
assigned; the third component of a result says that the pass ended in `continue`.
`none` = a statement the model does not know. -/
def runSimple : List String → Bool × Bool → Option (Bool × Bool × Bool)
  | [], (c, l) => some (c, l, false)
  | s :: ss, (c, l) =>
    if s = "append" then runSimple ss (true, l)
    else if s = "load" then runSimple ss (c, true)
    else if s = "continue" then some (c, l, true)
    else none

def runBranch (named : Bool) : FileBranch → Bool × Bool → Option (Bool × Bool × Bool)
  | [], (c, l) => some (c, l, false)
  | (tag, th, el) :: rest, st =>
    match (if tag = "if_named" then runSimple (if named then th else el) st else runSimple [tag] st) with
    | some (c, l, true) => some (c, l, true)
    | some (c, l, false) => runBranch named rest (c, l)
    | none => none

/-- one file event: `some (collected, moduleHit)`: the file is appended to `file_ios` / the pass
reaches `yield from search_in_module(.., names=[m.name])` with `m` assigned in this pass.
`none`: unknown statement, or the `yield from` is reached without `m` being assigned in this pass
(python: `UnboundLocalError` or the module of an earlier pass — an error outcome here). -/
def fileStep (br : FileBranch) (named : Bool) : Option (Bool × Bool) :=
  match runBranch named br (false, false) with
  | some (c, _, true) => some (c, false)
  | some (c, true, false) => some (c, true)
  | some (_, false, false) => none
  | none => none

/-- is the file event named like the search word: `Path(file_io.path).name in (name + sfx, ..)` -/
def fileNamed (sfx : List Str) (name : Str) (ev : Ev) : Bool := sfx.any fun s => baseName ev.path == name ++ s

/-- the module hit of one event (`search_in_module` over `[m.name]`) -/
def moduleHit (lower : Str → Str) (tbl : List PathInfo) (wantedType name : Str) (complete : Bool) (ev : Ev) : List Nm :=
  match lookup tbl ev.path with
  | some i => searchFilter lower [i.modName] wantedType name complete false
  | none => []

def folderNamed (stubSfx : Str) (name : Str) (ev : Ev) : Bool :=
  baseName ev.path == name || baseName ev.path == name ++ stubSfx

/-- the step-1 loop with the file branch `fs` (`fileStep br`): `(module hits, file_ios)` -/
def step1 (fs : Bool → Option (Bool × Bool)) (sfx : List Str) (stubSfx : Str) (lower : Str → Str) (tbl : List PathInfo)
    (wantedType name : Str) (complete : Bool) : List Ev → Option (List Nm × List Str)
  | [] => some ([], [])
  | ev :: evs =>
    match step1 fs sfx stubSfx lower tbl wantedType name complete evs with
    | none => none
    | some (hits, files) =>
      if ev.isFile then
        match fs (fileNamed sfx name ev) with
        | none => none
        | some (collected, hit) =>
          some ((if hit then moduleHit lower tbl wantedType name complete ev else []) ++ hits,
                if collected then ev.path :: files else files)
      else
        some ((if folderNamed stubSfx name ev then moduleHit lower tbl wantedType name complete ev else []) ++ hits,
              files)

/-- step 1 as the property wants it (specification of `step1`, see `Lemmas.Search.step1_eq`):
modules / packages named like the first search word -/
def moduleHits (sfx : List Str) (stubSfx : Str) (lower : Str → Str) (tbl : List PathInfo) (wantedType name : Str)
    (complete : Bool) : List Ev → List Nm
  | [] => []
  | ev :: evs =>
    (if (if ev.isFile then fileNamed sfx name ev else folderNamed stubSfx name ev)
     then moduleHit lower tbl wantedType name complete ev else []) ++
      moduleHits sfx stubSfx lower tbl wantedType name complete evs

/-- step 2: identifiers in the files that mention the word, within the limits -/
def identifierHits (lower : Str → Str) (tbl : List PathInfo) (wantedType name : Str) (complete : Bool)
    (parseLimit openLimit : Nat) (files : List Str) : List Nm :=
  let infos := files.filterMap (lookup tbl)
  (searchInFileIos (·.mentions) parseLimit openLimit infos).flatMap
    fun i => searchFilter lower i.names wantedType name complete false

/-- `Project._search_func(string, complete, all_scopes)` for a string without dots, steps 1 and 2
and step 3 restricted to the project directory itself: `sysNames` = the module names
`iter_module_names` lists for the project root, which is on `sys.path` (the rest of `sys.path`
is outside the project directory and outside the model).  Step 3 does not consult the walk:
ignore rules do not apply to it.  `br`, `sfx`, `stubSfx`: the file branch of step 1, the module
file suffixes and the stub folder suffix as the translator read them. -/
def projectSearch (br : FileBranch) (sfx : List Str) (stubSfx : Str) (lower : Str → Str) (tbl : List PathInfo)
    (sysNames : List Nm) (parseLimit openLimit : Nat)
    (wantedType name : Str) (complete : Bool) (evs : List Ev) : Option (List Nm) :=
  match step1 (fileStep br) sfx stubSfx lower tbl wantedType name complete evs with
  | none => none
  | some (hits, files) =>
    some (skipDuplicates (hits ++
      identifierHits lower tbl wantedType name complete parseLimit openLimit files ++
      searchFilter lower sysNames wantedType name complete false))

end JediModel.Search

import JediModel.Model.Match
import JediModel.Model.Walk
/-! Model of the search front end (property C19):

* `splitSearchString` — `jedi/api/helpers.py:split_search_string`
* `searchFilter`      — the final loop of `jedi/api/completion.py:search_in_module` for a search
                        string without dots (`wanted_names` has one element; the dotted case goes
                        through inference and is outside the model)
* `skipDuplicates`    — `jedi/api/project.py:_try_to_skip_duplicates`
* `projectSearch`     — `Project._search_func` steps 1 and 2 on the events of `Walk.walkRoot`

`lower` is CPython's `str.lower` (parameter). -/
namespace JediModel.Search
open JediModel.Walk JediModel.Match

/-- `s.rpartition(' ')` as `some (before, after)`; `none` when there is no space -/
def rpartSpace : Str → Option (Str × Str)
  | [] => none
  | c :: cs =>
    match rpartSpace cs with
    | some (b, a) => some (c :: b, a)
    | none => if c = ' ' then some ([], cs) else none

/-- `s.split('.')` -/
def splitDot : Str → List Str
  | [] => [[]]
  | c :: cs =>
    if c = '.' then [] :: splitDot cs
    else match splitDot cs with
      | [] => [[c]]
      | w :: ws => (c :: w) :: ws

def applyAlias (alias : List (Str × Str)) (t : Str) : Str :=
  match alias.find? (·.1 == t) with
  | some p => p.2
  | none => t

/-- `split_search_string(name)` → `(type, dotted_names.split('.'))` -/
def splitSearchString (alias : List (Str × Str)) (s : Str) : Str × List Str :=
  match rpartSpace s with
  | some (t, d) => (applyAlias alias t, splitDot d)
  | none => (applyAlias alias [], splitDot s)

/-- what the filter looks at in a name: `string_name`, the `.type` of the resulting
`classes.Name` / `Completion`, and the identity used by `_try_to_skip_duplicates`:
`treeId` = identity of `tree_name` (`none` for names without one: modules),
`modPath` = `module_path` -/
structure Nm where
  str : Str
  type : Str
  treeId : Option Nat
  modPath : Option Str
  line : Nat
deriving Repr, DecidableEq

def nameMatches (lower : Str → Str) (last : Str) (complete fuzzy : Bool) (n : Nm) : Bool :=
  if complete then pmatch (lower n.str) (lower last) fuzzy else lower n.str == lower last

def typeOk (wantedType : Str) (n : Nm) : Bool := wantedType == [] || wantedType == n.type

/-- final loop of `search_in_module` (no `SubModuleName`, `convert` is the identity on the
generated inputs) -/
def searchFilter (lower : Str → Str) (names : List Nm) (wantedType last : Str) (complete fuzzy : Bool) : List Nm :=
  names.filter fun n => nameMatches lower last complete fuzzy n && typeOk wantedType n

/-- `_try_to_skip_duplicates`: `seenTree` = `found_tree_nodes` (may contain `None`),
`seenMod` = `found_modules` -/
def skipLoop : List (Option Nat) → List Str → List Nm → List Nm
  | _, _, [] => []
  | seenTree, seenMod, d :: ds =>
    if d.treeId.isSome ∧ d.treeId ∈ seenTree then skipLoop seenTree seenMod ds
    else match (if d.type = "module".toList then d.modPath else none) with
      | some p =>
        if p ∈ seenMod then skipLoop seenTree seenMod ds
        else d :: skipLoop (d.treeId :: seenTree) (p :: seenMod) ds
      | none => d :: skipLoop (d.treeId :: seenTree) seenMod ds

def skipDuplicates (l : List Nm) : List Nm := skipLoop [] [] l

/-- per-path facts about the generated project that come from outside the walk model:
for a folder: the module name object of the package (`load_module_from_path(__init__.py)` /
namespace), for a file: its module name object, whether the regex finds the searched word in it,
and the definition names `get_module_names` + `_remove_imports` yields (already for the
requested `all_scopes`). -/
structure PathInfo where
  path : Str
  modName : Nm
  mentions : Bool
  names : List Nm
deriving Repr

def lookup (tbl : List PathInfo) (p : Str) : Option PathInfo := tbl.find? (·.path == p)

/-- last path component of an event path built by `osJoin` -/
def baseName (p : Str) : Str := ((p.reverse.takeWhile (· ≠ '/'))).reverse

/-- step 1 of `Project._search_func`: modules / packages named like the first search word -/
def moduleHits (lower : Str → Str) (tbl : List PathInfo) (wantedType name : Str)
    (complete : Bool) : List Ev → List Nm
  | [] => []
  | ev :: evs =>
    let b := baseName ev.path
    let hit :=
      if ev.isFile then b == name ++ ".py".toList || b == name ++ ".pyi".toList
      else b == name || b == name ++ "-stubs".toList
    (if hit then
      match lookup tbl ev.path with
      | some i => searchFilter lower [i.modName] wantedType name complete false
      | none => []
    else []) ++ moduleHits lower tbl wantedType name complete evs

/-- step 2: identifiers in the files that mention the word, within the limits -/
def identifierHits (lower : Str → Str) (tbl : List PathInfo) (wantedType name : Str) (complete : Bool)
    (parseLimit openLimit : Nat) (files : List Str) : List Nm :=
  let infos := files.filterMap (lookup tbl)
  (searchInFileIos (·.mentions) parseLimit openLimit infos).flatMap
    fun i => searchFilter lower i.names wantedType name complete false

/-- `Project._search_func(string, complete, all_scopes)` for a string without dots, steps 1 and 2
and step 3 restricted to the project directory itself: `sysNames` = the module names
`iter_module_names` lists for the project root, which is on `sys.path` (the rest of `sys.path`
is outside the project directory and outside the model).  Step 3 does not consult the walk:
ignore rules do not apply to it. -/
def projectSearch (lower : Str → Str) (tbl : List PathInfo) (sysNames : List Nm) (parseLimit openLimit : Nat)
    (wantedType name : Str) (complete : Bool) (evs : List Ev) : List Nm :=
  let files := (evs.filter (·.isFile)).map (·.path)
  skipDuplicates (moduleHits lower tbl wantedType name complete evs ++
    identifierHits lower tbl wantedType name complete parseLimit openLimit files ++
    searchFilter lower sysNames wantedType name complete false)

end JediModel.Search

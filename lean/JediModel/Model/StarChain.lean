import JediModel.Model.Imports
/-! Model of `jedi/inference/value/module.py:ModuleMixin.star_imports` - which modules' names reach
a module through a CHAIN of `from … import *` statements - and, as the specification side, what
executing the modules does in Python: every `from .x import *` is resolved relative to the package
of the module that CONTAINS the statement (`importlib._bootstrap._resolve_name` with that module's
`__package__`), and copies the names of the target's namespace, which already holds what the target
star-imported itself.

A module is known by its absolute dotted name; `World` = which module a dotted name loads (the walk
over the dotted name and the finders are `Model/Imports`, theorems `walk_eq_pyImport` …).
Not modelled: `__all__`, underscore names, the recursion guard of `inference_state_method_cache([])`
on cyclic star imports (`fuel` bounds the length of a chain instead), the heuristic branch of
`Importer.__init__` for a relative import beyond the top-level package (Python raises ImportError
while executing that module, which the property does not judge). -/
namespace JediModel.StarChain
open JediModel.Imports

abbrev Name := List String

/-- `from <level dots><path> import *` -/
structure StarImp where
  level : Nat
  path : List String
  deriving DecidableEq, Repr

structure Mod where
  pkg : List String          -- `py__package__()` / `__package__`
  defs : List String         -- names the module binds itself
  stars : List StarImp       -- its star imports, in source order
  deriving DecidableEq, Repr

abbrev World := Name → Option Mod

/-- Python: the absolute name a star import in a module with `__package__ = pkg` asks for -/
def pyTarget (pkg : List String) (s : StarImp) : Option Name :=
  if s.level = 0 then some s.path
  else
    match resolveName pkg s.level s.path with
    | .ok r => some r
    | .error _ => none

/-- jedi: `Importer(import_path=i.get_paths()[-1], module_context=ctx, level=i.level).import_path`
where `pkg = ctx.get_value().py__package__()` -/
def jediTarget (pkg : List String) (s : StarImp) : Option Name :=
  if s.level = 0 ∨ s.level ≤ pkg.length then
    some (Importer.init s.path s.level pkg none []).importPath
  else none

/-- `ModuleMixin.star_imports` as a recursion over the modules of the chain.
`ownCtx = true` (the code): the recursive call is `module.star_imports()`, which builds
`module_context = self.as_context()` of THAT module, so its relative star imports are resolved
against its own package.  `ownCtx = false`: the context of the module the chain started in is
handed down (`ctxPkg`).  Order: `modules += module.star_imports()` for every followed module, then
`modules += new`. -/
def starImports (w : World) (ownCtx : Bool) : Nat → List String → Name → List Name
  | 0, _, _ => []
  | fuel + 1, ctxPkg, m =>
    match w m with
    | none => []
    | some md =>
      let pkg := if ownCtx then md.pkg else ctxPkg
      md.stars.flatMap fun s =>
        match jediTarget pkg s with
        | none => []
        | some t => if (w t).isSome then starImports w ownCtx fuel pkg t ++ [t] else []

/-- `module.star_imports()` of the module named `m` -/
def starImportsOf (w : World) (ownCtx : Bool) (fuel : Nat) (m : Name) : List Name :=
  match w m with
  | none => []
  | some md => starImports w ownCtx fuel md.pkg m

/-- names jedi sees in `m`: its own and those of every module of `star_imports()` -/
def jediVisible (w : World) (ownCtx : Bool) (fuel : Nat) (m : Name) : List String :=
  match w m with
  | none => []
  | some md => md.defs ++ (starImportsOf w ownCtx fuel m).flatMap fun t =>
      match w t with
      | some d => d.defs
      | none => []

/-! ## specification: what executing the modules binds -/

/-- `m` contains a star import that, resolved against `m`'s OWN package, loads `t` -/
def Link (w : World) (m t : Name) : Prop :=
  ∃ md s, w m = some md ∧ s ∈ md.stars ∧ pyTarget md.pkg s = some t ∧ (w t).isSome = true

/-- the names of `t` are copied into `m`: directly, or because they were copied into a module `m`
star-imports -/
inductive PyStar (w : World) : Name → Name → Prop
  | direct {m t : Name} : Link w m t → PyStar w m t
  | step {m t u : Name} : Link w m t → PyStar w t u → PyStar w m u

/-- the name `n` is bound in the namespace of `m` after `import m` -/
def PyVisible (w : World) (m : Name) (n : String) : Prop :=
  (∃ md, w m = some md ∧ n ∈ md.defs) ∨ ∃ t d, PyStar w m t ∧ w t = some d ∧ n ∈ d.defs

/-- a world given by a table -/
def worldOf (tbl : List (Name × Mod)) : World := fun n => (tbl.find? (fun e => e.1 = n)).map (·.2)

end JediModel.StarChain

/-! # Docstring literals: which string token becomes a docstring

Transcribes `jedi/parser_utils.py`
* `safe_literal_eval(value)`:
  `first_two = value[:2].lower()`; `if first_two[0] == 'f' or first_two in ('fr', 'rf'): return ''`;
  `return literal_eval(value)`
* `_clean_docstring_literal(value)` (called by `clean_scope_docstring` with the value of the
  string leaf `get_doc_node()` found, and by `find_statement_documentation`):
  `doc = safe_literal_eval(value)`; `if not isinstance(doc, str): return ''`; `return cleandoc(doc)`

The slice length and the letters are parameters (the translator reads them from the source; the
theorems instantiate them with `JediModel.Gen.C11.*`).  `ast.literal_eval` and `inspect.cleandoc` are
CPython: only the TYPE of the evaluated object enters the decision (`Evald`).

Python side: a string token is `prefix ++ quote ++ body ++ quote`; CPython accepts the prefixes
`legalPrefixes` (r, u, b, br, rb, f, fr, rf in every case, and none); the first statement of a
body is a docstring iff it is a `str` constant: no `b`, no `f` in the prefix. Core Lean only. -/
namespace JediModel.DocLit

abbrev Str := List Char

/-- what `ast.literal_eval(token)` does, as far as the decision can see it -/
inductive Evald where
  | str          -- yields a `str`
  | bytes        -- yields a `bytes`
  | notLiteral   -- raises ValueError (`JoinedStr`: an f-string is no literal)
  deriving DecidableEq, Repr

/-- outcome of `_clean_docstring_literal(value)` -/
inductive Outcome where
  | cleandoc   -- `cleandoc(<the evaluated str>)`: the literal is taken as docstring
  | emptyDoc   -- `''`: no docstring
  | raises     -- `first_two[0]` on an empty token (IndexError) or `literal_eval` raising
  deriving DecidableEq, Repr

/-- `str.lower()` (ASCII part; no other character lowers to an ASCII letter that occurs in the tests) -/
def lower (s : Str) : Str := s.map Char.toLower

/-- the guard of `safe_literal_eval`: `some true` = returns `''` without evaluating,
`some false` = goes on to `literal_eval(value)`, `none` = IndexError of `first_two[0]` -/
def skipsEval (n : Nat) (f1 : Char) (pairs : List Str) (value : Str) : Option Bool :=
  match lower (value.take n) with
  | [] => none
  | c :: rest => some (c == f1 || pairs.contains (c :: rest))

/-- `_clean_docstring_literal` -/
def cleanDocstringLiteral (n : Nat) (f1 : Char) (pairs : List Str) (value : Str) (ev : Evald) : Outcome :=
  match skipsEval n f1 pairs value with
  | none => .raises
  | some true => .emptyDoc          -- doc = '' is a str, cleandoc('') = ''
  | some false =>
    match ev with
    | .str => .cleandoc
    | .bytes => .emptyDoc           -- `not isinstance(doc, str)`
    | .notLiteral => .raises

/-- the source as it is written today (Props ties these to `Gen.C11`) -/
def jediCleanDocstringLiteral : Str → Evald → Outcome :=
  cleanDocstringLiteral 2 'f' [['f', 'r'], ['r', 'f']]

/-! ## Python side -/

def quotes : List Str := [['\''], ['"'], ['\'', '\'', '\''], ['"', '"', '"']]

def prefixBases : List Str :=
  [[], ['r'], ['u'], ['b'], ['b', 'r'], ['r', 'b'], ['f'], ['f', 'r'], ['r', 'f']]

def caseVariants : Str → List Str
  | [] => [[]]
  | c :: cs => (caseVariants cs).flatMap fun t => [c.toLower :: t, c.toUpper :: t]

/-- every string prefix the CPython tokenizer accepts (stream `pyprefix` compares with `compile`) -/
def legalPrefixes : List Str := prefixBases.flatMap caseVariants

def token (p q body : Str) : Str := p ++ q ++ body ++ q

def pyIsBytes (p : Str) : Bool := (lower p).contains 'b'
def pyIsFString (p : Str) : Bool := (lower p).contains 'f'

/-- CPython: the expression statement `token` at the start of a body sets `__doc__` -/
def pyIsDocstring (p : Str) : Bool := !pyIsBytes p && !pyIsFString p

/-- the type `ast.literal_eval` produces for a token with this prefix -/
def pyEvald (p : Str) : Evald :=
  if pyIsFString p then .notLiteral else if pyIsBytes p then .bytes else .str

end JediModel.DocLit

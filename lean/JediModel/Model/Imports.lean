import JediModel.Model.SysPath
/-! Model of `jedi/inference/imports.py` (`Importer.__init__` level rewriting,
`_level_to_base_import_path`, `Importer.follow`, `import_module_by_names`, `import_module`,
`infer_import`), `jedi/inference/sys_path.py` (`remove_python_path_suffix`,
`transform_path_to_dotted`) and, as the specification side, CPython's
`importlib._bootstrap._resolve_name` and `PathFinder`/`FileFinder` on a file-system model.

Paths are `Parts` (see `Model/SysPath`); `transform_path_to_dotted` works on the *strings*
(`List Char`) exactly like the code does, because its defect (F4) lives there. -/
namespace JediModel.Imports
open JediModel.SysPath (Parts pathStr)

/-! ## file system and CPython's path based finder (specification side) -/

structure FS where
  isFile : Parts → Bool
  isDir : Parts → Bool

inductive Found where
  | pkg (dir : Parts)          -- regular package `dir/__init__.py`, `__path__ = [dir]`
  | mod (file : Parts)         -- module file
  | ns (dirs : List Parts)     -- namespace package, `__path__ = dirs`
  deriving DecidableEq, Repr

/-- what `FileFinder.find_spec(name)` of one path entry answers -/
inductive InEntry where
  | pkg (dir : Parts)
  | mod (file : Parts)
  | portion (dir : Parts)
  | nothing
  deriving DecidableEq, Repr

/-- `FileFinder.find_spec`: a directory with `__init__.py` wins over `name.py`, which wins over a
bare directory (a namespace portion).  Only the `.py` suffix is modelled. -/
def findInEntry (fs : FS) (entry : Parts) (name : String) : InEntry :=
  let base := entry ++ [name]
  if fs.isFile (base ++ ["__init__.py"]) then .pkg base
  else if fs.isFile (entry ++ [name ++ ".py"]) then .mod (entry ++ [name ++ ".py"])
  else if fs.isDir base then .portion base
  else .nothing

/-- `PathFinder._get_spec(name, path)`: first entry with a real module wins, namespace portions
accumulate in order -/
def pyFindAcc (fs : FS) (name : String) : List Parts → List Parts → Option Found
  | [], acc => if acc.isEmpty then none else some (.ns acc)
  | e :: es, acc =>
    match findInEntry fs e name with
    | .pkg d => some (.pkg d)
    | .mod f => some (.mod f)
    | .portion d => pyFindAcc fs name es (acc ++ [d])
    | .nothing => pyFindAcc fs name es acc

def pyFind (fs : FS) (name : String) (path : List Parts) : Option Found := pyFindAcc fs name path []

/-- `module.__path__` -/
def Found.searchLocations : Found → Option (List Parts)
  | .pkg d => some [d]
  | .mod _ => none
  | .ns ds => some ds

/-- `import parent.n1.n2…` once `parent` is loaded (`_find_and_load` on each component) -/
def pyImportFrom (fs : FS) (parent : Found) : List String → Option Found
  | [] => some parent
  | n :: rest =>
    match parent.searchLocations with
    | none => none                                   -- "parent is not a package"
    | some locs =>
      match pyFind fs n locs with
      | none => none                                 -- ModuleNotFoundError
      | some f => pyImportFrom fs f rest

/-- `importlib.import_module('.'.join(names))` with `sys.path = sysPath` -/
def pyImport (fs : FS) (sysPath : List Parts) : List String → Option Found
  | [] => none
  | n :: rest =>
    match pyFind fs n sysPath with
    | none => none
    | some f => pyImportFrom fs f rest

inductive ResolveErr where
  | noParentPackage      -- "attempted relative import with no known parent package"
  | beyondTopLevel       -- "attempted relative import beyond top-level package"
  deriving DecidableEq, Repr

/-- `importlib._bootstrap._resolve_name(name, package, level)` for `level ≥ 1`
(`package` and `name` as lists of dotted components) -/
def resolveName (pkg : List String) (level : Nat) (name : List String) : Except ResolveErr (List String) :=
  if pkg.isEmpty then .error .noParentPackage
  else if pkg.length < level then .error .beyondTopLevel
  else .ok (pkg.take (pkg.length - (level - 1)) ++ name)

/-! ## jedi: level rewriting -/

/-- `os.path.dirname` / `os.path.basename` on an absolute path given by its parts -/
def dirname (d : Parts) : Parts := if d.length ≤ 1 then d else d.dropLast
def basename (d : Parts) : String := if d.length ≤ 1 then "" else d.getLastD ""

/-- the `for i in range(level - 1)` loop of `_level_to_base_import_path`; `none` = hit the root -/
def climb : Nat → Parts → Option Parts
  | 0, d => some d
  | k + 1, d => if dirname d = d then none else climb k (dirname d)

/-- `_level_to_base_import_path(project_path, directory, level)` → `(base_import_path, base_directory)`.

What the code does: `directory` is a `str` (`os.path.dirname(path)`) while `project_path` is a
`pathlib.Path`, so the test `d == project_path` of the `while True` loop is never true and the
loop runs up to the root and answers `(None, directory)`.  The only exception is a module without
a file and `level == 1`: then `d` *is* the `Path` object `project_path` and the answer is
`([], project_path)` (a `Path`, not a `str`).  `fileless` selects that case.
(Not modelled: the project path being the file-system root.) -/
def levelToBaseImportPath (fileless : Bool) (projectPath directory : Parts) (level : Nat) :
    Option (List String) × Option (Parts × Bool) :=
  match climb (level - 1) directory with
  | none => (none, none)
  | some d =>
    if fileless ∧ level = 1 then (some [], some (projectPath, false))
    else (none, some (d, true))

/-- state of an `Importer` after `__init__`; `fixedSysPath = some (d, isStr)`: `[d]` with `d` a
`str` (usable by the path finder) or a `Path` object (ignored by it) -/
structure Importer where
  importPath : List String
  fixedSysPath : Option (Parts × Bool)
  inferPossible : Bool
  deriving DecidableEq, Repr

/-- `Importer.__init__(import_path, module_context, level)`.
`pkg` = `module.py__package__()`, `file` = `module.py__file__()` -/
def Importer.init (importPath : List String) (level : Nat) (pkg : List String)
    (file : Option Parts) (projectPath : Parts) : Importer :=
  if level = 0 then { importPath := importPath, fixedSysPath := none, inferPossible := true }
  else if level ≤ pkg.length then
    let base := if level > 1 then pkg.take (pkg.length - (level - 1)) else pkg    -- base[:-level + 1]
    { importPath := base ++ importPath, fixedSysPath := none, inferPossible := true }
  else
    let directory := match file with
      | none => projectPath
      | some f => dirname f
    match levelToBaseImportPath file.isNone projectPath directory level with
    | (baseImportPath, baseDirectory) =>
      { importPath := match baseImportPath with
          | none => importPath
          | some b => b ++ importPath,
        fixedSysPath := baseDirectory,
        inferPossible := baseDirectory.isSome }

/-! ## jedi: the walk over the dotted name -/

/-- `parent_module_value.py__path__()`: a `ModuleValue` that is a package answers the directory of
its `__init__.py` (old-style `declare_namespace` files are not modelled), a module `None`, an
`ImplicitNamespaceValue` its paths -/
def Found.pyPath : Found → Option (List Parts)
  | .pkg d => some [d]
  | .mod _ => none
  | .ns ds => some ds

/-- `import_module(import_names, parent_module_value, sys_path)` below its caching decorator;
`find` = what `compiled_subprocess.get_module_info` answers -/
def importModule (find : String → List Parts → Option Found) (sysPath : List Parts)
    (parent : Option Found) (name : String) : List Found :=
  match parent with
  | none => (find name sysPath).toList
  | some p =>
    match p.pyPath with
    | none => []
    | some paths => (find name paths).toList

/-- the loop of `import_module_by_names`: `base = [None]`; every step is the union over `base` of
`import_module(names[:i+1], parent)`, which `import_module_decorator` answers from
`inference_state.module_cache` when the prefix is cached (`cache`; `Script._get_module` seeds it
with the analysed module under the name `transform_path_to_dotted` derived). -/
def walkFrom (find : String → List Parts → Option Found) (cache : List String → Option Found)
    (sysPath : List Parts) : List String → List (Option Found) → List String → List Found
  | _, base, [] => base.filterMap id
  | pref, base, n :: rest =>
    let valueSet := match cache (pref ++ [n]) with
      | some f => if base.isEmpty then [] else [f]
      | none => base.flatMap (fun parent => importModule find sysPath parent n)
    if valueSet.isEmpty then [] else walkFrom find cache sysPath (pref ++ [n]) (valueSet.map some) rest

def importModuleByNames (find : String → List Parts → Option Found) (cache : List String → Option Found)
    (sysPath : List Parts) (names : List String) : List Found :=
  walkFrom find cache sysPath [] [none] names

/-- `Importer.follow()`.  `sysPathMods` = the composed project path plus detected modifications
(see `SysPath.importSearchPath`); `cache` = `module_cache` (the stub cache is empty here). -/
def Importer.follow (imp : Importer) (find : String → List Parts → Option Found)
    (cache : List String → Option Found) (sysPathMods : List Parts) : List Found :=
  if imp.importPath.isEmpty then
    match imp.fixedSysPath with
    | some (d, _) => [.ns [d]]
    | none => []
  else if !imp.inferPossible then []
  else
    match cache imp.importPath with
    | some f => [f]
    | none =>
      let sp := match imp.fixedSysPath with
        | some (d, isStr) => if isStr then [d] else []     -- `PathFinder` skips entries that are not `str`
        | none => sysPathMods
      importModuleByNames find cache sp imp.importPath

/-- result of following an import name -/
inductive Target where
  | module (f : Found)
  | attr (of : Found) (name : String)      -- a name defined in that module
  deriving DecidableEq, Repr

/-- `infer_import` for `from <path> import <name>`: the attribute of the package first, then the
sub-module.  `defines m n` = module `m` binds the name `n` itself. -/
def inferFromImport (follow : List String → List Found) (defines : Found → String → Bool)
    (path : List String) (name : String) : List Target :=
  let values := follow path
  if values.isEmpty then []
  else
    let attrs := values.filterMap (fun v => if defines v name then some (Target.attr v name) else none)
    if !attrs.isEmpty then attrs
    else (follow (path ++ [name])).map Target.module

/-- Python: `from <path> import <name>` in a fresh interpreter -/
def pyFromImport (imp : List String → Option Found) (defines : Found → String → Bool)
    (path : List String) (name : String) : Option Target :=
  match imp path with
  | none => none
  | some m => if defines m name then some (.attr m name) else (imp (path ++ [name])).map Target.module

/-! ## `transform_path_to_dotted` -/

/-- `PurePath.suffix` of a file name -/
def suffixOf (name : List Char) : List Char :=
  let n := name.length
  match (List.range n).reverse.find? (fun i => name[i]? = some '.') with
  | some i => if 0 < i ∧ i < n - 1 then name.drop i else []
  | none => []

/-- `remove_python_path_suffix` on the last component (`suffixes` = `all_suffixes() + ['.pyi']`) -/
def removePythonPathSuffix (suffixes : List (List Char)) (name : List Char) : List Char :=
  let s := suffixOf name
  if s ≠ [] ∧ s ∈ suffixes then name.take (name.length - s.length) else name

/-- `re.sub(r'-stubs$', '', s)` (`$` also matches before a trailing newline; names here have none) -/
def stripStubs (s : List Char) : List Char :=
  if "-stubs".toList.isSuffixOf s then s.take (s.length - 6) else s

open JediModel.SysPath (splitSlash) in
/-- one round of the generator `iter_potential_solutions` for a sys.path entry `p`.
`sepFix`: the F4 repair (skip entries that are only a string prefix). `none` = the bare `return`. -/
def solutionFor (sepFix : Bool) (mp p : List Char) : Option (Option (List (List Char))) :=
  if p.isPrefixOf mp then
    let rest := mp.drop p.length
    let stripped := rest.head? = some '/'
    let rest' := if stripped then rest.drop 1 else rest
    if sepFix ∧ ¬stripped ∧ p.getLast? ≠ some '/' then some none            -- `continue`
    else if rest' = [] then some none
    else
      let split := splitSlash rest'
      if split.any (· = []) then none                                         -- `return`
      else some (some (split.map stripStubs))
  else some none

def iterSolutions (sepFix : Bool) (mp : List Char) : List (List Char) → List (List (List Char))
  | [] => []
  | p :: ps =>
    match solutionFor sepFix mp p with
    | none => []
    | some none => iterSolutions sepFix mp ps
    | some (some s) => s :: iterSolutions sepFix mp ps

/-- `sorted(solutions, key=len)[0]`: the first of the shortest -/
def firstShortest : List (List (List Char)) → Option (List (List Char))
  | [] => none
  | s :: rest =>
    match firstShortest rest with
    | none => some s
    | some t => if t.length < s.length then some t else some s

/-- `transform_path_to_dotted(sys_path, module_path)` → `(names | None, is_package)` -/
def transformPathToDotted (sepFix : Bool) (suffixes : List (List Char)) (sysPath : List (List Char))
    (modulePath : Parts) : Option (List (List Char)) × Bool :=
  match modulePath.getLast? with
  | none => (none, false)
  | some last =>
    let name := removePythonPathSuffix suffixes last.toList
    if name.head? = some '.' then (none, false)
    else
      let isPackage := name = "__init__".toList
      let mp : Parts := if isPackage then modulePath.dropLast else modulePath.dropLast ++ [String.ofList name]
      match firstShortest (iterSolutions sepFix (pathStr mp).toList sysPath) with
      | none => (none, false)
      | some s => (some s, isPackage)

end JediModel.Imports

/-! `.jedi/project.json` as a byte string on disk, and what a history of `Project.save()` calls
into ONE project directory leaves there.

`Project.save` opens the file with `open(path, mode)` and dumps the whole serialisation.  The only
thing that matters about the mode is whether it truncates an existing file (`'w'`, `'w+'`, `'x'` on a
missing file) or writes over its beginning and keeps the rest (`'r+'`, `os.open(O_WRONLY|O_CREAT)`
without `O_TRUNC`) or appends (`'a'`).  The serialisations themselves are arbitrary strings here:
what `json.dump` produces is a parameter (see `Model/SysPath.save` for its content). -/
namespace JediModel.ProjFile

abbrev Str := List Char

/-- how `open` treats an existing file -/
inductive Mode where
  | truncate      -- `'w'`: the file holds exactly what is written
  | overwrite     -- `'r+'` / `O_WRONLY|O_CREAT`: written from offset 0, the old tail stays
  | append        -- `'a'`: written behind the old content
deriving DecidableEq, Repr

/-- python's mode string -> what it does to an existing file; `none`: not a mode `save` may use
(read-only or unknown) -/
def modeOf : String → Option Mode
  | "w" => some .truncate
  | "wt" => some .truncate
  | "w+" => some .truncate
  | "r+" => some .overwrite
  | "a" => some .append
  | "a+" => some .append
  | _ => none

/-- one `save()`: the file (absent = `none`) after writing `new` -/
def write (m : Mode) (old : Option Str) (new : Str) : Str :=
  match m, old with
  | _, none => new
  | .truncate, some _ => new
  | .overwrite, some o => new ++ o.drop new.length
  | .append, some o => o ++ new

/-- a history of saves into one directory -/
def writeAll (m : Mode) (old : Option Str) : List Str → Option Str
  | [] => old
  | w :: ws => writeAll m (some (write m old w)) ws

/-- the history as the sequence of file contents a `load()` after every save sees -/
def trace (m : Mode) (old : Option Str) : List Str → List Str
  | [] => []
  | w :: ws => write m old w :: trace m (some (write m old w)) ws

end JediModel.ProjFile

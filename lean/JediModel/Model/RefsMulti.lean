import JediModel.Model.Refs
/-! The scan of `jedi/inference/references.py:find_references` over SEVERAL modules.

```
non_matching_reference_maps = {}                      # (*)
for module_context in potential_modules:
    for name_leaf in module_context.tree_node.get_used_names().get(search_name, []):
        new = _dictionarize(_find_names(module_context, name_leaf))
        if any(tree_name in found_names_dct for tree_name in new): ... merge ...
        else: ... remember under every key of new ...
```

A token is represented by what `_find_names` answers for it (`new`, a list of name ids that are
unique across the project); a module by the list of its same-spelled tokens in source order;
`potential_modules` by the list of modules in scan order.  Where statement (*) sits relative to the
outer loop is a parameter (`reset`): the translator reads it off the source
(`Gen.C05.nonMatchingResetPerModule`). -/
namespace JediModel.RefsMulti
open JediModel.Refs

/-- one iteration of the inner loop, for a token whose `_find_names` result is `new` -/
def stepA (st : ScanState) (new : List Nat) : ScanState :=
  if new.any (st.found.contains ·) then
    let found1 := insertAll st.found new
    let merged := st.nonMatching.filter fun kg => new.contains kg.1
    { found := merged.foldl (fun acc kg => insertAll acc kg.2) found1,
      nonMatching := st.nonMatching.filter fun kg => !new.contains kg.1 }
  else
    { found := st.found, nonMatching := st.nonMatching ++ new.map fun t => (t, new) }

/-- the inner loop over the tokens of one module -/
def scanTokens (toks : List (List Nat)) (st : ScanState) : ScanState := toks.foldl stepA st

/-- both loops; `reset = true` creates the map of non-matching references anew for every module -/
def scanModules (reset : Bool) (mods : List (List (List Nat))) (st : ScanState) : ScanState :=
  mods.foldl (fun st m => scanTokens m (if reset then { st with nonMatching := [] } else st)) st

/-- `find_references` on a project: `defining` = `_find_defining_names`, result = the found names -/
def refsMulti (reset : Bool) (defining : List Nat) (mods : List (List (List Nat))) : List Nat :=
  (scanModules reset mods { found := defining, nonMatching := [] }).found

end JediModel.RefsMulti

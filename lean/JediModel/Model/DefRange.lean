import JediModel.Model.Tree
/-! `BaseName.get_definition_start_position` / `get_definition_end_position`
(jedi/api/classes.py) over the leaf layout of `Model/Tree`.

A parso node is a contiguous run of the module's leaves; `node.start_pos` is the start of its first
leaf (behind that leaf's prefix), `node.end_pos` the end of its last leaf.  `spans` gives every leaf
of a laid-out sequence its `(start_pos, end_pos)`.  The definition of a name (parso
`Name.get_definition()`: the name's parent `funcdef`/`classdef`, the enclosing statement, ...; `None`
for a name that defines nothing) is a parameter: the run `defn` of leaves that contains the name. -/
namespace JediModel.DefRange
open JediModel.Text JediModel.Tree

/-- a leaf with its `start_pos` and `end_pos` -/
structure Span where
  leaf : LeafInfo
  start : Pos
  stop : Pos
deriving Repr

/-- lay out a leaf sequence from `p` -/
def spans (p : Pos) : List LeafInfo → List Span
  | [] => []
  | l :: ls =>
    let s := advance p l.pfx
    let e := advance s l.value
    ⟨l, s, e⟩ :: spans e ls

/-- where the layout ends -/
def endOf (p : Pos) : List LeafInfo → Pos
  | [] => p
  | l :: ls => endOf (advance (advance p l.pfx) l.value) ls

/-- how `get_definition_end_position` is written (read from the source by the translator) -/
structure Cfg where
  scopeTypes : List String     -- `if self.type in ("function", "class")`
  newlineType : String         -- `if last_leaf.type == "newline"`
  usesPreviousLeafEnd : Bool   -- `return last_leaf.get_previous_leaf().end_pos` (not `.start_pos`, not the newline's own end)
deriving Repr, DecidableEq

/-- `get_definition_start_position`: `definition.start_pos`, or the name's own start without a definition -/
def defStart (name : Span) (defn : Option (List Span)) : Option Pos :=
  match defn with
  | none => some name.start
  | some d => d.head?.map (·.start)

/-- `get_definition_end_position`.  `before`: the leaf in front of the definition in the module
(what `get_previous_leaf()` of a one-leaf definition would reach). -/
def defEnd (cfg : Cfg) (apiType : String) (name : Span) (before : Option Span) (defn : Option (List Span)) :
    Option Pos :=
  match defn with
  | none => some name.stop
  | some d =>
    match d.getLast? with
    | none => none
    | some last =>
      if cfg.scopeTypes.contains apiType then
        if last.leaf.type == cfg.newlineType then
          let prev := match d.dropLast.getLast? with
            | some q => some q
            | none => before
          prev.map fun q => if cfg.usesPreviousLeafEnd then q.stop else q.start
        else some last.stop
      else some last.stop

end JediModel.DefRange

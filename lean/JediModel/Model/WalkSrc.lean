import JediModel.Model.Search
import JediModel.Gen.C19
/-! The configuration of the walk / search model as the translator found it in the source. -/
namespace JediModel.Walk

/-- constants and the folder-filter conjunct list read from `jedi/inference/references.py` -/
def srcCfg : Cfg :=
  { ignoreFolders := JediModel.Gen.C19.ignoreFolders.map String.toList
    pySuffixes := JediModel.Gen.C19.pySuffixes.map String.toList
    gitignoreName := JediModel.Gen.C19.gitignoreName.toList
    conjuncts := JediModel.Gen.C19.folderFilterConjuncts
    fileConjuncts := JediModel.Gen.C19.fileFilterConjuncts
    skipPrefixes := JediModel.Gen.C19.gitignoreSkipPrefixes
    skipContains := JediModel.Gen.C19.gitignoreSkipContains }

/-- `def` ↦ `function` alias table of `split_search_string` -/
def srcAlias : List (Str × Str) :=
  JediModel.Gen.C19.searchTypeAlias.map fun p => (p.1.toList, p.2.toList)

end JediModel.Walk

namespace JediModel.Search

/-- the `else:` branch (file event) of the step-1 loop of `Project._search_func` as it stands in the source -/
def srcFileBranch : FileBranch := JediModel.Gen.C19.searchFileBranch

/-- `(name + '.py', name + '.pyi')` -/
def srcModuleSuffixes : List JediModel.Walk.Str := JediModel.Gen.C19.moduleFileSuffixes.map String.toList

/-- `stub_folder_name = name + '-stubs'` -/
def srcStubSuffix : JediModel.Walk.Str := JediModel.Gen.C19.stubFolderSuffix.toList

end JediModel.Search

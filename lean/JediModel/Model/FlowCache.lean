/-! # Model of jedi's per-node inference cache under predefined names (C02, loop unrolling)

`FunctionExecutionContext.get_yield_lazy_values` (jedi/inference/value/function.py) unrolls the
top-level `for <name> in <known sequence>` of a generator function: for every element it
*predefines* the loop variable (`context.predefine_names(for_stmt, {name: values})`) and infers the
yields of the loop again.  `infer_node` / `_infer_node_if_inferred` (jedi/inference/syntax_tree.py)
decide for every node whether it may be served from the per-(context, node) cache
(`_infer_node_cached`) or must be inferred afresh (`_infer_node`).

The model: the body of the unrolled loop is a list of assignments `local_i = <rhs>`; the
right-hand side is the loop variable, an earlier local, or a constant; every right-hand side
knows the if/for statements that enclose it (innermost first) and the names it mentions.  The
cache decision is transcribed statement by statement and parameterised by the two facts the
translator reads from the source (`Policy`).  Core Lean only. -/
namespace JediModel.FlowCache

abbrev Name := Nat
abbrev Val := Nat
abbrev FlowId := Nat

/-- right-hand side of an assignment in the loop body -/
inductive Src where
  | loopVar
  | loc (j : Nat)
  | const (c : Val)
deriving DecidableEq, Repr

/-- `local_i = <src>`; `flows`: ids of the if/for statements enclosing the right-hand side, innermost
first; `names`: the names the right-hand side mentions -/
structure Stmt where
  src : Src
  flows : List FlowId
  names : List Name
deriving DecidableEq, Repr

/-- what `_infer_node_if_inferred` does when an ancestor has predefined names -/
inductive AncestorRule where
  | always        -- `return _infer_node(context, element)`
  | ifMentions    -- only if the element mentions one of the predefined names
deriving DecidableEq, Repr

structure Policy where
  /-- `infer_node`: `if predefined_if_name_dict: return _infer_node(context, element)` for the
  nearest enclosing if/for statement -/
  directBypass : Bool
  rule : AncestorRule
deriving DecidableEq, Repr

/-- `context.predefined_names`: flow statement ↦ the names it predefines -/
abbrev Predefined := List (FlowId × List Name)

/-- the `while parent is not None` walk of `_infer_node_if_inferred` -/
def ancestorBypass (rule : AncestorRule) (pre : Predefined) (names : List Name) : List FlowId → Bool
  | [] => false
  | f :: rest =>
    match pre.lookup f with
    | some d =>
      match rule with
      | .always => true
      | .ifMentions => if names.any (fun n => d.contains n) then true
                       else ancestorBypass rule pre names rest
    | none => ancestorBypass rule pre names rest

/-- `infer_node` (not in analysis mode): is the node served from / stored into the cache? -/
def usesCache (pol : Policy) (pre : Predefined) (s : Stmt) : Bool :=
  match s.flows.head?.bind (fun f => pre.lookup f) with
  | some (_ :: _) => !pol.directBypass
  | _ => !ancestorBypass pol.rule pre s.names s.flows

/-- the cache of `_infer_node_cached`: statement index ↦ result -/
abbrev Cache := List (Nat × Option Val)

/-- run time: the value of `local_i` in the iteration whose loop value is `v` -/
def execLocal (body : List Stmt) (v : Val) : Nat → Nat → Option Val
  | 0, _ => none
  | fuel + 1, i =>
    match body[i]? with
    | none => none
    | some s =>
      match s.src with
      | .loopVar => some v
      | .const k => some k
      | .loc j => if j < i then execLocal body v fuel j else none

/-- jedi: inference of `local_i` while the loop variable is predefined as `v` -/
def inferLocal (pol : Policy) (pre : Predefined) (body : List Stmt) (v : Val) :
    Nat → Nat → Cache → Option Val × Cache
  | 0, _, c => (none, c)
  | fuel + 1, i, c =>
    match body[i]? with
    | none => (none, c)
    | some s =>
      if usesCache pol pre s then
        match c.lookup i with
        | some r => (r, c)
        | none =>
          let rc : Option Val × Cache :=
            match s.src with
            | .loopVar => (some v, c)
            | .const k => (some k, c)
            | .loc j => if j < i then inferLocal pol pre body v fuel j c else (none, c)
          (rc.1, (i, rc.1) :: rc.2)
      else
        match s.src with
        | .loopVar => (some v, c)
        | .const k => (some k, c)
        | .loc j => if j < i then inferLocal pol pre body v fuel j c else (none, c)

/-- `get_yield_lazy_values`: one inference of the yielded local per element of the sequence, the
loop variable `loopName` of the for statement `forId` predefined, the cache living on -/
def unrolled (pol : Policy) (forId : FlowId) (loopName : Name) (body : List Stmt) (y : Nat) :
    List Val → Cache → List (Option Val)
  | [], _ => []
  | v :: vs, c =>
    let rc := inferLocal pol [(forId, [loopName])] body v (body.length + 1) y c
    rc.1 :: unrolled pol forId loopName body y vs rc.2

/-- what the generator really yields, element by element -/
def executed (body : List Stmt) (y : Nat) (vs : List Val) : List (Option Val) :=
  vs.map (fun v => execLocal body v (body.length + 1) y)

end JediModel.FlowCache

/-! # Model of jedi's "give up" machinery (C15; reused by C16)

Transcribed from
* `jedi/inference/recursion.py`: `ExecutionRecursionDetector.push_execution/pop_execution`,
  `execution_recursion_decorator`, `execution_allowed`
* `jedi/inference/cache.py`: `_memoize_default`
* `jedi/inference/syntax_tree.py`: `_limit_value_infers`

Core Lean only.  Python's partial operations are explicit outcomes: `list.pop()` on an empty
list is `Err.index`, running out of Python stack (`RecursionError`) / not terminating is
`Err.fuel`. -/
namespace JediModel.Recursion

/-! ## 1. ExecutionRecursionDetector -/

/-- the four module-level settings of `recursion.py` -/
structure Limits where
  recursionLimit : Nat
  totalLimit : Nat
  perFnLimit : Nat
  perFnRecLimit : Nat
deriving Repr, DecidableEq

/-- what `push_execution(execution)` reads from its argument: `execution.tree_node`, whether the
root context is the builtins module, whether the root module is called `typing` -/
structure Exec where
  fn : Nat
  builtin : Bool
  typing : Bool
deriving Repr, DecidableEq

/-- the detector object. `parents` is `_parent_execution_funcs` with the most recent push at
the head (only `append`, `pop()` and `count` are used, so the orientation is unobservable);
`counts f` is `_funcdef_execution_counts.get(f, 0)` (`setdefault(f, 0)` is unobservable). -/
structure Det where
  level : Nat
  parents : List Nat
  counts : Nat → Nat
  execCount : Nat

def Det.fresh : Det := { level := 0, parents := [], counts := fun _ => 0, execCount := 0 }

/-- `push_execution`: returns the new state and `limit_reached` -/
def push (L : Limits) (d : Det) (e : Exec) : Det × Bool :=
  -- self._recursion_level += 1 ; self._parent_execution_funcs.append(funcdef)
  let d1 : Det := { d with level := d.level + 1, parents := e.fn :: d.parents }
  if e.builtin then (d1, false)
  else if d1.level > L.recursionLimit then (d1, true)
  else if d1.execCount ≥ L.totalLimit then (d1, true)
  else
    let d2 : Det := { d1 with execCount := d1.execCount + 1 }
    if d2.counts e.fn ≥ L.perFnLimit then
      (d2, if e.typing then false else true)
    else
      let d3 : Det := { d2 with counts := fun f => if f = e.fn then d2.counts f + 1 else d2.counts f }
      if d3.parents.count e.fn > L.perFnRecLimit then (d3, true) else (d3, false)

/-- `pop_execution`; `none` = `IndexError` from `list.pop()` (level is decremented after it) -/
def pop (d : Det) : Option Det :=
  match d.parents with
  | [] => none
  | _ :: ps => some { d with parents := ps, level := d.level - 1 }

inductive Op where
  | push (e : Exec)
  | pop
deriving Repr, DecidableEq

/-- one decision of a trace: for a push the `limit_reached` flag, for a pop whether it raised -/
inductive Ev where
  | pushed (e : Exec) (limitReached : Bool) (levelAfter : Nat) (nestedAfter : Nat)
  | popped
  | popError
deriving Repr, DecidableEq

def step (L : Limits) (d : Det) : Op → Det × Ev
  | .push e =>
    let r := push L d e
    (r.1, .pushed e r.2 r.1.level (r.1.parents.count e.fn))
  | .pop =>
    match pop d with
    | some d' => (d', .popped)
    | none => (d, .popError)

/-- run a trace of detector operations, logging every decision -/
def runTrace (L : Limits) : Det → List Op → Det × List Ev
  | d, [] => (d, [])
  | d, op :: ops =>
    let r := step L d op
    let rest := runTrace L r.1 ops
    (rest.1, r.2 :: rest.2)

/-- an execution that was let through (`limit_reached = False`) although not a builtin -/
def Ev.admittedNonBuiltin : Ev → Bool
  | .pushed e lim _ _ => !lim && !e.builtin
  | _ => false

/-- admitted, not builtin, not a `typing` function, of function `f` -/
def Ev.admittedOf (f : Nat) : Ev → Bool
  | .pushed e lim _ _ => !lim && !e.builtin && !e.typing && e.fn == f
  | _ => false

/-! ### the decorator: `execution_recursion_decorator` around function bodies that call
other decorated functions (`body f` = the executions started while executing `f`; cycles allowed) -/

structure Prog where
  body : Nat → List Nat
  builtin : Nat → Bool
  typing : Nat → Bool

def Prog.mk' (P : Prog) (f : Nat) : Exec := ⟨f, P.builtin f, P.typing f⟩

inductive Err where
  | fuel    -- Python's own stack exhausted / no termination
  | index   -- IndexError from list.pop()
deriving Repr, DecidableEq

/-- run the elements of a list left to right, threading the state, adding up the work -/
def seqList {σ : Type} (ex : σ → Nat → Except Err (σ × Nat)) : σ → List Nat → Except Err (σ × Nat)
  | d, [] => .ok (d, 0)
  | d, c :: cs =>
    match ex d c with
    | .error e => .error e
    | .ok (d1, w1) =>
      match seqList ex d1 cs with
      | .error e => .error e
      | .ok (d2, w2) => .ok (d2, w1 + w2)

/-- `wrapper(self)` of `execution_recursion_decorator`: push; body unless the limit is reached;
`finally: pop`. Result: final detector and the number of bodies entered. `fuel` bounds the
nesting depth of Python calls. -/
def exec (L : Limits) (P : Prog) : Nat → Det → Nat → Except Err (Det × Nat)
  | fuel, d, f =>
    match push L d (P.mk' f) with
    | (d1, true) =>
      match pop d1 with
      | none => .error .index
      | some d2 => .ok (d2, 0)
    | (d1, false) =>
      match fuel with
      | 0 => .error .fuel
      | fuel' + 1 =>
        match seqList (exec L P fuel') d1 (P.body f) with
        | .error e => .error e
        | .ok (d2, w) =>
          match pop d2 with
          | none => .error .index
          | some d3 => .ok (d3, w + 1)

/-! ## 2. `execution_allowed`: the statement-level re-entrancy guard alone -/

/-- the guard's stack is restored by `finally: pushed_nodes.pop()`: a child leaves it unchanged -/
def guardChild (st : List Nat) : Except Err (List Nat × Nat) → Except Err (List Nat × Nat)
  | .error e => .error e
  | .ok (_, w) => .ok (st, w)

/-- evaluation of a dependency graph guarded only by "is this node already on the stack":
`if node in pushed_nodes: yield False else: push; body; pop`. Returns the number of bodies
entered. -/
def evalGuard (deps : Nat → List Nat) : Nat → List Nat → Nat → Except Err (List Nat × Nat)
  | fuel, stack, v =>
    if v ∈ stack then .ok (stack, 0)
    else
      match fuel with
      | 0 => .error .fuel
      | fuel' + 1 =>
        match seqList (fun st c => guardChild st (evalGuard deps fuel' (v :: stack) c)) stack (deps v) with
        | .error e => .error e
        | .ok (_, w) => .ok (stack, w + 1)

/-! ## 3. `_memoize_default` over a dependency graph -/

/-- a memoised function `f(node)` whose body evaluates `f` on `deps node` (left to right) and
combines the results. `default = none` is `_NO_DEFAULT`. -/
structure Graph (Val : Type) where
  deps : Nat → List Nat
  combine : Nat → List Val → Val
  default : Option Val

abbrev Memo (Val : Type) := Nat → Option Val

def Memo.empty {Val : Type} : Memo Val := fun _ => none
def Memo.set {Val : Type} (m : Memo Val) (k : Nat) (v : Val) : Memo Val :=
  fun x => if x = k then some v else m x

/-- work counters: bodies entered (`function(obj, *args)` calls) and wrapper invocations -/
structure Work where
  bodies : Nat
  calls : Nat
deriving Repr, DecidableEq

def evalArgs {Val : Type} (ev : Memo Val → Nat → Except Err (Memo Val × Val × Work)) :
    Memo Val → List Nat → Except Err (Memo Val × List Val × Work)
  | m, [] => .ok (m, [], ⟨0, 0⟩)
  | m, c :: cs =>
    match ev m c with
    | .error e => .error e
    | .ok (m1, r, w1) =>
      match evalArgs ev m1 cs with
      | .error e => .error e
      | .ok (m2, rs, w2) => .ok (m2, r :: rs, ⟨w1.bodies + w2.bodies, w1.calls + w2.calls⟩)

/-- `if default is not _NO_DEFAULT: memo[key] = default` -/
def storeDefault {Val : Type} (G : Graph Val) (m : Memo Val) (v : Nat) : Memo Val :=
  match G.default with
  | some d => m.set v d
  | none => m

/-- `rv = function(...)` has evaluated the arguments; `memo[key] = rv; return rv` -/
def finishEval {Val : Type} (G : Graph Val) (v : Nat) :
    Except Err (Memo Val × List Val × Work) → Except Err (Memo Val × Val × Work)
  | .error e => .error e
  | .ok (m2, vals, w) =>
    let rv := G.combine v vals
    .ok (m2.set v rv, rv, ⟨w.bodies + 1, w.calls + 1⟩)

/-- `wrapper(obj, *args)` of `_memoize_default`:
`if key in memo: return memo[key]`; else `memo[key] = default` (unless `_NO_DEFAULT`);
`rv = function(...)`; `memo[key] = rv`; `return rv`. -/
def eval {Val : Type} (G : Graph Val) : Nat → Memo Val → Nat → Except Err (Memo Val × Val × Work)
  | fuel, m, v =>
    match m v with
    | some r => .ok (m, r, ⟨0, 1⟩)
    | none =>
      match fuel with
      | 0 => .error .fuel
      | fuel' + 1 => finishEval G v (evalArgs (eval G fuel') (storeDefault G m v) (G.deps v))

/-- ask several roots one after the other on the same memo (one Script, several queries) -/
def evalSeq {Val : Type} (G : Graph Val) (fuel : Nat) : Memo Val → List Nat → Except Err (Memo Val × List Val)
  | m, [] => .ok (m, [])
  | m, v :: vs =>
    match eval G fuel m v with
    | .error e => .error e
    | .ok (m1, r, _) =>
      match evalSeq G fuel m1 vs with
      | .error e => .error e
      | .ok (m2, rs) => .ok (m2, r :: rs)

/-- the memo-free meaning of a node, `fuel` levels deep -/
def den {Val : Type} (G : Graph Val) : Nat → Nat → Val
  | 0, v => G.combine v []
  | fuel + 1, v => G.combine v ((G.deps v).map (den G fuel))

/-! ## 4. `_limit_value_infers` -/

/-- `inference_state.inferred_element_counts`: `none` = no key (the `KeyError` branch) -/
abbrev Counts := Nat → Option Nat

def Counts.empty : Counts := fun _ => none

/-- one call of the wrapper for a context whose `tree_node` is `n`; `generous` = the context is
the builtins module (`maximum *= factor`). Returns the new counts and whether `func` is entered. -/
def limitStep (cap factor : Nat) (c : Counts) (n : Nat) (generous : Bool) : Counts × Bool :=
  match c n with
  | some k =>
    -- inferred_element_counts[n] += 1
    let k' := k + 1
    let c' : Counts := fun x => if x = n then some k' else c x
    let maximum := if generous then cap * factor else cap
    if k' > maximum then (c', false) else (c', true)
  | none =>
    -- except KeyError: inferred_element_counts[n] = 1 ; falls through to func(...)
    (fun x => if x = n then some 1 else c x, true)

/-- a sequence of wrapper calls `(node, generous)`: final counts and the per-call decisions -/
def limitRun (cap factor : Nat) : Counts → List (Nat × Bool) → Counts × List Bool
  | c, [] => (c, [])
  | c, (n, g) :: rest =>
    let r := limitStep cap factor c n g
    let t := limitRun cap factor r.1 rest
    (t.1, r.2 :: t.2)

/-- number of times the body was entered for node `n` -/
def enteredFor (n : Nat) : List (Nat × Bool) → List Bool → Nat
  | (k, _) :: cs, b :: bs => (if k = n ∧ b = true then 1 else 0) + enteredFor n cs bs
  | _, _ => 0

end JediModel.Recursion

import JediModel.Model.Text
/-! A parso-shaped syntax tree: leaves carry `(type, prefix, value)`, nodes carry
`(type, children)`.  `code` is parso's `get_code()`; `leaves` the leaf sequence;
`positions` assigns every leaf the `start_pos` parso's tokenizer assigns (the
position reached after the leaf's prefix); `render` is parso's
`RefactoringNormalizer` walk used by every jedi refactoring
(`grammar.refactor(module, node_to_str_map)`): a node or leaf that is a key of the
map is replaced by the mapped string, everything else is rendered recursively. -/
namespace JediModel.Tree
open JediModel.Text

inductive T where
  | leaf (id : Nat) (type : String) (pfx : Str) (value : Str)
  | node (id : Nat) (type : String) (children : List T)
deriving Repr

def T.id : T → Nat
  | .leaf i _ _ _ => i
  | .node i _ _ => i

def T.type : T → String
  | .leaf _ t _ _ => t
  | .node _ t _ => t

mutual
  /-- `NodeOrLeaf.get_code()` -/
  def code : T → Str
    | .leaf _ _ p v => p ++ v
    | .node _ _ cs => codeList cs
  def codeList : List T → Str
    | [] => []
    | c :: cs => code c ++ codeList cs
end

/-- a leaf as seen from outside: id, type, prefix, value -/
structure LeafInfo where
  id : Nat
  type : String
  pfx : Str
  value : Str
deriving Repr, DecidableEq

mutual
  def leaves : T → List LeafInfo
    | .leaf i t p v => [⟨i, t, p, v⟩]
    | .node _ _ cs => leavesList cs
  def leavesList : List T → List LeafInfo
    | [] => []
    | c :: cs => leaves c ++ leavesList cs
end

/-- start positions of a leaf sequence laid out from `p` -/
def layout (p : Pos) : List LeafInfo → List (LeafInfo × Pos)
  | [] => []
  | l :: ls =>
    let start := advance p l.pfx
    (l, start) :: layout (advance start l.value) ls

/-- `leaf.start_pos` for every leaf of a module tree (the module starts at (1, 0)) -/
def positions (t : T) : List (LeafInfo × Pos) := layout ⟨1, 0⟩ (leaves t)

/-- the node → string map of a refactoring, keyed by node id -/
abbrev Map := List (Nat × Str)

def Map.get? (m : Map) (i : Nat) : Option Str := (m.find? (·.1 == i)).map (·.2)

mutual
  /-- `RefactoringNormalizer.visit` / `visit_leaf` -/
  def render (m : Map) : T → Str
    | .leaf i _ p v => match m.get? i with
      | some s => s
      | none => p ++ v
    | .node i _ cs => match m.get? i with
      | some s => s
      | none => renderList m cs
  def renderList (m : Map) : List T → Str
    | [] => []
    | c :: cs => render m c ++ renderList m cs
end

end JediModel.Tree

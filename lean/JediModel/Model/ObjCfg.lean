import JediModel.Gen.C13
import JediModel.Model.ObjModel
/-! The configuration of `Model/ObjModel` read from the source by the translator (`Gen.C13`).
Kept apart from `Props/C13.lean` so that the driver still runs when a proof obligation breaks. -/
namespace JediModel.Props.C13
open JediModel.ObjModel
open JediModel.Gen

/-- the source as it is -/
def genCfg : Cfg :=
  { allowedDescr := C13.allowedDescriptorAccess
    allowedGetitem := C13.allowedGetitemTypes
    isDescriptorCond := C13.isDescriptorCond
    getAbsentCond := C13.getAbsentCond
    getEmptyCond := C13.getEmptyCond
    getNotInDirCond := C13.getNotInDirCond
    getitemRefuses := C13.getitemRefuses
    iterListRefuses := C13.iterListRefuses
    mixedUsesCompiled := C13.mixedGetitemUsesCompiled
    boolRefuses := C13.boolRefuses
    boolLookupOrder := C13.boolLookupOrder
    builtinMethodTypes := C13.builtinMethodTypes
    boolWalkMroOuter := C13.boolWalkMroOuter }

end JediModel.Props.C13

import JediModel.Model.Text
/-! `jedi/api/helpers.py:validate_line_column` — the wrapper around every position-taking
query method of `Script`.  Transcribed statement by statement; the comparison operators,
bounds, default expressions, the `endswith` table and the raised classes are *parameters*
(`Spec`) filled in by the translator from the source on every run, so the theorems in
`Props/C01.lean` are about the wrapper as it is written in the working tree.

Python's partial operation `self._code_lines[line - 1]` is explicit: `pyIndex` is Python list
indexing (negative indices count from the end, out of range = IndexError = `.internal`). -/
namespace JediModel.Validate
open JediModel.Text

inductive Outcome where
  | ok (line col : Int)            -- the wrapped function is called with (line, col)
  | raised (cls : String)          -- an explicit `raise cls(...)` of the wrapper
  | internal (what : String)       -- an exception from the wrapper's own indexing
deriving DecidableEq, Repr

structure Spec where
  /-- `line = max(len(lines), defaultLineMin) if line is None else line` -/
  defaultLineMin : Int
  /-- `lineLo (< | <=) line (< | <=) len(lines)` -/
  lineLo : Int
  lineLoStrict : Bool
  lineHiStrict : Bool
  /-- `lines[line - indexOffset]` -/
  indexOffset : Int
  /-- `if s.endswith(a): n -= x  elif s.endswith(b): n -= y ...` -/
  strip : List (Str × Nat)
  /-- `colLo (< | <=) column (< | <=) line_len` -/
  colLo : Int
  colLoStrict : Bool
  colHiStrict : Bool
  lineErr : String
  colErr : String
deriving Repr

/-- `a < b` or `a <= b` -/
def cmp (strict : Bool) (a b : Int) : Bool := if strict then decide (a < b) else decide (a ≤ b)

/-- Python `xs[i]` -/
def pyIndex {α : Type} (xs : List α) (i : Int) : Option α :=
  if 0 ≤ i then xs[i.toNat]?
  else if -(xs.length : Int) ≤ i then xs[((xs.length : Int) + i).toNat]?
  else none

/-- `len(s)` minus the first matching `endswith` entry -/
def lineLenWith (strip : List (Str × Nat)) (l : Str) : Int :=
  match strip.find? (fun e => e.1.isSuffixOf l) with
  | some e => (l.length : Int) - e.2
  | none => l.length

/-- the wrapper once `line` has its value -/
def validateAt (sp : Spec) (ls : List Str) (line : Int) (col : Option Int) : Outcome :=
  let n : Int := ls.length
  if !(cmp sp.lineLoStrict sp.lineLo line && cmp sp.lineHiStrict line n) then .raised sp.lineErr
  else match pyIndex ls (line - sp.indexOffset) with
    | none => .internal "IndexError"
    | some s =>
      let ll := lineLenWith sp.strip s
      let col := match col with
        | none => ll
        | some c => c
      if !(cmp sp.colLoStrict sp.colLo col && cmp sp.colHiStrict col ll) then .raised sp.colErr
      else .ok line col

def validate (sp : Spec) (ls : List Str) (line col : Option Int) : Outcome :=
  validateAt sp ls (match line with
    | none => max (ls.length : Int) sp.defaultLineMin
    | some l => l) col

end JediModel.Validate

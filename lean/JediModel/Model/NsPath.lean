/-! Model of the lookup of a sub-module of a pkgutil / pkg_resources style namespace package
(`__path__ = extend_path(__path__, __name__)`, `declare_namespace(__name__)`) in the long-lived helper
(property C09: a portion created later must be seen).

Transcribed from
* `jedi/inference/value/module.py: ModuleValue.py__path__` — for such a package the candidate
  directories are `os.path.join(s, name)` for every `s` of the sys path, **kept only if
  `os.path.isdir`** (`Cfg.filterIsdir`, read by the translator), `[dirname(__file__)]` when none is left;
* `jedi/inference/compiled/subprocess/functions.py: get_module_info / _find_module` — the top-level
  name is searched with `sys.path` := the sys path of the project (entries are NOT filtered), the
  sub-module with `path=` the candidates above, through `importlib.machinery.PathFinder`;
* importlib `PathFinder._path_importer_cache` / `_path_hooks` / `path_hook_for_FileFinder`:
  the first time a directory is met, `sys.path_importer_cache[d]` becomes a `FileFinder(d)` if `d`
  is a directory now, else `None` — and a `None` is never looked at again (only
  `importlib.invalidate_caches()` drops it); `PathFinder._get_spec`: entries in order, the first
  finder that has the module wins.  A `FileFinder` re-lists its directory when the directory's mtime
  changes (the harness gives every mutation a new directory mtime; finding
  C09-finder-stale-directory-listing otherwise).

The os.path arithmetic is done by the caller: a query carries the pairs `(s, os.path.join(s, name))`
in sys-path order.  Every existing directory `<s>/<name>` is a portion with the pkgutil `__init__.py`. -/
namespace JediModel.NsPath

abbrev Path := String

structure Cfg where
  filterIsdir : Bool     -- py__path__: `if os.path.isdir(other): paths.add(other)`
deriving DecidableEq, Repr

structure Fs where
  dirs : List Path := []
  files : List (Path × String) := []      -- (directory, module name): `<directory>/<name>.py`

def Fs.isdir (fs : Fs) (d : Path) : Bool := fs.dirs.contains d
def Fs.hasMod (fs : Fs) (d : Path) (m : String) : Bool := fs.isdir d && fs.files.contains (d, m)

/-- `sys.path_importer_cache` of the helper process, for the directories of the project -/
structure Finder where
  neg : List Path := []     -- `path_importer_cache[d] = None`
  pos : List Path := []     -- `path_importer_cache[d] = FileFinder(d)`

/-- `PathFinder._path_importer_cache(d)` + would its finder look into `d` now -/
def visit (fs : Fs) (fd : Finder) (d : Path) : Bool × Finder :=
  if fd.neg.contains d then (false, fd)
  else if fd.pos.contains d then (fs.isdir d, fd)
  else if fs.isdir d then (true, { fd with pos := d :: fd.pos })
  else (false, { fd with neg := d :: fd.neg })

/-- `PathFinder._get_spec(name, path)`: the first directory whose finder has `has d` -/
def walk (fs : Fs) (has : Path → Bool) : Finder → List Path → Option Path × Finder
  | fd, [] => (none, fd)
  | fd, d :: r =>
    let v := visit fs fd d
    if v.1 && has d then (some d, v.2) else walk fs has v.2 r

/-- `ModuleValue.py__path__` of a package whose `__init__.py` is the pkgutil / pkg_resources
boilerplate; `own` = the directory of that `__init__.py` -/
def nsPaths (cfg : Cfg) (fs : Fs) (entries : List (Path × Path)) (own : Path) : List Path :=
  let cands := entries.map (·.2)
  let paths := if cfg.filterIsdir then cands.filter fs.isdir else cands
  if paths.isEmpty then [own] else paths

structure Query where
  entries : List (Path × Path)     -- (sys.path entry `s`, `os.path.join(s, name)`) in sys-path order
  m : String

/-- the directory of `entries` that belongs to sys.path entry `s` -/
def portionOf (entries : List (Path × Path)) (s : Path) : Option Path :=
  (entries.find? (·.1 == s)).map (·.2)

/-- one Script resolving `name.m`: the package through the sys path, then `m` through `py__path__()`.
Returns the candidate list, the directory `m` was found in, and the finder state afterwards. -/
def resolve (cfg : Cfg) (fs : Fs) (fd : Finder) (q : Query) : (List Path × Option Path) × Finder :=
  let top := walk fs (fun s => match portionOf q.entries s with
                               | some d => fs.isdir d
                               | none => false) fd (q.entries.map (·.1))
  match top.1.bind (portionOf q.entries) with
  | none => (([], none), top.2)
  | some own =>
    let cands := nsPaths cfg fs q.entries own
    let r := walk fs (fun d => fs.hasMod d q.m) top.2 cands
    ((cands, r.1), r.2)

inductive Op
  | mkdir (d : Path)
  | rmdir (d : Path)                 -- with the files in it
  | addMod (d : Path) (m : String)
  | delMod (d : Path) (m : String)
  | query (q : Query)                -- a Script of the long-lived process resolves `name.m`
  | newProcess

structure State where
  fs : Fs := {}
  fd : Finder := {}

def step (cfg : Cfg) (st : State) : Op → State
  | .mkdir d => { st with fs := { st.fs with dirs := d :: st.fs.dirs } }
  | .rmdir d => { st with fs := { dirs := st.fs.dirs.filter (· != d),
                                  files := st.fs.files.filter (·.1 != d) } }
  | .addMod d m => { st with fs := { st.fs with files := (d, m) :: st.fs.files } }
  | .delMod d m => { st with fs := { st.fs with files := st.fs.files.filter (· != (d, m)) } }
  | .query q => { st with fd := (resolve cfg st.fs st.fd q).2 }
  | .newProcess => { st with fd := {} }

def run (cfg : Cfg) (st : State) (h : List Op) : State := h.foldl (step cfg) st

/-- what a brand-new process answers on the same files -/
def fresh (cfg : Cfg) (st : State) (q : Query) : Option Path := (resolve cfg st.fs {} q).1.2

/-- what the long-lived process answers -/
def answer (cfg : Cfg) (st : State) (q : Query) : Option Path := (resolve cfg st.fs st.fd q).1.2

/-- hypothesis of the partial theorem: whenever a Script looks, every sys.path ENTRY of the query exists -/
def EntriesExist (fs : Fs) (q : Query) : Prop := ∀ e ∈ q.entries, fs.isdir e.1 = true

def OpOk (st : State) : Op → Prop
  | .query q => EntriesExist st.fs q
  | _ => True

def AllEntriesExist (cfg : Cfg) (st : State) : List Op → Prop
  | [] => True
  | o :: r => OpOk st o ∧ AllEntriesExist cfg (step cfg st o) r

end JediModel.NsPath

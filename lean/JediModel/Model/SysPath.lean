/-! Model of `jedi/api/project.py`: `_remove_duplicates_from_path`, `Project._get_base_sys_path`,
`Project._get_sys_path`, `Project.__init__`, `Project.save`, `Project.load`.

A `pathlib.Path` is its tuple of `parts` (`('/', 'tmp', 'x')`; relative paths do not start with
`"/"`, `Path('.')` is `[]`).  A `str` is a `String`.  pathlib's parser / printer enter as the
executable functions `parsePath` / `pathStr`; the only law the theorems need
(`Path(str(p)) == p` for the project path) is an explicit hypothesis. -/
namespace JediModel.SysPath

abbrev Parts := List String

def isAbs (p : Parts) : Bool := p.head? == some "/"

/-- `str(PurePosixPath)` -/
def pathStr : Parts → String
  | [] => "."
  | "/" :: rest => "/" ++ "/".intercalate rest
  | ps => "/".intercalate ps

/-- `s.split('/')` on code points -/
def splitSlash : List Char → List (List Char)
  | [] => [[]]
  | c :: cs =>
    match splitSlash cs with
    | [] => [[]]
    | w :: ws => if c = '/' then [] :: w :: ws else (c :: w) :: ws

/-- `PurePosixPath(s).parts` for strings without a leading `//`: empty and `.` components vanish -/
def parsePath (s : String) : Parts :=
  let comps := ((splitSlash s.toList).filter (fun c => c ≠ [] ∧ c ≠ ['.'])).map String.ofList
  if s.toList.head? = some '/' then "/" :: comps else comps

/-- `Path.absolute()`: prepend the working directory, no normalisation -/
def absolute (cwd p : Parts) : Parts := if isAbs p then p else cwd ++ p

/-- `PurePath.parents`: proper prefixes, longest first; an absolute path stops at the root,
a relative one at `Path('.')`. -/
def parentsOf (p : Parts) : List Parts :=
  let lo := if isAbs p then 1 else 0
  ((List.range' lo (p.length - lo)).reverse).map (fun k => p.take k)

/-! ## `_remove_duplicates_from_path` -/

/-- the generator loop with its `used` set -/
def removeDupsLoop (used : List String) : List String → List String
  | [] => []
  | p :: ps => if p ∈ used then removeDupsLoop used ps else p :: removeDupsLoop (p :: used) ps

def removeDups (path : List String) : List String := removeDupsLoop [] path

/-! ## `_get_base_sys_path`: `sys_path.remove('')` drops the first `''` only -/
def baseSysPath (envSysPath : List String) : List String := envSysPath.erase ""

/-! ## `_get_sys_path` -/

/-- the attributes of a `Project` that `_get_sys_path` reads -/
structure Cfg where
  projPath : Parts
  sysPath : Option (List String)
  added : List String
  smart : Bool
  django : Bool

/-- what `_get_sys_path` reads from the inference state / the file system -/
structure World where
  envSysPath : List String           -- `environment.get_sys_path()`
  scriptPath : Option Parts          -- `inference_state.script_path` (absolute)
  buildout : List String             -- `map(str, discover_buildout_paths(..))` in iteration order
  hasInit : Parts → Bool             -- `parent_path.joinpath("__init__.py").is_file()`

/-- the upward `for parent_path in script_path.parents` loop, as a list of paths -/
def traverseParts (proj : Parts) (hasInit : Parts → Bool) (addInit : Bool) : List Parts → List Parts
  | [] => []
  | par :: rest =>
    if par = proj || !(decide (proj ∈ parentsOf par)) then []            -- break
    else if !addInit && hasInit par then traverseParts proj hasInit addInit rest   -- continue
    else par :: traverseParts proj hasInit addInit rest

def traversed (proj : Parts) (hasInit : Parts → Bool) (addInit : Bool) (script : Parts) : List Parts :=
  traverseParts proj hasInit addInit (parentsOf script)

def prefixedOf (c : Cfg) : List String :=
  (if c.smart then [pathStr c.projPath] else []) ++ (if c.django then [pathStr c.projPath] else [])

def baseOf (c : Cfg) (w : World) : List String :=
  match c.sysPath with
  | none => baseSysPath w.envSysPath
  | some l => l

/-- `suffixed += reversed(traversed)`; `rev` = the `reversed(...)` is there (from the source) -/
def traversedStrs (rev : Bool) (c : Cfg) (w : World) (addInit : Bool) (sp : Parts) : List String :=
  let t := (traversed c.projPath w.hasInit addInit sp).map pathStr
  if rev then t.reverse else t

def suffixedOf (rev : Bool) (c : Cfg) (w : World) (addParent addInit : Bool) : List String :=
  c.added ++
  (if c.smart then
    match w.scriptPath with
    | none => []
    | some sp => w.buildout ++ (if addParent then traversedStrs rev c w addInit sp else [])
   else [])

/-- `path = prefixed + sys_path + suffixed`: the operand names are read from the source -/
def compose (order : List String) (pre base suf : List String) : List String :=
  order.flatMap fun n =>
    if n = "prefixed" then pre else if n = "sys_path" then base else if n = "suffixed" then suf else []

/-- `Project._get_sys_path(inference_state, add_parent_paths, add_init_paths)` -/
def getSysPath (order : List String) (rev : Bool) (c : Cfg) (w : World) (addParent addInit : Bool) :
    List String :=
  removeDups (compose order (prefixedOf c) (baseOf c w) (suffixedOf rev c w addParent addInit))

/-- `Importer._sys_path_with_modifications`: a relative import outside the known package fixes the
search path to one directory; otherwise the composed path plus the detected `sys.path` edits -/
def importSearchPath (fixed : Option (List String)) (sysPath mods : List String) : List String :=
  match fixed with
  | some f => f
  | none => sysPath ++ mods

/-! ## `__init__`, `save`, `load` -/

/-- an element of a `sys_path` / `added_sys_path` argument: a `str` or a `pathlib.Path` -/
inductive Entry where
  | str (s : String)
  | path (p : Parts)
  deriving DecidableEq, Repr

/-- `str(entry)` -/
def Entry.toStr : Entry → String
  | .str s => s
  | .path p => pathStr p

inductive PyVal where
  | none
  | bool (b : Bool)
  | int (n : Int)
  | str (s : String)
  | strList (l : List String)
  | seq (l : List Entry)    -- a list / tuple of `str` and `Path` objects
  | path (p : Parts)        -- a `pathlib.Path` object
  | other                   -- any other object (an `Environment`, …)
  deriving DecidableEq, Repr

inductive Err where
  | typeError               -- not JSON serialisable / unexpected keyword / wrong argument type
  | keyError
  | wrongVersion
  deriving DecidableEq, Repr

/-- a `Project` instance: its `__dict__` in insertion order is `attrs` -/
structure Project where
  path : Parts
  envPath : PyVal           -- `none`, `str`, or `path`
  sysPath : Option (List String)
  smart : Bool
  unsafeExt : Bool
  django : Bool
  added : List String
  environment : Bool        -- has `get_environment()` stored `_environment` in the instance?
  deriving DecidableEq, Repr

def optList : Option (List String) → PyVal
  | Option.none => .none
  | some l => .strList l

/-- value of the attribute called `name` (the names are those assigned in `__init__`) -/
def Project.attr (p : Project) : String → PyVal
  | "_path" => .path p.path
  | "_environment_path" => p.envPath
  | "_sys_path" => optList p.sysPath
  | "_smart_sys_path" => .bool p.smart
  | "_load_unsafe_extensions" => .bool p.unsafeExt
  | "_django" => .bool p.django
  | "added_sys_path" => .strList p.added
  | _ => .other

/-- `dict(self.__dict__)`: the attributes assigned by `__init__` in order (`initAttrs`, from the
source), then `_environment` if it was set later -/
def Project.dict (initAttrs : List String) (p : Project) : List (String × PyVal) :=
  initAttrs.map (fun k => (k, p.attr k)) ++ (if p.environment then [("_environment", .other)] else [])

/-- `k.lstrip('_')` -/
def lstripUnderscore (k : String) : String := String.ofList (k.toList.dropWhile (· = '_'))

/-- `d[k] = v` on an insertion-ordered dict -/
def dictSet (d : List (String × PyVal)) (k : String) (v : PyVal) : List (String × PyVal) :=
  if d.any (·.1 = k) then d.map (fun kv => if kv.1 = k then (k, v) else kv) else d ++ [(k, v)]

def dictGet (d : List (String × PyVal)) (k : String) : Option PyVal :=
  (d.find? (·.1 = k)).map (·.2)

/-- can `json.dump` write this value, and what does `json.load` read back -/
def jsonRoundTrip : PyVal → Except Err PyVal
  | .path _ => .error .typeError
  | .seq l => if l.all (fun e => match e with | .str _ => true | .path _ => false)
      then .ok (.strList (l.map Entry.toStr)) else .error .typeError
  | .other => .error .typeError
  | v => .ok v

def jsonRoundTripDict : List (String × PyVal) → Except Err (List (String × PyVal))
  | [] => .ok []
  | (k, v) :: rest => do
    let v' ← jsonRoundTrip v
    let rest' ← jsonRoundTripDict rest
    pure ((k, v') :: rest')

/-- `Project.save()` followed by reading the file back with `json.load`: `(version, data)`.
`popped`: the keys removed with `data.pop(k, None)`. -/
def save (initAttrs popped : List String) (version : Int) (p : Project) :
    Except Err (Int × List (String × PyVal)) := do
  let data := (p.dict initAttrs).filter (fun kv => kv.1 ∉ popped)
  -- `{k.lstrip('_'): v for k, v in data.items()}`: a later equal key overwrites the value
  let data := data.foldl (fun d kv => dictSet d (lstripUnderscore kv.1) kv.2) []
  -- `data['path'] = str(data['path'])`
  let pth ← match dictGet data "path" with
    | some v => pure v
    | Option.none => throw Err.keyError
  let pstr := match pth with
    | .path q => pathStr q
    | .str s => s
    | _ => "?"
  let data := dictSet data "path" (.str pstr)
  let data ← jsonRoundTripDict data
  pure (version, data)

/-- `self._environment_path = environment_path`, after the optional `str()` -/
def initEnv (envStr : Bool) : Option PyVal → PyVal
  | some (.path q) => if envStr then .str (pathStr q) else .path q
  | some v => v
  | Option.none => PyVal.none

/-- `if isinstance(path, str): path = Path(path).absolute()`; `self._path = path` -/
def initPath (absAlways : Bool) (cwd : Parts) : Option PyVal → Except Err Parts
  | some (.str s) => pure (absolute cwd (parsePath s))
  | some (.path q) => pure (if absAlways then absolute cwd q else q)
  | _ => throw Err.typeError                                     -- missing / unusable `path`

/-- `Project.__init__(**kw)`. `params`: the keyword parameters of `__init__` (from the source).
`envStr`: does `__init__` apply `str()` to a given `environment_path` (the F5 repair)?
`absAlways`: does `__init__` make a `Path` argument absolute too (it always does so for a `str`)? -/
def init (params : List String) (envStr absAlways : Bool) (cwd : Parts) (kw : List (String × PyVal)) :
    Except Err Project := do
  if kw.any (fun kv => kv.1 ∉ params) then throw Err.typeError   -- unexpected keyword argument
  let path ← initPath absAlways cwd (dictGet kw "path")
  let env := initEnv envStr (dictGet kw "environment_path")
  let unsafeExt := match dictGet kw "load_unsafe_extensions" with
    | some (.bool b) => b
    | _ => false
  let sysPath ← match dictGet kw "sys_path" with
    | some (.strList l) => pure (some l)
    | some (.seq l) => pure (some (l.map Entry.toStr))             -- `list(map(str, sys_path))`
    | some .none => pure Option.none
    | Option.none => pure Option.none
    | _ => throw Err.typeError
  let added ← match dictGet kw "added_sys_path" with
    | some (.strList l) => pure l
    | some (.seq l) => pure (l.map Entry.toStr)
    | Option.none => pure []
    | _ => throw Err.typeError
  let smart := match dictGet kw "smart_sys_path" with
    | some (.bool b) => b
    | _ => true
  pure { path := path, envPath := env, sysPath := sysPath, smart := smart, unsafeExt := unsafeExt,
         django := false, added := added, environment := false }

/-- `Project.load(path)` on what `save` wrote -/
def load (params : List String) (envStr absAlways : Bool) (cwd : Parts)
    (file : Int × List (String × PyVal)) : Except Err Project :=
  if file.1 = 1 then init params envStr absAlways cwd file.2 else .error .wrongVersion

end JediModel.SysPath

import JediModel.Model.Tree
/-! The text-level effect of `jedi/api/refactoring/__init__.py:rename` on one file:
`file_tree_name_map[path][tree_name] = tree_name.prefix + new_name` for every reference,
rendered by parso's `RefactoringNormalizer` (`Tree.render`). -/
namespace JediModel.Tree
open JediModel.Text

/-- the map `rename` builds for the name leaves whose id is in `R` -/
def renameMap (R : List Nat) (new : Str) (t : T) : Map :=
  (leaves t).filterMap fun l => if R.contains l.id then some (l.id, l.pfx ++ new) else none

mutual
  /-- the tree with the value of exactly the leaves in `R` replaced by `new` -/
  def substT (R : List Nat) (new : Str) : T → T
    | .leaf i ty p v => .leaf i ty p (if R.contains i then new else v)
    | .node i ty cs => .node i ty (substList R new cs)
  def substList (R : List Nat) (new : Str) : List T → List T
    | [] => []
    | c :: cs => substT R new c :: substList R new cs
end

mutual
  /-- ids of the internal nodes -/
  def nodeIds : T → List Nat
    | .leaf _ _ _ _ => []
    | .node i _ cs => i :: nodeIdsList cs
  def nodeIdsList : List T → List Nat
    | [] => []
    | c :: cs => nodeIds c ++ nodeIdsList cs
end

end JediModel.Tree

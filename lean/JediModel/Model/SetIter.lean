/-! `ValueSet.iterate` (jedi/inference/base_value.py): iterating an expression whose inferred value
is a SET of iterables (`for x in (a if c else b)`, the union of several `return`s, a loop variable
ranging over a tuple of tuples ...).

```
type_iters = [c.iterate(...) for c in self._set]
for lazy_values in zip_longest(*type_iters):
    yield get_merged_lazy_value([l for l in lazy_values if l is not None])
```

Every member contributes the stream of its elements; the streams are merged position by position.
The model takes the streams as lists (what `c.iterate` yields for one member is a parameter) and the
name of the zipping function as read from the source. -/
namespace JediModel.SetIter

variable {α : Type}

/-- the heads of the streams that still have one (`[l for l in lazy_values if l is not None]`) -/
def heads (ss : List (List α)) : List α := ss.filterMap List.head?

/-- the streams after one step of `zip_longest`: an exhausted stream stays exhausted -/
def tails (ss : List (List α)) : List (List α) := ss.map List.tail

def maxLen : List (List α) → Nat
  | [] => 0
  | s :: ss => max s.length (maxLen ss)

def minLen : List (List α) → Nat
  | [] => 0
  | [s] => s.length
  | s :: ss => min s.length (minLen ss)

/-- `k` steps of `zip_longest(*streams)` with the `None` fillers dropped -/
def columnsFuel : Nat → List (List α) → List (List α)
  | 0, _ => []
  | k + 1, ss => heads ss :: columnsFuel k (tails ss)

/-- `itertools.zip_longest`: as many columns as the longest stream has elements -/
def zipLongest (ss : List (List α)) : List (List α) := columnsFuel (maxLen ss) ss

/-- `zip`: stops with the shortest stream -/
def zipShortest (ss : List (List α)) : List (List α) := columnsFuel (minLen ss) ss

/-- the zipping function by the name it has in the source -/
def zipperOf : String → Option (List (List α) → List (List α))
  | "zip_longest" => some zipLongest
  | "itertools.zip_longest" => some zipLongest
  | "zip" => some zipShortest
  | _ => none

/-- `iterate_values`: "ignores the ordering and just returns all values" -/
def allValues (cols : List (List α)) : List α := cols.flatten

end JediModel.SetIter

/-! # Model of `jedi/api/refactoring/extract.py:_find_non_global_names` and `_find_needed_output_variables`

Which of the names a statement selection binds does the extracted function hand back?

```
def _find_non_global_names(nodes):
    for node in nodes:
        try:
            children = node.children
        except AttributeError:
            if node.type == 'name':
                yield node
        else:
            # We only want to check foo in foo.bar
            if node.type == 'trailer' and node.children[0] == '.':
                continue
            yield from _find_non_global_names(children)

def _find_needed_output_variables(context, search_node, at_least_pos, return_variables):
    for node in search_node.children:
        if node.start_pos < at_least_pos:
            continue
        return_variables = set(return_variables)
        for name in _find_non_global_names([node]):
            if not name.is_definition() and name.value in return_variables:
                return_variables.remove(name.value)
                yield name.value

# in extract_function:
return_variables = list(_find_needed_output_variables(context, nodes[0].parent, nodes[-1].end_pos,
                                                      return_variables)) or [return_variables[-1]] \
    if return_variables else []
```

The walk is *data* (`Walk`, read from the source by the translator): does it pass over the attribute name of
`foo.bar`, and which part of the children of a node that opens a function scope (funcdef / lambdef) does the recursive
call get - all of them (the source) or all but the last one, the body (the variant of a seeded defect: a closure that
reads a variable of the enclosing function is then not seen).

A list of parso nodes is a forest in first-child / next-sibling form (`Forest`), so that the model is structurally
recursive.  Core Lean only. -/
namespace JediModel.ExtractOut

/-- a list of parso nodes -/
inductive Forest
  | done
  /-- a `name` leaf with `is_definition()`, then its later siblings -/
  | name (value : String) (isDef : Bool) (rest : Forest)
  /-- any other leaf (keyword, operator, number, newline, ...) -/
  | leaf (rest : Forest)
  /-- a `trailer` whose first child is `.` (the attribute part of `foo.bar`) -/
  | attr (children rest : Forest)
  /-- funcdef / lambdef: `children[:-1]` (name, parameters with defaults and annotations) and `children[-1:]` (the body:
  a scope of its own, executed when the function is called) -/
  | scope (header body rest : Forest)
  /-- any other node with children -/
  | node (children rest : Forest)
  deriving Repr, Inhabited

/-- the shape of `_find_non_global_names` -/
structure Walk where
  /-- `if node.type == 'trailer' and node.children[0] == '.': continue` -/
  skipAttr : Bool
  /-- the recursive call does not get the last child of a funcdef / lambdef (NOT the source: there it gets `children`) -/
  pruneScopeBody : Bool
  deriving Repr, DecidableEq

/-- `_find_non_global_names(nodes)`: (value, is_definition()) of the yielded name leaves, in order -/
def names (w : Walk) : Forest → List (String × Bool)
  | .done => []
  | .name v d rest => (v, d) :: names w rest
  | .leaf rest => names w rest
  | .attr c rest => (if w.skipAttr then [] else names w c) ++ names w rest
  | .scope h b rest => names w h ++ (if w.pruneScopeBody then [] else names w b) ++ names w rest
  | .node c rest => names w c ++ names w rest

/-- state of the generator `_find_needed_output_variables`: the local set `return_variables`, what was yielded -/
structure St where
  remaining : List String
  yielded : List String
  deriving Repr, DecidableEq

/-- `if not name.is_definition() and name.value in return_variables: return_variables.remove(..); yield ..`
(`return_variables` is a set: removing a value removes it altogether) -/
def stepName (st : St) (o : String × Bool) : St :=
  if !o.2 && st.remaining.contains o.1 then
    ⟨st.remaining.filter (fun x => x != o.1), st.yielded ++ [o.1]⟩
  else st

/-- one child of `search_node`: `start_pos < at_least_pos`, and the child itself (a forest of one node) -/
structure Sibling where
  before : Bool
  tree : Forest
  deriving Repr, Inhabited

/-- `for node in search_node.children: if node.start_pos < at_least_pos: continue; ...` -/
def stepSibling (w : Walk) (st : St) (s : Sibling) : St :=
  if s.before then st else (names w s.tree).foldl stepName st

/-- `list(_find_needed_output_variables(context, search_node, at_least_pos, return_variables))` -/
def needed (w : Walk) (sibs : List Sibling) (rv : List String) : List String :=
  (sibs.foldl (stepSibling w) ⟨rv, []⟩).yielded

/-- the expression in `extract_function`: `needed or [return_variables[-1]] if return_variables else []`;
`[-1]` is only evaluated on a non-empty list -/
def returnVariables (w : Walk) (sibs : List Sibling) (rv : List String) : List String :=
  match rv.getLast? with
  | none => []
  | some last =>
    match needed w sibs rv with
    | [] => [last]
    | n => n

/-! ## the specification, independent of the code -/

/-- the names that a forest READS, at any depth: also inside the bodies of nested functions and lambdas (a closure
reads the variable of the enclosing function when it is called), the attribute names behind a dot excepted -/
def reads : Forest → List String
  | .done => []
  | .name v d rest => if d then reads rest else v :: reads rest
  | .leaf rest => reads rest
  | .attr _ rest => reads rest
  | .scope h b rest => reads h ++ reads b ++ reads rest
  | .node c rest => reads c ++ reads rest

/-- the names read by the statements behind the selection -/
def readsLater (sibs : List Sibling) : List String :=
  (sibs.filter (fun s => !s.before)).flatMap (fun s => reads s.tree)

/-- the walk of the source: passes over attribute names, enters every body -/
def fullWalk : Walk := ⟨true, false⟩

/-- the variant of the seeded defect (round 4): the body of a nested function is not searched -/
def prunedWalk : Walk := ⟨true, true⟩

end JediModel.ExtractOut

/-! The binding skeleton of a program in flat ("symbol table") form.

A program is a table of scopes (module = scope 0; every other scope has a parent
with a smaller index) and the list of identifier occurrences in source order
(the index of an occurrence is its position).  The harness derives this table and
the printed source from one abstract program.

Two semantics over the same table:
* `useVar` / `bindVar` — Python's: which variable `(owning scope, name)` an occurrence
  denotes (CPython's symbol table rules: `global`/`nonlocal`, class bodies invisible to
  nested scopes, the dynamic `LOAD_NAME` rule in class bodies);
* `goto` — jedi's: a transcription of `AbstractTreeName.goto` → `context.goto` →
  `get_global_filters` + `ParserTreeFilter` (+ `GlobalNameFilter` at module level) +
  `finder.filter_name` on this fragment. -/
namespace JediModel.Scopes

inductive Kind where
  | module | function | klass | lambda | comp
deriving DecidableEq, Repr

inductive Role where
  | bind          -- assignment target / comprehension variable
  | use
  | globalDecl    -- the name in `global x`
  | nonlocalDecl  -- the name in `nonlocal x`
  | param
  | defName       -- the name of a `def` / `class` statement (sits in the enclosing scope)
  /-- the default value `n` of a lambda parameter (`lambda p=n: ..`).  `scope` is the LAMBDA's
  scope and `stmt` its first occurrence: jedi creates the lambda's own context for a name in the
  lambda header (`create_context` special-cases only `def`/`class` headers) and limits the lookup
  to the lambda's start, so nothing of the lambda itself is found and the search goes on in the
  parent context WITHOUT a position limit and skipping classes; Python evaluates the default in
  the enclosing scope when the lambda is created. -/
  | dfltUse
deriving DecidableEq, Repr

structure Scope where
  kind : Kind
  parent : Nat
deriving Repr

structure Occ where
  name : Nat
  role : Role
  scope : Nat
  /-- position from which a lookup of this name starts: the first occurrence of the enclosing
  assignment statement (`x = x`: the right-hand `x` is looked up from the statement start, so it
  does not see the left-hand one), otherwise the occurrence itself -/
  stmt : Nat
deriving Repr

structure Prog where
  scopes : List Scope
  occs : List Occ
deriving Repr

def Prog.kind (p : Prog) (s : Nat) : Kind :=
  match p.scopes[s]? with
  | some sc => sc.kind
  | none => .module

def Prog.parent (p : Prog) (s : Nat) : Nat :=
  match p.scopes[s]? with
  | some sc => sc.parent
  | none => 0

def Role.isDef : Role → Bool
  | .bind | .param | .defName => true
  | _ => false

/-- indices (= positions) of the occurrences satisfying `f` -/
def Prog.indices (p : Prog) (f : Nat → Occ → Bool) : List Nat :=
  (p.occs.zipIdx.filter fun (o, i) => f i o).map (·.2)

/-! ## jedi side -/

/-- `ParserTreeFilter.get(x)` before `_check_flows`: definitions of `x` whose parent scope
is `s`, positioned before `lim` when a position limit is set -/
def defsIn (p : Prog) (s x : Nat) (lim : Option Nat) : List Nat :=
  p.indices fun i o => o.name == x && o.scope == s && o.role.isDef &&
    (match lim with
     | none => true
     | some u => decide (i < u))

/-- `_check_flows` on straight-line code: names sorted by position descending, the first
(= last in source order) is REACHABLE and the loop breaks -/
def lastOf (l : List Nat) : List Nat :=
  match l.getLast? with
  | some i => [i]
  | none => []

/-- `GlobalNameFilter.get(x)`: every name `x` whose parent is a `global` statement, anywhere -/
def globalDecls (p : Prog) (x : Nat) : List Nat :=
  p.indices fun _ o => o.name == x && o.role == .globalDecl

/-- `FunctionValue.from_context`: the parent context of a function skips class contexts -/
def skipClasses (p : Prog) : Nat → Nat → Nat
  | 0, s => s
  | fuel + 1, s => if p.kind s = .klass then skipClasses p fuel (p.parent s) else s

/-- `get_global_filters` + `filter_name`: walk the context chain outward, first non-empty
filter result wins.  `lim` is the position limit; it is reset after a function or module
context, kept by class and comprehension contexts (a comprehension's own filter ignores it).
`sel` is `_check_flows`: with flow analysis on, only the last definition survives (`lastOf`);
`find_references` switches flow analysis off while collecting defining names, then every
definition survives (`id`). -/
def gotoFromSel (sel : List Nat → List Nat) (p : Prog) (x : Nat) : Nat → Nat → Option Nat → List Nat
  | 0, _, _ => []
  | fuel + 1, ctx, lim =>
    match p.kind ctx with
    | .module => sel (defsIn p 0 x lim) ++ globalDecls p x
    | .function | .lambda =>
      match sel (defsIn p ctx x lim) with
      | [] => gotoFromSel sel p x fuel (skipClasses p p.scopes.length (p.parent ctx)) none
      | r => r
    | .klass =>
      match sel (defsIn p ctx x lim) with
      | [] => gotoFromSel sel p x fuel (p.parent ctx) lim
      | r => r
    | .comp =>
      match sel (defsIn p ctx x none) with
      | [] => gotoFromSel sel p x fuel (p.parent ctx) lim
      | r => r

abbrev gotoFrom := gotoFromSel lastOf

/-- `Script.goto` on occurrence `u`: definitions land on themselves; uses and
`global`/`nonlocal` names are looked up from their own position -/
def goto (p : Prog) (u : Nat) : List Nat :=
  match p.occs[u]? with
  | none => []
  | some o =>
    if o.role.isDef then [u]
    else gotoFrom p o.name (p.scopes.length + 1) o.scope (some o.stmt)

/-! ## Python side -/

def declaredGlobal (p : Prog) (s x : Nat) : Bool :=
  p.occs.any fun o => o.name == x && o.scope == s && o.role == .globalDecl

def declaredNonlocal (p : Prog) (s x : Nat) : Bool :=
  p.occs.any fun o => o.name == x && o.scope == s && o.role == .nonlocalDecl

/-- `x` is assigned / is a parameter / is def'd in scope `s` -/
def bindsIn (p : Prog) (s x : Nat) : Bool :=
  p.occs.any fun o => o.name == x && o.scope == s && o.role.isDef

/-- a free name (or a `nonlocal`) seen from scope `s` outward: class bodies are invisible,
an enclosing function that declares the name `global` sends it to the module, one that
declares it `nonlocal` passes it on, one that binds it owns it -/
def resolveFree (p : Prog) (x : Nat) : Nat → Nat → Nat
  | 0, _ => 0
  | fuel + 1, s =>
    match p.kind s with
    | .module => 0
    | .klass => resolveFree p x fuel (p.parent s)
    | _ =>
      if declaredGlobal p s x then 0
      else if declaredNonlocal p s x then resolveFree p x fuel (p.parent s)
      else if bindsIn p s x then s
      else resolveFree p x fuel (p.parent s)

/-- the scope owning the variable that a *binding* of `x` in scope `s` writes -/
def ownerOfBinding (p : Prog) (s x : Nat) : Nat :=
  if p.kind s = .module then 0
  else if declaredGlobal p s x then 0
  else if declaredNonlocal p s x then resolveFree p x p.scopes.length (p.parent s)
  else s

/-- `x` is bound in scope `s` at a position before `i` (straight-line bodies) -/
def boundBefore (p : Prog) (s x i : Nat) : Bool :=
  (defsIn p s x (some i)).length > 0

/-- the scope owning the variable that a *use* of `x` at position `i` in scope `s` reads -/
def ownerOfUse (p : Prog) (s x i : Nat) : Nat :=
  if p.kind s = .module then 0
  else if declaredGlobal p s x then 0
  else if declaredNonlocal p s x then resolveFree p x p.scopes.length (p.parent s)
  else if bindsIn p s x then
    (if p.kind s = .klass then
      -- LOAD_NAME: the class namespace if already bound there, else globals (never the
      -- enclosing function)
      (if boundBefore p s x i then s else 0)
    else s)
  else resolveFree p x p.scopes.length (p.parent s)

/-- the variable (owning scope; the name is the occurrence's own) an occurrence denotes -/
def varOf (p : Prog) (i : Nat) : Nat :=
  match p.occs[i]? with
  | none => 0
  | some o =>
    match o.role with
    | .use => ownerOfUse p o.scope o.name o.stmt
    | .dfltUse => ownerOfUse p (p.parent o.scope) o.name o.stmt
    | .globalDecl => 0
    | .nonlocalDecl => resolveFree p o.name p.scopes.length (p.parent o.scope)
    | _ => ownerOfBinding p o.scope o.name

/-- well-formed table: scope 0 is the module, parents point to smaller indices, occurrences
sit in existing scopes, parameters sit in function-like scopes -/
def WF (p : Prog) : Bool :=
  (match p.scopes with
   | [] => false
   | s0 :: _ => s0.kind == .module) &&
  (p.scopes.zipIdx.all fun (s, i) => i == 0 || (decide (s.parent < i) && s.kind != .module)) &&
  (p.occs.all fun o => decide (o.scope < p.scopes.length))

end JediModel.Scopes

import JediModel.Model.Recursion
/-! # Model of what makes query results repeatable (C16)

Transcribed from
* `jedi/api/helpers.py`: `sorted_definitions`
* `jedi/api/classes.py`: `Name.__eq__` / `Name.__hash__`
* `jedi/api/__init__.py`: `infer` (`sorted_definitions(set(defs))`), `goto`
  (`list(set(sorted_definitions(defs)))`), `get_references`, the `reset_recursion_limitations()`
  call that opens every query method, `_analysis`
* `jedi/inference/references.py:find_references`, `jedi/inference/context.py:predefine_names`,
  `jedi/inference/dynamic_params.py:_avoid_recursions` (the `try/finally` switches)

Core Lean only. Python `str` = list of code points (`List Nat`), compared lexicographically, which
is what `List`'s `≤` does; a key tuple is a `List (List Nat)` of fixed length. -/
namespace JediModel.Determinism
open JediModel.Recursion

/-- what the API shows of one `classes.Name` -/
structure Name where
  /-- `_name.start_pos` (`None` for compiled names) -/
  startPos : Option (Nat × Nat)
  /-- `module_path` as the code points of `str(path)` -/
  path : Option (List Nat)
  /-- `.name` -/
  name : List Nat
  /-- `_name.api_type` as code points (`class`, `instance`, `function`, `statement` …): what `.type`
  and `.description` show for every name that is not an import -/
  apiType : List Nat
  /-- identity of the inner name object; NOT shown by the API (two inferred values of the same api
  type named by the same tree name are indistinguishable for a user) -/
  kind : Nat
deriving DecidableEq, Repr

/-- everything a user can read off a result: path, position, name, type -/
def Name.visible (a : Name) : Option (List Nat) × Option (Nat × Nat) × List Nat × List Nat :=
  (a.path, a.startPos, a.name, a.apiType)

/-- one conjunct of `Name.__eq__` (field names as extracted from the source by the translator) -/
def eqField : String → Name → Name → Bool
  | "_name.start_pos", a, b => a.startPos == b.startPos
  | "module_path", a, b => a.path == b.path
  | "name", a, b => a.name == b.name
  | "_name.api_type", a, b => a.apiType == b.apiType
  | "_inference_state", _, _ => true      -- one Script, one InferenceState
  | _, _, _ => false

/-- `Name.__eq__`: the conjunction of the listed field comparisons -/
def nameEq (fields : List String) (a b : Name) : Bool := fields.all (fun f => eqField f a b)

/-- one component of the `sorted_definitions` key tuple -/
def keyComponent : String → Name → List Nat
  | "path_or_empty", a => a.path.getD []                      -- str(x.module_path or '')
  | "line_or_0", a => [(a.startPos.map (·.1)).getD 0]         -- x.line or 0
  | "column_or_0", a => [(a.startPos.map (·.2)).getD 0]       -- x.column or 0
  | "name", a => a.name                                       -- x.name
  | "api_type", a => a.apiType                                -- x._name.api_type
  | _, _ => []

def sortKey (comps : List String) (a : Name) : List (List Nat) := comps.map (keyComponent · a)

def keyLE (comps : List String) (a b : Name) : Bool := decide (sortKey comps a ≤ sortKey comps b)

/-- `helpers.sorted_definitions` (Python's `sorted` is stable, so is `mergeSort`) -/
def sortedDefinitions (comps : List String) (l : List Name) : List Name := l.mergeSort (keyLE comps)

/-- the elements a Python `set(l)` holds: the first inserted representative of every
`__eq__` class, here in insertion order (the set's iteration order is arbitrary: see `IsSetOf`) -/
def dedupFirst (fields : List String) : List Name → List Name → List Name
  | _, [] => []
  | seen, a :: rest =>
    if seen.any (nameEq fields a) then dedupFirst fields seen rest
    else a :: dedupFirst fields (a :: seen) rest

/-- `s` is a possible iteration order of `set(l)`: representatives come from `l`, every element
of `l` is represented, no two representatives are `__eq__` -/
structure IsSetOf (fields : List String) (l s : List Name) : Prop where
  sub : ∀ x ∈ s, x ∈ l
  cover : ∀ x ∈ l, ∃ y ∈ s, nameEq fields x y = true
  distinct : s.Pairwise (fun a b => nameEq fields a b = false)

/-- `Script.infer`'s last line: `sorted_definitions(set(defs))`, with `order` the permutation the
hash set happens to iterate in (applied to the insertion-ordered representatives) -/
def inferResult (comps fields : List String) (defs : List Name) : List Name :=
  sortedDefinitions comps (dedupFirst fields [] defs)

/-- names as they really occur: lines are 1-based, a path never prints as the empty string -/
def WF (a : Name) : Prop := (∀ p, a.startPos = some p → 1 ≤ p.1) ∧ a.path ≠ some []

/-! ## per-query state -/

/-- the mutable parts of an `InferenceState` that outlive a single inference step -/
structure QState where
  /-- `execution_recursion_detector` / `recursion_detector` untouched since they were created -/
  bookkeepingFresh : Bool
  flowAnalysisEnabled : Bool
  isAnalysis : Bool
  /-- live entries of `predefined_names` dictionaries -/
  predefined : Nat
  /-- `dynamic_params_depth` (a Python int: a misplaced decrement can make it negative) -/
  dynamicParamsDepth : Int
  /-- `recursion_detector.pushed_nodes` -/
  pushed : List Nat
  /-- `inferred_element_counts` -/
  counts : Counts
  /-- number of `memoize_cache` entries -/
  memo : Nat

def QState.init : QState :=
  { bookkeepingFresh := true, flowAnalysisEnabled := true, isAnalysis := false, predefined := 0,
    dynamicParamsDepth := 0, pushed := [], counts := Counts.empty, memo := 0 }

/-- the switches have their defaults -/
def QState.switchesDefault (s : QState) : Prop :=
  s.flowAnalysisEnabled = true ∧ s.isAnalysis = false ∧ s.predefined = 0 ∧ s.dynamicParamsDepth = 0 ∧
  s.pushed = []

/-- `InferenceState.reset_recursion_limitations`; `resets` = the attributes it re-creates
(translator). Note: `dynamic_params_depth` is NOT among them - nothing but the bracket in
`_avoid_recursions` brings it back. -/
def reset (resets : List String) (s : QState) : QState :=
  { s with
    bookkeepingFresh :=
      if resets.contains "self.execution_recursion_detector" && resets.contains "self.recursion_detector"
      then true else s.bookkeepingFresh
    pushed := if resets.contains "self.recursion_detector" then [] else s.pushed
    counts := if resets.contains "self.inferred_element_counts" then Counts.empty else s.counts }

/-! ### the execution budget across the queries of one Script

`Script.<method>` as the execution budget sees it: the name of the public method and the trace of
`push_execution` / `pop_execution` calls its body makes. A method that is in `resetFirst`
(translator: the methods that open with `reset_recursion_limitations()`, or reach such a method
through `self`) runs its trace on a NEW detector; any other method runs it on the detector the
queries before it left behind. -/

def apiQuery (L : Limits) (resetFirst : List String) (d : Det) (q : String × List Op) : Det × List Ev :=
  runTrace L (if resetFirst.contains q.1 then Det.fresh else d) q.2

/-- the queries of one Script in order: the detector after the last one, and the decisions
(`limit_reached` of every push) of every query -/
def apiSession (L : Limits) (resetFirst : List String) : Det → List (String × List Op) → Det × List (List Ev)
  | d, [] => (d, [])
  | d, q :: qs =>
    let r := apiQuery L resetFirst d q
    let rest := apiSession L resetFirst r.1 qs
    (rest.1, r.2 :: rest.2)

/-- `limit_reached` of every push of a trace -/
def refusals (evs : List Ev) : List Bool :=
  evs.filterMap (fun | .pushed _ lim _ _ => some lim | _ => none)

/-- what the source fixes about a query body: the cap of `_limit_value_infers`, `MAX_PARAM_SEARCHES`
and WHERE in `dynamic_params._avoid_recursions.wrapper` the statements
`inf.dynamic_params_depth += 1` / `-= 1` stand (translator): tokens `<place>:inc` / `<place>:dec`, place one of
`pre` (before the `with recursion.execution_allowed(...)`), `allowed` (in `if allowed:` before the `try`),
`finally` (the `finally` of that `try`), `blocked` (in the `with` block after the `if`: the path taken
when the recursion guard answered False) -/
structure Cfg where
  cap : Nat
  factor : Nat
  maxSearches : Nat
  bracket : List String

/-- net change of `dynamic_params_depth` made by the statements standing at `place` -/
def delta (br : List String) (place : String) : Int :=
  (br.count (place ++ ":inc") : Int) - (br.count (place ++ ":dec") : Int)

/-- the increment and the decrement sit in the same branch: nothing outside `if allowed:`, and inside
it what is added before the `try` is taken back in its `finally` -/
def Balanced (br : List String) : Prop :=
  delta br "pre" = 0 ∧ delta br "blocked" = 0 ∧ delta br "allowed" + delta br "finally" = 0

instance (br : List String) : Decidable (Balanced br) := by unfold Balanced; infer_instance

/-- the loop of `dynamic_params._search_function_arguments` over the potential call sites:
`i += 1; if i * dynamic_params_depth > MAX_PARAM_SEARCHES: return`; one flag per iteration
(`true` = the call site is looked at) -/
def searchLoop (maxS : Nat) (depth : Int) : Nat → Nat → List Bool
  | 0, _ => []
  | r + 1, i =>
    if ((i + 1 : Nat) : Int) * depth > (maxS : Int) then [false]
    else true :: searchLoop maxS depth r (i + 1)

/-- what a query body does, as far as this state is concerned. Any step may raise. -/
inductive Act where
  | skip
  | raise                          -- an exception (ValueError, internal error …) leaves the block
  | seq (a b : Act)
  | execute                        -- push/pop on the detectors
  | capped (ctx : Nat)             -- a `_limit_value_infers`-wrapped inference in context `ctx`
  | memoise
  | flowOff (body : Act)           -- find_references: try: flow=False; … finally: flow=True
  | analysis (body : Act)          -- _analysis: is_analysis=True; try: … finally: is_analysis=False
  | predefine (body : Act)         -- predefine_names: d[k]=…; try: yield finally: del d[k]
  | dynParam (node : Nat) (body : Act)  -- `_avoid_recursions`: a dynamic parameter lookup of function `node`
  | searchArgs (sites : Nat)       -- `_search_function_arguments` of a function with `sites` call sites

/-- outcome of a block: state, whether an exception is propagating, and what the query could observe:
the decisions of the capped inferences, whether a dynamic lookup was allowed, which call sites a
search looked at -/
structure Out where
  st : QState
  raised : Bool
  seen : List Bool

def run (c : Cfg) : QState → Act → Out
  | s, .skip => ⟨s, false, []⟩
  | s, .raise => ⟨s, true, []⟩
  | s, .seq a b =>
    let o := run c s a
    if o.raised then o
    else
      let o2 := run c o.st b
      ⟨o2.st, o2.raised, o.seen ++ o2.seen⟩
  | s, .execute => ⟨{ s with bookkeepingFresh := false }, false, []⟩
  | s, .capped n =>
    let r := limitStep c.cap c.factor s.counts n false
    ⟨{ s with counts := r.1 }, false, [r.2]⟩
  | s, .memoise => ⟨{ s with memo := s.memo + 1 }, false, []⟩
  | s, .flowOff b =>
    let o := run c { s with flowAnalysisEnabled := false } b
    ⟨{ o.st with flowAnalysisEnabled := true }, o.raised, o.seen⟩
  | s, .analysis b =>
    let o := run c { s with isAnalysis := true } b
    ⟨{ o.st with isAnalysis := false }, o.raised, o.seen⟩
  | s, .predefine b =>
    let o := run c { s with predefined := s.predefined + 1 } b
    ⟨{ o.st with predefined := o.st.predefined - 1 }, o.raised, o.seen⟩
  | s, .dynParam n b =>
    -- wrapper(function_value, param_index): statements before the `with`
    let s0 := { s with dynamicParamsDepth := s.dynamicParamsDepth + delta c.bracket "pre" }
    -- with recursion.execution_allowed(inf, function_value.tree_node) as allowed:
    if s0.pushed.contains n then
      -- `yield False`: `if allowed:` is skipped, `return NO_VALUES`
      ⟨{ s0 with dynamicParamsDepth := s0.dynamicParamsDepth + delta c.bracket "blocked" }, false, [false]⟩
    else
      -- pushed_nodes.append(node); yield True; if allowed: <allowed> try: return func(...) finally: <finally>
      let o := run c { s0 with pushed := s0.pushed ++ [n],
                               dynamicParamsDepth := s0.dynamicParamsDepth + delta c.bracket "allowed" } b
      -- the `finally` of the wrapper, then the `finally: pushed_nodes.pop()` of execution_allowed
      -- (the list still ends with `n`: `run_switches`), on the normal and on the raising path
      ⟨{ o.st with dynamicParamsDepth := o.st.dynamicParamsDepth + delta c.bracket "finally",
                   pushed := o.st.pushed.dropLast }, o.raised, true :: o.seen⟩
  | s, .searchArgs n => ⟨s, false, searchLoop c.maxSearches s.dynamicParamsDepth n 0⟩

/-- one API query: `reset_recursion_limitations()` first, then the body -/
def query (resets : List String) (c : Cfg) (s : QState) (body : Act) : Out :=
  run c (reset resets s) body

/-- a session on one Script: the state after the queries, and what each observed -/
def session (resets : List String) (c : Cfg) : QState → List Act → QState × List (Bool × List Bool)
  | s, [] => (s, [])
  | s, q :: qs =>
    let o := query resets c s q
    let r := session resets c o.st qs
    (r.1, (o.raised, o.seen) :: r.2)

/-! ## the memo layer: what is remembered must be replayable

`jedi/inference/cache.py:_memoize_default` (behind `inference_state_method_cache`,
`inference_state_function_cache`, `inference_state_as_method_param_cache`),
`jedi/cache.py:memoize_method` and `time_cache` remember the object their function returned, as it
is. If that object is a generator (or another one-shot iterator) the first reader consumes it and
every later reader of the same key gets what is left. -/

/-- what a memo entry holds for one key -/
inductive Stored (α : Type) where
  /-- a generator object stored as it is: `rest` is what it has not produced yet -/
  | oneShot (rest : List α)
  /-- the result of `list(...)` / `tuple(...)` / `ValueSet(...)`: immutable -/
  | materialised (xs : List α)
  /-- `inference_state_method_generator_cache`: `(actual_generator, cached_lst)` -/
  | replaying (cached rest : List α)
deriving DecidableEq, Repr

/-- one reader that takes at most `k` elements (`k ≥ length` = `list(...)`; the pytest plugin stops
at the first module that has the fixture): what it sees, and what the memo holds afterwards -/
def Stored.read {α : Type} (k : Nat) : Stored α → List α × Stored α
  | .oneShot rest => (rest.take k, .oneShot (rest.drop k))
  | .materialised xs => (xs.take k, .materialised xs)
  | .replaying cached rest =>
    -- the wrapper yields `cached_lst[i]` while there is one, then pulls `next(actual_generator)`,
    -- appends it to `cached_lst` and yields it
    ((cached ++ rest).take k,
     .replaying (cached ++ rest.take (k - cached.length)) (rest.drop (k - cached.length)))

/-- successive readers of the same key -/
def Stored.reads {α : Type} : Stored α → List Nat → List (List α)
  | _, [] => []
  | st, k :: ks => (st.read k).1 :: (st.read k).2.reads ks

/-- how a decorator treats what the callable below it returns -/
inductive DecKind where
  | cache            -- remembers the returned object as it is
  | generatorCache   -- inference_state_method_generator_cache: made for generator functions, replays
  | protocolCache    -- signature_time_cache: takes key and value out of the generator itself
  | materialise      -- to_list / to_tuple / iterator_to_value_set
  | transparent      -- everything else (property, increase_indent, recursion decorators …) hands it on
deriving DecidableEq, Repr

def decKind (d : String) : DecKind :=
  if ["_memoize_default", "inference_state_function_cache", "inference_state_method_cache",
      "inference_state_as_method_param_cache", "memoize_method", "time_cache"].contains d then .cache
  else if d = "inference_state_method_generator_cache" then .generatorCache
  else if d = "signature_time_cache" then .protocolCache
  else if ["to_list", "to_tuple", "iterator_to_value_set"].contains d then .materialise
  else .transparent

/-- walks a decorator stack from the function outwards (`ds` innermost first); `oneShot` = the
callable below hands out a one-shot iterator. Every remembering decorator must see a replayable
value; the two generator-aware ones must see a generator. -/
def stackReplayable : List String → Bool → Bool
  | [], _ => true
  | d :: ds, oneShot =>
    match decKind d with
    | .cache => !oneShot && stackReplayable ds oneShot
    | .generatorCache => oneShot && stackReplayable ds true    -- its wrapper is a generator again
    | .protocolCache => oneShot && stackReplayable ds false
    | .materialise => stackReplayable ds false
    | .transparent => stackReplayable ds oneShot

/-- one row of the translator's table: (file:qualname, decorators OUTERMOST first, one-shot) -/
def entryReplayable (e : String × List String × Bool) : Bool := stackReplayable e.2.1.reverse e.2.2

/-! ## dict key completions: `jedi/api/strings.py`

`Completion.complete()` puts the completions of `complete_dict` in front of its result without sorting
them again. `_completions_for_dicts` gets the inferred values as a `ValueSet` (a frozenset hashed by
object identity): the order in which the dicts arrive is arbitrary.

A key is given by `r = repr(dict_key)` (code points): the sort key is `repr`, `_create_repr_string`
reads `repr(dict_key)` and `isinstance(dict_key, (str, bytes))`, and for the safe values
(`str`, `bytes`, numbers, `bool`, `None`) the latter is a function of the repr: it starts with a quote,
or with `b` and a quote. -/

abbrev Str := List Nat

/-- `\w` of the regex in `_get_string_prefix_and_quote` on ASCII and the Latin-1 letters (what stands
there in practice is a string prefix: `r`, `b`, `f`, `u`, `rb` …) -/
def isWordChar (c : Nat) : Bool :=
  (48 ≤ c && c ≤ 57) || (65 ≤ c && c ≤ 90) || (97 ≤ c && c ≤ 122) || c == 95 ||
  c == 170 || c == 181 || c == 186 || (192 ≤ c && c ≤ 255 && c != 215 && c != 247)

/-- `_get_string_prefix_and_quote`: `re.match(r'(\w*)("""|\'{3}|"|\')', string)` -> (prefix, quote);
`none` = no match = `(None, None)`. (`\w*` is greedy and a quote is no word character: no backtracking) -/
def prefixAndQuote (s : Str) : Option (Str × Str) :=
  let p := s.takeWhile isWordChar
  match s.dropWhile isWordChar with
  | 34 :: 34 :: 34 :: _ => some (p, [34, 34, 34])
  | 39 :: 39 :: 39 :: _ => some (p, [39, 39, 39])
  | 34 :: _ => some (p, [34])
  | 39 :: _ => some (p, [39])
  | _ => none

/-- `isinstance(dict_key, (str, bytes))`, read off `repr(dict_key)` -/
def isTextRepr : Str → Bool
  | 39 :: _ => true
  | 34 :: _ => true
  | 98 :: 39 :: _ => true
  | 98 :: 34 :: _ => true
  | _ => false

/-- `_create_repr_string(literal_string, dict_key)` with `r = repr(dict_key)` -/
def createReprString (lit r : Str) : Str :=
  if !isTextRepr r || lit.isEmpty then r            -- not isinstance(...) or not literal_string
  else match prefixAndQuote lit with
    | none => r                                      -- quote is None
    | some (p, q) =>
      if q == r.take 1 then p ++ r                   -- quote == r[0]  (r is not empty here)
      else p ++ q ++ (r.drop 1).dropLast ++ q        -- prefix + quote + r[1:-1] + quote

/-- one inferred value as `_get_python_keys` sees it -/
structure DictVal where
  /-- `dct.array_type == 'dict'` -/
  isDict : Bool
  /-- `dct.get_key_values()`, each as `repr(key.get_safe_value(default=_sentinel))`; `none` = `_sentinel` -/
  keys : List (Option Str)
deriving DecidableEq, Repr

/-- WHERE `jedi/api/strings.py` sorts the keys (read from the source by the translator) -/
structure DictCfg where
  /-- `_completions_for_dicts` iterates over `sorted(_get_python_keys(dicts), key=repr)` -/
  globalSort : Bool
  /-- `_get_python_keys` hands out the keys of each dict as `sorted(keys, key=repr)` -/
  perDictSort : Bool
deriving DecidableEq, Repr

/-- comparison of two `repr` strings: Python compares `str` by code points, lexicographically -/
def reprLE (a b : Str) : Bool := decide (a ≤ b)

/-- insertion into a sorted list of `repr`s -/
def insertRepr (a : Str) : List Str → List Str
  | [] => [a]
  | b :: l => if reprLE a b then a :: b :: l else b :: insertRepr a l

/-- `sorted(keys, key=repr)`. A key is modelled by its `repr`, so elements with equal sort keys are
equal and the stability of Python's sort cannot be observed: every sorting algorithm returns the same
list (`sortByRepr_perm_eq`); insertion sort is structurally recursive, so the kernel can run it -/
def sortByRepr (l : List Str) : List Str := l.foldr insertRepr []

/-- `_get_python_keys(dicts)`: the generator, in the order in which the dicts are iterated -/
def getPythonKeys (cfg : DictCfg) (dicts : List DictVal) : List Str :=
  dicts.flatMap fun d =>
    if d.isDict then
      let ks := d.keys.filterMap id                  -- `if dict_key is not _sentinel`
      if cfg.perDictSort then sortByRepr ks else ks
    else []

/-- `dict_key_str[:-len(cut_end_quote) or None]` -/
def cutEnd (cut s : Str) : Str := if cut.isEmpty then s else s.take (s.length - cut.length)

/-- the loop of `_completions_for_dicts`; `seen` is the set of the same name. Result: the names of
the completions, in the order in which they are yielded -/
def completionLoop (lit cut : Str) : List Str → List Str → List Str
  | _, [] => []
  | seen, r :: rest =>
    let s := createReprString lit r
    if lit.isPrefixOf s && !seen.contains s then
      cutEnd cut s :: completionLoop lit cut (s :: seen) rest
    else completionLoop lit cut seen rest

/-- `_completions_for_dicts(inference_state, dicts, literal_string, cut_end_quote, fuzzy)` -/
def completionsForDicts (cfg : DictCfg) (lit cut : Str) (dicts : List DictVal) : List Str :=
  let ks := getPythonKeys cfg dicts
  completionLoop lit cut [] (if cfg.globalSort then sortByRepr ks else ks)

end JediModel.Determinism

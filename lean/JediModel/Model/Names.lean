import JediModel.Model.Text
import JediModel.Model.ApiHelpers
/-! API-level position functions of `jedi/api/classes.py` / `jedi/api/__init__.py` over
`Model/Text`: `BaseName.get_line_code`, and the name enumeration `Script._names` on top of
`helpers.get_module_names`. -/
namespace JediModel.Names
open JediModel.Text JediModel.ApiHelpers

/-- ```
index = self._name.start_pos[0] - 1
start_index = max(index - before, 0)
return ''.join(lines[start_index:index + after + 1])
``` -/
def getLineCode (lines : List Str) (line : Int) (before after : Int) : Str :=
  let index := line - 1
  let startIndex := max (index - before) 0
  (pySlice lines startIndex (index + after + 1)).flatten

/-- one name occurrence of the parser's used-names index -/
structure Occ where
  pos : Pos
  value : Str
  isDef : Bool          -- `name.is_definition()`
  moduleScope : Bool    -- `get_parent_scope(name)` is the module (or None)
deriving Repr, DecidableEq

/-- `helpers.get_module_names(module, all_scopes, definitions, references)` on the flattened
used-names map -/
def getModuleNames (occs : List Occ) (allScopes definitions references : Bool) : List Occ :=
  let names := if allScopes then occs else occs.filter (·.moduleScope)
  names.filter fun n => (definitions && n.isDef) || (references && !n.isDef)

def posLe (a b : Occ) : Bool := decide (a.pos ≤ b.pos)

/-- `Script._names`: `sorted(defs, key=lambda x: x.start_pos)` -/
def scriptNames (occs : List Occ) (allScopes definitions references : Bool) : List Occ :=
  (getModuleNames occs allScopes definitions references).mergeSort posLe

/-! ## histories of name enumerations on ONE Script

`Script._names` is `[create_name(name) for name in <call>]`, sorted.  `helpers.get_module_names`
returns `filter(def_ref_filter, names)`: an iterator that can be read once.  As long as every
`_names` makes a fresh call that is harmless.  If the call is put under a memo decorator
(`cache.memoize_method`: `dct[key] = result`, keyed by the arguments) the Script remembers the
iterator itself, the list comprehension of the first enumeration reads it to its end, and every later
enumeration with the same flags sees nothing. -/

/-- the three flags of `Script.get_names` / `Script._names`: (all_scopes, definitions, references) -/
abbrev Flags := Bool × Bool × Bool

def namesOf (occs : List Occ) (f : Flags) : List Occ := scriptNames occs f.1 f.2.1 f.2.2

/-- where `Script._names` takes its names from: `for name in <call>` -/
structure NameSource where
  /-- the callee is under a decorator that remembers what it returned -/
  memoised : Bool
  /-- the callee hands out an iterator that can be read once -/
  oneShot : Bool
deriving DecidableEq, Repr

/-- the `_memoize_method_dct` entry of one Script for that callee: flags ↦ what the remembered
object still yields -/
abbrev Memo := List (Flags × List Occ)

def Memo.get (f : Flags) : Memo → Option (List Occ)
  | [] => none
  | (g, v) :: m => if g = f then some v else Memo.get f m

def Memo.set (f : Flags) (v : List Occ) : Memo → Memo
  | [] => [(f, v)]
  | (g, w) :: m => if g = f then (f, v) :: m else (g, w) :: Memo.set f v m

/-- one `Script._names(flags)` on a Script whose memo is `m`: the list comprehension reads the
iterable to its end; a remembered one-shot iterator is empty afterwards, a remembered container (or a
fresh call) is not.  Returns the answer and the memo afterwards. -/
def namesStep (src : NameSource) (occs : List Occ) (m : Memo) (f : Flags) : List Occ × Memo :=
  if !src.memoised then (namesOf occs f, m)
  else
    match m.get f with
    | some left =>
      (left.mergeSort posLe, if src.oneShot then m.set f [] else m)
    | none =>
      let v := getModuleNames occs f.1 f.2.1 f.2.2
      (v.mergeSort posLe, m.set f (if src.oneShot then [] else v))

/-- a history of name enumerations on ONE Script -/
def namesHistory (src : NameSource) (occs : List Occ) : Memo → List Flags → List (List Occ)
  | _, [] => []
  | m, f :: fs => (namesStep src occs m f).1 :: namesHistory src occs (namesStep src occs m f).2 fs

/-! ## what a memo decorator stack remembers (rows of the translator's table over `jedi/api/`) -/

inductive DecKind where
  | cache            -- remembers the returned object as it is (memoize_method, time_cache, lru_cache, an attribute …)
  | generatorCache   -- inference_state_method_generator_cache: made for generator functions, replays
  | protocolCache    -- signature_time_cache: takes key and value out of the generator itself
  | materialise      -- to_list / to_tuple / iterator_to_value_set
  | transparent      -- everything else hands the object on
deriving DecidableEq, Repr

def decKind (d : String) : DecKind :=
  if ["memoize_method", "time_cache", "_memoize_default", "inference_state_function_cache",
      "inference_state_method_cache", "inference_state_as_method_param_cache", "lru_cache", "cache",
      "cached_property", "attribute"].contains d then .cache
  else if d = "inference_state_method_generator_cache" then .generatorCache
  else if d = "signature_time_cache" then .protocolCache
  else if ["to_list", "to_tuple", "iterator_to_value_set"].contains d then .materialise
  else .transparent

/-- walks a decorator stack from the function outwards (`ds` innermost first); `oneShot` = the
callable below hands out a one-shot iterator.  Every remembering decorator must see something that
can be read again; the two generator-aware ones must see a generator. -/
def stackReplayable : List String → Bool → Bool
  | [], _ => true
  | d :: ds, oneShot =>
    match decKind d with
    | .cache => !oneShot && stackReplayable ds oneShot
    | .generatorCache => oneShot && stackReplayable ds true
    | .protocolCache => oneShot && stackReplayable ds false
    | .materialise => stackReplayable ds false
    | .transparent => stackReplayable ds oneShot

/-- one row: (file:qualname, decorators OUTERMOST first, one-shot) -/
def entryReplayable (e : String × List String × Bool) : Bool := stackReplayable e.2.1.reverse e.2.2

end JediModel.Names

import JediModel.Model.Text
import JediModel.Model.ApiHelpers
/-! API-level position functions of `jedi/api/classes.py` / `jedi/api/__init__.py` over
`Model/Text`: `BaseName.get_line_code`, and the name enumeration `Script._names` on top of
`helpers.get_module_names`. -/
namespace JediModel.Names
open JediModel.Text JediModel.ApiHelpers

/-- ```
index = self._name.start_pos[0] - 1
start_index = max(index - before, 0)
return ''.join(lines[start_index:index + after + 1])
``` -/
def getLineCode (lines : List Str) (line : Int) (before after : Int) : Str :=
  let index := line - 1
  let startIndex := max (index - before) 0
  (pySlice lines startIndex (index + after + 1)).flatten

/-- one name occurrence of the parser's used-names index -/
structure Occ where
  pos : Pos
  value : Str
  isDef : Bool          -- `name.is_definition()`
  moduleScope : Bool    -- `get_parent_scope(name)` is the module (or None)
deriving Repr, DecidableEq

/-- `helpers.get_module_names(module, all_scopes, definitions, references)` on the flattened
used-names map -/
def getModuleNames (occs : List Occ) (allScopes definitions references : Bool) : List Occ :=
  let names := if allScopes then occs else occs.filter (·.moduleScope)
  names.filter fun n => (definitions && n.isDef) || (references && !n.isDef)

def posLe (a b : Occ) : Bool := decide (a.pos ≤ b.pos)

/-- `Script._names`: `sorted(defs, key=lambda x: x.start_pos)` -/
def scriptNames (occs : List Occ) (allScopes definitions references : Bool) : List Occ :=
  (getModuleNames occs allScopes definitions references).mergeSort posLe

end JediModel.Names

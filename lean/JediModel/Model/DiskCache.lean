/-! Model of the cache layers between a file on disk and the tree a Script uses for an imported
module (property C09).

Transcribed from
* `jedi/inference/imports.py: _load_python_module` — `inference_state.parse(file_io=…, cache=True,
  diff_cache=settings.fast_parser, cache_path=settings.cache_directory)`, `ModuleCache`,
  `import_module_by_names`; `jedi/inference/__init__.py: InferenceState.__init__`
  (`self.module_cache = imports.ModuleCache()`);
* parso `grammar.py: Grammar._parse` and `cache.py: load_module` (`p_time <= item.change_time`),
  `_load_from_file_system` (`p_time > os.path.getmtime(pickle)` ⇒ outdated), `try_to_save_module`
  (`_NodeCacheItem(module, lines, p_time)`, pickle written now);
* `jedi/inference/gradual/typeshed.py: _try_to_load_stub` (steps 2–4 for a sub-module),
  `_load_from_typeshed` / `_merge_create_stub_map` / `_create_stub_map` (the `os.listdir` based map
  "importable name → .pyi file" of the parent package directory; `Cfg.stubListingCached` says whether
  that function carries a process-wide memo), `_try_to_load_stub_from_file` / `parse_stub_module`.

Parameters (modelled, not verified): `parse : B → T` (from-scratch parse; the diff parser is assumed
to produce it), and the import finder `find` (importlib in the helper process) as a function of the
*current* file system — its own directory caches are not modelled.  Time stamps are numbers; a
file's mtime is whatever the writer sets (`os.utime`, `mv`, `cp -p`, `tar x` keep old ones), the
pickle's mtime is the clock at the moment it is written. -/
namespace JediModel.DiskCache

abbrev Path := String

/-- pointwise update of a finite map represented as a function -/
def upd {α : Type} (f : Path → α) (k : Path) (v : α) : Path → α := fun k' => if k' = k then v else f k'

structure File (B : Type) where
  mtime : Nat
  bytes : B

/-- `_NodeCacheItem` -/
structure Item (B T : Type) where
  changeTime : Nat
  lines : B
  tree : T

structure Pickle (B T : Type) where
  pmtime : Nat           -- mtime of the `.pkl` file
  item : Item B T

/-- decisions read from the source -/
structure Cfg where
  cache : Bool              -- `_load_python_module`: `cache=True`
  diff : Bool               -- `diff_cache=settings.fast_parser`
  modCachePerScript : Bool  -- `ModuleCache()` created in `InferenceState.__init__`
  stubListingCached : Bool := false
                            -- `typeshed._create_stub_map` (the `os.listdir` map "name → .pyi" of one
                            -- directory) carries a process-wide memo decorator (`lru_cache`, …)
  stampIsFsMtime : Bool := true
                            -- the time a module's FileIO reports (`get_last_modified` of the classes in
                            -- `jedi/file_io.py`, inherited from parso unless overridden) is the file
                            -- system's full-resolution mtime (`os.path.getmtime`); `false`: an override
                            -- reports whole seconds (`os.stat(p)[stat.ST_MTIME]`, `int(…)`)
deriving DecidableEq, Repr

structure State (B T : Type) where
  clock : Nat := 0
  fs : Path → Option (File B) := fun _ => none
  mem : Path → Option (Item B T) := fun _ => none        -- `parser_cache[hashed]` of this process
  pickles : Path → Option (Pickle B T) := fun _ => none  -- `settings.cache_directory`
  modcache : String → Option (Option T) := fun _ => none -- `inference_state.module_cache`
  listings : Path → Option (Path → Bool) := fun _ => none -- memo of `_create_stub_map` per directory
                                                          -- (exists only if `cfg.stubListingCached`)

/-- one call of `typeshed._try_to_load_stub` for a sub-module `pkg.name` (`len(import_names) > 1`).
The path arithmetic (`os.path.join`, `str(file_path) + 'i'`) is done by the caller:
* `direct`   — step 2 "pyi next to py": `[<py__file__()> + 'i']` for a `.py` file,
               `[<p>/__init__.pyi for p in py__path__()]` for a namespace package, `[]` otherwise;
* `useListing` — step 3 `_load_from_typeshed`: the parent is a `ModuleValue` that is a package, so
               `_merge_create_stub_map([PathInfo(dir)])` is consulted;
* `pkgStub` / `modStub` — the two entries of `_create_stub_map(dir)` that yield the key `name`:
               `<dir>/<name>/__init__.pyi` and `<dir>/<name>.pyi` (when both exist the real dict keeps
               the one `os.listdir` yields last; the model prefers `pkgStub`, generators never create both);
* `pyAbsent` — step 4: `python_value_set` is empty ⇒ `<p>/<name>.pyi` for `p` in the parent's
               `py__path__()` (= `modStub`) is probed directly. -/
structure StubQuery where
  dir : Path
  direct : List Path
  useListing : Bool
  pkgStub : Path
  modStub : Path
  pyAbsent : Bool
deriving DecidableEq, Repr

inductive Op (B : Type)
  | write (p : Path) (b : B) (m : Nat)   -- create or overwrite, the writer chooses the mtime
  | delete (p : Path)
  | rename (src dst : Path)              -- `mv`: content and mtime travel
  | load (p : Path)                      -- a Script loads the module file `p`
  | importName (n : String)              -- a Script resolves the dotted name `n`
  | stubImport (q : StubQuery)           -- a Script looks for the stub of a sub-module
  | newScript
  | newProcess
  | tick (dt : Nat)

section
variable {B T : Type} [DecidableEq B]
variable (cfg : Cfg) (parse : B → T)

/-- stamps are in units of 1/`subsec` seconds (the harness uses milliseconds) -/
def subsec : Nat := 1000

/-- `file_io.get_last_modified()` for a file whose file-system mtime is `m`: the mtime itself, or —
when an override in `jedi/file_io.py` reads a whole-second field — `m` truncated to the second.
The mtime of the pickle *file* is read by parso itself (`os.path.getmtime(cache_path)`) and is
never truncated. -/
def reported (m : Nat) : Nat := if cfg.stampIsFsMtime then m else m / subsec * subsec

/-- `try_to_save_module` -/
def save (st : State B T) (p : Path) (ptime : Nat) (b : B) : T × State B T :=
  let it : Item B T := { changeTime := ptime, lines := b, tree := parse b }
  (it.tree, { st with mem := upd st.mem p (some it),
                      pickles := if cfg.cache then upd st.pickles p (some { pmtime := st.clock, item := it })
                                 else st.pickles })

/-- `load_module` (the `if cache and file_io.path is not None` branch of `Grammar._parse`):
the in-memory item if the file is not newer than it, else — only when there is no in-memory item —
the pickle if the file is not newer than the pickle *file* -/
def cachedLoad (st : State B T) (p : Path) (ptime : Nat) : Option (T × State B T) :=
  if cfg.cache then
    match st.mem p with
    | some it => if ptime ≤ it.changeTime then some (it.tree, st) else none
    | none =>
      match st.pickles p with
      | some pk =>
        if ptime > pk.pmtime then none     -- "Cache is outdated"
        else some (pk.item.tree, { st with mem := upd st.mem p (some pk.item) })
      | none => none
  else none

/-- the rest of `Grammar._parse`: diff parser against the in-memory item, or a from-scratch parse -/
def fallLoad (st : State B T) (p : Path) (ptime : Nat) (f : File B) : Option T × State B T :=
  match (if cfg.diff then st.mem p else none) with
  | some it =>
    if it.lines = f.bytes then (some it.tree, st)      -- `old_lines == lines`
    else let r := save cfg parse st p ptime f.bytes; (some r.1, r.2)
  | none =>
    if cfg.cache || cfg.diff then
      let r := save cfg parse st p ptime f.bytes; (some r.1, r.2)
    else (some (parse f.bytes), st)

/-- `_load_python_module` → `Grammar._parse(file_io=KnownContentFileIO(path, content read now))`.
Both `load_module` and `try_to_save_module` take `p_time = file_io.get_last_modified()`.
`none`: no such file (nothing is served). -/
def load (st : State B T) (p : Path) : Option T × State B T :=
  match st.fs p with
  | none => (none, st)
  | some f =>
    match cachedLoad cfg st p (reported cfg f.mtime) with
    | some (t, st') => (some t, st')
    | none => fallLoad cfg parse st p (reported cfg f.mtime) f

/-- `import_module_by_names` for one name, through the per-Script module cache; `find` = what the
import finder returns for the present file system -/
def importName (find : (Path → Option (File B)) → String → Option Path) (st : State B T) (n : String) :
    Option T × State B T :=
  match st.modcache n with
  | some r => (r, st)
  | none =>
    match find st.fs n with
    | none => (none, { st with modcache := upd st.modcache n (some none) })
    | some p =>
      let (r, st') := load cfg parse st p
      (r, { st' with modcache := upd st'.modcache n (some r) })

/-- `_create_stub_map(dir).get(name)` on a directory listing `ex` (which paths exist) -/
def stubMapOf (ex : Path → Bool) (q : StubQuery) : Option Path :=
  if ex q.pkgStub then some q.pkgStub else if ex q.modStub then some q.modStub else none

/-- the listing `_create_stub_map(PathInfo(dir, False))` works on: `os.listdir` + `isdir`/`isfile`
now — or, when the function is memoised, what they returned at the first call for `dir` in this
process -/
def listing (st : State B T) (dir : Path) : (Path → Bool) × State B T :=
  let now : Path → Bool := fun p => (st.fs p).isSome
  if cfg.stubListingCached then
    match st.listings dir with
    | some l => (l, st)
    | none => (now, { st with listings := upd st.listings dir (some now) })
  else (now, st)

/-- `_try_to_load_stub_from_file` over candidates in order: `parse_stub_module` goes through the same
parser cache layers as a python module (`cache=True, diff_cache=…, cache_path=…`); `OSError`
(no such file) ⇒ `None` ⇒ next candidate -/
def loadFirst (st : State B T) : List Path → Option (Path × T) × State B T
  | [] => (none, st)
  | p :: r =>
    match load cfg parse st p with
    | (some t, st') => (some (p, t), st')
    | (none, st') => loadFirst st' r

/-- `_try_to_load_stub` for a sub-module: steps 2 (direct probes), 3 (directory map of the parent
package), 4 (direct probe when there is no python module).  Step 1 (`foo-stubs`) only applies to
top-level names. -/
def tryLoadStub (st : State B T) (q : StubQuery) : Option (Path × T) × State B T :=
  match loadFirst cfg parse st q.direct with
  | (some r, st1) => (some r, st1)
  | (none, st1) =>
    let viaMap : Option (Path × T) × State B T :=
      if q.useListing then
        let l := listing cfg st1 q.dir
        loadFirst cfg parse l.2 (stubMapOf l.1 q).toList
      else (none, st1)
    match viaMap with
    | (some r, st3) => (some r, st3)
    | (none, st3) => if q.pyAbsent then loadFirst cfg parse st3 [q.modStub] else (none, st3)

/-- what a process that holds nothing (no parser cache, no pickles, no listing memo) serves for the
files as they are: the first candidate that exists, parsed from its present bytes -/
def firstServed (fs : Path → Option (File B)) : List Path → Option (Path × T)
  | [] => none
  | p :: r =>
    match fs p with
    | some f => some (p, parse f.bytes)
    | none => firstServed fs r

def stubNow (fs : Path → Option (File B)) (q : StubQuery) : Option (Path × T) :=
  match firstServed parse fs q.direct with
  | some r => some r
  | none =>
    match (if q.useListing then firstServed parse fs (stubMapOf (fun p => (fs p).isSome) q).toList else none) with
    | some r => some r
    | none => if q.pyAbsent then firstServed parse fs [q.modStub] else none

def step (find : (Path → Option (File B)) → String → Option Path) (st : State B T) : Op B → State B T
  | .write p b m => { st with fs := upd st.fs p (some { mtime := m, bytes := b }) }
  | .delete p => { st with fs := upd st.fs p none }
  | .rename s d =>
    match st.fs s with
    | none => st
    | some f => { st with fs := upd (upd st.fs s none) d (some f) }
  | .load p => (load cfg parse st p).2
  | .importName n => (importName cfg parse find st n).2
  | .stubImport q => (tryLoadStub cfg parse st q).2
  | .newScript => if cfg.modCachePerScript then { st with modcache := fun _ => none } else st
  | .newProcess => { st with mem := fun _ => none, modcache := fun _ => none, listings := fun _ => none }
  | .tick dt => { st with clock := st.clock + dt }

def run (find : (Path → Option (File B)) → String → Option Path) (st : State B T) (h : List (Op B)) :
    State B T :=
  h.foldl (step cfg parse find) st

def init : State B T := {}

/-- a brand-new process with an empty cache directory looking at the same files -/
def freshProcess (st : State B T) : State B T := { clock := st.clock, fs := st.fs }

/-- the stamp `m` is newer than every stamp any cache layer holds for `p` -/
def Fresh (st : State B T) (p : Path) (m : Nat) : Prop :=
  (∀ it, st.mem p = some it → it.changeTime < m) ∧
  (∀ pk, st.pickles p = some pk → pk.pmtime < m ∧ pk.item.changeTime < m)

/-- the hypothesis on one operation: a file appears under `p` only with a stamp newer than what
the caches hold for `p` (or exactly as it already is) -/
def OpOk (st : State B T) : Op B → Prop
  | .write p b m => Fresh st p m ∨ (∃ f, st.fs p = some f ∧ f.bytes = b ∧ f.mtime = m)
  | .rename s d => ∀ f, st.fs s = some f → Fresh st d f.mtime
  | _ => True

/-- the hypothesis along a whole history -/
def AllOk (find : (Path → Option (File B)) → String → Option Path) (st : State B T) : List (Op B) → Prop
  | [] => True
  | o :: r => OpOk st o ∧ AllOk find (step cfg parse find st o) r

end
end JediModel.DiskCache

/-! `jedi/api/project.py:get_default_project` - which directory becomes the project when the user
gave none.  The walk goes from the start path (made absolute) up through its parents; per directory
the file system answers six questions (a parameter: `Dir`).  The function is transcribed statement
by statement; the order of the tests inside the loop is what decides the result. -/
namespace JediModel.DefaultProject

/-- what `Project.load(dir)` does -/
inductive Load where
  | loaded        -- `.jedi/project.json` exists and loads: `return Project.load(dir)`
  | missing       -- FileNotFoundError / IsADirectoryError / PermissionError: `pass`
  | notADirectory -- NotADirectoryError (`dir` is a file): `continue`
deriving DecidableEq, Repr

/-- one directory of the walk (innermost first) -/
structure Dir where
  id : Nat
  load : Load
  hasInit : Bool      -- `dir.joinpath('__init__.py').exists()`
  isFile : Bool       -- `dir.is_file()`
  django : Bool       -- `_is_django_path(dir)`: manage.py mentions DJANGO_SETTINGS_MODULE
  potential : Bool    -- `_is_potential_project(dir)`: one of setup.py, .git, .hg, requirements.txt, ...
deriving DecidableEq, Repr

/-- the outcome: which directory, and how it was chosen -/
inductive Choice where
  | config (d : Nat)        -- loaded from `.jedi/project.json`
  | django (d : Nat)
  | probable (d : Nat)
  | noInit (d : Nat)        -- first directory (from the inside) without `__init__.py`
  | curdir                  -- `path if path.is_dir() else path.parent`
deriving DecidableEq, Repr

/-- loop state: `probable_path`, `first_no_init_file` -/
structure St where
  probable : Option Nat := none
  noInit : Option Nat := none
deriving DecidableEq, Repr

/-- the body of `for dir in chain([check], check.parents)`: `some c` = `return` -/
def stepDir (st : St) (d : Dir) : Option Choice × St :=
  match d.load with
  | .loaded => (some (.config d.id), st)
  | .notADirectory => (none, st)                         -- `continue`
  | .missing =>
    -- `if first_no_init_file is None:` / `if __init__.py exists: continue` / `elif not dir.is_file(): ...`
    if st.noInit.isNone ∧ d.hasInit then (none, st)      -- `continue`: a package, the project sits above
    else
      let st := if st.noInit.isNone ∧ ¬ d.isFile then { st with noInit := some d.id } else st
      if d.django then (some (.django d.id), st)
      else
        let st := if st.probable.isNone ∧ d.potential then { st with probable := some d.id } else st
        (none, st)

def walk : St → List Dir → Choice
  | st, [] =>
    match st.probable with
    | some p => .probable p
    | none => match st.noInit with
      | some n => .noInit n
      | none => .curdir
  | st, d :: ds =>
    match stepDir st d with
    | (some c, _) => c
    | (none, st') => walk st' ds

/-- `get_default_project(path)` on the chain of directories of `path` (innermost first) -/
def defaultProject (chain : List Dir) : Choice := walk {} chain

def Choice.dir? : Choice → Option Nat
  | .config d => some d
  | .django d => some d
  | .probable d => some d
  | .noInit d => some d
  | .curdir => none

end JediModel.DefaultProject

import JediModel.Gen.C06
import JediModel.Lemmas.Refactor
/-! # C06 — Extract / inline keep the program valid and equivalent

Property theorems only.  What is a theorem here: the shape of `inline`'s outcome, the
soundness of its parenthesisation rule against a precedence table (with the rows where it
is *not* sound listed and kernel-checked to be counter-examples), and that `_replace`
inserts the extracted line *into* the prefix without touching the rest.  Behavioural
equivalence of whole programs is checked by executing generated programs (oracle). -/
namespace JediModel.Props.C06
open JediModel.Text JediModel.Tree JediModel.Refactor JediModel.Diff

abbrev parts := JediModel.Gen.C06.expressionParts

/-! ## inline: refuse or rewrite exactly the references and the definition -/

/-- the refusal messages of the model are the ones in the source, in source order -/
theorem inline_refusal_messages : refusals = Gen.C06.inlineRefusals := by decide

/-- `inline` either refuses, or returns a map whose keys are reference names (or, for an
attribute reference, its trailer and the nodes in front of it), the defining statement and
(maybe) the leaf after it — nothing else is rewritten -/
theorem inline_refuses_or_rewrites (names : List NameInfo) (d : DefInfo) :
    (∃ msg, Refactor.inline parts names d = .error msg) ∨
    (∃ m, Refactor.inline parts names d = .ok m ∧ ∀ k ∈ keysOf m, k ∈ allowedKeys names d) := by
  cases hres : Refactor.inline parts names d with
  | error msg => exact Or.inl ⟨msg, rfl⟩
  | ok m =>
    refine Or.inr ⟨m, rfl, ?_⟩
    intro k hk
    unfold Refactor.inline at hres
    split at hres
    · cases hres
    · split at hres
      · cases hres
      · simp only [Except.ok.injEq] at hres
        subst hres
        unfold allowedKeys
        unfold inlineMap at hk
        simp only at hk
        split at hk
        · rcases mset_keys _ _ _ _ hk with hk | hk
          · rcases mset_keys _ _ _ _ hk with hk | hk
            · rcases foldl_oneRef_keys _ _ _ _ _ hk with hk | hk
              · simp [keysOf] at hk
              · exact List.mem_append.mpr (Or.inl hk)
            · simp [hk]
          · simp [hk]
        · rcases mset_keys _ _ _ _ hk with hk | hk
          · rcases foldl_oneRef_keys _ _ _ _ _ hk with hk | hk
            · simp [keysOf] at hk
            · exact List.mem_append.mpr (Or.inl hk)
          · simp [hk]

/-- non-vacuity: `x = 1 + 2 ; y = x * 3` is rewritten (reference 7 parenthesised, statement 1
and the newline 5 removed) -/
example : (match Refactor.inline parts
    [⟨"statement", true, true, 2, [], "expr_stmt", false, 1, false, [], []⟩,
     ⟨"statement", true, false, 7, " ".toList, "term", false, 6, false, [], []⟩]
    ⟨"expr_stmt", 1, 1, "operator", "=".toList, "=".toList, 0, [], "arith_expr", "1 + 2".toList,
      [], 5, [], "newline", "\n".toList⟩ with
    | .ok m => some m | .error _ => none)
    = some [(7, " (1 + 2)".toList), (1, []), (5, [])] := by decide +kernel

/-! ## parentheses -/

/-- the rows of the table where `inline` adds no parentheses although the grammar needs them -/
def excludedRows : List (String × String) := [
  ("star-expr", "lambdef"), ("star-expr", "test"), ("star-expr", "or_test"),
  ("star-expr", "and_test"), ("star-expr", "not_test"), ("star-expr", "comparison"),
  ("dict-dstar", "lambdef"), ("dict-dstar", "test"), ("dict-dstar", "or_test"),
  ("dict-dstar", "and_test"), ("dict-dstar", "not_test"), ("dict-dstar", "comparison"),
  ("ternary-value", "lambdef"), ("ternary-value", "test"),
  ("ternary-cond", "lambdef"), ("ternary-cond", "test"),
  ("comp-iter", "lambdef"), ("comp-iter", "test"),
  ("comp-if", "lambdef"), ("comp-if", "test")]

/- FULL (false of the unchanged code, see `excluded_rows_are_counterexamples`):
   ∀ c ∈ allCtx, ∀ r ∈ allRhs, needsParens c r → jediParens parts r.type c.parent c.trailerNext -/

/-- over the whole table (58 slots × 20 kinds of right-hand side): wherever the grammar needs
parentheses `inline` adds them — except in the excluded rows -/
theorem inline_parens_sound_partial :
    ∀ c ∈ allCtx, ∀ r ∈ allRhs, (c.name, r.type) ∉ excludedRows →
      needsParens c r = true → jediParens parts r.type c.parent c.trailerNext = true := by
  decide +kernel

/-- every excluded row is a genuine counter-example on the model (F7: `ternary-*`/`test`,
F8: `star-expr`/`or_test`, …); the harness replays each of them on the real code -/
theorem excluded_rows_are_counterexamples :
    ∀ p ∈ excludedRows, ∃ c ∈ allCtx, ∃ r ∈ allRhs, c.name = p.1 ∧ r.type = p.2 ∧
      needsParens c r = true ∧ jediParens parts r.type c.parent c.trailerNext = false := by
  decide +kernel

/-- and they are exactly the unsound rows -/
theorem excluded_rows_exact :
    (unsoundPairs parts).map (fun p => (p.1.name, p.2.type)) = excludedRows := by
  decide +kernel

/-- the rule never depends on anything but the three facts the source inspects; inside an
`EXPRESSION_PARTS` parent it always parenthesises (over-approximation, harmless) -/
theorem inline_parens_in_expression_parts (rhsType parentType : String) (tn : Bool)
    (h : parentType ∈ parts) : jediParens parts rhsType parentType tn = true := by
  simp only [jediParens, Bool.or_eq_true, List.contains_iff_mem]
  exact Or.inl (Or.inr h)

/-! ## extract: the extracted line goes *into* the prefix, everything else stays -/

/-- `_replace` keeps every byte of the prefix in front of which it inserts: the new text is
the old prefix with one line (the extracted code, indented like the statement) inserted
before its last line (the indentation) -/
theorem extract_keeps_prefixes (ind : Str → Str → Str) (pfx extracted r : Str)
    (h : insertBefore ind pfx none extracted = some r) :
    ∃ pre last, pfx = pre ++ last ∧ r = pre ++ ind extracted last ++ ['\n'] ++ last := by
  unfold insertBefore at h
  simp only at h
  split at h
  · cases h
  · rename_i last hl
    simp only [Option.some.injEq] at h
    refine ⟨(splitLines pfx).dropLast.flatten, last, ?_, h.symm⟩
    rw [dropLast_flatten_getLast _ _ hl, splitLines_flatten]

/-- it always succeeds (`lines[-1]` exists) -/
theorem extract_insert_total (ind : Str → Str → Str) (pfx extracted : Str) (rp : Option Str) :
    (insertBefore ind pfx rp extracted).isSome := by
  unfold insertBefore
  have := splitLines_ne_nil pfx
  simp only
  split
  · rename_i h; simp [List.getLast?_eq_none_iff] at h; exact absurd h this
  · rfl

/-- `_replace` rewrites only the first selected node, the leaf it inserts before, and blanks
the other selected nodes -/
theorem extract_replace_keys (ind : Str → Str → Str) (same : Bool) (node0 : Nat) (firstPfx : Str)
    (insId : Nat) (insPfx insValue : Str) (rest : List Nat) (replacement extracted : Str)
    (remaining : Option Str) (m : Map)
    (h : replaceMap ind same node0 firstPfx insId insPfx insValue rest replacement extracted remaining
      = some m) :
    ∀ k ∈ keysOf m, k = node0 ∨ k = insId ∨ k ∈ rest := by
  unfold replaceMap at h
  split at h
  · cases h
  · simp only [Option.some.injEq] at h
    subst h
    intro k hk
    rcases foldl_mset_keys _ _ _ hk with hk | hk
    · split at hk
      · rcases mset_keys _ _ _ _ hk with hk | hk
        · simp [keysOf] at hk
        · left; exact hk
      · rcases mset_keys _ _ _ _ hk with hk | hk
        · rcases mset_keys _ _ _ _ hk with hk | hk
          · simp [keysOf] at hk
          · left; exact hk
        · right; left; exact hk
    · right; right; exact hk

example : insertBefore (fun ex last => last ++ ex) ['\n', ' ', ' '] none ['e', '=', '1']
    = some ['\n', ' ', ' ', 'e', '=', '1', '\n', ' ', ' '] := by decide

/-- shape of the source the model relies on -/
theorem source_shape :
    Gen.C06.definitionScopes = ["suite", "file_input"] ∧
    "testlist_star_expr" ∈ Gen.C06.variableExtractableExtra ∧
    "trailer" ∉ Gen.C06.expressionParts := by decide

end JediModel.Props.C06

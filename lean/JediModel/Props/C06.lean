import JediModel.Gen.C06
import JediModel.Lemmas.Refactor
import JediModel.Lemmas.ExtractIO
import JediModel.Lemmas.NonExtractable
import JediModel.Lemmas.ExtractOut
/-! # C06 — Extract / inline keep the program valid and equivalent

Property theorems only.  What is a theorem here: the shape of `inline`'s outcome, the
soundness of its parenthesisation rule against a precedence table (with the rows where it
is *not* sound listed and kernel-checked to be counter-examples), and that `_replace`
inserts the extracted line *into* the prefix without touching the rest.  Behavioural
equivalence of whole programs is checked by executing generated programs (oracle). -/
namespace JediModel.Props.C06
open JediModel.Text JediModel.Tree JediModel.Refactor JediModel.Diff

abbrev parts := JediModel.Gen.C06.expressionParts

/-- the parenthesisation rule of `inline`, every component read from the source by the translator -/
abbrev rule : ParenRule :=
  ⟨Gen.C06.expressionParts, Gen.C06.inlineParensExtraParents, Gen.C06.inlineParensDictDoubleStar,
   Gen.C06.inlineParensAttributeSlot⟩

/-! ## inline: refuse or rewrite exactly the references and the definition -/

/-- the refusal messages of the model are the ones in the source, in source order -/
theorem inline_refusal_messages : refusals = Gen.C06.inlineRefusals := by decide

/-- `inline` either refuses, or returns a map whose keys are reference names (or, for an
attribute reference, its trailer and the nodes in front of it), the defining statement and
(maybe) the leaf after it — nothing else is rewritten -/
theorem inline_refuses_or_rewrites (names : List NameInfo) (d : DefInfo) :
    (∃ msg, Refactor.inline rule names d = .error msg) ∨
    (∃ m, Refactor.inline rule names d = .ok m ∧ ∀ k ∈ keysOf m, k ∈ allowedKeys names d) := by
  cases hres : Refactor.inline rule names d with
  | error msg => exact Or.inl ⟨msg, rfl⟩
  | ok m =>
    refine Or.inr ⟨m, rfl, ?_⟩
    intro k hk
    unfold Refactor.inline at hres
    split at hres
    · cases hres
    · split at hres
      · cases hres
      · simp only [Except.ok.injEq] at hres
        subst hres
        unfold allowedKeys
        unfold inlineMap at hk
        simp only at hk
        split at hk
        · rcases mset_keys _ _ _ _ hk with hk | hk
          · rcases mset_keys _ _ _ _ hk with hk | hk
            · rcases foldl_oneRef_keys _ _ _ _ _ hk with hk | hk
              · simp [keysOf] at hk
              · exact List.mem_append.mpr (Or.inl hk)
            · simp [hk]
          · simp [hk]
        · rcases mset_keys _ _ _ _ hk with hk | hk
          · rcases foldl_oneRef_keys _ _ _ _ _ hk with hk | hk
            · simp [keysOf] at hk
            · exact List.mem_append.mpr (Or.inl hk)
          · simp [hk]

/-- non-vacuity: `x = 1 + 2 ; y = x * 3` is rewritten (reference 7 parenthesised, statement 1
and the newline 5 removed) -/
example : (match Refactor.inline rule
    [{ apiType := "statement", hasTree := true, isDef := true, id := 2, pfx := [], parentType := "expr_stmt",
       parentNext := false, parentId := 1, dotTrailer := false, firstPfx := [], before := [] },
     { apiType := "statement", hasTree := true, isDef := false, id := 7, pfx := " ".toList, parentType := "term",
       parentNext := false, parentId := 6, dotTrailer := false, firstPfx := [], before := [] }]
    ⟨"expr_stmt", 1, 1, "operator", "=".toList, "=".toList, 0, [], "arith_expr", "1 + 2".toList,
      [], 5, [], "newline", "\n".toList⟩ with
    | .ok m => some m | .error _ => none)
    = some [(7, " (1 + 2)".toList), (1, []), (5, [])] := by decide +kernel

/-! ## parentheses -/

/-- the source has (at least) the parenthesisation rule of
proposed_fixes/c06-1-inline-parenthesize-slots.diff -/
def fixedShape : Bool :=
  originalParts.all (fun x => parts.contains x) &&
  fixExtra.all (fun x => Gen.C06.inlineParensExtraParents.contains x) &&
  Gen.C06.inlineParensDictDoubleStar

/-- the rows of the table where the ORIGINAL `inline` adds no parentheses although the grammar needs
them (F7: `ternary-*`/`test`, F8: `star-expr`/`or_test`, ...) -/
def excludedRowsOriginal : List (String × String) := [
  ("star-expr", "lambdef"), ("star-expr", "test"), ("star-expr", "or_test"),
  ("star-expr", "and_test"), ("star-expr", "not_test"), ("star-expr", "comparison"),
  ("dict-dstar", "lambdef"), ("dict-dstar", "test"), ("dict-dstar", "or_test"),
  ("dict-dstar", "and_test"), ("dict-dstar", "not_test"), ("dict-dstar", "comparison"),
  ("ternary-value", "lambdef"), ("ternary-value", "test"),
  ("ternary-cond", "lambdef"), ("ternary-cond", "test"),
  ("comp-iter", "lambdef"), ("comp-iter", "test"),
  ("comp-if", "lambdef"), ("comp-if", "test")]

/-- the excluded rows for the source as it is: none once the rule has the fixed shape -/
def excludedRows : List (String × String) := if fixedShape then [] else excludedRowsOriginal

/-- the excluded rows are exactly the unsound rows of the rule found in the source (the one
evaluation of the whole table, 58 slots × 20 kinds of right-hand side, against the translated rule;
any other edit of the condition changes the left-hand side and breaks this) -/
theorem excluded_rows_exact : (unsoundPairs rule).map rowName = excludedRows := by
  decide +kernel

/-- FULL statement, for every rule that is at least the proposed one: wherever the grammar needs
parentheses `inline` adds them -/
theorem inline_parens_sound_of_fix (R : ParenRule) (hp : ∀ x ∈ originalParts, x ∈ R.parts)
    (he : ∀ x ∈ fixExtra, x ∈ R.extra) (hd : R.dictRule = true) :
    ∀ c ∈ allCtx, ∀ r ∈ allRhs, needsParens c r = true →
      jediParens R r.type c.parent c.trailerNext c.dstar = true := by
  intro c hc r hr h
  exact jediParens_mono minimalFixedRule R hp he (fun _ => hd) _ _ _ _ (minimalFixedRule_sound c hc r hr h)

/-- non-vacuity: the weakest rule of the proposed shape satisfies the hypotheses -/
example : ∀ c ∈ allCtx, ∀ r ∈ allRhs, needsParens c r = true →
    jediParens minimalFixedRule r.type c.parent c.trailerNext c.dstar = true :=
  inline_parens_sound_of_fix minimalFixedRule (fun _ h => h) (fun _ h => h) rfl

/-- FULL statement about the source: holds as soon as the translator finds the fixed shape
(`fixedShape` is a closed Boolean over `Gen.C06`: `true` on a tree with the proposed fix, `false` on
the original tree, where the statement is false - see `excluded_rows_are_counterexamples`) -/
theorem inline_parens_sound (hfixed : fixedShape = true) :
    ∀ c ∈ allCtx, ∀ r ∈ allRhs, needsParens c r = true →
      jediParens rule r.type c.parent c.trailerNext c.dstar = true := by
  unfold fixedShape at hfixed
  simp only [Bool.and_eq_true, List.all_eq_true, List.contains_iff_mem] at hfixed
  exact inline_parens_sound_of_fix rule hfixed.1.1 hfixed.1.2 hfixed.2

/-- over the whole table: wherever the grammar needs parentheses `inline` adds them - except in
the excluded rows (none for the fixed shape, the 20 rows above for the original source) -/
theorem inline_parens_sound_partial :
    ∀ c ∈ allCtx, ∀ r ∈ allRhs, (c.name, r.type) ∉ excludedRows →
      needsParens c r = true → jediParens rule r.type c.parent c.trailerNext c.dstar = true := by
  intro c hc r hr hn h
  rw [← excluded_rows_exact] at hn
  exact sound_outside_unsound rule c hc r hr hn h

/-- every excluded row is a genuine counter-example on the model; the harness replays each of them
on the real code -/
theorem excluded_rows_are_counterexamples :
    ∀ p ∈ excludedRows, ∃ c ∈ allCtx, ∃ r ∈ allRhs, c.name = p.1 ∧ r.type = p.2 ∧
      needsParens c r = true ∧ jediParens rule r.type c.parent c.trailerNext c.dstar = false := by
  rw [← excluded_rows_exact]
  exact unsound_are_counterexamples rule

/-- the original rule (no extra parent types, no `**` disjunct) has exactly the 20 unsound rows,
whatever the source looks like now -/
theorem original_rule_unsound_rows :
    (unsoundPairs ⟨originalParts, [], false, false⟩).map rowName = excludedRowsOriginal := by
  decide +kernel

/-- inside an `EXPRESSION_PARTS` parent the rule always parenthesises (over-approximation, harmless) -/
theorem inline_parens_in_expression_parts (rhsType parentType : String) (tn ds : Bool)
    (h : parentType ∈ parts) : jediParens rule rhsType parentType tn ds = true := by
  simp only [jediParens, Bool.or_eq_true, List.contains_iff_mem]
  exact Or.inl (Or.inl (Or.inl (Or.inr h)))

/-- for an attribute reference `obj.name` that is not followed by another trailer, the fixed source
decides from the slot of `obj.name`; the original one from the trailer `.name`, i.e. never
parenthesises unless the right-hand side is a bare tuple -/
theorem attribute_reference_slot (d : DefInfo) (n : NameInfo) (hd : n.dotTrailer = true)
    (hn : n.parentNext = false) (hpt : n.parentType = "trailer") :
    refParens rule d n =
      if Gen.C06.inlineParensAttributeSlot
      then jediParens rule d.rhsType n.slotParentType n.slotParentNext n.slotPrevDstar
      else jediParens rule d.rhsType "trailer" false n.prevDstar := by
  unfold refParens
  simp only [hd, hn, hpt, Bool.not_false, Bool.and_true]

/-! ## extract: the extracted line goes *into* the prefix, everything else stays -/

/-- `_replace` keeps every byte of the prefix in front of which it inserts: the new text is
the old prefix with one line (the extracted code, indented like the statement) inserted
before its last line (the indentation) -/
theorem extract_keeps_prefixes (ind : Str → Str → Str) (pfx extracted r : Str)
    (h : insertBefore ind pfx none extracted = some r) :
    ∃ pre last, pfx = pre ++ last ∧ r = pre ++ ind extracted last ++ ['\n'] ++ last := by
  unfold insertBefore at h
  simp only at h
  split at h
  · cases h
  · rename_i last hl
    simp only [Option.some.injEq] at h
    refine ⟨(splitLines pfx).dropLast.flatten, last, ?_, h.symm⟩
    rw [dropLast_flatten_getLast _ _ hl, splitLines_flatten]

/-- it always succeeds (`lines[-1]` exists) -/
theorem extract_insert_total (ind : Str → Str → Str) (pfx extracted : Str) (rp : Option Str) :
    (insertBefore ind pfx rp extracted).isSome := by
  unfold insertBefore
  have := splitLines_ne_nil pfx
  simp only
  split
  · rename_i h; simp [List.getLast?_eq_none_iff] at h; exact absurd h this
  · rfl

/-- `_replace` rewrites only the first selected node, the leaf it inserts before, and blanks
the other selected nodes -/
theorem extract_replace_keys (ind : Str → Str → Str) (same : Bool) (node0 : Nat) (firstPfx : Str)
    (insId : Nat) (insPfx insValue : Str) (rest : List Nat) (replacement extracted : Str)
    (remaining : Option Str) (m : Map)
    (h : replaceMap ind same node0 firstPfx insId insPfx insValue rest replacement extracted remaining
      = some m) :
    ∀ k ∈ keysOf m, k = node0 ∨ k = insId ∨ k ∈ rest := by
  unfold replaceMap at h
  split at h
  · cases h
  · simp only [Option.some.injEq] at h
    subst h
    intro k hk
    rcases foldl_mset_keys _ _ _ hk with hk | hk
    · split at hk
      · rcases mset_keys _ _ _ _ hk with hk | hk
        · simp [keysOf] at hk
        · left; exact hk
      · rcases mset_keys _ _ _ _ hk with hk | hk
        · rcases mset_keys _ _ _ _ hk with hk | hk
          · simp [keysOf] at hk
          · left; exact hk
        · right; left; exact hk
    · right; right; exact hk

/-- expression extraction (`remaining_prefix is None`) that inserts in front of another leaf keeps
the WHOLE prefix of the replaced expression - line break, comment lines, indentation - in front of
the replacement (`p = first_node_leaf.prefix`; the translator checks that this is what the source
does: `Gen.C06.replaceNodePrefix`) -/
theorem extract_replace_keeps_node_prefix (ind : Str → Str → Str) (node0 : Nat) (firstPfx : Str)
    (insId : Nat) (insPfx insValue : Str) (rest : List Nat) (replacement extracted : Str) (m : Map)
    (h : replaceMap ind false node0 firstPfx insId insPfx insValue rest replacement extracted none = some m)
    (h1 : node0 ≠ insId) (h2 : node0 ∉ rest) :
    m.get? node0 = some (firstPfx ++ replacement) := by
  unfold replaceMap at h
  split at h
  · cases h
  · simp only [Option.some.injEq, Bool.false_eq_true, ↓reduceIte] at h
    subst h
    rw [get_foldl_mset_other rest node0 h2, get_mset_other _ _ _ _ h1, get_mset_self]

/-- the same case leaves the leaf it inserts before with its value and its whole prefix around the
new line -/
theorem extract_replace_insert_leaf (ind : Str → Str → Str) (node0 : Nat) (firstPfx : Str)
    (insId : Nat) (insPfx insValue : Str) (rest : List Nat) (replacement extracted : Str) (m : Map)
    (h : replaceMap ind false node0 firstPfx insId insPfx insValue rest replacement extracted none = some m)
    (h2 : insId ∉ rest) :
    ∃ pre last, insPfx = pre ++ last ∧
      m.get? insId = some (pre ++ ind extracted last ++ ['\n'] ++ last ++ insValue) := by
  unfold replaceMap at h
  split at h
  · cases h
  · rename_i ep hep
    simp only [Option.some.injEq, Bool.false_eq_true, ↓reduceIte] at h
    subst h
    obtain ⟨pre, last, hp, hr⟩ := extract_keeps_prefixes ind insPfx extracted ep hep
    refine ⟨pre, last, hp, ?_⟩
    rw [get_foldl_mset_other rest insId h2, get_mset_self, hr]

example : (replaceMap (fun ex last => last ++ ex) false 5 "\n  # c\n  ".toList 2 [] "y".toList [] "k".toList
    "k = 1".toList none).bind (·.get? 5) = some "\n  # c\n  k".toList := by decide

/-- the translator found `p = first_node_leaf.prefix` in `_replace` -/
theorem replace_source_shape : Gen.C06.replaceNodePrefix = "first_node_leaf.prefix" := by decide

example : insertBefore (fun ex last => last ++ ex) ['\n', ' ', ' '] none ['e', '=', '1']
    = some ['\n', ' ', ' ', 'e', '=', '1', '\n', ' ', ' '] := by decide

/-- shape of the source the model relies on -/
theorem source_shape :
    Gen.C06.definitionScopes = ["suite", "file_input"] ∧
    "testlist_star_expr" ∈ Gen.C06.variableExtractableExtra ∧
    "trailer" ∉ Gen.C06.expressionParts := by decide

/-! ## extract_function: which names of a statement selection become parameters

`_find_inputs_and_outputs` (model `ExtractIO.findInputsOutputs`, the loop shape read from the source by the
translator: `Gen.C06.extractReadsAugTarget`).  `Occ.outer` is the verdict of the real lookup of one occurrence
(not modelled; supplied per occurrence by the harness with the real `context.goto` / `_is_name_input`).
What is proved: the bookkeeping of the loop can neither lose nor invent nor duplicate a parameter. -/
section ExtractInputs
open JediModel.ExtractIO

/-- the shape of the loop in the source -/
abbrev ioCfg : Cfg := ⟨Gen.C06.extractReadsAugTarget⟩

/-- Completeness for plain reads, for both accepted shapes of the source: EVERY read whose lookup leaves the
selection makes its name a parameter - wherever it occurs in the selection and whatever the lookups of earlier
occurrences of the same name said (first bound then read inside the selection, read with the outer value
later: still a parameter).  `_partial`: reads through the target of an augmented assignment are not covered
by the original shape, see `extract_aug_target_read_missed`. -/
theorem extract_inputs_complete_partial (occs : List Occ) (o : Occ) (hm : o ∈ occs)
    (hd : o.isDef = false) (ho : o.outer = true) :
    o.value ∈ (findInputsOutputs ioCfg occs).inputs :=
  fold_complete ioCfg occs _ o hm (by simp [isRead, hd]) ho

example : (findInputsOutputs ioCfg
    [⟨"c", false, false, true⟩, ⟨"b", true, false, false⟩, ⟨"r", true, false, false⟩, ⟨"b", false, false, false⟩,
     ⟨"r", true, false, false⟩, ⟨"b", false, false, true⟩]).inputs = ["c", "b"] := by decide

/-- FULL completeness (every read, the target of an augmented assignment included) for every shape of the loop
that looks augmented targets up - the shape of proposed_fixes/c06-4 -/
theorem extract_inputs_complete_of_fix (cfg : Cfg) (hfix : cfg.readsAugTarget = true) (occs : List Occ) (o : Occ)
    (hm : o ∈ occs) (hr : o.isDef = false ∨ o.augTarget = true) (ho : o.outer = true) :
    o.value ∈ (findInputsOutputs cfg occs).inputs := by
  refine fold_complete cfg occs _ o hm ?_ ho
  rcases hr with h | h <;> simp [isRead, h, hfix]

/-- ... and the source has that shape exactly when the translator says so -/
theorem extract_inputs_complete (hfix : Gen.C06.extractReadsAugTarget = true) (occs : List Occ) (o : Occ)
    (hm : o ∈ occs) (hr : o.isDef = false ∨ o.augTarget = true) (ho : o.outer = true) :
    o.value ∈ (findInputsOutputs ioCfg occs).inputs :=
  extract_inputs_complete_of_fix ioCfg hfix occs o hm hr ho

example : (findInputsOutputs ⟨true⟩ [⟨"acc", true, true, true⟩, ⟨"a", false, false, true⟩]).inputs = ["acc", "a"] := by
  decide

/-- counter-witness for the unrestricted statement over the original shape: `acc += a` with `acc` bound in front
of the selection - `acc` is read, its lookup leaves the selection, and it is no parameter
(known finding C06-root-extract-function-augmented-assignment-target, replayed on the real code by
corpus/C06/flow-02) -/
theorem extract_aug_target_read_missed :
    (findInputsOutputs ⟨false⟩ [⟨"acc", true, true, true⟩, ⟨"a", false, false, true⟩]).inputs = ["a"] := by decide

/-- Soundness: a parameter is the name of an occurrence that the loop looks up and whose lookup leaves the
selection - nothing else becomes a parameter -/
theorem extract_inputs_sound (occs : List Occ) (v : String) (h : v ∈ (findInputsOutputs ioCfg occs).inputs) :
    ∃ o ∈ occs, o.value = v ∧ o.outer = true ∧ isRead ioCfg o = true := by
  rcases fold_origin ioCfg occs _ v h with h | h
  · cases h
  · exact h

example : ∃ v, v ∈ (findInputsOutputs ioCfg [⟨"a", false, false, true⟩]).inputs := ⟨"a", by decide⟩

/-- no parameter name twice (`def f(a, a)` would not compile) -/
theorem extract_inputs_nodup (occs : List Occ) : (findInputsOutputs ioCfg occs).inputs.Nodup :=
  fold_nodup ioCfg occs _ (by simp)

example : (findInputsOutputs ioCfg [⟨"a", false, false, true⟩, ⟨"a", false, false, true⟩]).inputs = ["a"] := by
  decide

/-- the output candidates are the names of the defining occurrences, in source order (with repetitions:
`name not in outputs` compares a parso Name with strings) -/
theorem extract_outputs_spec (occs : List Occ) :
    (findInputsOutputs ioCfg occs).outputs = (occs.filter (·.isDef)).map (·.value) := by
  have h := fold_outputs ioCfg occs ⟨[], []⟩
  simpa [findInputsOutputs] using h

example : (findInputsOutputs ioCfg [⟨"b", true, false, false⟩, ⟨"b", true, false, false⟩]).outputs = ["b", "b"] := by
  decide

/-- Why the guard of the lookup has to be `name.value not in inputs` and nothing coarser: a loop that remembers
every name it has looked up (seeded defect C06-2) is incomplete - `if c: b = 10; r = b / else: r = b * 2`:
the first read of `b` resolves inside the selection, the second one outside, `b` is no parameter -/
theorem resolve_once_misses_later_outer_read :
    let occs : List Occ := [⟨"c", false, false, true⟩, ⟨"b", true, false, false⟩, ⟨"r", true, false, false⟩,
      ⟨"b", false, false, false⟩, ⟨"r", true, false, false⟩, ⟨"b", false, false, true⟩]
    (findInputsOnce occs).inputs = ["c"] ∧ (findInputsOutputs ioCfg occs).inputs = ["c", "b"] := by decide

/-- the translator found one of the two loop shapes, and the lookup position that goes with it -/
theorem extract_inputs_source_shape :
    (Gen.C06.extractReadsAugTarget = false ∧ Gen.C06.extractLookupPosition = "name.start_pos") ∨
    (Gen.C06.extractReadsAugTarget = true ∧ Gen.C06.extractLookupPosition = "_get_lookup_position(name)") := by
  decide

end ExtractInputs

/-! ## extract_function: which names bound by a statement selection are handed back

`_find_needed_output_variables` over `_find_non_global_names` (model `ExtractOut.needed`; the shape of the walk is read
from the source by the translator: `Gen.C06.nonGlobalSkipsAttributeTrailer`, `Gen.C06.nonGlobalPrunesScopeBody`).
The specification `ExtractOut.readsLater` does not look at the code: the names READ by the statements behind the
selection at any depth, the bodies of nested functions and lambdas included (a closure reads the variable of the
enclosing function when it is called).  What is proved: every candidate that is read later is handed back, nothing
else is, none twice; a walk that leaves the body of a nested function out is not complete (kernel-checked). -/
section ExtractOutputs
open JediModel.ExtractOut

/-- the walk of the source, as translated -/
abbrev srcWalk : Walk := ⟨Gen.C06.nonGlobalSkipsAttributeTrailer, Gen.C06.nonGlobalPrunesScopeBody⟩

/-- the translator found the walk that passes over attribute names and enters every body, and the loop / the
expression that use it (a source edit that prunes the walk or changes the loop makes the translator or this fail) -/
theorem needed_outputs_source_shape :
    srcWalk = fullWalk ∧
    Gen.C06.neededOutputsWalk = "_find_non_global_names([node])" ∧
    Gen.C06.neededOutputsCondition = "not name.is_definition() and name.value in return_variables" ∧
    Gen.C06.returnVariablesExpression =
      "list(_find_needed_output_variables(context, nodes[0].parent, nodes[-1].end_pos, return_variables)) or [return_variables[-1]] if return_variables else []" :=
  ⟨by decide, rfl, rfl, rfl⟩

/-- Completeness, general form: for EVERY walk that enters the bodies of nested functions (and passes over attribute
names), a name the selection binds that is read anywhere behind the selection - directly, in a default argument, or
from the body of a closure - is handed back -/
theorem needed_outputs_complete_of_full_walk (w : Walk) (h1 : w.pruneScopeBody = false) (h2 : w.skipAttr = true)
    (sibs : List Sibling) (rv : List String) (v : String) (hc : v ∈ rv) (hr : v ∈ readsLater sibs) :
    v ∈ needed w sibs rv := by
  have hw : w = fullWalk := by
    cases w; simp only [fullWalk] at *; simp [h1, h2]
  subst hw
  rw [needed_eq]
  refine fold_complete _ _ v hc ?_
  rw [← mem_readsOf, readsOf_laterNames_full]
  exact hr

/-- Completeness of the source (FULL statement) -/
theorem needed_outputs_complete (sibs : List Sibling) (rv : List String) (v : String) (hc : v ∈ rv)
    (hr : v ∈ readsLater sibs) : v ∈ needed srcWalk sibs rv :=
  needed_outputs_complete_of_full_walk srcWalk (by decide) (by decide) sibs rv v hc hr

/-- hypotheses satisfiable, non-trivially: `lo = ..; hi = ..` selected, then `shift = lambda v: v - lo` and
`return hi`: both are handed back, `lo` first -/
example : needed srcWalk
    [⟨true, .node (.name "lo" true (.leaf (.leaf .done))) .done⟩,
     ⟨true, .node (.name "hi" true (.leaf (.leaf .done))) .done⟩,
     ⟨false, .node (.name "shift" true (.leaf (.scope (.leaf (.name "v" true (.leaf .done)))
        (.node (.name "v" false (.leaf (.name "lo" false .done))) .done) .done))) .done⟩,
     ⟨false, .node (.leaf (.name "hi" false .done)) .done⟩]
    ["lo", "hi"] = ["lo", "hi"] := by decide

/-- Soundness: what is handed back is a candidate, and it is read behind the selection -/
theorem needed_outputs_sound (sibs : List Sibling) (rv : List String) (v : String)
    (h : v ∈ needed srcWalk sibs rv) : v ∈ rv ∧ v ∈ readsLater sibs := by
  have hw : srcWalk = fullWalk := needed_outputs_source_shape.1
  rw [hw, needed_eq] at h
  rcases fold_origin _ _ v h with h | ⟨h1, h2⟩
  · cases h
  · exact ⟨h1, by rw [← readsOf_laterNames_full, mem_readsOf]; exact h2⟩

example : ∃ v, v ∈ needed srcWalk [⟨false, .name "b" false .done⟩] ["a", "b"] := ⟨"b", by decide⟩

/-- no name is handed back twice, whatever the walk and however often it is bound and read -/
theorem needed_outputs_nodup (w : Walk) (sibs : List Sibling) (rv : List String) : (needed w sibs rv).Nodup := by
  rw [needed_eq]
  exact (fold_inv _ ⟨rv, []⟩ ⟨List.nodup_nil, by simp⟩).1

example : needed srcWalk [⟨false, .name "b" false (.name "b" false .done)⟩] ["b", "b"] = ["b"] := by decide

/-- the expression in `extract_function`: the returned names are candidates; when there are candidates something is
returned (the last bound name when none is read later); every candidate that is read later is among them -/
theorem return_variables_spec (sibs : List Sibling) (rv : List String) :
    (∀ v ∈ returnVariables srcWalk sibs rv, v ∈ rv) ∧
    (rv ≠ [] → returnVariables srcWalk sibs rv ≠ []) ∧
    (∀ v ∈ rv, v ∈ readsLater sibs → v ∈ returnVariables srcWalk sibs rv) := by
  unfold returnVariables
  cases hl : rv.getLast? with
  | none =>
    have : rv = [] := List.getLast?_eq_none_iff.mp hl
    subst this
    simp
  | some last =>
    have hlast : last ∈ rv := List.mem_of_getLast? hl
    cases hn : needed srcWalk sibs rv with
    | nil =>
      refine ⟨by simpa using hlast, by simp, ?_⟩
      intro v hv hr
      have := needed_outputs_complete sibs rv v hv hr
      rw [hn] at this
      cases this
    | cons a l =>
      refine ⟨?_, by simp, ?_⟩
      · intro v hv
        exact (needed_outputs_sound sibs rv v (by rw [hn]; exact hv)).1
      · intro v hv hr
        have := needed_outputs_complete sibs rv v hv hr
        rw [hn] at this
        exact this

example : returnVariables srcWalk [⟨false, .leaf .done⟩] ["a", "b"] = ["b"] := by decide

/-- kernel-checked counter-witness for a walk that is NOT the source (seeded defect, round 4: the last child of a
funcdef / lambdef is left out "because it is a scope of its own"): `lo = a - 1; hi = a * 3` selected, then
`shift = lambda v: v - lo` and `return [...], hi`.  `lo` is read behind the selection (specification) and is not
handed back; the default argument of a nested function and a direct read are still seen -/
theorem pruned_walk_misses_closure_read :
    let later : List Sibling :=
      [⟨true, .node (.name "lo" true (.leaf (.leaf .done))) .done⟩,
       ⟨true, .node (.name "hi" true (.leaf (.leaf .done))) .done⟩,
       ⟨false, .node (.name "shift" true (.leaf (.scope (.leaf (.name "v" true (.leaf .done)))
          (.node (.name "v" false (.leaf (.name "lo" false .done))) .done) .done))) .done⟩,
       ⟨false, .node (.leaf (.name "hi" false .done)) .done⟩]
    "lo" ∈ readsLater later ∧
    needed prunedWalk later ["lo", "hi"] = ["hi"] ∧ returnVariables prunedWalk later ["lo", "hi"] = ["hi"] ∧
    needed fullWalk later ["lo", "hi"] = ["lo", "hi"] ∧
    needed prunedWalk [⟨false, .scope (.name "g" true (.name "x" true (.leaf (.name "lo" false .done))))
      (.name "x" false .done) .done⟩] ["lo"] = ["lo"] := by decide

end ExtractOutputs

/-! ## extract_function: which statement selections are refused

`_check_for_non_extractables` (model `NonExtractable.check`; its three branches and the statements behind them are read
from the source as data by the translator: `Gen.C06.checkLoopBranch` ..., which recursive call gets which part of the
children and which value of `in_loop`, and whether `in_loop` is rebound).  A statement selection that is moved into a
new function must not contain `return` / `yield`, nor a `break` / `continue` whose loop stays behind
(`NonExtractable.loose`, a definition that does not look at the code).  What is proved: the function refuses exactly
these selections; the flag it passes on never leaks from a node to its later siblings. -/
section NonExtractables
open JediModel.NonExtractable

/-- the function of the source, as translated -/
def checkProg : Option Prog :=
  Prog.decode Gen.C06.checkAlwaysRefused Gen.C06.checkJumpKeywords Gen.C06.checkLoopBranch
    Gen.C06.checkScopeBranch Gen.C06.checkOtherBranch Gen.C06.checkTail

/-- the translation is the reference shape (a source edit that changes a recursive call, the flag it passes, or
rebinds `in_loop` makes this fail) -/
theorem check_source_shape : checkProg = some reference := by decide

/-- FULL statement: `_check_for_non_extractables(nodes)` raises iff the selection contains `return` / `yield`
anywhere or a `break` / `continue` that is not enclosed by a loop of the selection (a nested def / class / lambda
starts afresh, the `else` clause of a loop is outside of that loop) -/
theorem refuses_iff_loose (P : Prog) (h : checkProg = some P) (sel : Sel) : refuses P sel = loose sel false := by
  rw [check_source_shape] at h
  cases h
  simp [refuses, check_reference]

/-- the hypotheses are satisfiable, non-trivially: a loop (with a jump of its own) followed by a jump of a loop that
is not selected is refused, the loop alone is not -/
example : ∃ P, checkProg = some P ∧
    refuses P (.loop (.other (.leaf "break" .done) .done) .done (.other (.leaf "continue" .done) .done)) = true ∧
    refuses P (.loop (.other (.leaf "break" .done) .done) .done .done) = false :=
  ⟨reference, check_source_shape, by decide, by decide⟩

/-- `in_loop` is not rebound in the source: every later sibling of a node is checked with the flag of the call -/
theorem flag_does_not_leak (P : Prog) (h : checkProg = some P) (sel : Sel) (fl : Bool) : (check P sel fl).2 = fl := by
  rw [check_source_shape] at h
  cases h
  exact check_flag reference (by decide) sel fl

example : ∃ P, checkProg = some P := ⟨reference, check_source_shape⟩

/-- the general reason: ANY variant of the function whose branches do not rebind the flag keeps it for the siblings -/
theorem constant_flag_does_not_leak (P : Prog) (h : P.flagIsConstant = true) (sel : Sel) (fl : Bool) :
    (check P sel fl).2 = fl := check_flag P h sel fl

example : reference.flagIsConstant = true := by decide

/-- kernel-checked counter-witness for a variant that is NOT the source: one shared recursive call with the flag rebound
in front of it (`in_loop = True` in the loop branch, `in_loop = False` in the scope branch).  The flag stays set for
the later siblings: a complete loop followed by a `break` of an enclosing, unselected loop is accepted although the
specification forbids it; alone, in front of the loop, or in the loop's else clause the same `break` is refused -/
theorem shared_call_variant_accepts_loose_jump :
    let brk : Sel := .other (.leaf "break" .done) .done
    refuses sharedCall (.loop .done .done brk) = false ∧ loose (.loop .done .done brk) false = true ∧
    refuses sharedCall brk = true ∧ refuses sharedCall (.other (.leaf "break" .done) (.loop .done .done .done)) = true ∧
    refuses sharedCall (.loop .done brk .done) = true ∧ sharedCall.flagIsConstant = false := by decide

/-- second counter-witness: a variant that treats the `else` clause as part of the loop accepts a jump there -/
theorem else_in_loop_variant_accepts_loose_jump :
    let P : Prog := { reference with loop := [.call .all .tt] }
    let sel : Sel := .loop .done (.other (.leaf "continue" .done) .done) .done
    refuses P sel = false ∧ loose sel false = true := by decide

end NonExtractables

end JediModel.Props.C06

import JediModel.Lemmas.Refs
import JediModel.Lemmas.Rename
import JediModel.Lemmas.RefsSound
import JediModel.Lemmas.RefsMulti
import JediModel.Lemmas.RefsGlobal
import JediModel.Model.KwBind
import JediModel.Gen.C05
/-! # C05 — Rename rewrites exactly the references and preserves behaviour

Two models meet here: `Tree` (what `rename` does to the text once the reference set is known)
and `Refs` over `Scopes` (how `find_references` computes that set). Property theorems only. -/
namespace JediModel.Props.C05
open JediModel.Scopes JediModel.Refs JediModel.Tree JediModel.Text

/-! ## the text -/

/-- **rename rewrites exactly the references, nothing else.**  For every tree whose leaf ids are
distinct and every reference set `R` made of leaf ids only: the text `rename` renders is the
original text in which the *value* of exactly the leaves in `R` is `new` — every prefix
(whitespace, comments, line continuations) and every other leaf is byte-identical. -/
theorem render_rename (R : List Nat) (new : Str) (t : T)
    (hleaf : ((leaves t).map (·.id)).Nodup)
    (hnode : ∀ i ∈ nodeIds t, R.contains i = false) :
    render (renameMap R new t) t = code (substT R new t) := by
  apply render_subst
  constructor
  · intro l hl
    exact renameMap_get R new (leaves t) hleaf l hl
  · intro i hi
    exact renameMap_get_none R new (leaves t) i (hnode i hi)

/-- renaming nothing changes nothing -/
theorem render_rename_nil (new : Str) (t : T) : render (renameMap [] new t) t = code t := by
  have h : renameMap [] new t = [] := by
    unfold renameMap
    induction leaves t with
    | nil => rfl
    | cons a as ih => simp [List.filterMap_cons, ih]
  rw [h]
  -- an empty map renders the code
  have key : (∀ t : T, render [] t = code t) ∧ (∀ cs : List T, renderList [] cs = codeList cs) := by
    constructor
    · intro t
      induction t using T.rec (motive_2 := fun cs => renderList [] cs = codeList cs) with
      | leaf i ty p v => simp [render, code, Map.get?]
      | node i ty cs ih => simp only [render, code, Map.get?, List.find?_nil, Option.map_none]; exact ih
      | nil => rfl
      | cons c cs ihc ihcs => simp only [renderList, codeList, ihc, ihcs]
    · intro cs
      induction cs with
      | nil => rfl
      | cons c cs ih =>
        simp only [renderList, codeList, ih]
        congr 1
        induction c using T.rec (motive_2 := fun cs => renderList [] cs = codeList cs) with
        | leaf i ty p v => simp [render, code, Map.get?]
        | node i ty cs ih => simp only [render, code, Map.get?, List.find?_nil, Option.map_none]; exact ih
        | nil => rfl
        | cons c cs ihc ihcs => simp only [renderList, codeList, ihc, ihcs]
  exact key.1 t

/-! ## the reference set -/

/-- every reference is an occurrence of the identifier under the cursor -/
theorem refs_same_name (p : Prog) (u : Nat) (o : Occ) (ho : p.occs[u]? = some o) :
    ∀ r ∈ refs p u, ∃ orr, p.occs[r]? = some orr ∧ orr.name = o.name := by
  unfold refs
  rw [ho]
  simp only
  have := scan_named p o.name (occurrencesOf p o.name)
    { found := definingNames p u, nonMatching := [] }
    (by
      intro o' ho'
      unfold occurrencesOf at ho'
      obtain ⟨oo, hoo, hf⟩ := (mem_indices p _ o').mp ho'
      exact ⟨oo, hoo, by simpa using hf⟩)
    ⟨allNamed_definingNames p u o ho, by intro kg hkg; simp at hkg⟩
  exact this.1

/-- the occurrence under the cursor is one of its own references, and so is every defining name -/
theorem refs_contains_start (p : Prog) (u : Nat) (o : Occ) (ho : p.occs[u]? = some o) :
    u ∈ refs p u ∧ ∀ d ∈ definingNames p u, d ∈ refs p u := by
  have hd : ∀ d ∈ definingNames p u, d ∈ refs p u := by
    intro d hd
    unfold refs
    rw [ho]
    exact scan_found_mono p _ _ d hd
  exact ⟨hd u (start_mem_definingNames p u o ho), hd⟩

/-- **Every reported reference denotes the variable under the cursor** (so rename never touches
another variable), for identifiers satisfying `NameOk`: no `global`/`nonlocal` declaration of the
identifier anywhere, every use of it covered by the C03 chain theorem and — in a class body that
binds it — preceded by such a binding.  FULL statement (no `NameOk`) is false of the unchanged
code: witnesses below, each excluded by exactly one clause. -/
theorem refs_sound_partial (p : Prog) (hwf : WF p = true) (u : Nat) (o : Occ)
    (ho : p.occs[u]? = some o) (hok : NameOk p o.name) :
    ∀ r ∈ refs p u, varOf p r = varOf p u := by
  unfold refs
  rw [ho]
  simp only
  have := scan_sound p hwf o.name (varOf p u) hok (occurrencesOf p o.name)
    { found := definingNames p u, nonMatching := [] }
    (by
      intro o' ho'
      unfold occurrencesOf at ho'
      obtain ⟨oo, hoo, hf⟩ := (mem_indices p _ o').mp ho'
      exact ⟨oo, hoo, by simpa using hf⟩)
    ⟨definingNames_sameVar p hwf u o ho hok, by intro kg hkg; simp at hkg⟩
  exact this.1

/-! ## Counter-witnesses: the reference set is *not* the set of occurrences of one variable
FULL statement "refs p u = {o | name o = name u ∧ varOf p o = varOf p u}", with its corollaries
partition and behaviour preservation, is false of the unchanged code.  Both witnesses are
replayed on the real jedi by `harness/props/c05.py` (stream `witness`). -/

open Kind Role in
/-- F9: `def f():` / `    a = 0` / `    def g():` / `        nonlocal a` / `        a = 0` / `        a` /
`    g()` / `    a` / `f()`.  From the outer assignment the references contain the `nonlocal`
declaration but not the inner assignment and use of the *same variable*: the renamed program
rebinds a different name. -/
def witnessNonlocal : Prog :=
  { scopes := [⟨module, 0⟩, ⟨function, 0⟩, ⟨function, 1⟩],
    occs := [⟨1, defName, 0, 0⟩, ⟨0, bind, 1, 1⟩, ⟨2, defName, 1, 2⟩, ⟨0, nonlocalDecl, 2, 3⟩,
             ⟨0, bind, 2, 4⟩, ⟨0, use, 2, 5⟩, ⟨2, use, 1, 6⟩, ⟨0, use, 1, 7⟩, ⟨1, use, 0, 8⟩] }

theorem nonlocal_writer_not_renamed :
    WF witnessNonlocal = true ∧ varOf witnessNonlocal 4 = varOf witnessNonlocal 1 ∧
    4 ∉ refs witnessNonlocal 1 ∧ 3 ∈ refs witnessNonlocal 1 := by decide

open Kind Role in
/-- `a = 0` / `def f():` / `    a = 0` / `    a` / `def g():` / `    global a` / `    a = 0` / `f()` / `a`:
any `global a` pulls the module variable into the references of `f`'s unrelated local `a`, but
not the other way round — the references are not a partition. -/
def witnessGlobalMerge : Prog :=
  { scopes := [⟨module, 0⟩, ⟨function, 0⟩, ⟨function, 0⟩],
    occs := [⟨0, bind, 0, 0⟩, ⟨1, defName, 0, 1⟩, ⟨0, bind, 1, 2⟩, ⟨0, use, 1, 3⟩, ⟨2, defName, 0, 4⟩,
             ⟨0, globalDecl, 2, 5⟩, ⟨0, bind, 2, 6⟩, ⟨1, use, 0, 7⟩, ⟨0, use, 0, 8⟩] }

theorem global_merge_not_partition :
    WF witnessGlobalMerge = true ∧ varOf witnessGlobalMerge 2 ≠ varOf witnessGlobalMerge 0 ∧
    0 ∈ refs witnessGlobalMerge 2 ∧ 2 ∉ refs witnessGlobalMerge 0 := by decide

open Kind Role in
/-- `def f(b):` / `    b = 0` / `    b` / `f(0)`: from the assignment the references contain the
parameter (same-context step), from the parameter they do not contain the assignment (the
same-context step is skipped for parameters) — not a partition. -/
def witnessParamRebound : Prog :=
  { scopes := [⟨module, 0⟩, ⟨function, 0⟩],
    occs := [⟨1, defName, 0, 0⟩, ⟨0, param, 1, 1⟩, ⟨0, bind, 1, 2⟩, ⟨0, use, 1, 3⟩, ⟨1, use, 0, 4⟩] }

theorem param_rebound_not_partition :
    WF witnessParamRebound = true ∧ varOf witnessParamRebound 1 = varOf witnessParamRebound 2 ∧
    1 ∈ refs witnessParamRebound 2 ∧ 2 ∉ refs witnessParamRebound 1 := by decide

open Kind Role in
/-- `a = 0` / `class K:` / `    a = a`: the right-hand `a` reads the module variable; its
references also contain the class attribute being defined (same-context step from the start
name's own context), while the module variable's references do not — not a partition. -/
def witnessClassAttr : Prog :=
  { scopes := [⟨module, 0⟩, ⟨klass, 0⟩],
    occs := [⟨0, bind, 0, 0⟩, ⟨1, defName, 0, 1⟩, ⟨0, bind, 1, 2⟩, ⟨0, use, 1, 2⟩] }

theorem class_attr_not_partition :
    WF witnessClassAttr = true ∧ varOf witnessClassAttr 3 = varOf witnessClassAttr 0 ∧
    varOf witnessClassAttr 2 ≠ varOf witnessClassAttr 0 ∧
    2 ∈ refs witnessClassAttr 3 ∧ 2 ∉ refs witnessClassAttr 0 ∧ 3 ∈ refs witnessClassAttr 0 := by decide

/-! ## one module variable, `global` statements in several scopes

`Model/RefsGlobal`: `_find_global_variables` with its decision - which `global x` statements of the
module are linked to the found names - as a parameter the translator reads from the source
(`Gen.C05.globalStepSameScopeOnly`).  All `global x` statements of a module declare ONE variable;
the theorems say that every binding made under any of them is reported from every start, whatever
scope the start sits in. -/

/-- the model the correspondence stream `refs` runs is the one the theorems above speak about -/
theorem refsG_is_refs (p : Prog) (u : Nat) :
    refsG JediModel.Gen.C05.globalStepSameScopeOnly p u = refs p u := refsG_false p u

/-- **the global step links every `global x` statement of the module**, whatever the found names
are: the name in the statement and every definition of `x` in the statement's scope are among the
names `_find_global_variables` yields. -/
theorem global_step_links_every_statement (p : Prog) (ctxs : List Nat) (x g : Nat) (og : Occ)
    (hg : g ∈ globalDecls p x) (hog : p.occs[g]? = some og) :
    g ∈ globalVariablesOf JediModel.Gen.C05.globalStepSameScopeOnly p ctxs x ∧
    ∀ d ∈ allDefsIn p og.scope x,
      d ∈ globalVariablesOf JediModel.Gen.C05.globalStepSameScopeOnly p ctxs x := by
  have hl : globalLinked JediModel.Gen.C05.globalStepSameScopeOnly ctxs og.scope = true := by
    simp [globalLinked, JediModel.Gen.C05.globalStepSameScopeOnly]
  exact ⟨mem_globalVariablesOf _ p ctxs x g og hg hog hl g (Or.inl rfl),
    fun d hd => mem_globalVariablesOf _ p ctxs x g og hg hog hl d (Or.inr hd)⟩

/-- **every writer of the module variable is a reference, from every start**: if scope `s` (a
function, a class body, at any depth) contains a `global x` statement `g`, then `g` and every binding
`d` of `x` in `s` - which Python makes a binding of the MODULE's variable (`varOf = 0`) - are
reported by `find_references` from every occurrence `u` spelled `x`: from the module level, from a
reader, and from inside any OTHER declaring scope.  So rename leaves no writer behind. -/
theorem global_writers_are_references (p : Prog) (u : Nat) (o : Occ) (ho : p.occs[u]? = some o)
    (g : Nat) (og : Occ) (hog : p.occs[g]? = some og)
    (hgn : og.name = o.name) (hgr : og.role = .globalDecl) :
    g ∈ refsG JediModel.Gen.C05.globalStepSameScopeOnly p u ∧
    ∀ d od, p.occs[d]? = some od → od.name = o.name → od.scope = og.scope → od.role.isDef = true →
      d ∈ refsG JediModel.Gen.C05.globalStepSameScopeOnly p u ∧
      (p.kind og.scope ≠ .module → varOf p d = 0) := by
  have hg : g ∈ globalDecls p o.name := by
    unfold globalDecls
    exact (mem_indices p _ g).mpr ⟨og, hog, by simp [hgn, hgr]⟩
  have key := global_step_links_every_statement p (foundCtxs p u) o.name g og hg hog
  have up : ∀ a, a ∈ globalVariablesOf JediModel.Gen.C05.globalStepSameScopeOnly p (foundCtxs p u) o.name →
      a ∈ refsG JediModel.Gen.C05.globalStepSameScopeOnly p u := fun a ha =>
    definingNamesG_sub_refsG _ p u o ho a (globalVariablesOf_sub_definingNamesG _ p u o ho a ha)
  refine ⟨up g key.1, ?_⟩
  intro d od hod hn hs hdef
  constructor
  · apply up d
    apply key.2
    unfold allDefsIn defsIn
    exact (mem_indices p _ d).mpr ⟨od, hod, by simp [hn, hs, hdef]⟩
  · intro hk
    have hdg : declaredGlobal p og.scope o.name = true := by
      unfold declaredGlobal
      rw [List.any_eq_true]
      exact ⟨og, List.mem_of_getElem? hog, by simp [hgn, hgr]⟩
    unfold varOf
    rw [hod]
    have : ownerOfBinding p od.scope od.name = 0 := by
      unfold ownerOfBinding
      rw [hs, hn]
      simp [hk, hdg]
    cases hr : od.role <;> simp [hr, Role.isDef] at hdef ⊢ <;> exact this

open Kind Role in
/-- `def f():` / `    global a` / `    a = 0` / `def g():` / `    global a` / `    a = 0` / `f()` / `g()` / `a`:
one module variable written in two declaring functions -/
def witnessTwoGlobalWriters : Prog :=
  { scopes := [⟨module, 0⟩, ⟨function, 0⟩, ⟨function, 0⟩],
    occs := [⟨1, defName, 0, 0⟩, ⟨0, globalDecl, 1, 1⟩, ⟨0, bind, 1, 2⟩, ⟨2, defName, 0, 3⟩,
             ⟨0, globalDecl, 2, 4⟩, ⟨0, bind, 2, 5⟩, ⟨1, use, 0, 6⟩, ⟨2, use, 0, 7⟩, ⟨0, use, 0, 8⟩] }

/-- non-vacuity of `global_writers_are_references`: from `f`'s assignment the statement and the
assignment of `g` are reported -/
example : 4 ∈ refsG JediModel.Gen.C05.globalStepSameScopeOnly witnessTwoGlobalWriters 2 ∧
    5 ∈ refsG JediModel.Gen.C05.globalStepSameScopeOnly witnessTwoGlobalWriters 2 :=
  ⟨(global_writers_are_references witnessTwoGlobalWriters 2 ⟨0, .bind, 1, 2⟩ rfl 4 ⟨0, .globalDecl, 2, 4⟩ rfl rfl rfl).1,
   ((global_writers_are_references witnessTwoGlobalWriters 2 ⟨0, .bind, 1, 2⟩ rfl 4 ⟨0, .globalDecl, 2, 4⟩ rfl rfl rfl).2
      5 ⟨0, .bind, 2, 5⟩ rfl rfl rfl rfl).1⟩

/-- counter-model for a global step that links a statement only to found names of its own scope
(or of the module): from `f`'s assignment the assignment of `g` - the same variable - is lost,
from the module-level use everything is reported: rename leaves a writer behind and the references
are no partition.  With every statement linked all nine starts agree. -/
theorem same_scope_only_loses_global_writers :
    WF witnessTwoGlobalWriters = true ∧
    varOf witnessTwoGlobalWriters 5 = varOf witnessTwoGlobalWriters 2 ∧
    5 ∉ refsG true witnessTwoGlobalWriters 2 ∧ 2 ∉ refsG true witnessTwoGlobalWriters 5 ∧
    5 ∈ refsG true witnessTwoGlobalWriters 8 ∧ 2 ∈ refsG true witnessTwoGlobalWriters 8 ∧
    5 ∈ refsG false witnessTwoGlobalWriters 2 ∧ 2 ∈ refsG false witnessTwoGlobalWriters 5 := by decide

/-! ## several modules

`Model/RefsMulti`: tokens are represented by what `_find_names` answers for them, modules by their
token lists, `potential_modules` by the list of modules in scan order.  Whether the map of
non-matching references is created once or once per module is read off the source by the
translator (`Gen.C05.nonMatchingResetPerModule`); the theorems are stated over that constant, so
they no longer build when the statement moves into the loop over modules. -/

open JediModel.RefsMulti in
/-- **module boundaries are invisible to the scan**: the found set after scanning the modules of
`potential_modules` one by one is the found set of one scan over all their tokens in order —
which file a token stands in plays no role for what is merged. -/
theorem scan_modules_flat (mods : List (List (List Nat))) (st : ScanState) :
    scanModules JediModel.Gen.C05.nonMatchingResetPerModule mods st = scanTokens mods.flatten st :=
  scanModules_false_flat mods st

open JediModel.RefsMulti in
/-- **late merge across modules**: a same-spelled token `n` in module `m1` (what `_find_names`
answers for it) that did not match when it was scanned is reported all the same as soon as a
token `n'` of a module `m2` scanned LATER contains one of the defining names and shares a name
with `n` — e.g. `from slow import helper` in `other.py`, and in `app/main.py`
`try: from fast import helper / except ImportError: from slow import helper` with a use of
`helper` whose goto lands on both definitions. -/
theorem late_merge_across_modules (defining : List Nat) (ms1 ms2 ms3 : List (List (List Nat)))
    (m1 m2 : List (List Nat)) (n n' : List Nat) (hn : n ∈ m1) (hn' : n' ∈ m2)
    (hx : ∃ x ∈ n', x ∈ defining) (hk : ∃ k ∈ n, k ∈ n') :
    ∀ a ∈ n, a ∈ refsMulti JediModel.Gen.C05.nonMatchingResetPerModule defining
      (ms1 ++ m1 :: (ms2 ++ m2 :: ms3)) := by
  unfold refsMulti
  rw [scan_modules_flat]
  obtain ⟨p1, s1, rfl⟩ := List.append_of_mem hn
  obtain ⟨p2, s2, rfl⟩ := List.append_of_mem hn'
  have e : (ms1 ++ (p1 ++ n :: s1) :: (ms2 ++ (p2 ++ n' :: s2) :: ms3)).flatten
      = (ms1.flatten ++ p1) ++ n :: ((s1 ++ ms2.flatten ++ p2) ++ n' :: (s2 ++ ms3.flatten)) := by
    simp
  rw [e]
  exact late_merge_tokens _ _ _ _ n n' hx hk

open JediModel.RefsMulti in
/-- the hypotheses are satisfiable and the statement has content: names 0 = `fast.helper`,
1 = `slow.helper`; module 1 (`other.py`) holds the token `from slow import helper` = {2, 1};
module 2 (`app/main.py`) the two import names {3, 0}, {4, 1} and a use {5, 0, 1}.  Created once,
the map hands token 2 over when the use is scanned; created per module it is lost. -/
theorem reset_per_module_loses_references :
    2 ∈ refsMulti false [0] [[[2, 1]], [[3, 0], [4, 1], [5, 0, 1]]] ∧
    2 ∉ refsMulti true [0] [[[2, 1]], [[3, 0], [4, 1], [5, 0, 1]]] := by decide

/-- flow analysis is switched off exactly while the defining names are collected and switched on
again (in a `finally` clause) before the scan: what `Refs.definingNames` (`findNames id`) and
`Refs.scanStep` (`findNames lastOf`) transcribe -/
theorem flow_analysis_off_then_restored :
    JediModel.Gen.C05.flowAnalysisOffForDefiningNames = true ∧
    JediModel.Gen.C05.flowAnalysisRestored = true := by decide

example : ∀ a ∈ [2, 1], a ∈ JediModel.RefsMulti.refsMulti JediModel.Gen.C05.nonMatchingResetPerModule [0]
    ([] ++ [[2, 1]] :: ([] ++ [[3, 0], [4, 1], [5, 0, 1]] :: [])) :=
  late_merge_across_modules [0] [] [] [] [[2, 1]] [[3, 0], [4, 1], [5, 0, 1]] [2, 1] [5, 0, 1]
    (by simp) (by simp) ⟨0, by simp, by simp⟩ ⟨1, by simp, by simp⟩


/-! ## non-vacuity -/

open Kind Role in
/-- `a = 0` / `def f(b):` / `    a` / `    b`: the references of the module's `a` are its two
occurrences, those of the parameter `b` its two -/
example : let p : Prog := { scopes := [⟨module, 0⟩, ⟨function, 0⟩],
                            occs := [⟨0, bind, 0, 0⟩, ⟨1, defName, 0, 1⟩, ⟨2, param, 1, 2⟩,
                                     ⟨0, use, 1, 3⟩, ⟨2, use, 1, 4⟩] }
    WF p = true ∧ refs p 0 = [0, 3] ∧ refs p 3 = [3, 0] ∧ refs p 4 = [4, 2] ∧
    UseOk p 3 = true ∧ UseOk p 4 = true := by decide

/-- a two-leaf tree `x = x` renamed at both leaves -/
example : render (renameMap [1, 3] "yy".toList
      (.node 0 "expr_stmt" [.leaf 1 "name" [] ['x'], .leaf 2 "operator" [' '] ['='],
                            .leaf 3 "name" [' '] ['x']]))
    (.node 0 "expr_stmt" [.leaf 1 "name" [] ['x'], .leaf 2 "operator" [' '] ['='],
                          .leaf 3 "name" [' '] ['x']]) = "yy = yy".toList := by decide

/-! ## keyword arguments name parameters -/
section KeywordArguments
open JediModel.KwBind

/-- **every parameter a call keyword binds is found by the named-param goto** (and with it by
`get_references` / `rename` from the call site): stated over the kind filter the translator reads
from `names.py:AbstractTreeName.goto`, for every signature and every keyword. A filter that drops
keyword-only (or positional-or-keyword) parameters breaks this theorem. -/
theorem keyword_goto_complete (sig : List Param) (k : Nat) (p : Param) (h : p ∈ pyBinds sig k) :
    p ∈ gotoKeyword JediModel.Gen.C05.keywordGotoKinds sig k := by
  have h1 : JediModel.Gen.C05.keywordGotoKinds.contains posOrKw = true := by decide
  have h3 : JediModel.Gen.C05.keywordGotoKinds.contains kwOnly = true := by decide
  simp only [pyBinds, gotoKeyword, List.mem_filter, bindable, Bool.and_eq_true, Bool.or_eq_true,
    beq_iff_eq] at h ⊢
  obtain ⟨hm, hn, hk⟩ := h
  refine ⟨hm, hn, ?_⟩
  cases hk with
  | inl e => rw [e]; exact h1
  | inr e => rw [e]; exact h3

example : (⟨7, kwOnly⟩ : Param) ∈ pyBinds [⟨5, posOrKw⟩, ⟨6, varPos⟩, ⟨7, kwOnly⟩] 7 := by decide

/-- the converse holds for filters that accept keyword-capable kinds only (the hypothesis is
explicit: the unchanged source accepts every kind, see `keyword_goto_unsound_witness`) -/
theorem keyword_goto_sound_partial (accepted : List KwBind.Kind)
    (hacc : ∀ a ∈ accepted, a = posOrKw ∨ a = kwOnly)
    (sig : List Param) (k : Nat) (p : Param) (h : p ∈ gotoKeyword accepted sig k) :
    p ∈ pyBinds sig k := by
  simp only [pyBinds, gotoKeyword, List.mem_filter, bindable, Bool.and_eq_true, Bool.or_eq_true,
    beq_iff_eq, List.contains_iff_mem] at h ⊢
  obtain ⟨hm, hn, hk⟩ := h
  exact ⟨hm, hn, hacc _ hk⟩

example : ∀ a ∈ [posOrKw, kwOnly], a = posOrKw ∨ a = kwOnly := by decide

/-- counter-witness for the unrestricted statement: with every kind accepted the keyword `x=` of
`f(1, x=2)` is tied to `**x` of `def f(a, **x)` although Python puts it into the dictionary
(finding C05-call-keyword-tied-to-parameter-it-cannot-bind) -/
theorem keyword_goto_unsound_witness :
    ∃ sig k p, p ∈ gotoKeyword [posOnly, posOrKw, varPos, kwOnly, varKw] sig k ∧ p ∉ pyBinds sig k :=
  ⟨[⟨1, posOrKw⟩, ⟨2, varKw⟩], 2, ⟨2, varKw⟩, by decide, by decide⟩

/-- counter-model for a filter that forgets keyword-only parameters: the keyword `k=` of
`f(1, k=2)` with `def f(a, *, k=0)` binds `k`, the goto answers nothing -/
theorem keyword_goto_incomplete_without_kwonly :
    ∃ sig k p, p ∈ pyBinds sig k ∧ p ∉ gotoKeyword [posOrKw] sig k :=
  ⟨[⟨1, posOrKw⟩, ⟨2, kwOnly⟩], 2, ⟨2, kwOnly⟩, by decide, by decide⟩

end KeywordArguments

end JediModel.Props.C05

import JediModel.Lemmas.DiskCache
import JediModel.Gen.C09
import JediModel.Lemmas.NsPath
/-! # C09 — Changes to project files on disk are always seen

Property theorems over `Model/DiskCache` (file system with writer-chosen mtimes; in-memory parser
cache with `p_time <= change_time`; pickle cache with `p_time > mtime(pickle)` ⇒ outdated; per-Script
module cache; processes).  `parse` and the import finder `find` (a function of the *current* file
system) are universally quantified parameters.  Stated over `Gen.C09.cfg`. -/
namespace JediModel.Props.C09
open JediModel.DiskCache

abbrev real := JediModel.Gen.C09.cfg

section
variable {B T : Type} [DecidableEq B]
variable (parse : B → T) (find : (Path → Option (File B)) → String → Option Path)

/- FULL (false, see `stale_same_mtime`, `stale_older_than_pickle`, `stale_after_rename`):
   for EVERY history of writes (any mtimes), deletes, renames, loads, imports, new Scripts, new
   processes: `load` returns the parse of the bytes on disk.
   parso revalidates by time stamps only (`Gen.C09.memRevalidation`, `Gen.C09.pickleOutdated`), so
   the statement needs `AllOk`: a file appears under a path only with an mtime newer than every
   stamp the cache layers hold for that path — the in-memory item's change_time, the pickled
   item's change_time AND the mtime of the pickle file itself. -/

/-- **load_fresh_partial.**  If along the history every write / rename target gets a stamp newer
than all stamps the caches hold for that path (`AllOk`), then — same process or a new process with
a warm pickle directory, any interleaving — the tree served for a path is the parse of the bytes
that are on disk now, and a deleted file is never served. -/
theorem load_fresh_partial (h : List (Op B)) (hok : AllOk real parse find (init : State B T) h)
    (p : Path) :
    (load real parse (run real parse find init h) p).1
      = ((run real parse find (init : State B T) h).fs p).map (fun f => parse f.bytes) :=
  (load_spec real parse rfl _ p (run_inv real parse find rfl h _ (inv_init parse) hok)).1

/-- **stamp_is_fs_mtime.**  The time every cache layer compares — `file_io.get_last_modified()` of the
FileIO classes in `jedi/file_io.py` that `_from_loader` / `parse_stub_module` construct, and of the parso
classes they inherit from — is the file system's own full-resolution mtime (`os.path.getmtime`): the
translator recognised every implementation.  `load_fresh_partial` and everything below it is proved
from this (`rfl` on `Gen.C09.cfg.stampIsFsMtime`); an override that reads whole seconds makes the
translator emit `false` and this file stops building (witness: `stale_if_stamp_truncated`). -/
theorem stamp_is_fs_mtime (m : Nat) : reported real m = m := reported_eq real rfl m

/-- a definition that no longer exists on disk is never reported: nothing is served for a path
without a file, whatever the caches hold -/
theorem deleted_never_served (h : List (Op B)) (hok : AllOk real parse find (init : State B T) h)
    (p : Path) (hgone : (run real parse find (init : State B T) h).fs p = none) :
    (load real parse (run real parse find init h) p).1 = none := by
  rw [load_fresh_partial parse find h hok p, hgone]; rfl

/-- **module_cache_per_script.**  Nothing resolved by one Script is visible to the next: the first
resolution of a name in a new Script goes to the finder and the loader (and so, under `AllOk`, to
the bytes on disk now), whatever earlier Scripts resolved that name to. -/
theorem module_cache_per_script (h : List (Op B)) (hok : AllOk real parse find (init : State B T) h)
    (n : String) :
    let st := run real parse find (init : State B T) h
    (importName real parse find (step real parse find st .newScript) n).1
      = (find st.fs n).bind fun p => (st.fs p).map (fun f => parse f.bytes) := by
  intro st
  have hi : Inv parse st := run_inv real parse find rfl h _ (inv_init parse) hok
  have hi1 : Inv parse (step real parse find st .newScript) := step_inv real parse find rfl st _ hi trivial
  have hfs : (step real parse find st .newScript).fs = st.fs := by
    simp only [step]; split <;> rfl
  have hmc : (step real parse find st .newScript).modcache n = none := by
    simp only [step]
    have : real.modCachePerScript = true := rfl
    simp [this]
  unfold importName
  rw [hmc, hfs]
  cases hf : find st.fs n with
  | none => rfl
  | some p =>
    simp only [Option.bind_some]
    have := (load_spec real parse rfl _ p hi1).1
    rw [hfs] at this
    exact this

/-! ### the stub-directory-listing layer (`typeshed._create_stub_map`)

`_load_from_typeshed` builds, on every sub-module import below a project package, the map
"importable name → .pyi file" of the package directory from `os.listdir`.  Stubs that are only found
through this map — `P/S.pyi` next to a sub-package `P/S/__init__.py`, `P/S/__init__.pyi` — are seen
by a later Script only if that listing is taken again: `Gen.C09.cfg.stubListingCached = false`
(no memoising decorator on `_create_stub_map` / `_merge_create_stub_map`). -/

/-- **The helper-side lookup functions keep nothing between two requests.**  The long-lived helper
answers `get_module_info` / `_get_source` / `_find_module` from `jedi/inference/compiled/subprocess/
functions.py`; the translator lists everything that module could remember from one request to the
next (module-level containers, `global` statements, memo decorators, mutable default arguments,
attributes hung on functions) and the list is empty: what the helper ships is read from the disk
at the time of the request, which is what the model's `find` / file reads assume.  A per-path
source memo or a finder memo (however it is revalidated) makes this statement false and the build
break.  (importlib's own directory listing is outside jedi: finding C09-finder-stale-directory-listing.) -/
theorem helper_lookup_is_stateless : JediModel.Gen.C09.helperModuleState = [] := by decide

/-- **stub_listing_fresh.**  After EVERY history (no hypothesis on stamps), the directory listing the
stub lookup consults is the file system as it is now — there is no per-process listing to go stale.
Breaks (does not type-check) as soon as the translator finds a memo decorator. -/
theorem stub_listing_fresh (h : List (Op B)) (d : Path) :
    (listing real (run real parse find (init : State B T) h) d).1
      = fun p => ((run real parse find (init : State B T) h).fs p).isSome := by
  rw [listing_now real _ d rfl]

/-- **stub_as_fresh_process_partial.**  Under `AllOk` (stamps of changed files are newer than what the
parser-cache layers hold — needed for the *content* of the stub, see `stale_same_mtime`), the stub
lookup of a later Script in a long-lived process, or in a new process on a warm pickle directory,
serves exactly what a brand-new process with an empty cache directory serves for the present files:
the same stub file (or none), parsed from its present bytes. -/
theorem stub_as_fresh_process_partial (h : List (Op B)) (hok : AllOk real parse find (init : State B T) h)
    (q : StubQuery) :
    let st := run real parse find (init : State B T) h
    (tryLoadStub real parse st q).1 = (tryLoadStub real parse (freshProcess st) q).1
    ∧ (tryLoadStub real parse st q).1 = stubNow parse st.fs q := by
  intro st
  have hi : Inv parse st := run_inv real parse find rfl h _ (inv_init parse) hok
  have h1 := tryLoadStub_spec real parse rfl st q hi rfl
  have h2 := tryLoadStub_spec real parse rfl (freshProcess st) q (inv_freshProcess parse st) rfl
  exact ⟨by rw [h1, h2]; rfl, h1⟩

/-- a stub that no longer exists is never served, and a served stub is the parse of the bytes that
are in that file now -/
theorem stub_served_exists_partial (h : List (Op B)) (hok : AllOk real parse find (init : State B T) h)
    (q : StubQuery) (p : Path) (t : T)
    (hs : (tryLoadStub real parse (run real parse find (init : State B T) h) q).1 = some (p, t)) :
    ∃ f, (run real parse find (init : State B T) h).fs p = some f ∧ t = parse f.bytes := by
  rw [(stub_as_fresh_process_partial parse find h hok q).2] at hs
  exact stubNow_exists parse _ q p t hs

/-- the hypothesis is satisfiable by a history that overwrites, deletes, re-creates, renames and
changes process: time stamps taken from one clock that ticks between operations -/
example : AllOk real (id : Nat → Nat) (fun _ _ => none) (init : State Nat Nat)
    [.write "m.py" 1 10, .load "m.py", .write "m.py" 2 20, .load "m.py", .newProcess,
     .load "m.py", .delete "m.py", .write "m.py" 3 30, .write "n.py" 4 40, .rename "n.py" "m.py",
     .load "m.py"] := by
  simp [AllOk, OpOk, Fresh, step, load, cachedLoad, fallLoad, save, reported, init, upd, real,
    JediModel.Gen.C09.cfg]

/-- … and by the history of the stub witnesses below: a sub-package is queried, then a sibling stub
appears with a fresh stamp -/
example : AllOk real (id : Nat → Nat) (fun _ _ => none) (init : State Nat Nat)
    [.write "pkg/spk/__init__.py" 1 10, .tick 5,
     .stubImport { dir := "pkg", direct := ["pkg/spk/__init__.pyi"], useListing := true,
                   pkgStub := "pkg/spk/__init__.pyi", modStub := "pkg/spk.pyi", pyAbsent := false },
     .tick 5, .write "pkg/spk.pyi" 2 30] := by
  simp [AllOk, OpOk, Fresh, step, tryLoadStub, loadFirst, listing, stubMapOf, load, init, upd, real,
    JediModel.Gen.C09.cfg]

end

/-! ## witnesses (numbers as bytes and trees, `parse = id`) -/

def P : Nat → Nat := id
def F : (Path → Option (File Nat)) → String → Option Path := fun fs n => if (fs n).isSome then some n else none
def ld (h : List (Op Nat)) (p : Path) : Option Nat := (load real P (run real P F init h) p).1

/-- non-vacuity of `load_fresh_partial` through all three layers: memory hit, outdated memory item
re-parsed, pickle hit in a new process, outdated pickle re-parsed -/
example : ld [.write "m" 1 10, .tick 5, .load "m", .load "m", .write "m" 2 20, .tick 5, .load "m",
    .newProcess, .load "m", .write "m" 3 30, .newProcess] "m" = some 3 := by decide

/-- **same-mtime witness** (reproduced on the real code, known finding `C09-stale-same-mtime`):
overwriting with other bytes and the same mtime leaves the in-memory item valid -/
theorem stale_same_mtime :
    ld [.write "m" 1 10, .load "m", .write "m" 2 10] "m" = some 1 := by decide

/-- **older-than-the-pickle witness** (reproduced, `C09-stale-older-than-pickle`): the mtime grows
strictly (MonotoneWrites holds!) but stays below the mtime of the pickle *file* written at clock
50: a new process serves the pickled old tree -/
theorem stale_older_than_pickle :
    ld [.write "m" 1 10, .tick 50, .load "m", .write "m" 2 20, .newProcess] "m" = some 1
    ∧ ld [.write "m" 1 10, .tick 50, .load "m", .write "m" 2 60, .newProcess] "m" = some 2 := by decide

/-- **rename witness** (reproduced, `C09-stale-after-rename`): `mv` keeps the mtime of the moved
file; an older sibling moved over a cached module is served stale, in the same process -/
theorem stale_after_rename :
    ld [.write "m" 1 20, .write "n" 2 10, .load "m", .rename "n" "m"] "m" = some 1 := by decide

/-- **truncated-stamp witness** (the reason for `stamp_is_fs_mtime`; stamps in milliseconds).  If the
FileIO reports whole seconds (`os.stat(p)[stat.ST_MTIME]`), a rewrite with a strictly newer mtime —
newer than the cached change time AND than the pickle file, so `AllOk` holds, see the `example`
below — in the same clock second is not noticed: (1) by the next Script of the same process,
(2) by a new process on the warm pickle directory (the pickle was written in that second too);
(3) a further rewrite in a later second is seen again; (4) with the configuration read from the
source all of them are seen. -/
theorem stale_if_stamp_truncated :
    let coarse : Cfg := { real with stampIsFsMtime := false }
    let h : List (Op Nat) := [.write "m" 1 5100, .tick 5150, .load "m", .write "m" 2 5200]
    (load coarse P (run coarse P F init h) "m").1 = some 1
    ∧ (load coarse P (run coarse P F init (h ++ [.newProcess])) "m").1 = some 1
    ∧ (load coarse P (run coarse P F init (h ++ [.load "m", .write "m" 3 6010])) "m").1 = some 3
    ∧ ld h "m" = some 2 ∧ ld (h ++ [.newProcess]) "m" = some 2 := by decide

/-- the history of `stale_if_stamp_truncated` satisfies `AllOk` under both configurations: the
staleness there is not one of the adversarial-stamp findings -/
example : AllOk { real with stampIsFsMtime := false } P F (init : State Nat Nat)
      [.write "m" 1 5100, .tick 5150, .load "m", .write "m" 2 5200, .newProcess]
    ∧ AllOk real P F (init : State Nat Nat)
      [.write "m" 1 5100, .tick 5150, .load "m", .write "m" 2 5200, .newProcess] := by
  simp [AllOk, OpOk, Fresh, step, load, cachedLoad, fallLoad, save, reported, subsec, init, upd, real,
    JediModel.Gen.C09.cfg]

/-- sub-second spacing alone is harmless with the real configuration: three rewrites 1 ms apart, a
process change in between, every one is served -/
example : ld [.write "m" 1 5100, .tick 5100, .load "m", .write "m" 2 5101, .tick 1, .load "m",
    .newProcess, .write "m" 3 5102, .tick 1] "m" = some 3 := by decide

/-- the stub of the sub-package `pkg.spk` (`pkg/spk/__init__.py`): step 2 probes
`pkg/spk/__init__.pyi`, step 3 the listing of `pkg` -/
def spkQ : StubQuery :=
  { dir := "pkg", direct := ["pkg/spk/__init__.pyi"], useListing := true,
    pkgStub := "pkg/spk/__init__.pyi", modStub := "pkg/spk.pyi", pyAbsent := false }

/-- a sub-package is queried, then `pkg/spk.pyi` appears (fresh stamp: `AllOk` holds, see the
`example` above) -/
def stubHist : List (Op Nat) :=
  [.write "pkg/spk/__init__.py" 1 10, .tick 5, .stubImport spkQ, .tick 5, .write "pkg/spk.pyi" 2 30]

/-- non-vacuity of `stub_as_fresh_process_partial`: with the configuration read from the source the
new sibling stub is served, as in a fresh process; after its removal nothing is served -/
example : (tryLoadStub real P (run real P F init stubHist) spkQ).1 = some ("pkg/spk.pyi", 2)
    ∧ (tryLoadStub real P (freshProcess (run real P F init stubHist)) spkQ).1 = some ("pkg/spk.pyi", 2)
    ∧ (tryLoadStub real P (run real P F init (stubHist ++ [.stubImport spkQ, .delete "pkg/spk.pyi"])) spkQ).1
        = none := by decide

/-- **stub-listing witness** (the reason for `stub_listing_fresh`): if `_create_stub_map` is memoised
per process, the listing of `pkg` is frozen by the first sub-module import; a sibling stub added
afterwards — with a perfectly fresh stamp — is missed by every later Script of the process, while
a fresh process (and a new process: the memo is in-memory only) serves it -/
theorem stale_if_stub_listing_cached :
    let cached : Cfg := { real with stubListingCached := true }
    (tryLoadStub cached P (run cached P F init stubHist) spkQ).1 = none
    ∧ (tryLoadStub cached P (freshProcess (run cached P F init stubHist)) spkQ).1 = some ("pkg/spk.pyi", 2)
    ∧ (tryLoadStub cached P (run cached P F init (stubHist ++ [.newProcess])) spkQ).1
        = some ("pkg/spk.pyi", 2) := by
  decide

/-- … while removals and overwrites are not affected by such a memo (the frozen listing only names
the file; reading it fails / goes through the parser cache): the defect needs a stub that is ADDED -/
theorem stub_listing_cached_delete_harmless :
    let cached : Cfg := { real with stubListingCached := true }
    let h : List (Op Nat) := [.write "pkg/spk/__init__.py" 1 10, .write "pkg/spk.pyi" 2 10, .tick 5,
      .stubImport spkQ, .tick 5]
    (tryLoadStub cached P (run cached P F init (h ++ [.delete "pkg/spk.pyi"])) spkQ).1 = none
    ∧ (tryLoadStub cached P (run cached P F init (h ++ [.write "pkg/spk.pyi" 3 30])) spkQ).1
        = some ("pkg/spk.pyi", 3) := by
  decide

/-- a module cache that outlives the Script hides every later change, fresh stamps or not -/
theorem stale_if_module_cache_shared :
    (importName { real with modCachePerScript := false } P F
      (run { real with modCachePerScript := false } P F init
        [.write "m" 1 10, .newScript, .importName "m", .write "m" 2 20, .newScript]) "m").1 = some 1
    ∧ (importName real P F
      (run real P F init
        [.write "m" 1 10, .newScript, .importName "m", .write "m" 2 20, .newScript]) "m").1 = some 2 := by
  decide


end JediModel.Props.C09

/-! ## portions of a pkgutil-style namespace package created later (`Model/NsPath`)

The long-lived helper keeps importlib's `sys.path_importer_cache`; a directory met while it does not
exist gets the entry `None`, which is never revalidated.  `ModuleValue.py__path__` therefore has to
hand over existing directories only (`Gen.C09.nsCfg.filterIsdir`, read from the source). -/
namespace JediModel.Props.C09.Ns
open JediModel.NsPath

abbrev real := JediModel.Gen.C09.nsCfg

/-- **ns_candidates_exist.**  Every directory `py__path__` of a namespace-boilerplate package hands to
the finder exists at that moment (given the package's own directory does): proved from
`Gen.C09.nsCfg.filterIsdir = true`; dropping the `os.path.isdir` filter makes the translator emit
`false` and this file stops building. -/
theorem ns_candidates_exist (fs : Fs) (entries : List (Path × Path)) (own : Path)
    (hown : fs.isdir own = true) : ∀ d ∈ nsPaths real fs entries own, fs.isdir d = true :=
  candidates_exist real rfl fs entries own hown

/-- **no_negative_entry_partial.**  Along every history in which the sys.path entries exist whenever a Script
looks, the helper's finder cache never gets a negative entry. -/
theorem no_negative_entry_partial (h : List Op) (hok : AllEntriesExist real {} h) :
    (run real {} h).fd.neg = [] := run_no_negative_entry real rfl h {} rfl hok

/-- **later_portion_found_partial.**  After every history of directory / module creations and removals
and looks of the long-lived process in which the sys.path ENTRIES exist whenever a Script looks
(portions `<entry>/<pkg>` may be missing and appear later - that is the point), the finder cache holds
no negative entry, and every later look answers exactly as a brand-new process on the same files: a
module in a portion created after earlier looks is found, a removed one is not. -/
theorem later_portion_found_partial (h : List Op) (hok : AllEntriesExist real {} h) (q : Query)
    (hq : EntriesExist (run real {} h).fs q) :
    answer real (run real {} h) q = fresh real (run real {} h) q
    ∧ (run real {} h).fd.neg = [] := by
  have hn := run_no_negative_entry real rfl h {} rfl hok
  exact ⟨by unfold answer fresh; rw [(resolve_as_fresh real rfl _ _ q hn hq).1], hn⟩

def e2 : List (Path × Path) := [("a", "a/nsp"), ("b", "b/nsp")]
/-- first look while only portion `a/nsp` exists (for a module that is not there: the walk passes all
candidates), then portion `b/nsp` with module `late` is created -/
def lateHist : List Op :=
  [.mkdir "a", .mkdir "b", .mkdir "a/nsp", .addMod "a/nsp" "early", .query { entries := e2, m := "late" },
   .mkdir "b/nsp", .addMod "b/nsp" "late"]

/-- the hypotheses are satisfiable, and the theorem is not vacuous: the later portion's module is found -/
example : AllEntriesExist real {} lateHist ∧ EntriesExist (run real {} lateHist).fs { entries := e2, m := "late" }
    ∧ answer real (run real {} lateHist) { entries := e2, m := "late" } = some "b/nsp" := by
  refine ⟨?_, ?_, by decide⟩
  · simp [lateHist, AllEntriesExist, OpOk, EntriesExist, step, e2, Fs.isdir]
  · simp [lateHist, EntriesExist, run, step, e2, Fs.isdir]

/-- **unfiltered-candidates witness** (the reason for `ns_candidates_exist`): when `py__path__` hands over
`<entry>/<pkg>` for every sys.path entry, existing or not, the first look gives `b/nsp` a negative cache
entry; the portion created afterwards is missed by every later Script of the process although all
sys.path entries existed all the time (`AllEntriesExist` holds) - a fresh process, and a new process,
find it -/
theorem stale_if_candidates_unfiltered :
    let c : Cfg := { filterIsdir := false }
    let q : Query := { entries := e2, m := "late" }
    answer c (run c {} lateHist) q = none
    ∧ fresh c (run c {} lateHist) q = some "b/nsp"
    ∧ (run c {} lateHist).fd.neg = ["b/nsp"]
    ∧ answer c (run c {} (lateHist ++ [.newProcess])) q = some "b/nsp"
    ∧ answer real (run real {} lateHist) q = some "b/nsp" := by decide

/-- **missing-sys-path-entry witness** (reproduced on the unchanged code: known finding
`C09-sys-path-entry-created-later`): without the hypothesis on the ENTRIES the full statement is false -
`get_module_info(sys_path=...)` walks the sys path itself unfiltered; an entry that does not exist at the
first look (`Project(added_sys_path=[...])` naming a directory that is created later) is never searched
again in that process -/
theorem stale_if_sys_path_entry_created_later :
    let q : Query := { entries := e2, m := "late" }
    let h : List Op := [.mkdir "a", .query q, .mkdir "b", .mkdir "b/nsp", .addMod "b/nsp" "late"]
    answer real (run real {} h) q = none ∧ fresh real (run real {} h) q = some "b/nsp" := by decide

end JediModel.Props.C09.Ns

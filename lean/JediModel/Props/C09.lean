import JediModel.Lemmas.DiskCache
import JediModel.Gen.C09
/-! # C09 — Changes to project files on disk are always seen

Property theorems over `Model/DiskCache` (file system with writer-chosen mtimes; in-memory parser
cache with `p_time <= change_time`; pickle cache with `p_time > mtime(pickle)` ⇒ outdated; per-Script
module cache; processes).  `parse` and the import finder `find` (a function of the *current* file
system) are universally quantified parameters.  Stated over `Gen.C09.cfg`. -/
namespace JediModel.Props.C09
open JediModel.DiskCache

abbrev real := JediModel.Gen.C09.cfg

section
variable {B T : Type} [DecidableEq B]
variable (parse : B → T) (find : (Path → Option (File B)) → String → Option Path)

/- FULL (false, see `stale_same_mtime`, `stale_older_than_pickle`, `stale_after_rename`):
   for EVERY history of writes (any mtimes), deletes, renames, loads, imports, new Scripts, new
   processes: `load` returns the parse of the bytes on disk.
   parso revalidates by time stamps only (`Gen.C09.memRevalidation`, `Gen.C09.pickleOutdated`), so
   the statement needs `AllOk`: a file appears under a path only with an mtime newer than every
   stamp the cache layers hold for that path — the in-memory item's change_time, the pickled
   item's change_time AND the mtime of the pickle file itself. -/

/-- **load_fresh_partial.**  If along the history every write / rename target gets a stamp newer
than all stamps the caches hold for that path (`AllOk`), then — same process or a new process with
a warm pickle directory, any interleaving — the tree served for a path is the parse of the bytes
that are on disk now, and a deleted file is never served. -/
theorem load_fresh_partial (h : List (Op B)) (hok : AllOk real parse find (init : State B T) h)
    (p : Path) :
    (load real parse (run real parse find init h) p).1
      = ((run real parse find (init : State B T) h).fs p).map (fun f => parse f.bytes) :=
  (load_spec real parse _ p (run_inv real parse find h _ (inv_init parse) hok)).1

/-- a definition that no longer exists on disk is never reported: nothing is served for a path
without a file, whatever the caches hold -/
theorem deleted_never_served (h : List (Op B)) (hok : AllOk real parse find (init : State B T) h)
    (p : Path) (hgone : (run real parse find (init : State B T) h).fs p = none) :
    (load real parse (run real parse find init h) p).1 = none := by
  rw [load_fresh_partial parse find h hok p, hgone]; rfl

/-- **module_cache_per_script.**  Nothing resolved by one Script is visible to the next: the first
resolution of a name in a new Script goes to the finder and the loader (and so, under `AllOk`, to
the bytes on disk now), whatever earlier Scripts resolved that name to. -/
theorem module_cache_per_script (h : List (Op B)) (hok : AllOk real parse find (init : State B T) h)
    (n : String) :
    let st := run real parse find (init : State B T) h
    (importName real parse find (step real parse find st .newScript) n).1
      = (find st.fs n).bind fun p => (st.fs p).map (fun f => parse f.bytes) := by
  intro st
  have hi : Inv parse st := run_inv real parse find h _ (inv_init parse) hok
  have hi1 : Inv parse (step real parse find st .newScript) := step_inv real parse find st _ hi trivial
  have hfs : (step real parse find st .newScript).fs = st.fs := by
    simp only [step]; split <;> rfl
  have hmc : (step real parse find st .newScript).modcache n = none := by
    simp only [step]
    have : real.modCachePerScript = true := rfl
    simp [this]
  unfold importName
  rw [hmc, hfs]
  cases hf : find st.fs n with
  | none => rfl
  | some p =>
    simp only [Option.bind_some]
    have := (load_spec real parse _ p hi1).1
    rw [hfs] at this
    exact this

/-- the hypothesis is satisfiable by a history that overwrites, deletes, re-creates, renames and
changes process: time stamps taken from one clock that ticks between operations -/
example : AllOk real (id : Nat → Nat) (fun _ _ => none) (init : State Nat Nat)
    [.write "m.py" 1 10, .load "m.py", .write "m.py" 2 20, .load "m.py", .newProcess,
     .load "m.py", .delete "m.py", .write "m.py" 3 30, .write "n.py" 4 40, .rename "n.py" "m.py",
     .load "m.py"] := by
  simp [AllOk, OpOk, Fresh, step, load, cachedLoad, fallLoad, save, init, upd, real, JediModel.Gen.C09.cfg]

end

/-! ## witnesses (numbers as bytes and trees, `parse = id`) -/

def P : Nat → Nat := id
def F : (Path → Option (File Nat)) → String → Option Path := fun fs n => if (fs n).isSome then some n else none
def ld (h : List (Op Nat)) (p : Path) : Option Nat := (load real P (run real P F init h) p).1

/-- non-vacuity of `load_fresh_partial` through all three layers: memory hit, outdated memory item
re-parsed, pickle hit in a new process, outdated pickle re-parsed -/
example : ld [.write "m" 1 10, .tick 5, .load "m", .load "m", .write "m" 2 20, .tick 5, .load "m",
    .newProcess, .load "m", .write "m" 3 30, .newProcess] "m" = some 3 := by decide

/-- **same-mtime witness** (reproduced on the real code, known finding `C09-stale-same-mtime`):
overwriting with other bytes and the same mtime leaves the in-memory item valid -/
theorem stale_same_mtime :
    ld [.write "m" 1 10, .load "m", .write "m" 2 10] "m" = some 1 := by decide

/-- **older-than-the-pickle witness** (reproduced, `C09-stale-older-than-pickle`): the mtime grows
strictly (MonotoneWrites holds!) but stays below the mtime of the pickle *file* written at clock
50: a new process serves the pickled old tree -/
theorem stale_older_than_pickle :
    ld [.write "m" 1 10, .tick 50, .load "m", .write "m" 2 20, .newProcess] "m" = some 1
    ∧ ld [.write "m" 1 10, .tick 50, .load "m", .write "m" 2 60, .newProcess] "m" = some 2 := by decide

/-- **rename witness** (reproduced, `C09-stale-after-rename`): `mv` keeps the mtime of the moved
file; an older sibling moved over a cached module is served stale, in the same process -/
theorem stale_after_rename :
    ld [.write "m" 1 20, .write "n" 2 10, .load "m", .rename "n" "m"] "m" = some 1 := by decide

/-- a module cache that outlives the Script hides every later change, fresh stamps or not -/
theorem stale_if_module_cache_shared :
    (importName { real with modCachePerScript := false } P F
      (run { real with modCachePerScript := false } P F init
        [.write "m" 1 10, .newScript, .importName "m", .write "m" 2 20, .newScript]) "m").1 = some 1
    ∧ (importName real P F
      (run real P F init
        [.write "m" 1 10, .newScript, .importName "m", .write "m" 2 20, .newScript]) "m").1 = some 2 := by
  decide

end JediModel.Props.C09

import JediModel.Gen.C16
import JediModel.Lemmas.Determinism
/-! # C16 — Results are deterministic and repeatable

Property theorems only. The sort key and the `Name.__eq__` fields are the lists the translator
extracts from `jedi/api/helpers.py` / `jedi/api/classes.py`; the theorems are stated over them, so
dropping a key component or adding an equality field breaks the build. -/
namespace JediModel.Props.C16
open JediModel.Recursion JediModel.Determinism

abbrev comps := Gen.C16.sortKeyComponents
abbrev fields := Gen.C16.eqFields

/-! ## tie to the source -/

/-- `__hash__` hashes exactly the fields `__eq__` compares (else equal names could land in
different buckets and `set()` would keep both) -/
theorem hash_fields_are_eq_fields : Gen.C16.hashFields = Gen.C16.eqFields := by decide

/-- `infer` sorts the deduplicated set; `goto` returns a set turned into a list (order
unspecified); `get_references` sorts without deduplicating -/
theorem returns_transcribed :
    Gen.C16.inferReturn = "helpers.sorted_definitions(set(defs))" ∧
    (Gen.C16.gotoReturn = "list(set(helpers.sorted_definitions(defs)))" ∨
     Gen.C16.gotoReturn = "helpers.sorted_definitions(set(defs))") ∧
    Gen.C16.referencesReturn = "helpers.sorted_definitions(definitions)" := by decide

/-- every inferring query method of `Script` opens with `reset_recursion_limitations()`, and that
method re-creates both detectors -/
theorem reset_transcribed :
    (["complete", "infer", "goto", "help", "get_references", "get_signatures", "_names"].all
      (Gen.C16.resetFirst.contains ·)) = true ∧
    (["self.execution_recursion_detector", "self.inferred_element_counts", "self.recursion_detector"].all
      (Gen.C16.resetAssigns.contains ·)) = true := by decide

/-- every public query method of `Script` - those taking a position, and `search` /
`complete_search` / `get_names` - opens with `reset_recursion_limitations()` or reaches a method
that does through `self` before it infers. The position methods that do not: `get_context` (it
infers nothing: it walks the syntax tree and creates a context) and the two refactorings
`extract_function` / `extract_variable` (they return a `Refactoring`, not a list of definitions) -/
theorem public_queries_reset :
    (Gen.C16.positionQueries.filter (fun m => !Gen.C16.resetReach.contains m)) =
      ["extract_function", "extract_variable", "get_context"] ∧
    (["complete", "infer", "goto", "help", "get_references", "get_signatures", "rename", "inline",
      "search", "complete_search", "get_names"].all (Gen.C16.resetReach.contains ·)) = true := by decide

/-- the configuration of the source: the cap, `MAX_PARAM_SEARCHES`, and the `+= 1` / `-= 1` of
`_avoid_recursions` where they stand -/
def srcCfg : Cfg :=
  { cap := Gen.C16.nodeCap, factor := Gen.C16.nodeCapBuiltinFactor,
    maxSearches := Gen.C16.maxParamSearches, bracket := Gen.C16.dynBracket }

/-- `_avoid_recursions` as it stands in the source: `inf.dynamic_params_depth += 1` inside
`if allowed:` right before the `try` whose `finally` has the `-= 1`; nothing before the `with`,
nothing on the blocked path. Moving the increment out of the branch (before the `with`) breaks this. -/
theorem dyn_bracket_transcribed :
    Gen.C16.dynBracket = ["allowed:inc", "finally:dec"] ∧ Balanced Gen.C16.dynBracket ∧
    Gen.C16.searchCut = "i * dynamic_params_depth > MAX_PARAM_SEARCHES" := by decide

/-- the four temporary switches are undone in `finally` blocks -/
theorem switches_transcribed :
    Gen.C16.flowSwitch = ["finally: inf.flow_analysis_enabled = True"] ∧
    Gen.C16.analysisSwitch = ["finally: self._inference_state.is_analysis = False"] ∧
    Gen.C16.predefineSwitch = ["finally: del predefined[flow_scope]"] ∧
    Gen.C16.dynDepthSwitch = ["finally: inf.dynamic_params_depth -= 1"] := by decide

/-- `Name.__eq__` of the source, spelled out: position, path, name AND the api type of the inner
name (a class and an instance of that class are different definitions) -/
theorem nameEq_src (a b : Name) :
    nameEq fields a b = true ↔
      a.startPos = b.startPos ∧ a.path = b.path ∧ a.name = b.name ∧ a.apiType = b.apiType := by
  simp [nameEq, eqField, Gen.C16.eqFields]

theorem nameEq_refl (a : Name) : nameEq fields a a = true := (nameEq_src a a).mpr ⟨rfl, rfl, rfl, rfl⟩

theorem nameEq_symm (a b : Name) : nameEq fields a b = nameEq fields b a := by
  rw [Bool.eq_iff_iff, nameEq_src, nameEq_src]
  constructor <;> (rintro ⟨h1, h2, h3, h4⟩; exact ⟨h1.symm, h2.symm, h3.symm, h4.symm⟩)

/-- `__eq__`-equal names show the same to a user: `__eq__` compares everything the API shows -/
theorem nameEq_iff_visible (a b : Name) : nameEq fields a b = true ↔ a.visible = b.visible := by
  rw [nameEq_src]
  simp only [Name.visible, Prod.mk.injEq]
  constructor
  · rintro ⟨h1, h2, h3, h4⟩; exact ⟨h2, h1, h3, h4⟩
  · rintro ⟨h2, h1, h3, h4⟩; exact ⟨h1, h2, h3, h4⟩

/-! ## the sort key fits the equality -/

/-- equal names have equal keys: the key reads nothing but the equality fields -/
theorem key_congr (a b : Name) (h : nameEq fields a b = true) : sortKey comps a = sortKey comps b := by
  obtain ⟨h1, h2, h3, h4⟩ := (nameEq_src a b).mp h
  simp [sortKey, keyComponent, Gen.C16.sortKeyComponents, h1, h2, h3, h4]

/-- `key_injective`: on well-formed names (1-based lines, non-empty path strings) the key tuple
`(str(path or ''), line or 0, column or 0, name, api_type)` determines the `__eq__` class -/
theorem key_injective (a b : Name) (ha : WF a) (hb : WF b)
    (h : sortKey comps a = sortKey comps b) : nameEq fields a b = true := by
  rw [nameEq_src]
  simp only [sortKey, keyComponent, Gen.C16.sortKeyComponents, List.map_cons, List.map_nil,
    List.cons.injEq, and_true] at h
  obtain ⟨hp, hl, hc, hn, ht⟩ := h
  refine ⟨?_, ?_, hn, ht⟩
  · cases hsa : a.startPos with
    | none =>
      cases hsb : b.startPos with
      | none => rfl
      | some q =>
        have := hb.1 q hsb
        simp [hsa, hsb] at hl
        omega
    | some p =>
      cases hsb : b.startPos with
      | none =>
        have := ha.1 p hsa
        simp [hsa, hsb] at hl
        omega
      | some q =>
        simp [hsa, hsb] at hl hc
        rw [Prod.ext hl hc]
  · cases hpa : a.path with
    | none =>
      cases hpb : b.path with
      | none => rfl
      | some q =>
        simp [hpa, hpb] at hp
        exact absurd (hp ▸ hpb) hb.2
    | some p =>
      cases hpb : b.path with
      | none =>
        simp [hpa, hpb] at hp
        exact absurd (hp ▸ hpa) ha.2
      | some q =>
        simp [hpa, hpb] at hp
        rw [hp]

/-- FULL (without `WF`) is false: `line or 0` cannot tell `start_pos = None` from a (never
occurring) position in line 0 -/
theorem key_injective_needs_wf :
    sortKey comps ⟨none, none, [120], [], 0⟩ = sortKey comps ⟨some (0, 0), none, [120], [], 0⟩ ∧
    nameEq fields ⟨none, none, [120], [], 0⟩ ⟨some (0, 0), none, [120], [], 0⟩ = false := by decide

example : WF ⟨some (1, 0), some [47, 97], [120], [], 0⟩ := ⟨fun p h => by cases h; decide, by decide⟩

/-! ## `sorted_definitions(set(defs))` does not depend on iteration order -/

/-- the sorted results of any two iteration orders agree, position by position, on the sort key -/
theorem sorted_defs_keys_invariant (l₁ l₂ s₁ s₂ : List Name) (hwf : ∀ a ∈ l₁, WF a)
    (hperm : l₁.Perm l₂) (h₁ : IsSetOf fields l₁ s₁) (h₂ : IsSetOf fields l₂ s₂) :
    (sortedDefinitions comps s₁).map (sortKey comps) = (sortedDefinitions comps s₂).map (sortKey comps) :=
  sorted_keys_invariant comps fields WF key_injective key_congr l₁ l₂ s₁ s₂ hwf hperm h₁ h₂

/-- `sorted_defs_perm_invariant` (FULL): let `l₁ ~ l₂` be the same definitions in two orders (two
hash seeds, two heap layouts) and `s₁`, `s₂` ANY iteration orders of `set(l₁)`, `set(l₂)` (whichever
representative of an `__eq__` class survived). Then the sorted results show the same to a user,
position by position: same path, line, column, name and type - same length, same order. No
hypothesis about which names are equal is needed any more: with the api type in `__eq__`/`__hash__`
equal names are indistinguishable, and with it in the sort key the order of a class and its
instance is fixed. -/
theorem sorted_defs_perm_invariant (l₁ l₂ s₁ s₂ : List Name) (hwf : ∀ a ∈ l₁, WF a)
    (hperm : l₁.Perm l₂) (h₁ : IsSetOf fields l₁ s₁) (h₂ : IsSetOf fields l₂ s₂) :
    (sortedDefinitions comps s₁).map Name.visible = (sortedDefinitions comps s₂).map Name.visible := by
  apply map_eq_of_determines (sortKey comps) Name.visible _ _
    (sorted_defs_keys_invariant l₁ l₂ s₁ s₂ hwf hperm h₁ h₂)
  intro a ha b hb hk
  have ha' : a ∈ l₁ := h₁.sub a ((List.mergeSort_perm s₁ _).mem_iff.mp ha)
  have hb' : b ∈ l₁ := hperm.mem_iff.mpr (h₂.sub b ((List.mergeSort_perm s₂ _).mem_iff.mp hb))
  exact (nameEq_iff_visible a b).mp (key_injective a b (hwf a ha') (hwf b hb') hk)

/-- the executable `set()` (first representative wins) is one of the orders quantified over -/
theorem dedup_is_set (l : List Name) : IsSetOf fields l (dedupFirst fields [] l) :=
  isSetOf_dedupFirst fields nameEq_refl nameEq_symm l

/-- so what `Script.infer` shows is invariant under permutation of the inferred values -/
theorem infer_result_perm_invariant (l₁ l₂ : List Name) (hwf : ∀ a ∈ l₁, WF a) (hperm : l₁.Perm l₂) :
    (inferResult comps fields l₁).map Name.visible = (inferResult comps fields l₂).map Name.visible :=
  sorted_defs_perm_invariant l₁ l₂ _ _ hwf hperm (dedup_is_set l₁) (dedup_is_set l₂)

/-- class `A` at (1,6) and an instance of `A` -/
def clsA : Name := ⟨some (1, 6), none, [65], "class".toList.map Char.toNat, 0⟩
def instA : Name := ⟨some (1, 6), none, [65], "instance".toList.map Char.toNat, 1⟩

/-- the repaired behaviour: when the inferred values are the class `A` and an instance of `A`,
`Script.infer` reports both, the class first, in whichever order the value set is iterated -/
theorem class_and_instance_both_reported :
    nameEq fields clsA instA = false ∧
    inferResult comps fields [clsA, instA] = [clsA, instA] ∧
    inferResult comps fields [instA, clsA] = [clsA, instA] := by
  have d1 : dedupFirst fields [] [clsA, instA] = [clsA, instA] := by decide
  have d2 : dedupFirst fields [] [instA, clsA] = [instA, clsA] := by decide
  refine ⟨by decide, ?_, ?_⟩
  · rw [inferResult, d1, sortedDefinitions, mergeSort_pair]; decide
  · rw [inferResult, d2, sortedDefinitions, mergeSort_pair]; decide

/-- `__eq__`/`__hash__` and the sort key as they were before the repair -/
def fieldsWithoutType : List String := ["_name.start_pos", "module_path", "name", "_inference_state"]
def compsWithoutType : List String := ["path_or_empty", "line_or_0", "column_or_0", "name"]

/-- both parts of the repair are needed. Without the api type in `__eq__`/`__hash__` the class and
the instance are one element of `set(defs)` and which of them is reported depends on the iteration
order (the former finding C16-eq-class-representative); with it in `__eq__`/`__hash__` but not in the
sort key both are reported, but in an order that depends on the iteration order (Python's `sorted`
is stable). -/
theorem type_needed_in_eq_and_in_key :
    [clsA, instA].Perm [instA, clsA] ∧
    (inferResult comps fieldsWithoutType [clsA, instA]).map Name.visible = [clsA.visible] ∧
    (inferResult comps fieldsWithoutType [instA, clsA]).map Name.visible = [instA.visible] ∧
    (inferResult compsWithoutType fields [clsA, instA]).map Name.visible = [clsA.visible, instA.visible] ∧
    (inferResult compsWithoutType fields [instA, clsA]).map Name.visible = [instA.visible, clsA.visible] ∧
    clsA.visible ≠ instA.visible := by
  have d1 : dedupFirst fieldsWithoutType [] [clsA, instA] = [clsA] := by decide
  have d2 : dedupFirst fieldsWithoutType [] [instA, clsA] = [instA] := by decide
  have d3 : dedupFirst fields [] [clsA, instA] = [clsA, instA] := by decide
  have d4 : dedupFirst fields [] [instA, clsA] = [instA, clsA] := by decide
  refine ⟨List.Perm.swap _ _ _, ?_, ?_, ?_, ?_, by decide⟩
  · simp [inferResult, d1, sortedDefinitions]
  · simp [inferResult, d2, sortedDefinitions]
  · rw [inferResult, d3, sortedDefinitions, mergeSort_pair]; decide
  · rw [inferResult, d4, sortedDefinitions, mergeSort_pair]; decide

/-- `goto` returns `list(set(...))`: whatever the two iteration orders, the results are the same
*set* up to `__eq__` -/
theorem goto_set_invariant (l₁ l₂ s₁ s₂ : List Name) (hperm : l₁.Perm l₂)
    (h₁ : IsSetOf fields l₁ s₁) (h₂ : IsSetOf fields l₂ s₂) :
    (∀ x ∈ s₁, ∃ y ∈ s₂, nameEq fields x y = true) ∧ (∀ y ∈ s₂, ∃ x ∈ s₁, nameEq fields y x = true) :=
  ⟨fun x hx => h₂.cover x (hperm.mem_iff.mp (h₁.sub x hx)),
   fun y hy => h₁.cover y (hperm.mem_iff.mpr (h₂.sub y hy))⟩

/-! ## query boundaries -/

/-- `query_boundary_inv` (`_partial`: it speaks about the recursion bookkeeping, the switches, the
statement stack and `dynamic_params_depth`, not about `inferred_element_counts`, see the witness
below): after ANY sequence of queries on one Script, each with ANY body and ANY outcome (normal,
`ValueError`, an exception raised anywhere inside nested `try/finally` blocks, dynamic parameter
lookups that the recursion guard allows or blocks), all switches have their defaults,
`dynamic_params_depth` is 0, `pushed_nodes` is empty, and every query body starts with fresh
recursion bookkeeping. Stated over the bracket of the source (`srcCfg`). -/
theorem query_boundary_inv_partial (qs : List Act) (s : QState) (h : s.switchesDefault) :
    (session Gen.C16.resetAssigns srcCfg s qs).1.switchesDefault ∧
    ∀ s' : QState, (reset Gen.C16.resetAssigns s').bookkeepingFresh = true := by
  constructor
  · induction qs generalizing s with
    | nil => exact h
    | cons q qs ih =>
      simp only [session]
      apply ih
      unfold query
      apply run_default srcCfg dyn_bracket_transcribed.2.1
      exact reset_default _ s h
  · intro s'
    have hc : (Gen.C16.resetAssigns.contains "self.execution_recursion_detector" &&
        Gen.C16.resetAssigns.contains "self.recursion_detector") = true := by decide
    unfold reset
    simp only [hc, if_true]

example : (QState.init).switchesDefault := ⟨rfl, rfl, rfl, rfl, rfl⟩

/-- in particular `dynamic_params_depth` is 0 at EVERY query boundary of a session (after every
prefix of the queries), for any outcome of any body -/
theorem dyn_depth_zero_at_every_boundary (qs : List Act) (k : Nat) :
    (session Gen.C16.resetAssigns srcCfg QState.init (qs.take k)).1.dynamicParamsDepth = 0 :=
  (query_boundary_inv_partial (qs.take k) QState.init ⟨rfl, rfl, rfl, rfl, rfl⟩).1.2.2.2.1

/-- … so the call-site search that a query starts at top level (one lookup in progress: depth 1)
looks at every call site up to `MAX_PARAM_SEARCHES`, whatever was asked before on the Script -/
theorem top_level_search_sees_all_sites (qs : List Act) (sites : Nat)
    (h : sites ≤ Gen.C16.maxParamSearches) (node : Nat) :
    (query Gen.C16.resetAssigns srcCfg (session Gen.C16.resetAssigns srcCfg QState.init qs).1
      (.dynParam node (.searchArgs sites))).seen = true :: List.replicate sites true := by
  obtain ⟨_, _, _, hd, hp⟩ := (query_boundary_inv_partial qs QState.init ⟨rfl, rfl, rfl, rfl, rfl⟩).1
  have hr : (reset Gen.C16.resetAssigns (session Gen.C16.resetAssigns srcCfg QState.init qs).1).pushed = [] := by
    simp only [reset]; split <;> simp [hp]
  have hdr : (reset Gen.C16.resetAssigns
      (session Gen.C16.resetAssigns srcCfg QState.init qs).1).dynamicParamsDepth = 0 := by
    simp only [reset]; exact hd
  have hdelta : delta srcCfg.bracket "pre" = 0 ∧ delta srcCfg.bracket "allowed" = 1 := by decide
  simp only [query, run, hr, hdr, hdelta.1, hdelta.2, List.contains_nil, Bool.false_eq_true, if_false]
  have := searchLoop_depth_one Gen.C16.maxParamSearches sites 0 (by omega)
  simpa [srcCfg] using this

/-- a query that raises inside `find_references`' flow-off block inside a `predefine_names` block -/
example : (run srcCfg QState.init (.predefine (.flowOff (.seq .execute .raise)))).raised = true ∧
    (run srcCfg QState.init (.predefine (.flowOff (.seq .execute .raise)))).st.flowAnalysisEnabled = true ∧
    (run srcCfg QState.init (.predefine (.flowOff (.seq .execute .raise)))).st.predefined = 0 := by
  decide

/-- a self-recursive lookup: the inner lookup of the same function is blocked, the body of the
outer one raises - the counter is back at 0 and the stack is empty -/
example : (run srcCfg QState.init (.dynParam 7 (.seq (.dynParam 7 .skip) .raise))).raised = true ∧
    (run srcCfg QState.init (.dynParam 7 (.seq (.dynParam 7 .skip) .raise))).seen = [true, false] ∧
    (run srcCfg QState.init (.dynParam 7 (.seq (.dynParam 7 .skip) .raise))).st.dynamicParamsDepth = 0 ∧
    (run srcCfg QState.init (.dynParam 7 (.seq (.dynParam 7 .skip) .raise))).st.pushed = [] := by
  decide

/-- the bracket with the increment moved before the `with` (decrement still in the `finally` of the
`if allowed:` branch) -/
def leakyCfg : Cfg := { srcCfg with bracket := ["pre:inc", "finally:dec"] }

/-- `Balanced` is needed: with the increment outside the branch, one query whose lookup re-enters
itself (`def walk(node): walk(node)`: the recursion guard blocks the inner lookup) leaves
`dynamic_params_depth` at 1 for the rest of the Script's life, and the same later query - a
parameter lookup of a function with 12 call sites - looks at 12 call sites on a fresh Script but
only at 10 after that query. -/
theorem dyn_bracket_unbalanced_witness :
    ¬ Balanced leakyCfg.bracket ∧
    (session Gen.C16.resetAssigns leakyCfg QState.init [.dynParam 0 (.dynParam 0 .skip)]).1.dynamicParamsDepth = 1 ∧
    ((session Gen.C16.resetAssigns leakyCfg QState.init
        [.dynParam 1 (.searchArgs 12)]).2.map (fun q => q.2.count true)) = [13] ∧
    ((session Gen.C16.resetAssigns leakyCfg QState.init
        [.dynParam 0 (.dynParam 0 .skip), .dynParam 1 (.searchArgs 12)]).2.map (fun q => q.2.count true)) = [1, 11] := by
  decide

/-- what `reset_recursion_limitations` re-creates in the unchanged source -/
def unfixedResets : List String := ["self.execution_recursion_detector", "self.recursion_detector"]

/-- FULL ("at a query boundary nothing that a query can observe has changed") is false:
`inferred_element_counts` is not reset, so what a query sees of the per-context cap depends on how
many inferences earlier queries on the same Script made in that context. With the cap of the
source, the same query body is served the first time and refused after 300 earlier inferences
(reproduced on the real code: known finding C16-cap-not-reset-per-query). -/
theorem query_boundary_full_witness :
    ((session unfixedResets srcCfg QState.init [.capped 0]).2.map (·.2)) = [[true]] ∧
    ((session unfixedResets srcCfg QState.init
        (List.replicate Gen.C16.nodeCap (.capped 0) ++ [.capped 0])).2.map (·.2)).getLast? = some [false] := by
  decide +kernel

/-- with the proposed fix (`reset_recursion_limitations` also re-creates
`inferred_element_counts`) every query starts with empty counts, whatever happened before -/
theorem query_boundary_counts_reset (resets : List String)
    (h : resets.contains "self.inferred_element_counts" = true) (s : QState) :
    (reset resets s).counts = Counts.empty := by
  unfold reset
  simp only [h, if_true]

/-! ## the execution budget is a budget per query -/

/-- the limits of `jedi/inference/recursion.py` -/
def srcLimits : Limits :=
  { recursionLimit := Gen.C16.recursionLimit, totalLimit := Gen.C16.totalLimit,
    perFnLimit := Gen.C16.perFnLimit, perFnRecLimit := Gen.C16.perFnRecLimit }

/-- `every_query_starts_with_fresh_budget`: whatever queries were asked before on the Script
(any methods, any traces - also ones that used up every budget), a query through a method that
resets gets the decisions (`limit_reached` of every execution) it gets as the first query of a
fresh Script. For arbitrary limits and reset lists ... -/
theorem every_query_starts_with_fresh_budget (L : Limits) (resetFirst : List String)
    (hist : List (String × List Op)) (d : Det) (q : String × List Op)
    (h : resetFirst.contains q.1 = true) :
    (apiQuery L resetFirst (apiSession L resetFirst d hist).1 q).2 =
      (apiQuery L resetFirst Det.fresh q).2 := by
  unfold apiQuery
  rw [if_pos h, if_pos h]

/-- ... and for the methods and limits of the source: every public query method that can execute a
function (`public_queries_reset`) -/
theorem public_queries_have_fresh_budget (hist : List (String × List Op)) (ops : List Op) (m : String)
    (hm : m ∈ ["complete", "infer", "goto", "help", "get_references", "get_signatures", "rename", "inline",
      "search", "complete_search", "get_names"]) :
    (apiQuery srcLimits Gen.C16.resetReach (apiSession srcLimits Gen.C16.resetReach Det.fresh hist).1 (m, ops)).2 =
      (runTrace srcLimits Det.fresh ops).2 := by
  have h : Gen.C16.resetReach.contains m = true := by
    have hall := public_queries_reset.2
    rw [List.all_eq_true] at hall
    exact hall m hm
  rw [every_query_starts_with_fresh_budget srcLimits Gen.C16.resetReach hist Det.fresh (m, ops) h]
  simp [apiQuery, h]

/-- the hypothesis is needed (kernel-checked witness, the limits of the source): if `get_signatures`
did not reset, then after an `infer` that executed one function exactly `per_function_execution_limit`
times, the single execution `get_signatures` needs is refused - and admitted when it is the first
query, or when the list is the one of the source. (Seeded defect C16-3; found on the real code by
stream budget.) -/
theorem budget_leaks_without_reset :
    let g : Exec := ⟨7, false, false⟩
    let heavy : String × List Op := ("infer", (List.replicate Gen.C16.perFnLimit [Op.push g, Op.pop]).flatten)
    let ask : String × List Op := ("get_signatures", [Op.push g, Op.pop])
    let without := Gen.C16.resetReach.filter (· != "get_signatures")
    (apiSession srcLimits without Det.fresh [heavy, ask]).2.map refusals =
      [List.replicate Gen.C16.perFnLimit false, [true]] ∧
    (apiSession srcLimits without Det.fresh [ask]).2.map refusals = [[false]] ∧
    (apiSession srcLimits Gen.C16.resetReach Det.fresh [heavy, ask]).2.map refusals =
      [List.replicate Gen.C16.perFnLimit false, [false]] := by
  decide

example : ("get_signatures" ∈ ["complete", "infer", "goto", "help", "get_references", "get_signatures", "rename",
    "inline", "search", "complete_search", "get_names"]) := by decide

/-! ## the memo layer -/

/-- what the memo decorators remember and what the materialising decorators return, as it stands in
the source: the plain ones store the returned object as it is; `inference_state_method_generator_cache`
keeps `(generator, list of what it produced)`; `signature_time_cache` takes the value out of the
generator itself; `to_list` / `to_tuple` / `iterator_to_value_set` build `list` / `tuple` /
`ValueSet` (a `frozenset`) -/
theorem memo_decorators_transcribed :
    Gen.C16.memoStoreShapes =
      ["jedi/inference/cache.py:_memoize_default stores memo[key] = rv",
       "jedi/cache.py:memoize_method stores dct[key] = result",
       "jedi/cache.py:time_cache stores cache[key] = (time.time(), result)",
       "jedi/inference/cache.py:inference_state_method_generator_cache stores (actual_generator, cached_lst)",
       "jedi/cache.py:signature_time_cache stores next(generator)",
       "jedi/inference/utils.py:to_list returns list(func(*args, **kwargs))",
       "jedi/inference/utils.py:to_tuple returns tuple(func(*args, **kwargs))",
       "jedi/inference/base_value.py:iterator_to_value_set returns ValueSet(func(*args, **kwargs))",
       "jedi/inference/base_value.py:ValueSet.__init__ self._set = frozenset(iterable)"] := by decide

/-- memoised generator functions of the unchanged source that are stored as they are (known
finding C16-pytest-modules-generator-memoised, proposed fix: `inference_state_method_generator_cache`) -/
def knownUnreplayable : List String := ["jedi/plugins/pytest.py:_iter_pytest_modules"]

/- FULL: `∀ e ∈ Gen.C16.memoTable, entryReplayable e = true` - false on the unchanged source:
   `jedi/plugins/pytest.py:_iter_pytest_modules` is a generator function directly under
   `inference_state_method_cache()` (reproduced on the real code, see the finding); it becomes true
   with the proposed fix, and then `knownUnreplayable` can be emptied. -/
/-- `memo_values_are_replayable` (`_partial`: all but the known exception): for EVERY function in
`jedi/` under a memo decorator - the table the translator extracts by walking all of `jedi/` - a
function that hands out a one-shot iterator (generator function, generator expression, `map` …) has a
materialising decorator between itself and every remembering decorator, or the remembering decorator
is one of the two that handle generators themselves. So what the memo holds can be read any number
of times. Moving `inference_state_method_cache()` below `iterator_to_value_set` / `to_list`, or
caching a `yield`-ing function, breaks this. -/
theorem memo_values_are_replayable_partial :
    ∀ e ∈ Gen.C16.memoTable, entryReplayable e = true ∨ e.1 ∈ knownUnreplayable := by decide

/-- the stacks of the source are fine, the same decorators in the other order are not; a generator
function directly under a plain memo decorator is not (the pytest finding); under the
generator-aware one it is -/
theorem memo_stack_order_matters :
    entryReplayable ("f", ["inference_state_method_cache", "iterator_to_value_set"], true) = true ∧
    entryReplayable ("f", ["iterator_to_value_set", "inference_state_method_cache"], true) = false ∧
    entryReplayable ("f", ["inference_state_method_cache", "to_list"], true) = true ∧
    entryReplayable ("f", ["to_list", "inference_state_method_cache"], true) = false ∧
    entryReplayable ("f", ["inference_state_method_cache"], true) = false ∧
    entryReplayable ("f", ["inference_state_method_generator_cache"], true) = true ∧
    entryReplayable ("f", ["inference_state_method_cache", "inference_state_method_generator_cache"], true) = false := by
  decide

/-- a memo entry that holds a materialised container answers every reader the same, however much
each reader takes -/
theorem materialised_memo_replayable {α : Type} (xs : List α) (ks : List Nat) :
    (Stored.materialised xs).reads ks = ks.map (xs.take ·) := reads_materialised xs ks

/-- so does the entry of `inference_state_method_generator_cache` (generator + what it produced so
far), even when a reader stops early -/
theorem generator_cache_replayable {α : Type} (xs : List α) (ks : List Nat) :
    (Stored.replaying [] xs).reads ks = ks.map (xs.take ·) := by
  simpa using reads_replaying ks ([] : List α) xs

/-- a memo entry that holds the generator itself does not: the second reader continues where the
first one stopped; after a reader that took everything, every later reader gets nothing -/
theorem one_shot_memo_not_replayable {α : Type} (xs : List α) (j k : Nat) :
    (Stored.oneShot xs).reads [j, k] = [xs.take j, (xs.drop j).take k] ∧
    (Stored.oneShot xs).reads [xs.length, k] = [xs, []] := by
  refine ⟨reads_oneShot_pair xs j k, ?_⟩
  rw [reads_oneShot_pair]
  simp

/-- concrete: the docstring type `[Widget]` read at two call sites; the pytest modules
`[own, conftest, plugin]` read by two fixture lookups that each stop at the first module -/
theorem one_shot_memo_witness :
    (Stored.oneShot [7]).reads [1, 1] = [[7], []] ∧ (Stored.materialised [7]).reads [1, 1] = [[7], [7]] ∧
    (Stored.oneShot [0, 1, 2]).reads [1, 1] = [[0], [1]] ∧ (Stored.replaying [] [0, 1, 2]).reads [1, 1] = [[0], [0]] := by
  decide

/-! ## the memo across queries -/

/-- `memo_order_independent_acyclic`: on an acyclic dependency graph, whatever roots were asked
before on the same memo (same Script), every answer of the memoised evaluator is the memo-free
meaning of its root — so it does not depend on the order of the queries, and asking again gives
the same answer. Holds with and without a stored default. -/
theorem memo_order_independent_acyclic {Val : Type} (G : Graph Val) (rank : Nat → Nat)
    (hac : Acyclic G rank) (fuel : Nat) (roots : List Nat) (m : Memo Val) (rs : List Val)
    (h : evalSeq G fuel Memo.empty roots = .ok (m, rs)) : rs = roots.map (D G rank) := by
  have gen : ∀ (roots : List Nat) (m0 : Memo Val), (∀ B, ConsistentBelow G rank B m0) →
      ∀ m rs, evalSeq G fuel m0 roots = .ok (m, rs) → rs = roots.map (D G rank) := by
    intro roots
    induction roots with
    | nil => intro m0 _ m rs h; simp [evalSeq] at h; simp [h.2]
    | cons v vs ih =>
      intro m0 hm0 m rs h
      simp only [evalSeq] at h
      cases h1 : eval G fuel m0 v with
      | error e => simp [h1] at h
      | ok res =>
        obtain ⟨m1, r, w⟩ := res
        simp only [h1] at h
        cases h2 : evalSeq G fuel m1 vs with
        | error e => simp [h2] at h
        | ok res2 =>
          obtain ⟨m2, rs2⟩ := res2
          simp only [h2, Except.ok.injEq, Prod.mk.injEq] at h
          obtain ⟨_, hrs⟩ := h
          subst hrs
          have hv := eval_acyclic G rank hac fuel m0 v (rank v + 1) (by omega) (hm0 _) m1 r w h1
          have hm1 : ∀ B, ConsistentBelow G rank B m1 := by
            intro B k r' hk hrk
            by_cases hB : rank v < B
            · exact (eval_acyclic G rank hac fuel m0 v B hB (hm0 B) m1 r w h1).2.1 k r' hk hrk
            · exact hv.2.1 k r' hk (by omega)
          simp [hv.1, ih m1 hm1 m2 rs2 h2]
  exact gen roots Memo.empty (fun B k r hk _ => by simp [Memo.empty] at hk) m rs h

/-- a chain `.. -> 2 -> 1 -> 0` -/
def chainG : Graph (List Nat) :=
  { deps := fun v => if v = 0 then [] else [v - 1], combine := fun v vs => v :: vs.flatten, default := some [] }

/-- it is acyclic with `rank = id` -/
example : Acyclic chainG id := by
  intro v c hc
  simp only [chainG] at hc
  split at hc <;> simp at hc
  simp only [id]; omega

/-- the 2-cycle `a = b; b = a` with list-valued results, default `[]` -/
def twoCycle : Graph (List Nat) :=
  { deps := fun v => if v = 0 then [1] else [0], combine := fun v vs => v :: vs.flatten, default := some [] }

/-- FULL (any graph) is false: on the 2-cycle `a = b; b = a` the default stored on re-entry is
frozen into the dependent's entry, so the answer for root 1 depends on whether root 0 was asked
before -/
theorem memo_order_dependent_on_cycle :
    (match evalSeq JediModel.Props.C16.twoCycle 3 Memo.empty [0, 1] with
      | .ok (_, rs) => some rs | .error _ => none) = some [[0, 1], [1]] ∧
    (match evalSeq JediModel.Props.C16.twoCycle 3 Memo.empty [1, 0] with
      | .ok (_, rs) => some rs | .error _ => none) = some [[1, 0], [0]] := by decide

/-! ## completions out of a union of inferred values: the dict keys of a subscript

`Completion.complete()` returns `_remove_duplicates(prefixed_completions, completions) + sorted(...)`:
what `strings.complete_dict` produced stands in front AS IT COMES. It comes out of
`_completions_for_dicts(inference_state, dicts, ...)` where `dicts` is the `ValueSet` of everything the
expression before the bracket is inferred to - a frozenset hashed by object identity, so the order
in which the dicts arrive differs between processes, heap layouts, even two Scripts of one process. -/

/-- where `jedi/api/strings.py` sorts, as the translator found it -/
def srcDictCfg : DictCfg :=
  { globalSort := Gen.C16.dictKeysGlobalSort, perDictSort := Gen.C16.dictKeysPerDictSort }

/-- the keys of ALL inferred dicts are sorted together, right where they are consumed
(`for dict_key in sorted(_get_python_keys(dicts), key=lambda x: repr(x))`), and `complete()` does not
reorder them afterwards. Moving the sort into `_get_python_keys` (one sort per dict) breaks this. -/
theorem dict_keys_sorted_together_transcribed :
    Gen.C16.dictKeysGlobalSort = true ∧
    Gen.C16.completeReturnHead = "_remove_duplicates(prefixed_completions, completions)" := by decide

/-- FULL: with the keys of all dicts sorted together, the dict key completions - names and order -
are the same for every order in which the set of inferred values is iterated: any number of values,
dicts or not, any keys (shared between dicts, without a safe value), whatever is typed after the
bracket, sorted per dict in addition or not -/
theorem dict_completions_perm_invariant (cfg : DictCfg) (h : cfg.globalSort = true) (lit cut : Str)
    (d₁ d₂ : List DictVal) (hp : d₁.Perm d₂) :
    completionsForDicts cfg lit cut d₁ = completionsForDicts cfg lit cut d₂ := by
  simp only [completionsForDicts, h, if_true]
  rw [sortByRepr_perm_eq _ _ (getPythonKeys_perm cfg d₁ d₂ hp)]

/-- two dicts sharing a key, a value that is no dict, a key without a safe value; `d['k` typed -/
example : completionsForDicts ⟨true, false⟩ [39, 107] [39]
      [⟨true, [some [39, 107, 98, 39], some [49, 48]]⟩, ⟨false, [some [39, 107, 122, 39]]⟩,
       ⟨true, [none, some [39, 107, 97, 39], some [39, 107, 98, 39]]⟩]
    = [[39, 107, 97], [39, 107, 98]] := by decide

/-- ... for the source as it stands -/
theorem dict_completions_src_perm_invariant (lit cut : Str) (d₁ d₂ : List DictVal) (hp : d₁.Perm d₂) :
    completionsForDicts srcDictCfg lit cut d₁ = completionsForDicts srcDictCfg lit cut d₂ :=
  dict_completions_perm_invariant srcDictCfg (by decide) lit cut d₁ d₂ hp

example : [DictVal.mk true [some [49]], DictVal.mk true [some [48]]].Perm
    [DictVal.mk true [some [48]], DictVal.mk true [some [49]]] := List.Perm.swap _ _ _

/-- `{'host': 1, 'port': 2}` and `{'user': 3, 'debug': 4}` as `repr`s of their keys -/
def dictHostPort : DictVal :=
  ⟨true, [some [39, 104, 111, 115, 116, 39], some [39, 112, 111, 114, 116, 39]]⟩
def dictUserDebug : DictVal :=
  ⟨true, [some [39, 117, 115, 101, 114, 39], some [39, 100, 101, 98, 117, 103, 39]]⟩

/-- kernel-checked witness that the sort over all keys is needed: sorting the keys of each dict
(`yield from sorted(keys, key=repr)` in `_get_python_keys`) without the sort in
`_completions_for_dicts` gives `'host' 'port' 'debug' 'user'` for one iteration order of the two dicts
and `'debug' 'user' 'host' 'port'` for the other -/
theorem dict_completions_order_dependent_with_per_dict_sort :
    [dictHostPort, dictUserDebug].Perm [dictUserDebug, dictHostPort] ∧
    completionsForDicts ⟨false, true⟩ [] [] [dictHostPort, dictUserDebug] ≠
      completionsForDicts ⟨false, true⟩ [] [] [dictUserDebug, dictHostPort] ∧
    completionsForDicts ⟨true, false⟩ [] [] [dictHostPort, dictUserDebug] =
      completionsForDicts ⟨true, false⟩ [] [] [dictUserDebug, dictHostPort] :=
  ⟨List.Perm.swap _ _ _, by decide, by decide⟩

/-- why a test on ONE dict cannot tell the two apart: on a single inferred value the per-dict sort
and the sort over all keys give the same completions -/
theorem single_dict_hides_where_the_sort_is (lit cut : Str) (d : DictVal) :
    completionsForDicts ⟨false, true⟩ lit cut [d] = completionsForDicts ⟨true, false⟩ lit cut [d] := by
  simp only [completionsForDicts, getPythonKeys, List.flatMap_cons, List.flatMap_nil, List.append_nil]
  cases d.isDict <;> simp [sortByRepr]

example : completionsForDicts ⟨false, true⟩ [] [] [dictUserDebug]
    = [[39, 100, 101, 98, 117, 103, 39], [39, 117, 115, 101, 114, 39]] := by decide

/-- a key is offered once, however many dicts have it (the `seen` set): no name twice when nothing is
cut off the end -/
theorem dict_completions_nodup (cfg : DictCfg) (lit : Str) (dicts : List DictVal) :
    (completionsForDicts cfg lit [] dicts).Nodup := by
  have gen : ∀ (ks seen : List Str), (completionLoop lit [] seen ks).Nodup ∧
      ∀ x ∈ completionLoop lit [] seen ks, x ∉ seen := by
    intro ks
    induction ks with
    | nil => intro seen; simp [completionLoop]
    | cons r rest ih =>
      intro seen
      simp only [completionLoop]
      split
      · rename_i hc
        simp only [Bool.and_eq_true, Bool.not_eq_true', List.contains_eq_mem, decide_eq_false_iff_not] at hc
        have ih' := ih (createReprString lit r :: seen)
        refine ⟨?_, ?_⟩
        · refine List.nodup_cons.mpr ⟨?_, ih'.1⟩
          intro hmem
          have := ih'.2 _ hmem
          simp [cutEnd] at this
        · intro x hx
          rcases List.mem_cons.mp hx with e | hx'
          · subst e; simpa [cutEnd] using hc.2
          · have := ih'.2 x hx'
            intro hs
            exact this (List.mem_cons_of_mem _ hs)
      · exact ih seen
  exact (gen _ []).1

example : completionsForDicts ⟨true, false⟩ [] [] [dictHostPort, dictHostPort, dictUserDebug] =
    [[39, 100, 101, 98, 117, 103, 39], [39, 104, 111, 115, 116, 39], [39, 112, 111, 114, 116, 39],
     [39, 117, 115, 101, 114, 39]] := by decide

end JediModel.Props.C16

import JediModel.Lemmas.Tree
import JediModel.Model.Names
import JediModel.Lemmas.Names
import JediModel.Model.ParsoPos
import JediModel.Lemmas.ScriptParse
import JediModel.Gen.C17
import JediModel.Lemmas.DefRange
/-! C17 — every reported position is faithful to the text.  The API's `line` / `column` are
the `start_pos` of the parso leaf of the name (`Gen.C17.positionSource`); parso's `start_pos`
law is `Model/Tree.positions`; the buffer's lines are `Model/Text.splitLines`. -/
namespace JediModel.Props.C17
open JediModel.Text JediModel.Tree JediModel.Names JediModel.ApiHelpers JediModel.ParsoPos

/-- `''.join(split_lines(s, keepends=True)) == s`: the lines partition the text -/
theorem join_split_lines (s : Str) : (splitLines s).flatten = s := join_splitLines s

/-- there is always at least one line (the empty text has one empty line) -/
theorem split_lines_nonempty (s : Str) : splitLines s ≠ [] := splitLines_ne_nil s

/-- shape of the lines: every line but the last is `body ++ terminator` where the terminator is
`\n`, `\r\n` or a lone `\r` and the body contains no `\n` / `\r`; the last line has no break at
all.  So `\f`, `\v`, tabs, U+2028, … never end a line. -/
theorem split_lines_shape (s : Str) : LinesShape (splitLines s) := splitLines_shape s

/-- **leaf_at_position** (indexed form).  For every tree whose piece boundaries do not fall
inside a `\r\n` (`CRLFSafe`, guaranteed by parso's tokenizer, re-checked by the harness on every
dumped tree) and every leaf: the position `positions` assigns to the leaf is the position reached
by reading everything before the leaf's value, and the text of the buffer from that position on is
exactly the leaf's value followed by the rest of the file. -/
theorem leaf_at_position_idx (t : T) (h : CRLFSafe t) (i : Nat) (hi : i < (leaves t).length) :
    ∃ pos, (positions t)[i]? = some ((leaves t)[i], pos) ∧
      pos = advance ⟨1, 0⟩ (codeOf ((leaves t).take i) ++ (leaves t)[i].pfx) ∧
      textFrom (splitLines (code t)) pos
        = some ((leaves t)[i].value ++ codeOf ((leaves t).drop (i + 1))) := by
  have := layout_getElem [] (leaves t) h i hi
  simpa [positions, code_eq_codeOf] using this

/-- **leaf_at_position**: for every tree and every `(leaf, position)` the model reports, the text
at that position begins with the leaf's value. -/
theorem leaf_at_position (t : T) (h : CRLFSafe t) :
    ∀ lp ∈ positions t, ∃ rest, textFrom (splitLines (code t)) lp.2 = some (lp.1.value ++ rest) := by
  intro lp hlp
  obtain ⟨i, hi, hget⟩ := List.getElem_of_mem hlp
  have hlen : (positions t).length = (leaves t).length := layout_length _ _
  have hi' : i < (leaves t).length := hlen ▸ hi
  obtain ⟨pos, h1, _, h3⟩ := leaf_at_position_idx t h i hi'
  have : (positions t)[i]? = some lp := by rw [List.getElem?_eq_getElem hi, hget]
  rw [this] at h1
  cases h1
  exact ⟨_, h3⟩

/- FULL (false, see `bom_counter_witness`): for every tree and every `(leaf, position)` that
   *parso* reports (`parsoPositions`), the text of the buffer at that position begins with the
   leaf's value:
     ∀ t, CRLFSafe t → ∀ lp ∈ parsoPositions t, ∃ rest,
       textFrom (splitLines (code t)) lp.2 = some (lp.1.value ++ rest)
   It fails when the buffer begins with U+FEFF: parso keeps the mark in the text but does not
   count it in the columns of line 1.  Reproduced on the real code
   (`Script('\ufeffabc = 1').get_names()[0]` has column 0 while `get_line_code()[0:3]` is
   `'\ufeffab'`): known finding C17-bom-line1-columns. -/

/-- **leaf_at_position_partial**: parso's positions are faithful for every buffer that does not
begin with a byte order mark. -/
theorem leaf_at_position_partial (t : T) (h : CRLFSafe t) (hb : startsWithBom (code t) = false) :
    ∀ lp ∈ parsoPositions t, ∃ rest, textFrom (splitLines (code t)) lp.2 = some (lp.1.value ++ rest) := by
  unfold parsoPositions
  simp only [hb, Bool.false_eq_true, if_false]
  exact leaf_at_position t h

/-- kernel-checked counter-witness for the FULL statement: `\ufeffab` -/
theorem bom_counter_witness :
    let t := T.node 0 "file_input" [T.leaf 1 "name" [bom] ['a', 'b'], T.leaf 2 "endmarker" [] []]
    CRLFSafe t ∧ parsoPositions t = [(⟨1, "name", [bom], ['a', 'b']⟩, ⟨1, 0⟩), (⟨2, "endmarker", [], []⟩, ⟨1, 2⟩)] ∧
    textFrom (splitLines (code t)) ⟨1, 0⟩ = some [bom, 'a', 'b'] := by
  decide

/-- the positions list has one entry per leaf, in leaf order -/
theorem positions_are_the_leaves (t : T) : (positions t).map (·.1) = leaves t :=
  layout_map_fst _ _

/-- FULL statement without the well-formedness hypothesis is false of the *model* (not of parso:
its tokenizer never separates `\r` from a following `\n`): a leaf `"\r"` followed by a leaf
`"\n"` — the second leaf would be placed on line 2 although `\r\n` is one line terminator. -/
theorem leaf_at_position_needs_crlfsafe :
    let t := T.node 0 "file_input" [T.leaf 1 "x" [] ['\r'], T.leaf 2 "y" [] ['\n']]
    ¬ CRLFSafe t ∧
    ¬ (∀ lp ∈ positions t, ∃ rest, textFrom (splitLines (code t)) lp.2 = some (lp.1.value ++ rest)) := by
  refine ⟨by decide, ?_⟩
  intro h
  have := h (⟨2, "y", [], ['\n']⟩, ⟨2, 0⟩) (by decide)
  obtain ⟨rest, hr⟩ := this
  have e : textFrom (splitLines (code (T.node 0 "file_input" [T.leaf 1 "x" [] ['\r'], T.leaf 2 "y" [] ['\n']]))) ⟨2, 0⟩
      = some [] := by decide
  rw [e] at hr
  simp at hr

/-- **columns count code points, lines count terminators.**  The position of a leaf is
(number of lines of the text before it, number of characters after the last line break of the text
before it) — characters, not bytes and not display cells. -/
theorem position_counts (t : T) (h : CRLFSafe t) (i : Nat) (hi : i < (leaves t).length) :
    ∃ pos, (positions t)[i]? = some ((leaves t)[i], pos) ∧
      let before := codeOf ((leaves t).take i) ++ (leaves t)[i].pfx
      pos.line = (splitLines before).length ∧
      pos.col = (lastL (splitLines before)).length ∧
      (∀ c ∈ lastL (splitLines before), Ordinary c) := by
  obtain ⟨pos, h1, h2, _⟩ := leaf_at_position_idx t h i hi
  refine ⟨pos, h1, ?_⟩
  simp only
  rw [h2, advance_origin]
  refine ⟨rfl, rfl, ?_⟩
  generalize codeOf ((leaves t).take i) ++ (leaves t)[i].pfx = before
  have hs := splitLines_shape before
  have hne := splitLines_ne_nil before
  generalize splitLines before = ls at hs hne
  induction ls with
  | nil => exact absurd rfl hne
  | cons l ls ih =>
    cases ls with
    | nil => simpa [LinesShape, Unterminated] using hs
    | cons l' ls' =>
      simp only [lastL_cons_cons]
      exact ih hs.2 (by simp)

/-- **what starts a new line**: exactly `\n`, `\r\n` (as one) and a lone `\r`; every other
character — form feed, vertical tab, tab, NEL, U+2028, any letter — advances the column by one. -/
theorem line_breaks (p : Pos) :
    advance p ['\n'] = ⟨p.line + 1, 0⟩ ∧ advance p ['\r', '\n'] = ⟨p.line + 1, 0⟩ ∧
    advance p ['\r'] = ⟨p.line + 1, 0⟩ ∧
    (∀ c, c ≠ '\n' → c ≠ '\r' → advance p [c] = ⟨p.line, p.col + 1⟩) ∧
    (∀ s : Str, (∀ c ∈ s, c ≠ '\n' ∧ c ≠ '\r') → advance p s = ⟨p.line, p.col + s.length⟩) :=
  ⟨advance_lf p, advance_crlf p, advance_cr p, fun c h1 h2 => advance_ordinary p c ⟨h1, h2⟩,
   fun s h => advance_ordinary_str p s h⟩

example : Ordinary '\x0c' ∧ Ordinary '\t' ∧ Ordinary '\x0b' ∧ Ordinary (Char.ofNat 0x2028) ∧ Ordinary 'é' := by decide

theorem headL_consHead (c : Char) (xs : List Str) : headL (consHead c xs) = c :: headL xs := by
  cases xs <;> simp [consHead, headL]

theorem headL_splitLines_ordinary (v post : Str) (hv : ∀ c ∈ v, Ordinary c) :
    headL (splitLines (v ++ post)) = v ++ headL (splitLines post) := by
  induction v with
  | nil => simp
  | cons c v ih =>
    have hc : Ordinary c := hv c (by simp)
    simp only [List.cons_append]
    rw [splitLines_ord c _ hc, headL_consHead, ih (fun d hd => hv d (by simp [hd]))]

/-- `get_line_code()` with the default arguments is `lines[line - 1]` -/
theorem getLineCode_default (ls : List Str) (line : Nat) (h : 1 ≤ line) :
    getLineCode ls line 0 0 = (lineAt ls line).getD [] := by
  unfold getLineCode pySlice clampIdx lineAt
  have h1 : ¬ ((line : Int) - 1 + 0 + 1 < 0) := by omega
  have h2 : ¬ (max ((line : Int) - 1 - 0) 0 < 0) := by omega
  have e1 : ((line : Int) - 1 + 0 + 1).toNat = line := by omega
  have e2 : (max ((line : Int) - 1 - 0) 0).toNat = line - 1 := by omega
  have h0 : line ≠ 0 := by omega
  simp only [h1, h2, if_false, e1, e2, h0]
  by_cases hl : line ≤ ls.length
  · have hm1 : min line ls.length = line := by omega
    have hm2 : min (line - 1) ls.length = line - 1 := by omega
    have hlt : line - 1 < ls.length := by omega
    rw [hm1, hm2, List.getElem?_eq_getElem hlt]
    have : List.drop (line - 1) (List.take line ls) = [ls[line - 1]] := by
      have e : line - (line - 1) = 1 := by omega
      rw [List.drop_take, e, List.drop_eq_getElem_cons hlt, List.take_succ_cons, List.take_zero]
    simp [this]
  · have hm1 : min line ls.length = ls.length := by omega
    have hm2 : min (line - 1) ls.length = ls.length := by omega
    have : ls[line - 1]? = none := by
      apply List.getElem?_eq_none; omega
    rw [hm1, hm2, this]
    simp

/-- **line_code_is_line**: for a leaf whose value contains no line break (every name, keyword,
operator, number), `get_line_code()` is the line of the buffer the leaf is on, that line exists,
and the leaf's value stands in that line at the reported column. -/
theorem line_code_is_line (t : T) (h : CRLFSafe t) (i : Nat) (hi : i < (leaves t).length)
    (hv : ∀ c ∈ (leaves t)[i].value, Ordinary c) :
    ∃ pos line, (positions t)[i]? = some ((leaves t)[i], pos) ∧
      lineAt (splitLines (code t)) pos.line = some line ∧
      getLineCode (splitLines (code t)) pos.line 0 0 = line ∧
      (leaves t)[i].value <+: line.drop pos.col := by
  obtain ⟨pos, h1, h2, _⟩ := leaf_at_position_idx t h i hi
  -- code t = before ++ (value ++ after), split at a safe boundary
  have hsafe : SafeFrom [] (leaves t) := h
  have hcode : code t = (codeOf ((leaves t).take i) ++ (leaves t)[i].pfx) ++
      ((leaves t)[i].value ++ codeOf ((leaves t).drop (i + 1))) := by
    rw [code_eq_codeOf]
    conv => lhs; rw [← List.take_append_drop i (leaves t)]
    rw [codeOf_append, List.drop_eq_getElem_cons hi]
    simp [codeOf, List.append_assoc]
  have hs : Safe (codeOf ((leaves t).take i) ++ (leaves t)[i].pfx)
      ((leaves t)[i].value ++ codeOf ((leaves t).drop (i + 1))) := by
    -- from SafeFrom along the sequence
    have key : ∀ (a : Str) (ls : List LeafInfo), SafeFrom a ls → ∀ j (hj : j < ls.length),
        Safe (a ++ codeOf (ls.take j) ++ ls[j].pfx) (ls[j].value ++ codeOf (ls.drop (j + 1))) := by
      intro a ls
      induction ls generalizing a with
      | nil => intro _ j hj; simp at hj
      | cons x xs ih =>
        intro hs j hj
        obtain ⟨_, s2, s3⟩ := hs
        cases j with
        | zero => simpa [codeOf] using s2
        | succ j =>
          have := ih (a ++ x.pfx ++ x.value) s3 j (by simpa using hj)
          simpa [codeOf, List.append_assoc] using this
    simpa using key [] (leaves t) hsafe i hi
  have hline := lineAt_advance _ _ hs
  rw [← hcode, ← h2] at hline
  refine ⟨pos, _, h1, hline, ?_, ?_⟩
  · have hl1 : 1 ≤ pos.line := by
      rw [h2, advance_origin]; exact splitLines_length_pos _
    rw [getLineCode_default _ _ hl1, hline]; rfl
  · have hcol : pos.col = (lastL (splitLines (codeOf ((leaves t).take i) ++ (leaves t)[i].pfx))).length := by
      rw [h2, advance_origin]
    rw [hcol, List.drop_left, headL_splitLines_ordinary _ _ hv]
    exact List.prefix_append _ _

/-! ### name enumeration -/

/-- with `all_scopes`, `definitions`, `references` all true nothing is filtered: the result is a
permutation of all name occurrences -/
theorem names_all (occs : List Occ) : (scriptNames occs true true true).Perm occs := by
  unfold scriptNames getModuleNames
  have : (occs.filter fun n => (true && n.isDef) || (true && !n.isDef)) = occs := by
    apply List.filter_eq_self.mpr
    intro a _; cases a.isDef <;> rfl
  simp only [if_true, this]
  exact List.mergeSort_perm _ _

/-- **names_all_once**: every name occurrence is reported exactly as often as it occurs in the
parser's index — once, when the index has no duplicates (distinct tokens have distinct positions) -/
theorem names_all_once (occs : List Occ) (o : Occ) :
    (scriptNames occs true true true).count o = occs.count o :=
  (names_all occs).count_eq o

theorem names_nodup (occs : List Occ) (h : occs.Nodup) : (scriptNames occs true true true).Nodup :=
  (names_all occs).nodup_iff.mpr h

theorem posLe_total (a b : Occ) : (posLe a b || posLe b a) = true := by
  simp only [posLe, Bool.or_eq_true, decide_eq_true_eq]
  show (a.pos.line < b.pos.line ∨ a.pos.line = b.pos.line ∧ a.pos.col ≤ b.pos.col) ∨
       (b.pos.line < a.pos.line ∨ b.pos.line = a.pos.line ∧ b.pos.col ≤ a.pos.col)
  omega

theorem posLe_trans (a b c : Occ) : posLe a b = true → posLe b c = true → posLe a c = true := by
  simp only [posLe, decide_eq_true_eq]
  show (a.pos.line < b.pos.line ∨ a.pos.line = b.pos.line ∧ a.pos.col ≤ b.pos.col) →
       (b.pos.line < c.pos.line ∨ b.pos.line = c.pos.line ∧ b.pos.col ≤ c.pos.col) →
       (a.pos.line < c.pos.line ∨ a.pos.line = c.pos.line ∧ a.pos.col ≤ c.pos.col)
  omega

/-- the enumeration is in position order, whatever the flags -/
theorem names_sorted (occs : List Occ) (a d r : Bool) :
    (scriptNames occs a d r).Pairwise (fun x y => x.pos ≤ y.pos) := by
  unfold scriptNames
  have := List.pairwise_mergeSort (le := posLe) (fun a b c => posLe_trans a b c) (fun a b => posLe_total a b)
    (getModuleNames occs a d r)
  refine this.imp ?_
  intro x y hxy
  simpa [posLe] using hxy

/-- **names_partition**: definitions ⊎ references = all, for either scope setting -/
theorem names_partition (occs : List Occ) (a : Bool) :
    (scriptNames occs a true false ++ scriptNames occs a false true).Perm (scriptNames occs a true true) := by
  unfold scriptNames
  refine ((List.mergeSort_perm _ _).append (List.mergeSort_perm _ _)).trans ?_
  refine List.Perm.trans ?_ (List.mergeSort_perm _ _).symm
  unfold getModuleNames
  generalize (if a = true then occs else occs.filter (·.moduleScope)) = names
  induction names with
  | nil => simp
  | cons n ns ih =>
    cases hd : n.isDef
    · simp only [List.filter_cons, hd]
      simp only [Bool.and_false, Bool.false_and, Bool.or_false, Bool.false_eq_true, if_false,
        Bool.not_false, Bool.and_true, Bool.or_true, Bool.true_and, if_true, Bool.or_self] at ih ⊢
      exact (List.perm_middle).trans (ih.cons n)
    · simp only [List.filter_cons, hd]
      simp only [Bool.and_true, Bool.true_and, Bool.not_true, Bool.and_false, Bool.or_false,
        if_true, Bool.false_and, Bool.or_self, Bool.false_eq_true, if_false] at ih ⊢
      exact ih.cons n

/-- a reported definition is a definition, a reported reference is not -/
theorem names_flag_sound (occs : List Occ) (a : Bool) :
    (∀ o ∈ scriptNames occs a true false, o.isDef = true) ∧
    (∀ o ∈ scriptNames occs a false true, o.isDef = false) := by
  unfold scriptNames getModuleNames
  constructor <;> intro o ho <;>
    · have := (List.mergeSort_perm _ _).mem_iff.mp ho
      simp only [List.mem_filter] at this
      simpa using this.2

/-! ### histories: the same Script asked again and again

The property holds for every result of every query - also for the tenth enumeration on a Script
that an editor plugin keeps around.  `Model/Names.namesHistory` runs a list of `_names(flags)`
calls on ONE Script whose only state is the memo of the callee `_names` iterates over
(`Gen.C17.namesSource`). -/

/-- **names_history_faithful**: unless a one-shot iterator is remembered, every enumeration of
every history (any flags, any repetitions, any order) answers exactly like the first enumeration
of a fresh Script. -/
theorem names_history_faithful (src : NameSource) (h : (src.memoised && src.oneShot) = false)
    (occs : List Occ) (fs : List Flags) :
    namesHistory src occs [] fs = fs.map (namesOf occs) :=
  namesHistory_eq_map src h occs fs [] (Memo.good_nil occs)

/-- what the source does (translator: `for name in <call>` in `Script._names`, the decorators of
the callee, and whether the callee - followed through `jedi/` - returns `filter(...)` / `map(...)` /
a generator): `helpers.get_module_names` hands out a `filter` object, and it is called afresh by
every `_names`.  Putting that call under `cache.memoize_method` makes `namesSourceMemoised` true
and this theorem false. -/
theorem names_source_not_remembered_one_shot :
    (Gen.C17.namesSourceMemoised && Gen.C17.namesSourceOneShot) = false := by decide

/-- the callee the model was written against -/
theorem names_source_shape : Gen.C17.namesSource = "jedi/api/helpers.py:get_module_names" := by decide

/-- **names_history_faithful_source**: the statement for the source as it is -/
theorem names_history_faithful_source (occs : List Occ) (fs : List Flags) :
    namesHistory ⟨Gen.C17.namesSourceMemoised, Gen.C17.namesSourceOneShot⟩ occs [] fs
      = fs.map (namesOf occs) :=
  names_history_faithful _ names_source_not_remembered_one_shot occs fs

/-- **names_history_every_token_once**: in every history every
`get_names(all_scopes=True, definitions=True, references=True)` reports every indexed name exactly
as often as it occurs in the index, however often it was asked before -/
theorem names_history_every_token_once (occs : List Occ) (fs : List Flags) (i : Nat)
    (hi : fs[i]? = some (true, true, true)) :
    ∃ ans, (namesHistory ⟨Gen.C17.namesSourceMemoised, Gen.C17.namesSourceOneShot⟩ occs [] fs)[i]? = some ans
      ∧ ans.Perm occs ∧ ∀ o, ans.count o = occs.count o := by
  rw [names_history_faithful_source]
  refine ⟨scriptNames occs true true true, ?_, names_all occs, names_all_once occs⟩
  simp [List.getElem?_map, hi, namesOf]

example : ([(true, true, true), (false, true, false), (true, true, true)] : List Flags)[2]? = some (true, true, true) := rfl

/- FULL for an arbitrary source is false: -/
/-- **one_shot_memo_counter_witness**: a remembered one-shot iterator (`memoize_method` over a
function returning `filter(...)`) answers the first enumeration and then nothing: the second
`get_names` with the same flags is empty for EVERY program … -/
theorem one_shot_memo_counter_witness (occs : List Occ) (f : Flags) :
    namesHistory ⟨true, true⟩ occs [] [f, f] = [namesOf occs f, []] := by
  simp [namesHistory, namesStep, Memo.get, Memo.set, namesOf, scriptNames]

/-- … while enumerations with other flags are not disturbed (which is why a test that asks every
question once never sees it) -/
theorem one_shot_memo_interleaved (occs : List Occ) (f g : Flags) (h : g ≠ f) :
    namesHistory ⟨true, true⟩ occs [] [f, g, f, g] = [namesOf occs f, namesOf occs g, [], []] := by
  simp [namesHistory, namesStep, Memo.get, Memo.set, namesOf, scriptNames, Ne.symm h]

/-- a remembered container is fine -/
theorem container_memo_faithful (occs : List Occ) (fs : List Flags) :
    namesHistory ⟨true, false⟩ occs [] fs = fs.map (namesOf occs) :=
  names_history_faithful _ rfl occs fs

/-- **api_memo_values_replayable**: for EVERY function of `jedi/api/` under a memo decorator (the
table the translator extracts by walking `jedi/api/**/*.py`; one-shot = generator function or a
returned generator expression / `map` / `filter` / `zip` / `chain`, followed through the jedi
functions it returns) what the memo holds can be read any number of times: a materialising
decorator stands between a one-shot iterator and every remembering decorator, or the remembering
decorator is one of the two that take generators apart themselves. -/
theorem api_memo_values_replayable :
    ∀ e ∈ Gen.C17.apiMemoTable, entryReplayable e = true := by decide

/-- … and no method of `jedi/api/` keeps a one-shot iterator in an attribute of its object -/
theorem api_attributes_replayable :
    ∀ e ∈ Gen.C17.apiAttributeTable, entryReplayable e = true := by decide

/-- the table is not empty and contains the memoised methods of Script / BaseName / Name -/
theorem api_memo_table_covers :
    (Gen.C17.apiMemoTable.map (·.1)).contains "jedi/api/__init__.py:Script._get_module" = true ∧
    (Gen.C17.apiMemoTable.map (·.1)).contains "jedi/api/classes.py:BaseName._get_module_context" = true ∧
    (Gen.C17.apiMemoTable.map (·.1)).contains "jedi/api/classes.py:Name.defined_names" = true := by decide

/-- what the rule accepts and rejects -/
theorem memo_stack_examples :
    entryReplayable ("Script._get_module_names", ["memoize_method"], true) = false ∧
    entryReplayable ("Script._get_module_names", ["memoize_method", "to_list"], true) = true ∧
    entryReplayable ("Script._get_module_names", ["to_list", "memoize_method"], true) = false ∧
    entryReplayable ("Script.__init__:self._all_names", ["attribute"], true) = false ∧
    entryReplayable ("f", ["lru_cache"], true) = false ∧
    entryReplayable ("f", ["memoize_method"], false) = true ∧
    entryReplayable ("cache_signatures", ["signature_time_cache"], true) = true := by decide

/-- the source sorts by `start_pos` and takes line / column from the name's `start_pos` -/
theorem source_shape : Gen.C17.namesSortKey = "start_pos" ∧ Gen.C17.positionSource = "self._name.start_pos"
    ∧ Gen.C17.lineCodeIndexOffset = 1 ∧ Gen.C17.lineCodeDefaults = [0, 0]
    ∧ Gen.C17.defRefFilter = "definitions and is_def or (references and (not is_def))" := by decide

/-! ### histories of ONE project file: which tree a Script works on

Every position a Script reports is read off `_module_node`; the text it shows is `_code`.  Both come
from the parse call of `Script.__init__` (`Model/ScriptParse`): parso answers from caches keyed by
the path and validated by time stamps.  The property needs `tree = code` for EVERY Script of EVERY
history of the file: written with any modification time (`mv` of a backup, `cp -p`, two writes in one
tick), analysed from disk or as an unsaved buffer, in any order, across restarts, and whatever else
goes through parso's caches for that path (`Op.parse` with any flags: imports use `cache=True`). -/

open JediModel.ScriptParse in
/-- the `cache=` keyword of the parse call in `Script.__init__` is the constant `False`
(`"from-disk"`: a name bound to `code is None`; `"always"`: `True`) -/
theorem script_parse_policy : policyOf Gen.C17.scriptParseCache = some Policy.never := by decide

open JediModel.ScriptParse in
/-- **script_tree_is_code**: if `Script.__init__` never asks `load_module` (`cache=False`), then in
every history of the path - any writes with any time stamps, removals, restarts, buffer and disk
analyses, interleaved cached parses of the same path - every Script works on the tree of exactly the
text it keeps as `_code`, and that text is the buffer it was given or the content of the file at that
moment. -/
theorem script_tree_is_code (cfg : Cfg) (hp : cfg.policy = .never) (w : World) (hw : w.caches.WF)
    (ops : List Op) (i : Nat) (code : Option Text) (now : Nat) (hop : ops[i]? = some (.script code now))
    (s : Script) (hs : (run cfg w ops)[i]? = some (some s)) :
    s.tree = s.code ∧ (∀ t, code = some t → s.code = t) ∧
      (code = none → ∃ f, (worldAfter cfg w (ops.take i)).file = some f ∧ s.code = f.content) := by
  refine ⟨run_script_faithful cfg hp ops w hw i code now hop s hs, ?_⟩
  rw [run_getElem?, hop] at hs
  simp only [Option.map_some, Option.some.injEq, step] at hs
  exact scriptInit_code cfg code _ now _ s hs

open JediModel.ScriptParse in
/-- **script_tree_is_code_source**: the statement for the source as the translator found it, from the
empty caches of a fresh cache directory -/
theorem script_tree_is_code_source (ops : List Op) (i : Nat) (code : Option Text) (now : Nat)
    (hop : ops[i]? = some (.script code now)) (s : Script)
    (hs : (run (cfgOf Gen.C17.scriptParseCache Gen.C17.scriptDiffCache) {} ops)[i]? = some (some s)) :
    s.tree = s.code :=
  (script_tree_is_code _ (by decide) {} Caches.wf_empty ops i code now hop s hs).1

example : ([.write 1 5, .script (some 2) 10, .script none 11] : List JediModel.ScriptParse.Op)[2]?
    = some (.script none 11) := rfl

open JediModel.ScriptParse in
/-- **first_analysis_faithful** (any policy): with empty caches the first analysis of a path is
always faithful - which is why a sweep that analyses every file once sees nothing -/
theorem first_analysis_faithful (cfg : Cfg) (code : Option Text) (file : Option File) (now : Nat) (s : Script)
    (hs : (scriptInit cfg code file now {}).1 = some s) : s.tree = s.code := by
  have hl : ∀ pt, loadModule {} pt = none := by
    intro pt; cases pt <;> rfl
  have hg : ∀ c d t pt, (grammarParse c d t pt now {}).1 = t := by
    intro c d t pt
    unfold grammarParse
    cases c <;> cases d <;> simp [hl]
  unfold scriptInit at hs
  split at hs
  · cases hs
  · simp only [Option.some.injEq] at hs
    subst hs; exact hg _ _ _ _
  · simp only [Option.some.injEq] at hs
    subst hs; exact hg _ _ _ _

/- FULL for an arbitrary policy is false: -/
open JediModel.ScriptParse in
/-- **from_disk_cache_counter_witness_buffer**: `cache=<code is None>`: the file holds text 1
(mtime 5); an editor analyses its unsaved buffer, text 2 (the diff-cache item is stored with the
FILE's mtime); then the file is analysed from disk: the Script keeps text 1 as `_code` and works on
the tree of text 2 -/
theorem from_disk_cache_counter_witness_buffer :
    run ⟨.fromDisk, true⟩ {} [.write 1 5, .script (some 2) 10, .script none 11]
      = [none, some ⟨2, 2⟩, some ⟨2, 1⟩] := by decide

open JediModel.ScriptParse in
/-- **from_disk_cache_counter_witness_backup**: analysed from disk (text 2, mtime 20), an older
backup is moved back (text 1, mtime 15 - `mv` keeps it), analysed from disk again: tree of text 2;
the same with an equal mtime, and through the pickle after a restart; a newer mtime is fine -/
theorem from_disk_cache_counter_witness_backup :
    run ⟨.fromDisk, true⟩ {} [.write 2 20, .script none 30, .write 1 15, .script none 31]
      = [none, some ⟨2, 2⟩, none, some ⟨2, 1⟩] ∧
    run ⟨.fromDisk, true⟩ {} [.write 2 20, .script none 30, .write 1 20, .script none 31]
      = [none, some ⟨2, 2⟩, none, some ⟨2, 1⟩] ∧
    run ⟨.fromDisk, false⟩ {} [.write 2 20, .script none 30, .restart, .write 1 25, .script none 31]
      = [none, some ⟨2, 2⟩, none, none, some ⟨2, 1⟩] ∧
    run ⟨.fromDisk, true⟩ {} [.write 2 20, .script none 30, .write 1 25, .script none 31]
      = [none, some ⟨2, 2⟩, none, some ⟨1, 1⟩] ∧
    run ⟨.never, true⟩ {} [.write 2 20, .script none 30, .write 1 15, .script none 31]
      = [none, some ⟨2, 2⟩, none, some ⟨1, 1⟩] := by decide

/-- the other constants the model of the parse call was written against -/
theorem script_parse_shape : Gen.C17.scriptDiffCache = true ∧
    Gen.C17.parsoMemValid = "p_time <= module_cache_item.change_time" ∧
    Gen.C17.parsoPickleOutdated = "p_time > os.path.getmtime(cache_path)" := by decide

/-! non-vacuity: a CRLF / form feed / unicode file -/
def demo : T := .node 0 "file_input" [
  .leaf 1 "name" "\x0c".toList "é".toList, .leaf 2 "operator" " ".toList "=".toList,
  .leaf 3 "number" " ".toList "1".toList, .leaf 4 "newline" [] "\r\n".toList,
  .leaf 5 "name" "\t".toList "xy".toList, .leaf 6 "newline" "  # c".toList "\r".toList,
  .leaf 7 "endmarker" [] []]
example : CRLFSafe demo := by decide
example : (positions demo).map (·.2) = [⟨1, 1⟩, ⟨1, 3⟩, ⟨1, 5⟩, ⟨1, 6⟩, ⟨2, 1⟩, ⟨2, 8⟩, ⟨3, 0⟩] := by decide

/-! ## "its definition start/end range encloses that location"

`get_definition_start_position` / `get_definition_end_position` over the leaf layout
(`Model/DefRange`), with the scope types, the newline type and the returned attribute read from the
source.  The definition node is ANY contiguous run of leaves that contains the name leaf (which run
parso's `get_definition()` picks is a parameter); the theorems hold for every text, every prefix
(comments, blank lines, continuation lines) and every position of the name in the run. -/
section DefRange
open JediModel.DefRange

/-- the two functions as found in the source -/
def defCfg : Cfg :=
  { scopeTypes := JediModel.Gen.C17.defRangeScopeTypes, newlineType := JediModel.Gen.C17.defRangeNewlineType,
    usesPreviousLeafEnd := JediModel.Gen.C17.defRangeUsesPreviousLeafEnd }

theorem def_range_source_shape :
    defCfg = { scopeTypes := ["function", "class"], newlineType := "newline", usesPreviousLeafEnd := true } ∧
      JediModel.Gen.C17.defRangeStartShape =
        ["tree_name is None -> None", "definition is None -> name.start_pos", "definition.start_pos"] := by
  decide

/-- **The definition range encloses the name** - for every laid-out run of leaves `d` (from any
position `p`, with any prefixes), every API type, every name leaf in it that is not a newline leaf:
both positions exist, `start ≤ name.start` and `name.end ≤ end`. -/
theorem def_range_encloses (p : Pos) (d : List LeafInfo) (apiType : String) (before : Option Span)
    (name : Span) (hmem : name ∈ spans p d) (hname : name.leaf.type ≠ defCfg.newlineType) :
    ∃ s e, defStart name (some (spans p d)) = some s ∧
      defEnd defCfg apiType name before (some (spans p d)) = some e ∧
      s ≤ name.start ∧ name.stop ≤ e := by
  have hord := spans_Ordered p d
  obtain ⟨hd, hhd⟩ : ∃ z, (spans p d).head? = some z := by
    cases h : spans p d with
    | nil => rw [h] at hmem; cases hmem
    | cons a as => exact ⟨a, rfl⟩
  obtain ⟨lst, hlst⟩ : ∃ z, (spans p d).getLast? = some z := by
    cases h : (spans p d).getLast? with
    | none => rw [List.getLast?_eq_none_iff] at h; rw [h] at hmem; cases hmem
    | some z => exact ⟨z, rfl⟩
  refine ⟨hd.start, ?_⟩
  have hs : defStart name (some (spans p d)) = some hd.start := by simp [defStart, hhd]
  have hstart := hord.head_le hmem hhd
  have hend := hord.le_last hmem hlst
  have hu : defCfg.usesPreviousLeafEnd = true := by decide
  unfold defEnd
  simp only [hlst]
  by_cases hsc : defCfg.scopeTypes.contains apiType = true
  · simp only [hsc, if_true]
    by_cases hnl : (lst.leaf.type == defCfg.newlineType) = true
    · simp only [hnl, if_true]
      -- the name is not the trailing newline leaf, so it lies in `dropLast`, whose last leaf is `prev`
      have hne : name.leaf.type ≠ lst.leaf.type := by
        intro e; apply hname; rw [e]; exact eq_of_beq hnl
      have hin := mem_dropLast_of_ne_last hmem hlst hne
      obtain ⟨q, hq⟩ : ∃ q, (spans p d).dropLast.getLast? = some q := by
        cases h : (spans p d).dropLast.getLast? with
        | none => rw [List.getLast?_eq_none_iff] at h; rw [h] at hin; cases hin
        | some z => exact ⟨z, rfl⟩
      refine ⟨q.stop, hs, by simp [hq, hu], hstart, hord.dropLast.le_last hin hq⟩
    · simp only [hnl]
      exact ⟨lst.stop, hs, rfl, hstart, hend⟩
  · simp only [hsc]
    exact ⟨lst.stop, hs, rfl, hstart, hend⟩

/-- without a definition (`get_definition()` is `None`) the range is the name itself -/
theorem def_range_without_definition (apiType : String) (before : Option Span) (name : Span) :
    defStart name none = some name.start ∧ defEnd defCfg apiType name before none = some name.stop :=
  ⟨rfl, rfl⟩

/-- `def f():` / `    return 1` + newline: the leaves of the funcdef, the name `f` at (1,4)-(1,5) -/
private def exLeaves : List LeafInfo :=
  [⟨1, "keyword", [], "def".toList⟩, ⟨2, "name", " ".toList, "f".toList⟩, ⟨3, "operator", [], "(".toList⟩,
   ⟨4, "operator", [], ")".toList⟩, ⟨5, "operator", [], ":".toList⟩, ⟨6, "newline", [], "\n".toList⟩,
   ⟨7, "keyword", "    ".toList, "return".toList⟩, ⟨8, "number", " ".toList, "1".toList⟩,
   ⟨9, "newline", [], "\n".toList⟩]

/-- non-vacuity and the trailing-newline rule: the end is the end of `1` on line 2, not (3, 0) -/
example : (defEnd defCfg "function" ⟨⟨2, "name", " ".toList, "f".toList⟩, ⟨1, 4⟩, ⟨1, 5⟩⟩ none
    (some (spans ⟨1, 0⟩ exLeaves))) = some ⟨2, 12⟩ ∧
    defStart ⟨⟨2, "name", " ".toList, "f".toList⟩, ⟨1, 4⟩, ⟨1, 5⟩⟩ (some (spans ⟨1, 0⟩ exLeaves)) = some ⟨1, 0⟩ := by
  decide

/-- witness: returning the START of the previous leaf (or of the newline) does not enclose a name that
IS that previous leaf - `class K: pass` would be fine, `def f(): g` + newline with the cursor name
`g` is not: the end (1, 9) lies before the end (1, 10) of `g`. -/
theorem def_range_start_pos_variant_witness :
    let ls : List LeafInfo := [⟨1, "keyword", [], "def".toList⟩, ⟨2, "name", " ".toList, "f".toList⟩,
      ⟨3, "operator", [], "(".toList⟩, ⟨4, "operator", [], ")".toList⟩, ⟨5, "operator", [], ":".toList⟩,
      ⟨6, "name", " ".toList, "g".toList⟩, ⟨7, "newline", [], "\n".toList⟩]
    let g : Span := ⟨⟨6, "name", " ".toList, "g".toList⟩, ⟨1, 9⟩, ⟨1, 10⟩⟩
    g.start = ((spans ⟨1, 0⟩ ls)[5]?.map (·.start)).getD ⟨0, 0⟩ ∧
    defEnd { defCfg with usesPreviousLeafEnd := false } "function" g none (some (spans ⟨1, 0⟩ ls)) = some ⟨1, 9⟩ ∧
    ¬ (g.stop ≤ (⟨1, 9⟩ : Pos)) := by
  decide

end DefRange

end JediModel.Props.C17

import JediModel.Lemmas.Scopes
import JediModel.Lemmas.ScopesChain
import JediModel.Model.CompCtx
import JediModel.Gen.C03
/-! # C03 — Name resolution follows Python's scoping rules

`goto` is jedi's algorithm, `varOf` Python's variable identity (owning scope of the
variable an occurrence denotes), both over the flat symbol-table model `Scopes.Prog`.
Property theorems only. -/
namespace JediModel.Props.C03
open JediModel.Scopes

/-- Every landing is an occurrence of the *same identifier*, and it is a binding
(assignment / parameter / def / class) or a `global` declaration — never a mere use. -/
theorem goto_same_name (p : Prog) (u : Nat) (o : Occ) (ho : p.occs[u]? = some o) (d : Nat)
    (h : d ∈ goto p u) :
    ∃ od, p.occs[d]? = some od ∧ od.name = o.name ∧
      (od.role.isDef = true ∨ od.role = .globalDecl) := by
  unfold goto at h
  rw [ho] at h
  simp only at h
  split at h
  · rename_i hdef
    simp only [List.mem_singleton] at h
    subst h
    exact ⟨o, ho, rfl, Or.inl hdef⟩
  · exact gotoFrom_landing p o.name _ _ _ d h

/-- **Straight-line clause.**  A use in a function, lambda or class body whose own scope binds
the name before it lands on exactly one occurrence — the *last* such binding — and that binding
writes the very variable Python reads at the use (this includes `global`/`nonlocal`-declared
names, whose local assignments count for the declared scope). -/
theorem goto_exact_local (p : Prog) (u : Nat) (o : Occ) (ho : p.occs[u]? = some o)
    (hr : o.role = .use)
    (hk : p.kind o.scope = .function ∨ p.kind o.scope = .lambda ∨ p.kind o.scope = .klass)
    (hne : defsIn p o.scope o.name (some o.stmt) ≠ []) :
    goto p u = lastOf (defsIn p o.scope o.name (some o.stmt)) ∧
    ∀ d ∈ goto p u, varOf p d = varOf p u := by
  have hg : goto p u = lastOf (defsIn p o.scope o.name (some o.stmt)) := by
    unfold goto
    rw [ho]
    simp only [hr, Role.isDef, Bool.false_eq_true, if_false]
    unfold gotoFrom gotoFromSel
    have hl := lastOf_ne_nil hne
    rcases hk with hk | hk | hk <;> rw [hk] <;> simp only <;> split <;> first | contradiction | rfl
  refine ⟨hg, ?_⟩
  intro d hd
  rw [hg] at hd
  have hmem := mem_lastOf hd
  obtain ⟨od, hod, hn, hs, hdef, -⟩ := (mem_defsIn p o.scope o.name (some o.stmt) d).mp hmem
  rw [varOf_of_def hod hdef, varOf_of_use ho hr, hn, hs]
  exact (ownerOfUse_eq_of_local_def hmem).symm

/-- the last element really is the last binding before the use: every other binding of the name
in that scope before the use precedes it -/
theorem lastOf_is_latest (p : Prog) (s x u d : Nat) (hd : d ∈ lastOf (defsIn p s x (some u))) :
    ∀ d' ∈ defsIn p s x (some u), d' ≤ d := by
  intro d' hd'
  unfold lastOf at hd
  split at hd
  · rename_i i hi
    simp only [List.mem_singleton] at hd
    subst hd
    obtain ⟨ys, hys⟩ := List.getLast?_eq_some_iff.mp hi
    -- `defsIn` is an increasing list of indices
    have hsorted : (defsIn p s x (some u)).Pairwise (· < ·) := by
      unfold defsIn Prog.indices
      have h1 : (p.occs.zipIdx.map (·.2)).Pairwise (· < ·) := by
        rw [List.zipIdx_map_snd]
        exact List.pairwise_lt_range'
      have h2 := h1.sublist ((List.filter_sublist (l := p.occs.zipIdx)
        (p := fun (x_1 : Occ × Nat) => (x_1.1.name == x && x_1.1.scope == s && x_1.1.role.isDef &&
          decide (x_1.2 < u)))).map (·.2))
      exact h2
    rw [hys] at hsorted hd'
    rcases List.mem_append.mp hd' with h | h
    · have := (List.pairwise_append.mp hsorted).2.2 d' h d (by simp)
      omega
    · simp only [List.mem_singleton] at h
      omega
  · simp at hd

/-- Module-level uses land only on module-level bindings (before the use) or on `global`
declarations of the name — all of them denote the module variable Python reads. -/
theorem goto_module_use (p : Prog) (hwf : WF p = true) (u : Nat) (o : Occ)
    (ho : p.occs[u]? = some o) (hr : o.role = .use) (hs : o.scope = 0) :
    ∀ d ∈ goto p u, varOf p d = varOf p u := by
  have hk0 : p.kind 0 = .module := by
    unfold WF at hwf
    unfold Prog.kind
    cases hsc : p.scopes with
    | nil => simp [hsc] at hwf
    | cons s0 rest =>
      simp only [hsc, Bool.and_eq_true, beq_iff_eq] at hwf
      simp [hwf.1.1]
  intro d hd
  have hu : varOf p u = 0 := by
    rw [varOf_of_use ho hr, hs]
    simp [ownerOfUse, hk0]
  rw [hu]
  unfold goto at hd
  rw [ho] at hd
  simp only [hr, Role.isDef, Bool.false_eq_true, if_false] at hd
  unfold gotoFrom gotoFromSel at hd
  rw [hs, hk0] at hd
  simp only at hd
  rcases List.mem_append.mp hd with h | h
  · obtain ⟨od, hod, hn, hsc, hdef, -⟩ := (mem_defsIn p 0 o.name (some o.stmt) d).mp (mem_lastOf h)
    rw [varOf_of_def hod hdef, hsc]
    simp [ownerOfBinding, hk0]
  · obtain ⟨od, hod, hn, hrole⟩ := (mem_globalDecls p o.name d).mp h
    unfold varOf
    rw [hod]
    simp [hrole]

/-! ## The general statement -/

/-- Hypothesis of `goto_same_var_partial` for the use at position `u` (decidable; evaluated by
the driver on every generated program so the evidence reports how many executed uses it covers).
It is `Covered` (see `Lemmas/ScopesChain.lean`) started the way jedi starts the walk. -/
def CoveredUse (p : Prog) (u : Nat) : Bool :=
  match p.occs[u]? with
  | none => true
  | some o =>
    match p.kind o.scope with
    | .module => true
    | .klass =>
      if (defsIn p o.scope o.name (some o.stmt)).isEmpty then
        Covered p o.name p.scopes.length (p.parent o.scope) (some o.stmt)
          (declaredGlobal p o.scope o.name ||
            (!declaredNonlocal p o.scope o.name && bindsIn p o.scope o.name))
      else true
    | _ => Covered p o.name (p.scopes.length + 1) o.scope (some o.stmt) false

/-- **Name resolution follows Python's scoping rules** (general form).
FULL statement (no `CoveredUse`) is false of the unchanged code — see the witnesses below.
For every well-formed program and every use satisfying `CoveredUse`, every landing of `goto`
is a binding of, or a `global` declaration for, exactly the variable `(owning scope, name)`
that Python's symbol-table rules assign to the use. -/
theorem goto_same_var_partial (p : Prog) (hwf : WF p = true) (u : Nat) (o : Occ)
    (ho : p.occs[u]? = some o) (hr : o.role = .use) (hc : CoveredUse p u = true) :
    ∀ d ∈ goto p u, varOf p d = varOf p u := by
  intro d hd
  have hsl : o.scope < p.scopes.length := by
    unfold WF at hwf
    simp only [Bool.and_eq_true] at hwf
    have := List.all_eq_true.mp hwf.2 o (List.mem_of_getElem? ho)
    simpa using this
  unfold CoveredUse at hc
  rw [ho] at hc
  simp only at hc
  have hgoto : goto p u = gotoFrom p o.name (p.scopes.length + 1) o.scope (some o.stmt) := by
    unfold goto; rw [ho]; simp [hr, Role.isDef]
  cases hk : p.kind o.scope with
  | module =>
    -- a scope of kind module inside the table is scope 0 or behaves exactly like it
    rw [varOf_of_use ho hr]
    rw [hgoto] at hd
    have h0 := wf_kind0 hwf
    have hu : ownerOfUse p o.scope o.name o.stmt = 0 := by simp [ownerOfUse, hk]
    rw [hu]
    unfold gotoFrom gotoFromSel at hd
    simp only [hk] at hd
    rcases List.mem_append.mp hd with h | h
    · obtain ⟨od, hod, hn, hsc, hdef, -⟩ := (mem_defsIn p 0 o.name _ d).mp (mem_lastOf h)
      rw [varOf_of_def hod hdef, hsc]
      simp [ownerOfBinding, h0]
    · obtain ⟨od, hod, hn, hrole⟩ := (mem_globalDecls p o.name d).mp h
      unfold varOf
      rw [hod]
      simp [hrole]
  | klass =>
    simp only [hk] at hc
    by_cases he : (defsIn p o.scope o.name (some o.stmt)).isEmpty = true
    · simp only [he, if_true] at hc
      have hkm : p.kind o.scope ≠ .module := by rw [hk]; decide
      have hpl := wf_parent_lt hwf o.scope hkm
      rw [hgoto] at hd
      unfold gotoFrom gotoFromSel at hd
      simp only [hk, lastOf_isEmpty.mpr he] at hd
      have := gotoFrom_sound hwf o.name p.scopes.length (p.parent o.scope) (some o.stmt) _
        (by omega) hc d hd
      rw [this, varOf_of_use ho hr]
      have hnb : boundBefore p o.scope o.name o.stmt = false := by
        unfold boundBefore
        have : defsIn p o.scope o.name (some o.stmt) = [] := by simpa using he
        simp [this]
      unfold ownerOfUse
      simp only [if_false, hk, if_true, hnb, Bool.false_eq_true]
      by_cases h1 : declaredGlobal p o.scope o.name = true
      · simp [h1]
      · simp only [h1, Bool.false_eq_true, if_false, Bool.false_or]
        by_cases h2 : declaredNonlocal p o.scope o.name = true
        · simp [h2]
        · by_cases h3 : bindsIn p o.scope o.name = true
          · simp [h2, h3]
          · simp [h2, h3]
    · have hne : defsIn p o.scope o.name (some o.stmt) ≠ [] := by
        intro h; apply he; simp [h]
      exact (goto_exact_local p u o ho hr (Or.inr (Or.inr hk)) hne).2 d hd
  | function | lambda | comp =>
    simp only [hk] at hc
    rw [hgoto] at hd
    have := gotoFrom_sound hwf o.name (p.scopes.length + 1) o.scope (some o.stmt) false
      (by omega) hc d hd
    rw [this, varOf_of_use ho hr]
    simp only [Bool.false_eq_true, if_false]
    conv => lhs; unfold resolveFree
    unfold ownerOfUse
    simp [hk]

/-! ## Counter-witnesses to the unrestricted statement
"for every executed use, every landing denotes the variable Python reads" is FALSE of the
unchanged code.  Each witness is a concrete program on which the model's `goto` lands on a
binding whose variable differs from the one the use reads; each is replayed on the real jedi by
`harness/props/c03.py` (stream `witness`) and listed in known_findings.json. -/

open Kind Role in
/-- `a = 0` / `class K:` / `    a = 0` / `    [a for b in [0]]`:
the comprehension's `a` is the module's (class scopes are invisible), jedi lands on `K.a` (F10) -/
def witnessCompInClass : Prog :=
  { scopes := [⟨module, 0⟩, ⟨klass, 0⟩, ⟨comp, 1⟩],
    occs := [⟨0, bind, 0, 0⟩, ⟨1, defName, 0, 1⟩, ⟨0, bind, 1, 2⟩, ⟨0, use, 2, 3⟩, ⟨2, bind, 2, 4⟩] }

theorem comp_in_class_body_witness :
    WF witnessCompInClass = true ∧ goto witnessCompInClass 3 = [2] ∧
    varOf witnessCompInClass 3 = 0 ∧ varOf witnessCompInClass 2 = 1 := by decide

open Kind Role in
/-- `a = 0` / `class K:` / `    a = 0` / `    class L:` / `        a`:
Python reads the module's `a`, jedi lands on `K.a` -/
def witnessNestedClass : Prog :=
  { scopes := [⟨module, 0⟩, ⟨klass, 0⟩, ⟨klass, 1⟩],
    occs := [⟨0, bind, 0, 0⟩, ⟨1, defName, 0, 1⟩, ⟨0, bind, 1, 2⟩, ⟨2, defName, 1, 3⟩, ⟨0, use, 2, 4⟩] }

theorem nested_class_witness :
    WF witnessNestedClass = true ∧ goto witnessNestedClass 4 = [2] ∧
    varOf witnessNestedClass 4 = 0 ∧ varOf witnessNestedClass 2 = 1 := by decide

open Kind Role in
/-- `a = 0` / `class K:` / `    a = 0` / `    class L:` / `        [a for b in [0]]`: both of the
above combined -/
def witnessCompInNestedClass : Prog :=
  { scopes := [⟨module, 0⟩, ⟨klass, 0⟩, ⟨klass, 1⟩, ⟨comp, 2⟩],
    occs := [⟨0, bind, 0, 0⟩, ⟨1, defName, 0, 1⟩, ⟨0, bind, 1, 2⟩, ⟨2, defName, 1, 3⟩,
             ⟨0, use, 3, 4⟩, ⟨3, bind, 3, 5⟩] }

theorem comp_in_nested_class_witness :
    WF witnessCompInNestedClass = true ∧ goto witnessCompInNestedClass 4 = [2] ∧
    varOf witnessCompInNestedClass 4 = 0 ∧ varOf witnessCompInNestedClass 2 = 1 ∧
    CoveredUse witnessCompInNestedClass 4 = false := by decide

open Kind Role in
/-- `a = 0` / `def f():` / `    a = 0` / `    class K:` / `        a` / `        a = 0` / `f()`:
`a` is assigned in the class body, so the use is a `LOAD_NAME` that skips `f`'s local and reads
the module's `a`; jedi lands on `f`'s local -/
def witnessClassLoadName : Prog :=
  { scopes := [⟨module, 0⟩, ⟨function, 0⟩, ⟨klass, 1⟩],
    occs := [⟨0, bind, 0, 0⟩, ⟨1, defName, 0, 1⟩, ⟨0, bind, 1, 2⟩, ⟨2, defName, 1, 3⟩, ⟨0, use, 2, 4⟩, ⟨0, bind, 2, 5⟩, ⟨1, use, 0, 6⟩] }

theorem class_load_name_witness :
    WF witnessClassLoadName = true ∧ goto witnessClassLoadName 4 = [2] ∧
    varOf witnessClassLoadName 4 = 0 ∧ varOf witnessClassLoadName 2 = 1 := by decide

open Kind Role in
/-- `a = 0` / `def f():` / `    a = 0` / `    def g():` / `        global a` / `        a` / `    g()` / `f()`:
the use reads the module's `a`; jedi finds nothing in `g`, climbs to `f` and lands on `f`'s local -/
def witnessGlobalShadow : Prog :=
  { scopes := [⟨module, 0⟩, ⟨function, 0⟩, ⟨function, 1⟩],
    occs := [⟨0, bind, 0, 0⟩, ⟨1, defName, 0, 1⟩, ⟨0, bind, 1, 2⟩, ⟨2, defName, 1, 3⟩, ⟨0, globalDecl, 2, 4⟩, ⟨0, use, 2, 5⟩, ⟨2, use, 1, 6⟩, ⟨1, use, 0, 7⟩] }

theorem global_shadow_witness :
    WF witnessGlobalShadow = true ∧ goto witnessGlobalShadow 5 = [2] ∧
    varOf witnessGlobalShadow 5 = 0 ∧ varOf witnessGlobalShadow 2 = 1 := by decide

open Kind Role in
/-- `a = 0` / `class K:` / `    a = 0` / `    g = lambda b=a: b`: the default value is evaluated in the
class body and reads `K.a`; jedi looks it up from the lambda's own context (limited to the lambda's
start, so the lambda itself offers nothing), whose parent context skips the class: it lands on the
module's `a` -/
def witnessLambdaDefaultInClass : Prog :=
  { scopes := [⟨module, 0⟩, ⟨klass, 0⟩, ⟨lambda, 1⟩],
    occs := [⟨0, bind, 0, 0⟩, ⟨1, defName, 0, 1⟩, ⟨0, bind, 1, 2⟩, ⟨2, bind, 1, 3⟩,
             ⟨3, param, 2, 4⟩, ⟨0, dfltUse, 2, 4⟩, ⟨3, use, 2, 6⟩] }

theorem lambda_default_in_class_witness :
    WF witnessLambdaDefaultInClass = true ∧ goto witnessLambdaDefaultInClass 5 = [0] ∧
    varOf witnessLambdaDefaultInClass 5 = 1 ∧ varOf witnessLambdaDefaultInClass 0 = 0 := by decide

open Kind Role in
/-- outside a class body the same lookup is right about the VARIABLE although it may land on a later
assignment (no position limit once the lambda's own context is left):
`a = 0` / `g = lambda b=a: b` / `a = 0` lands on the last line -/
theorem lambda_default_sees_later_binding :
    let p : Prog := { scopes := [⟨module, 0⟩, ⟨lambda, 0⟩],
                      occs := [⟨0, bind, 0, 0⟩, ⟨2, bind, 0, 1⟩, ⟨3, param, 1, 2⟩, ⟨0, dfltUse, 1, 2⟩,
                               ⟨3, use, 1, 4⟩, ⟨0, bind, 0, 5⟩] }
    WF p = true ∧ goto p 3 = [5] ∧ varOf p 3 = varOf p 5 := by decide

/-- the four witness programs above are exactly outside the hypothesis -/
theorem witnesses_not_covered :
    CoveredUse witnessCompInClass 3 = false ∧ CoveredUse witnessNestedClass 4 = false ∧
    CoveredUse witnessClassLoadName 4 = false ∧ CoveredUse witnessGlobalShadow 5 = false := by
  decide

/-! ## Which context a node of a comprehension is looked up from

`Model/CompCtx.lean` transcribes the comprehension branch of `create_context`; the operator and
the return values come from the source (`Gen/C03.lean`).  Python evaluates the OUTERMOST iterable
of a comprehension in the enclosing scope - every leaf of it, the first one included
(`[x for x in x]`: the iterable `x` is the enclosing scope's) - and everything else inside the
comprehension's own scope. The flat table of `Model/Scopes` encodes the iterable as a use in the
enclosing scope on the strength of these theorems (and of the `compctx` correspondence stream). -/
section CompCtx
open JediModel.CompCtx

/-- the branch with the operator / return values of the real source -/
def srcNodeContext (c : CompFor) (node : Pos) : Option Ctx :=
  nodeContext JediModel.Gen.C03.compIterCmp JediModel.Gen.C03.compIterThen
    JediModel.Gen.C03.compIterElse c node

/-- the compared operands are the ones the model transcribes, and the branch is the one for both
comprehension node types -/
theorem comp_ctx_operands :
    JediModel.Gen.C03.compIterLeft = "node.start_pos" ∧
    JediModel.Gen.C03.compIterRight = "scope_node.children[-1].start_pos" ∧
    JediModel.Gen.C03.compForTypes = ["comp_for", "sync_comp_for"] := by decide

theorem pos_lt_iff_not_le (a b : Pos) : Pos.lt a b = !Pos.le b a := by
  unfold Pos.le Pos.lt
  rcases a with ⟨a1, a2⟩
  rcases b with ⟨b1, b2⟩
  simp only
  by_cases h1 : a1 < b1
  · have : ¬ b1 < a1 := by omega
    have h3 : (b1 == a1) = false := by simp; omega
    simp [h1, this, h3]
  · by_cases h2 : b1 < a1
    · have h3 : (a1 == b1) = false := by simp; omega
      simp [h1, h2, h3]
    · have h3 : a1 = b1 := by omega
      subst h3
      by_cases h4 : a2 < b2
      · have : ¬ b2 < a2 := by omega
        have h5 : (b2 == a2) = false := by simp; omega
        simp [h4, this, h5]
      · by_cases h5 : b2 < a2
        · simp [h4, h5]
        · have : a2 = b2 := by omega
          subst this
          simp

/-- **Characterisation of the real branch**: a node gets the enclosing context exactly when it
starts at or after the start of the comprehension's last child; otherwise the comprehension's own
context.  Total: never an unknown outcome. -/
theorem comp_ctx_parent_iff (c : CompFor) (node : Pos) :
    (srcNodeContext c node = some .parent ↔ Pos.le c.lastStart node = true) ∧
    (srcNodeContext c node = some .comp ↔ Pos.le c.lastStart node = false) := by
  unfold srcNodeContext nodeContext
  simp only [JediModel.Gen.C03.compIterCmp, JediModel.Gen.C03.compIterThen,
    JediModel.Gen.C03.compIterElse, cmp]
  cases h : Pos.le c.lastStart node <;> simp [ctxOfTag]

/-- **The outermost iterable belongs to the enclosing scope** - every leaf of it, the FIRST one
included.  Partial: only for a comprehension without a further `for`/`if` clause (then
`children[-1]` is the iterable); see `comp_with_condition_witness`. -/
theorem comp_iterable_in_enclosing_context_partial (c : CompFor) (hlast : c.lastStart = c.iterStart)
    (node : Pos) (h : Pos.le c.iterStart node = true) :
    srcNodeContext c node = some .parent := by
  rw [(comp_ctx_parent_iff c node).1, hlast]
  exact h

theorem pos_le_refl (a : Pos) : Pos.le a a = true := by
  unfold Pos.le
  simp

/-- the first leaf of the iterable (it starts where the iterable starts) -/
theorem comp_iterable_first_leaf_partial (c : CompFor) (hlast : c.lastStart = c.iterStart) :
    srcNodeContext c c.iterStart = some .parent :=
  comp_iterable_in_enclosing_context_partial c hlast c.iterStart (pos_le_refl _)

/-- element expression and loop targets (everything that starts before the last child) belong to
the comprehension's own scope -/
theorem comp_head_in_comp_context (c : CompFor) (node : Pos) (h : Pos.lt node c.lastStart = true) :
    srcNodeContext c node = some .comp := by
  rw [(comp_ctx_parent_iff c node).2]
  rw [pos_lt_iff_not_le] at h
  simpa using h

/-- counter-witness to the unrestricted statement, `[a for a in a if a]` on line 3: with an `if`
clause the iterable `a` (3, 12) is given the comprehension's context (jedi lands on the loop
target; Python reads the enclosing scope's `a`) and the condition `a` (3, 17) the enclosing one
(Python reads the loop target).  Replayed on the real code: known findings
C03-comprehension-condition-*. -/
theorem comp_with_condition_witness :
    let c : CompFor := { iterStart := (3, 12), iterEnd := (3, 13), lastStart := (3, 14) }
    srcNodeContext c (3, 12) = some .comp ∧ srcNodeContext c (3, 17) = some .parent := by decide

/-- non-vacuity: `[a for a in a]` on line 1, first leaf of the iterable at (1, 12) -/
example : let c : CompFor := { iterStart := (1, 12), iterEnd := (1, 13), lastStart := (1, 12) }
    c.lastStart = c.iterStart ∧ srcNodeContext c (1, 12) = some .parent ∧
    srcNodeContext c (1, 1) = some .comp ∧ srcNodeContext c (1, 7) = some .comp := by decide

end CompCtx

/-! ## non-vacuity -/

open Kind Role in
/-- `def f(a):` / `    a = 0` / `    a` — hypotheses of `goto_exact_local` hold, landing = the assignment -/
example : let p : Prog := { scopes := [⟨module, 0⟩, ⟨function, 0⟩],
                            occs := [⟨1, defName, 0, 0⟩, ⟨0, param, 1, 1⟩, ⟨0, bind, 1, 2⟩, ⟨0, use, 1, 3⟩] }
    WF p = true ∧ defsIn p 1 0 (some 3) ≠ [] ∧ goto p 3 = [2] ∧ CoveredUse p 3 = true := by decide

open Kind Role in
/-- `a = 0` / `def f():` / `    def g():` / `        a` — a free variable two functions up is covered -/
example : let p : Prog := { scopes := [⟨module, 0⟩, ⟨function, 0⟩, ⟨function, 1⟩],
                            occs := [⟨0, bind, 0, 0⟩, ⟨1, defName, 0, 1⟩, ⟨2, defName, 1, 2⟩, ⟨0, use, 2, 3⟩] }
    WF p = true ∧ CoveredUse p 3 = true ∧ goto p 3 = [0] := by decide

end JediModel.Props.C03

import JediModel.Gen.C14
import JediModel.Lemmas.Helper
import JediModel.Lemmas.HelperStates
/-! # C14 — a crash of the helper process is contained and recovered from

Property theorems only.  The channel (which fault hits which request) is the universally
quantified `plan`; operation traces are arbitrary lists.  The `except` clauses are the ones the
translator reads from `CompiledSubprocess._send` / `Environment._get_subprocess`. -/
namespace JediModel.Props.C14
open JediModel.Helper

/-- the except clauses found in the source -/
def srcCfg : Cfg :=
  { dumpCatch := JediModel.Gen.C14.sendDumpCatch
    loadCatch := JediModel.Gen.C14.sendLoadCatch
    envCatch := JediModel.Gen.C14.envCatch
    closeStreams := JediModel.Gen.C14.cleanupCloseStreams.filterMap Stream.ofName?
    closePerStream := JediModel.Gen.C14.cleanupClosePerStream
    closeCatch := JediModel.Gen.C14.cleanupCloseCatch
    usedSetBeforeRun := JediModel.Gen.C14.usedSetBeforeRun
    listenCatch := JediModel.Gen.C14.listenRunCatch }

/-- the close loop of `_cleanup_process` as read from the source has the try/except INSIDE the loop,
lists all three pipe objects and its clause names a base of `BrokenPipeError`.  (This is the
statement that stops building when the try/except is hoisted out of the loop, a stream is dropped
from the list or the clause is narrowed.) -/
theorem src_good_close : GoodClose srcCfg :=
  ⟨by decide, by intro s; cases s <;> decide, by unfold CloseContained; decide⟩

/-- the pipes `_get_process` opens are the three the model's `Proc.start` opens -/
theorem popen_pipes_modelled :
    JediModel.Gen.C14.popenPipes.filterMap Stream.ofName? = Stream.all := by decide

/-- every truncated reply in the plan makes the Unpickler raise a class that `_send` catches.
With the clause of the unchanged source (`except EOFError`) this excludes replies cut inside an
opcode (`UnpicklingError`): the hypothesis of the `_partial` theorems. -/
def TruncCaught (cfg : Cfg) (plan : Plan) : Prop :=
  ∀ h k cls, plan h k = .trunc cls → caught cls cfg.loadCatch = true

theorem src_plan_contained (plan : Plan) (h : TruncCaught srcCfg plan) : PlanContained srcCfg plan := by
  intro a k
  cases hf : plan a k with
  | trunc cls => exact h a k cls hf
  | beforeSend => decide
  | afterSend => decide
  | raisesFatal => decide
  | none => rfl
  | raises cls => rfl

/-- FULL (false for the unchanged source, see `truncated_reply_two_failures`): the statement below
without `TruncCaught`, i.e. for every plan.

One `_send` on a helper whose earlier death (if any) has been noticed: it raises `InternalError`
exactly when the helper is marked crashed afterwards; a helper that was not crashed becomes crashed
exactly when a death fault (before send / after send / truncated reply / fatal exception in the
helper) hits this request; a crashed helper is not touched.  Bookkeeping and "dead ⇒ known dead"
are preserved, so the statement applies again to the next request: by induction any number of
consecutive crashes each cost exactly the in-flight request. -/
theorem crash_one_failure_partial (plan : Plan) (hp : TruncCaught srcCfg plan) (p : Proc) (r : Req)
    (hf : p.Fin) (hs : p.Sound) : SendSpec srcCfg plan p (send srcCfg plan p r) :=
  send_spec srcCfg plan p r hf hs (src_plan_contained plan hp _ _) src_good_close.catches

/-- non-vacuity: a plan with a death at request 3 of every helper start (a reply cut at an opcode
boundary, which raises `EOFError`) satisfies the hypothesis -/
example : TruncCaught srcCfg (fun _ k => if k = 3 then .trunc "EOFError" else .none) := by
  intro h k cls hc
  dsimp only at hc
  split at hc
  · cases hc; decide
  · cases hc

/-- the same for a whole `CompiledSubprocess.run` (flush of the deletion queue, then the request):
`InternalError` iff the helper is marked crashed afterwards, crashed helpers stay crashed, and a
successful `run` leaves the deletion queue empty (every queued id was deleted before the request
was served) -/
theorem run_crash_contained_partial (plan : Plan) (hp : TruncCaught srcCfg plan) (p : Proc) (s : Nat)
    (hf : p.Fin) (hs : p.Sound) : RunSpec p (run srcCfg plan p s) :=
  run_spec srcCfg plan (src_plan_contained plan hp) src_good_close.catches p s hf hs

/-- The full statement holds as soon as the except clause around `pickle_load` also names the
class a cut inside an opcode raises (the proposed fix): then *every* plan whose truncated replies
raise `EOFError` or `UnpicklingError` (CPython raises nothing else on a prefix) is contained. -/
theorem crash_one_failure_if_unpickling_caught (cfg : Cfg)
    (h1 : caught "BrokenPipeError" cfg.dumpCatch = true)
    (h2 : caught "EOFError" cfg.loadCatch = true)
    (h3 : caught "UnpicklingError" cfg.loadCatch = true)
    (h4 : caught "BrokenPipeError" cfg.closeCatch = true)
    (plan : Plan)
    (hcls : ∀ h k cls, plan h k = .trunc cls → cls = "EOFError" ∨ cls = "UnpicklingError")
    (p : Proc) (r : Req) (hf : p.Fin) (hs : p.Sound) :
    SendSpec cfg plan p (send cfg plan p r) := by
  apply send_spec cfg plan p r hf hs ?_ h4
  cases hfa : plan p.idx p.nreq with
  | trunc cls =>
    rcases hcls _ _ _ hfa with rfl | rfl
    · exact h2
    · exact h3
  | beforeSend => exact h1
  | afterSend => exact h2
  | raisesFatal => exact h2
  | none => rfl
  | raises cls => rfl

/-- the clauses of the unchanged source, as literals (so that this witness keeps building after the
source is repaired) -/
def unfixedCfg : Cfg :=
  { dumpCatch := ["BrokenPipeError"], loadCatch := ["EOFError"], envCatch := ["Exception"] }

/-- Counter-witness to the FULL statement (F13): the helper serves request 2 of the first helper,
writes a cut reply and dies.  `_send` lets `UnpicklingError` escape, the helper is *not* marked
crashed, the dropped state is even queued for deletion on the dead helper, and the next Script's
first request fails too (`BrokenPipeError` → `InternalError`): two failing operations, the first of
the wrong class, for one death. -/
theorem truncated_reply_two_failures :
    (exec unfixedCfg (planOf [(0, 2, .trunc "UnpicklingError")]) {}
      [.newState 1, .sysPath, .call 1, .drop 1, .newState 2, .call 2, .drop 2, .newState 3, .call 3]).2
    = [.ok, .ok, .raised "UnpicklingError", .ok, .ok, .raised "InternalError", .ok, .ok, .ok] := by
  decide

/-- `_cleanup_process` (kill, wait, join, close) runs at most once per helper and exactly once for
every helper that was started and is crashed - for every plan and every trace, also when an
exception escaped `_send` -/
theorem cleanup_once (cfg : Cfg) (plan : Plan) (ops : List Op) :
    ∀ p ∈ (exec cfg plan {} ops).1.procs,
      p.cleanups ≤ 1 ∧ (p.crashed = true → p.cleanups = 1 ∧ p.reaped = true ∧ p.alive = false) := by
  intro p hp
  have hf : p.Fin := exec_allFin cfg plan ops {} (by intro x hx; cases hx) p hp
  obtain ⟨h1, h2, h3, h4, h5⟩ := hf
  constructor
  · split at h1 <;> split at h1 <;> omega
  · intro hc
    obtain ⟨hs, ha⟩ := h4 hc
    simp [hs, ha] at h1
    exact ⟨h1, h3 hs ha⟩

/-- once the environment is dropped every helper that was ever started has been killed, waited for,
joined and closed exactly once (no zombie, no pipe left) - for every plan and trace -/
theorem cleanup_once_after_drop (cfg : Cfg) (plan : Plan) (ops : List Op) :
    ∀ p ∈ (exec cfg plan {} (ops ++ [.dropEnv])).1.procs,
      p.started = true → p.cleanups = 1 ∧ p.reaped = true ∧ p.alive = false := by
  have key : ∀ (ops : List Op) (e : Env), e.AllFin →
      ∀ p ∈ (exec cfg plan e (ops ++ [.dropEnv])).1.procs, p.armed = false ∧ p.Fin := by
    intro ops
    induction ops with
    | nil =>
      intro e he p hp
      simp only [List.nil_append, exec, step, List.mem_map] at hp
      obtain ⟨q, hq, rfl⟩ := hp
      refine ⟨?_, ((he q hq).cleanup cfg).withFds []⟩
      unfold Proc.cleanup Proc.cleanupX; split <;> simp_all
    | cons op ops ih =>
      intro e he p hp
      simp only [List.cons_append, exec] at hp
      exact ih _ (step_allFin cfg plan e op he) p hp
  intro p hp hs
  obtain ⟨ha, h1, h2, h3, h4, h5⟩ := key ops {} (by intro x hx; cases hx) p hp
  simp [hs, ha] at h1
  exact ⟨h1, h3 hs ha⟩

/-- a crashed helper is never written to again, and dropping a Script whose helper has crashed
queues nothing -/
theorem no_delete_after_crash (cfg : Cfg) (plan : Plan) (p : Proc) (r : Req) (h : p.crashed = true) :
    send cfg plan p r = (p, .raised "InternalError") :=
  send_crashed cfg plan p r h

/-! ### "no leaked pipes" -/

/-- `_cleanup_process` closes all three pipes **for every subset of the streams whose `close()`
raises an `OSError`** (of whatever subclass): with the loop as read from the source, whatever the
parent still holds before, it holds no descriptor afterwards and no exception escapes. -/
theorem cleanup_closes_all_streams (raises : CloseRaises)
    (hos : ∀ s cls, raises s = some cls → "OSError" ∈ mro cls) (fds : List Stream) :
    closeLoop srcCfg raises fds = ([], none) := by
  apply closeLoop_good srcCfg src_good_close
  intro s cls h
  exact caught_of_mem (hos s cls h) (by decide)

/-- non-vacuity: `stdin.close()` raising `BrokenPipeError` (the unflushed request of a "before
send" death) and `stderr.close()` raising a plain `OSError` satisfy the hypothesis -/
example : ∀ (s : Stream) (cls : String), (match s with
      | .stdin => some "BrokenPipeError" | .stdout => none | .stderr => some "OSError") = some cls →
    "OSError" ∈ mro cls := by
  intro s cls h
  cases s <;> simp at h <;> subst h <;> decide

/-- the finalizer of one helper, whatever its state: if it was still armed, the helper holds no
descriptor afterwards - also when its `stdin` (or any other stream) is broken -/
theorem finalizer_releases_pipes (p : Proc) (ha : p.armed = true) : (p.cleanup srcCfg).fds = [] :=
  cleanup_fds srcCfg src_good_close p ha

/-- **Dead helpers hold no pipes**, for every plan and every trace of operations, at every moment
(not only after everything was dropped): a `CompiledSubprocess` that is marked crashed, or whose
finalizer has run, or that was never started, has no open descriptor in the parent. -/
theorem no_leaked_pipes (plan : Plan) (ops : List Op) :
    ∀ p ∈ (exec srcCfg plan {} ops).1.procs,
      (p.crashed = true ∨ p.cleanups = 1 ∨ p.started = false) → p.fds = [] := by
  intro p hp hcase
  have hn : p.NoLeak := exec_allNoLeak srcCfg src_good_close plan ops {} (by intro x hx; cases hx) p hp
  have hf : p.Fin := exec_allFin srcCfg plan ops {} (by intro x hx; cases hx) p hp
  obtain ⟨h1, _, _, h4, _⟩ := hf
  apply hn
  rcases hcase with hc | hc | hc
  · exact (h4 hc).2
  · cases ha : p.armed
    · rfl
    · cases hs : p.started <;> simp [hc, ha, hs] at h1
  · cases ha : p.armed
    · rfl
    · rw [hc, ha] at h1; simp at h1

/-- the shape with ONE try/except around the whole loop (literal, independent of the source) -/
def hoistedCfg : Cfg :=
  { dumpCatch := ["BrokenPipeError"], loadCatch := ["EOFError", "pickle.UnpicklingError"],
    envCatch := ["Exception"], closePerStream := false }

/-- Counter-witness for the hoisted shape: `stdin.close()` raises, the exception is swallowed, and
`stdout` / `stderr` stay open. -/
theorem hoisted_try_leaks_two_pipes :
    closeLoop hoistedCfg (fun s => if s = .stdin then some "BrokenPipeError" else none) Stream.all
      = ([.stdout, .stderr], none) := by decide

/-- ... and on a trace: the helper is dead before request 2 is written (`BrokenPipeError` in
`pickle_dump`, the request stays buffered); the query fails with `InternalError`, the helper is
reaped, the next Script works - and the crashed helper still holds two descriptors. -/
theorem hoisted_try_leaks_on_trace :
    ((exec hoistedCfg (planOf [(0, 2, .beforeSend)]) {}
      [.newState 1, .sysPath, .call 1, .drop 1, .newState 2, .call 2]).1.procs.map
        fun p => (p.crashed, p.reaped, p.fds.length)) = [(false, false, 3), (true, true, 2)] := by
  decide

/-- the same trace with the loop of the source: nothing is left -/
theorem src_trace_no_leak :
    ((exec srcCfg (planOf [(0, 2, .beforeSend)]) {}
      [.newState 1, .sysPath, .call 1, .drop 1, .newState 2, .call 2]).1.procs.map
        fun p => (p.crashed, p.reaped, p.fds.length)) = [(false, false, 3), (true, true, 0)] := by
  decide

/-! ### "helper-side state of discarded Scripts is released" -/

/-- `self._used = True` stands before `run(...)` in the source.  (The statement that stops building
when the mark is moved behind the call: then a request that comes back as an exception leaves
`_used` unset although the helper has created the state.) -/
theorem src_used_set_before_run : srcCfg.usedSetBeforeRun = true := by decide

/-- **Every state the helper holds is queued for deletion or belongs to a live Script** that is
bound to this helper and marked `_used` - after every trace of operations, for every plan, i.e.
whatever the outcomes of the requests were (served, raised inside the surviving helper, helper
died at any phase). -/
theorem states_owned_or_queued (plan : Plan) (ops : List Op) :
    ∀ k p, (exec srcCfg plan {} ops).1.getProc k = some p →
      ∀ x ∈ p.child, x ∈ p.queue ∨ Owned (exec srcCfg plan {} ops).1.iss k x := by
  intro k p hp x hx
  have hk := exec_allKept srcCfg src_used_set_before_run plan ops {}
    (by intro y hy; cases hy) (by intro k y hy; cases hy) k p hp
  have := hk.own x hx
  rwa [getProc_idx hp] at this

/-- **Discarded states are released**: take any history (any plan, any trace - in particular
Scripts whose every request made the helper raise, dropped while other Scripts were alive), and let
one further request of a Script `t` be served by its helper without an exception.  Then every
state this helper holds belongs to a live, used Script bound to it: nothing is left of a dropped
Script. -/
theorem discarded_states_released (plan : Plan) (ops : List Op) (t : Nat) (i : ISS)
    (hi : (exec srcCfg plan {} ops).1.iss.find? (fun j => j.s = t) = some i)
    (hok : (step srcCfg plan (exec srcCfg plan {} ops).1 (.call t)).2 = .ok) :
    ∀ p, (step srcCfg plan (exec srcCfg plan {} ops).1 (.call t)).1.getProc i.proc = some p →
      ∀ x ∈ p.child, Owned (step srcCfg plan (exec srcCfg plan {} ops).1 (.call t)).1.iss i.proc x := by
  intro p hp x hx
  have hf := exec_allFin srcCfg plan ops {} (by intro y hy; cases hy)
  have hk := exec_allKept srcCfg src_used_set_before_run plan ops {}
    (by intro y hy; cases hy) (by intro k y hy; cases hy)
  have hk' := step_allKept srcCfg src_used_set_before_run plan _ (.call t) hf hk i.proc p hp
  have hq : p.queue = [] := by
    simp only [step, hi, src_used_set_before_run, if_true] at hok hp
    exact callRun_ok_flushed srcCfg plan _ i.proc t hok p hp
  rcases hk'.own x hx with h | h
  · rw [hq] at h; cases h
  · rwa [getProc_idx hp] at h

/-! ### the deletion queue belongs to ONE helper object

`Proc.queue` is a field of the helper: the model assumes that every `CompiledSubprocess` owns its
deque.  The translator checks exactly that (`self._inference_state_deletion_queue =
collections.deque()` in `__init__`, no class attribute, no module global). -/

/-- the deque is created per helper object in the source -/
theorem src_queue_per_helper : JediModel.Gen.C14.queuePerHelper = true := by decide

/-- **A replacement helper starts with nothing to delete**: whatever the history (any environment
state, any plan), the `CompiledSubprocess` that `Environment._get_subprocess` creates has an empty
deletion queue after its handshake - ids queued for a crashed predecessor never reach it. -/
theorem replacement_helper_queue_empty (plan : Plan) (e : Env) (p : Proc)
    (h : (getSub.fresh srcCfg plan e).1.procs.head? = some p) : p.queue = [] := by
  unfold getSub.fresh at h
  have hq := (send_idx_queue srcCfg plan { idx := e.procs.length } .info).2
  revert h
  rcases hres : send srcCfg plan { idx := e.procs.length } .info with ⟨np, o⟩
  rw [hres] at hq
  simp only at hq
  cases o <;> simp only <;> (try split) <;> intro h <;> simp at h <;> (subst h; exact hq)

/-- ... and so the first request of a Script bound to a fresh helper is never answered with the
`KeyError` of a deletion the helper knows nothing about: the flush loop of `run` has nothing to send. -/
theorem fresh_helper_first_run_sends_no_delete (plan : Plan) (p : Proc) (s : Nat) (hq : p.queue = []) :
    run srcCfg plan p s = send srcCfg plan { p with queue := [] } (.call s) := by
  unfold run
  rw [hq]
  simp [drain]

/-- witness (what ONE deque shared by all helper objects does): the replacement helper finds the ids
queued for its crashed predecessor, asks its own process to delete a state that process never had,
and the Script's request fails with the helper's `KeyError` - a second failing query for one crash,
and not an `InternalError`. -/
theorem shared_queue_replacement_fails_with_keyerror :
    (run srcCfg (planOf []) { idx := 1, queue := [7, 8] } 3).2 = .remote "KeyError" := by decide

/-- the wrapper with `self._used = True` moved behind `run(...)` (literal, independent of the source) -/
def usedLateCfg : Cfg :=
  { dumpCatch := ["BrokenPipeError"], loadCatch := ["EOFError", "pickle.UnpicklingError"],
    envCatch := ["Exception"], usedSetBeforeRun := false }

/-- Counter-witness for the moved mark: Scripts 1 and 2 are alive, the only request of Script 1
makes the helper raise `ValueError` (the helper survives and has created state 1), Script 1 is
dropped, Script 2 is served: the helper still holds state 1, nothing is queued, Script 1 is gone. -/
theorem used_after_run_leaks_state :
    let e := (exec usedLateCfg (planOf [(0, 2, .raises "ValueError")]) {}
      [.newState 1, .sysPath, .newState 2, .call 1, .drop 1, .call 2]).1
    (e.procs.map fun p => (p.child, p.queue)) = [([2, 1], [])] ∧ e.iss.map (·.s) = [2] := by
  decide

/-- the same history with the wrapper of the source: state 1 is deleted before Script 2 is served -/
theorem src_releases_state_after_raise :
    let e := (exec srcCfg (planOf [(0, 2, .raises "ValueError")]) {}
      [.newState 1, .sysPath, .newState 2, .call 1, .drop 1, .call 2]).1
    (e.procs.map fun p => (p.child, p.queue)) = [([2], [])] ∧ e.iss.map (·.s) = [2] := by
  decide

/-- The `id()`-reuse consequence: after the leak a new Script is allocated at the address of the
dropped one.  With the moved mark its first request finds the STALE helper-side state (the helper
creates one state for two Scripts); with the source's wrapper the old state is deleted first and
a fresh one is created. -/
theorem used_after_run_reuses_stale_state :
    ((exec usedLateCfg (planOf [(0, 2, .raises "ValueError")]) {}
      [.newState 1, .sysPath, .call 1, .drop 1, .newState 1, .call 1]).1.procs.map (·.created)) = [1]
    ∧ ((exec srcCfg (planOf [(0, 2, .raises "ValueError")]) {}
      [.newState 1, .sysPath, .call 1, .drop 1, .newState 1, .call 1]).1.procs.map (·.created)) = [2] := by
  decide



/-! ### "the helper raises": which exceptions raised while a request is served end the helper

`Listener.listen` wraps `self._run(*payload)` in one `try`; what its except clause (read from the
source: `Gen.C14.listenRunCatch`) catches is sent back as an exception reply and re-raised by
`_send` in the user's process, everything else leaves the request loop and ends the helper. -/

/-- Tie to the source: the except clause of `Listener.listen` catches no class that is not an
`Exception` (CPython's hierarchy: `SystemExit`, `KeyboardInterrupt`, `GeneratorExit`,
`asyncio.CancelledError`, direct subclasses of `BaseException`).  Stops building as soon as the
clause names `SystemExit`, `KeyboardInterrupt`, `BaseException`, ... or becomes a bare `except:`. -/
theorem listen_catches_only_exceptions (cls : String) (h : isException cls = false) :
    caught cls srcCfg.listenCatch = false := by
  -- `isException cls` unfolds to `caught cls ["Exception"]`: the clause of the source is that list
  exact h

/-- non-vacuity: the classes the harness injects -/
example : isException "SystemExit" = false ∧ isException "KeyboardInterrupt" = false
    ∧ isException "GeneratorExit" = false ∧ isException "CancelledError" = false
    ∧ isException "VerifFatal" = false ∧ isException "BaseException" = false
    ∧ isException "ValueError" = true ∧ isException "BrokenPipeError" = true := by decide

/-- Tie to the source, other direction: every `Exception` is reported back (the helper survives an
ordinary exception of the introspected code). -/
theorem listen_reports_every_exception (cls : String) (h : isException cls = true) :
    listenFault srcCfg cls = .raises cls := by
  have hm : "Exception" ∈ mro cls := by
    simpa [isException, caught] using h
  unfold listenFault
  simp [caught_of_mem hm (by decide : srcCfg.listenCatch.contains "Exception" = true)]

/-- **A `BaseException` that is no `Exception`, raised inside the helper while it serves a request, is a
contained death**: for every class `cls` that is no `Exception`, every plan in which the request in
flight is hit by "the helper raises `cls`" (`listenFault` with the except clause of the source), every
request and every not-yet-crashed helper with sound bookkeeping: `_send` raises `InternalError` - not
`cls` -, the helper is marked crashed, the finalizer has run and the process is reaped. -/
theorem helper_raise_fatal_contained_partial (plan : Plan) (hp : TruncCaught srcCfg plan) (p : Proc) (r : Req)
    (hf : p.Fin) (hs : p.Sound) (hc : p.crashed = false) (cls : String) (hcls : isException cls = false)
    (hplan : plan p.idx p.nreq = listenFault srcCfg cls) :
    (send srcCfg plan p r).2 = .raised "InternalError" ∧ (send srcCfg plan p r).1.crashed = true
      ∧ (send srcCfg plan p r).1.reaped = true ∧ (send srcCfg plan p r).1.armed = false := by
  have spec := crash_one_failure_partial plan hp p r hf hs
  have hfat : listenFault srcCfg cls = .raisesFatal := by
    unfold listenFault
    simp [listen_catches_only_exceptions cls hcls]
  have hd : (plan p.idx p.nreq).isDeath = true := by rw [hplan, hfat]; rfl
  have hcr := (spec.death_iff hc).mpr hd
  have hst := spec.fin.crashedStarted hcr
  exact ⟨spec.internal_iff.mpr hcr, hcr, (spec.fin.disarmed hst.1 hst.2).1, hst.2⟩

/-- non-vacuity: a plan in which request 3 of every helper start raises `SystemExit` inside the helper -/
example : TruncCaught srcCfg (fun _ k => if k = 3 then listenFault srcCfg "SystemExit" else .none) := by
  intro h k cls hc
  dsimp only at hc
  split at hc
  · have : listenFault srcCfg "SystemExit" = .raisesFatal := by decide
    rw [this] at hc; cases hc
  · cases hc

/-- the except clause `except (Exception, SystemExit)` ("the helper survives a sys.exit() of
introspected code"), as a literal -/
def listenSystemExitCfg : Cfg :=
  { dumpCatch := ["BrokenPipeError"], loadCatch := ["EOFError", "pickle.UnpicklingError"],
    envCatch := ["Exception"], listenCatch := ["Exception", "SystemExit"] }

/-- Counter-witness for that clause (kernel-checked): the first request of a Script makes the
introspected code call `sys.exit()` inside the helper; the helper ships the `SystemExit` back and
`_send` re-raises it in the user's process (`Out.remote "SystemExit"`: the query tries to exit the
host application), nothing is marked crashed.  With the clause of the source the same plan ends in
`InternalError`, a crashed, reaped helper, and the next Script gets a new one. -/
theorem systemexit_caught_in_listen_escapes :
    (exec listenSystemExitCfg (planOf [(0, 1, listenFault listenSystemExitCfg "SystemExit")]) {}
        [.newState 0, .call 0]).2 = [.ok, .remote "SystemExit"]
    ∧ ((exec listenSystemExitCfg (planOf [(0, 1, listenFault listenSystemExitCfg "SystemExit")]) {}
        [.newState 0, .call 0]).1.procs.map fun p => p.crashed) = [false]
    ∧ (exec srcCfg (planOf [(0, 1, listenFault srcCfg "SystemExit")]) {}
        [.newState 0, .call 0, .drop 0, .newState 1, .call 1]).2
        = [.ok, .raised "InternalError", .ok, .ok, .ok]
    ∧ ((exec srcCfg (planOf [(0, 1, listenFault srcCfg "SystemExit")]) {}
        [.newState 0, .call 0, .drop 0, .newState 1, .call 1]).1.procs.map fun p => (p.crashed, p.reaped))
        = [(false, false), (true, true)] := by decide

end JediModel.Props.C14

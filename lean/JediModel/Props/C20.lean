import JediModel.Gen.C20
import JediModel.Lemmas.SysPath
import JediModel.Model.ProjFile
import JediModel.Lemmas.DefaultProject
/-! # C20 — Project settings round-trip and shape sys.path as documented

Property theorems only.  `sysPath` is `Project._get_sys_path` with the composition order and the
`reversed(traversed)` read from the source by the translator (`Gen.C20`), so an edit of either
breaks these proofs at `lake build`. -/
namespace JediModel.Props.C20
open JediModel.SysPath
open JediModel.Gen.C20 (composeOrder traversedReversed initAttrs initParams savePopped
  serializerVersion envPathStr pathAlwaysAbsolute saveOpenMode)

/-- `Project._get_sys_path` as found in the source -/
def sysPath (c : Cfg) (w : World) (addParent addInit : Bool) : List String :=
  getSysPath composeOrder traversedReversed c w addParent addInit

/-- the suffix as found in the source -/
def suffixed (c : Cfg) (w : World) (addParent addInit : Bool) : List String :=
  suffixedOf traversedReversed c w addParent addInit

/-! ## shape of the effective search path -/

/-- The composed path is: the prefixed entries, then the first occurrences of the base entries not
already there, then the first occurrences of the suffixed entries not already there. -/
theorem sys_path_shape (c : Cfg) (w : World) (ap ai : Bool) :
    sysPath c w ap ai =
      dedup (prefixedOf c) ++ (dedup (baseOf c w)).filter (· ∉ prefixedOf c) ++
        (dedup (suffixed c w ap ai)).filter (fun p => p ∉ prefixedOf c ∧ p ∉ baseOf c w) := by
  unfold sysPath getSysPath suffixed
  rw [removeDups_eq_dedup]
  show dedup (compose composeOrder _ _ _) = _
  unfold composeOrder
  rw [compose_std, dedup_append3]

/-- no duplicates -/
theorem sys_path_nodup (c : Cfg) (w : World) (ap ai : Bool) : (sysPath c w ap ai).Nodup := by
  unfold sysPath getSysPath
  rw [removeDups_eq_dedup]
  exact dedup_nodup _

/-- nothing is lost and nothing is invented -/
theorem sys_path_mem (c : Cfg) (w : World) (ap ai : Bool) (p : String) :
    p ∈ sysPath c w ap ai ↔ p ∈ prefixedOf c ∨ p ∈ baseOf c w ∨ p ∈ suffixed c w ap ai := by
  unfold sysPath getSysPath suffixed
  rw [removeDups_eq_dedup, mem_dedup]
  unfold composeOrder
  rw [compose_std]
  simp only [List.mem_append, or_assoc]

/-- `smart_sys_path` on ⇒ the project directory comes first -/
theorem sys_path_head (c : Cfg) (w : World) (ap ai : Bool) (h : c.smart = true) :
    (sysPath c w ap ai).head? = some (pathStr c.projPath) := by
  rw [sys_path_shape]
  cases hd : c.django <;> simp [prefixedOf, h, hd, dedup]

/-- The base (environment or explicitly given) entries that are not the prefixed project path appear
exactly once, in their original relative order: selecting them from the result gives the
first-occurrence de-duplication of the base list. -/
theorem sys_path_base_order (c : Cfg) (w : World) (ap ai : Bool) :
    (sysPath c w ap ai).filter (fun p => p ∈ baseOf c w ∧ p ∉ prefixedOf c) =
      (dedup (baseOf c w)).filter (· ∉ prefixedOf c) := by
  rw [sys_path_shape, List.filter_append, List.filter_append]
  have h1 : (dedup (prefixedOf c)).filter (fun p => p ∈ baseOf c w ∧ p ∉ prefixedOf c) = [] := by
    rw [List.filter_eq_nil_iff]
    intro a ha
    have : a ∈ prefixedOf c := mem_dedup.mp ha
    simp [this]
  have h3 : ((dedup (suffixed c w ap ai)).filter (fun p => p ∉ prefixedOf c ∧ p ∉ baseOf c w)).filter
      (fun p => p ∈ baseOf c w ∧ p ∉ prefixedOf c) = [] := by
    rw [List.filter_eq_nil_iff]
    intro a ha
    have := (List.mem_filter.mp ha).2
    simp only [decide_eq_true_eq] at this
    simp [this.2]
  have h2 : ((dedup (baseOf c w)).filter (· ∉ prefixedOf c)).filter
      (fun p => p ∈ baseOf c w ∧ p ∉ prefixedOf c) = (dedup (baseOf c w)).filter (· ∉ prefixedOf c) := by
    rw [List.filter_eq_self]
    intro a ha
    have hm := List.mem_filter.mp ha
    have hb : a ∈ baseOf c w := mem_dedup.mp hm.1
    have hp := hm.2
    simp only [decide_eq_true_eq] at hp
    simp [hb, hp]
  rw [h1, h2, h3]; simp

/-- … and that selection is a subsequence of the list the user (or the environment) gave -/
theorem sys_path_base_sublist (c : Cfg) (w : World) (ap ai : Bool) :
    ((sysPath c w ap ai).filter (fun p => p ∈ baseOf c w ∧ p ∉ prefixedOf c)).Sublist (baseOf c w) := by
  rw [sys_path_base_order]
  exact List.filter_sublist.trans (dedup_sublist _)

/-- the environment's path loses exactly its first `''` entry, order kept -/
theorem base_sys_path_order (env : List String) :
    (baseSysPath env).Sublist env ∧ ∀ p, p ≠ "" → (p ∈ baseSysPath env ↔ p ∈ env) := by
  refine ⟨List.erase_sublist, ?_⟩
  intro p hp
  exact List.mem_erase_of_ne hp

/-- Everything that comes from `added_sys_path`, buildout scripts and the buffer's ancestors sits
after all prefixed and base entries, each once, in the order added ++ buildout ++ ancestors. -/
theorem sys_path_suffix_order (c : Cfg) (w : World) (ap ai : Bool) :
    ∃ front, sysPath c w ap ai = front ++
        (dedup (suffixed c w ap ai)).filter (fun p => p ∉ prefixedOf c ∧ p ∉ baseOf c w) ∧
      (∀ p ∈ front, p ∈ prefixedOf c ∨ p ∈ baseOf c w) ∧
      (∀ p, p ∈ prefixedOf c ∨ p ∈ baseOf c w → p ∈ front) := by
  refine ⟨dedup (prefixedOf c) ++ (dedup (baseOf c w)).filter (· ∉ prefixedOf c), sys_path_shape c w ap ai, ?_, ?_⟩
  · intro p hp
    rcases List.mem_append.mp hp with h | h
    · exact Or.inl (mem_dedup.mp h)
    · exact Or.inr (mem_dedup.mp (List.mem_filter.mp h).1)
  · intro p hp
    by_cases hpre : p ∈ prefixedOf c
    · exact List.mem_append.mpr (Or.inl (mem_dedup.mpr hpre))
    · rcases hp with h | h
      · exact absurd h hpre
      · exact List.mem_append.mpr (Or.inr (List.mem_filter.mpr ⟨mem_dedup.mpr h, by simpa using hpre⟩))

/-- what the suffix is made of (smart path, script given, default `add_parent_paths`):
`added_sys_path`, then the buildout paths, then the ancestors outermost first -/
theorem suffixed_smart (c : Cfg) (w : World) (ai : Bool) (sp : Parts)
    (hs : c.smart = true) (hw : w.scriptPath = some sp) :
    suffixed c w true ai =
      c.added ++ (w.buildout ++ ((traversed c.projPath w.hasInit ai sp).reverse.map pathStr)) := by
  simp [suffixed, suffixedOf, hs, hw, traversedStrs, traversedReversed, List.map_reverse]

/-- without `smart_sys_path` (or without a script path) only `added_sys_path` is appended -/
theorem suffixed_plain (c : Cfg) (w : World) (ap ai : Bool)
    (h : c.smart = false ∨ w.scriptPath = none) : suffixed c w ap ai = c.added := by
  rcases h with h | h <;> simp [suffixed, suffixedOf, h]

/-! ## the ancestors that are added -/

/-- The ancestors are exactly the parents of the script that lie strictly inside the project and
(unless `add_init_paths`) have no `__init__.py` — the `break` loses nothing. -/
theorem ancestors_eq_filter (proj : Parts) (hasInit : Parts → Bool) (addInit : Bool) (script : Parts) :
    traversed proj hasInit addInit script =
      (parentsOf script).filter (fun par =>
        decide (proj ∈ parentsOf par) && (addInit || !hasInit par)) :=
  traversed_eq_filter proj hasInit addInit script

/-- none of them is outside the project, none is the project itself, none has an `__init__.py`
(unless asked), all are proper ancestors of the script -/
theorem ancestors_inside (proj : Parts) (hasInit : Parts → Bool) (addInit : Bool) (script par : Parts)
    (h : par ∈ traversed proj hasInit addInit script) :
    (proj <+: par ∧ proj.length < par.length) ∧ (par <+: script ∧ par.length < script.length) ∧
      (addInit = false → hasInit par = false) := by
  rw [traversed_eq_filter] at h
  have hm := List.mem_filter.mp h
  have hk := hm.2
  simp only [keeps, Bool.and_eq_true, decide_eq_true_eq, Bool.or_eq_true, Bool.not_eq_true'] at hk
  refine ⟨parentsOf_prefix hk.1, parentsOf_prefix hm.1, ?_⟩
  intro ha
  rcases hk.2 with h | h
  · rw [ha] at h; cases h
  · exact h

/-
FULL (false on the unchanged code, see `ancestors_missing_for_relative_path_project`):
  for the project directory D = absolute cwd proj, every directory strictly between D and the
  script without `__init__.py` is added.
-/

/-- Every ancestor directory strictly between the project and the script without `__init__.py`
is added — provided the stored project path is absolute (hypothesis forced: a relative
`pathlib.Path` argument is stored as it is, and nothing is "inside" it). -/
theorem ancestors_complete_partial (cwd proj : Parts) (hasInit : Parts → Bool) (addInit : Bool)
    (script par : Parts) (habs : isAbs proj = true)
    (h1 : absolute cwd proj <+: par ∧ (absolute cwd proj).length < par.length)
    (h2 : par <+: script ∧ par.length < script.length)
    (h3 : addInit = true ∨ hasInit par = false) :
    par ∈ traversed proj hasInit addInit script := by
  simp only [absolute, habs, if_true] at h1
  have hproj : 1 ≤ proj.length := by
    cases proj with
    | nil => simp [isAbs] at habs
    | cons => simp
  rw [traversed_eq_filter]
  have hpar : 1 ≤ par.length := by omega
  have hin : proj ∈ parentsOf par :=
    (mem_parentsOf_iff_prefix (by split <;> omega)).mpr h1
  refine List.mem_filter.mpr ⟨(mem_parentsOf_iff_prefix (by split <;> omega)).mpr h2, ?_⟩
  simp only [keeps, hin, decide_true, Bool.true_and, Bool.or_eq_true, Bool.not_eq_true']
  exact h3

/-- the constructor stores an absolute path for every `str` argument, and for every `Path`
argument once `.absolute()` is applied to those too (the proposed repair) -/
theorem init_path_absolute (envStr absAlways : Bool) (cwd : Parts) (kw : List (String × PyVal))
    (p : Project) (hcwd : isAbs cwd = true ∧ cwd ≠ [])
    (h : init initParams envStr absAlways cwd kw = .ok p)
    (hkind : absAlways = true ∨ ∃ s, dictGet kw "path" = some (.str s)) :
    isAbs p.path = true := by
  have habs : ∀ q, isAbs (absolute cwd q) = true := by
    intro q
    unfold absolute
    split
    · assumption
    · exact isAbs_of_prefix (List.prefix_append cwd q) hcwd.1
  have hp := init_path h
  unfold initPath at hp
  split at hp
  · simp only [pure, Except.pure, Except.ok.injEq] at hp
    rw [← hp]; exact habs _
  · next q hq =>
    rcases hkind with rfl | ⟨s, hs⟩
    · simp only [if_true, pure, Except.pure, Except.ok.injEq] at hp
      rw [← hp]; exact habs _
    · rw [hs] at hq; cases hq
  · cases hp

/-- Counter-witness to FULL (kernel-checked): a project created with the relative
`Path('pr')` in `/w`, a script at `/w/pr/pa/s.py`: `/w/pr/pa` is strictly inside the project
directory `/w/pr`, has no `__init__.py`, and is not added. -/
theorem ancestors_missing_for_relative_path_project :
    ∃ p, init initParams false false ["/", "w"] [("path", .path ["pr"])] = .ok p ∧
      (absolute ["/", "w"] p.path <+: ["/", "w", "pr", "pa"]) ∧
      (["/", "w", "pr", "pa"] : Parts) ∉
        traversed p.path (fun _ => false) false ["/", "w", "pr", "pa", "s.py"] := by
  refine ⟨_, rfl, by decide, by decide⟩

/-- appended outermost first: in the order they enter the path every earlier ancestor is a proper
prefix of every later one -/
theorem ancestors_order (proj : Parts) (hasInit : Parts → Bool) (addInit : Bool) (script : Parts) :
    (traversed proj hasInit addInit script).reverse.Pairwise
      (fun a b => a <+: b ∧ a.length < b.length) := by
  rw [List.pairwise_reverse, traversed_eq_filter]
  exact (parentsOf_pairwise script).sublist List.filter_sublist

/-! ## this path is what import resolution searches -/

/-- `Importer._sys_path_with_modifications`: unless a relative import fixed the search path, the
search list starts with the whole composed path (then the detected `sys.path` modifications) -/
theorem sys_path_is_used_by_import (c : Cfg) (w : World) (mods : List String) :
    sysPath c w true true <+: importSearchPath none (sysPath c w true true) mods := by
  simp [importSearchPath]

/-- hence the first search-path entry that provides a module is the first one of the composed
path whenever the composed path provides it at all -/
theorem import_first_provider (c : Cfg) (w : World) (mods : List String) (provides : String → Bool)
    (d : String) (h : (sysPath c w true true).find? provides = some d) :
    (importSearchPath none (sysPath c w true true) mods).find? provides = some d := by
  simp [importSearchPath, List.find?_append, h]

/-! ## save / load -/

/-- the five settings and the path -/
def SameSettings (cwd : Parts) (p q : Project) : Prop :=
  q.path = absolute cwd p.path ∧ q.envPath = p.envPath ∧ q.sysPath = p.sysPath ∧
    q.added = p.added ∧ q.smart = p.smart ∧ q.unsafeExt = p.unsafeExt

/-- `Project.save()` then `Project.load()` in the working directory `cwd` -/
def saveLoad (envStr absAlways : Bool) (cwd : Parts) (p : Project) : Except Err Project :=
  save initAttrs savePopped serializerVersion p >>= load initParams envStr absAlways cwd

/-
FULL (false on the unchanged code, see `save_raises_on_path_environment` and finding F5):
  ∀ p, parsePath (pathStr p.path) = p.path → (p.envPath is None, a str or a Path) →
    ∃ q, saveLoad envPathStr pathAlwaysAbsolute cwd p = .ok q ∧ SameSettings cwd p q
-/

/-- For every project whose `environment_path` is `None` or a `str` (hypothesis forced by F5),
saving and loading gives the same path (made absolute) and the same five settings — whether or
not `_environment`/`_django` have been set in the meantime.
`hpath` is pathlib's law `Path(str(p)) == p` for the project path. -/
theorem save_load_roundtrip_partial (cwd : Parts) (p : Project)
    (hpath : parsePath (pathStr p.path) = p.path)
    (henv : p.envPath = .none ∨ ∃ s, p.envPath = .str s) :
    ∃ q, saveLoad envPathStr pathAlwaysAbsolute cwd p = .ok q ∧ SameSettings cwd p q := by
  obtain ⟨path, env, sysPath, smart, unsafeExt, django, added, environment⟩ := p
  simp only at hpath henv
  rcases henv with rfl | ⟨s, rfl⟩ <;> cases sysPath <;> cases environment <;>
    simp [saveLoad, save, load, init, Project.dict, Project.attr, initAttrs, savePopped,
      serializerVersion, initParams, dictSet, dictGet, lstripUnderscore, jsonRoundTripDict,
      jsonRoundTrip, optList, SameSettings, hpath, bind, Except.bind, pure, Except.pure, initEnv, initPath]

/-- After the F5 repair (`__init__` applies `str()` to `environment_path`) every project built by
the constructor round-trips, also when the caller passed a `Path`. -/
theorem save_load_roundtrip_of_env_str (cwd : Parts) (kw : List (String × PyVal)) (p : Project)
    (hinit : init initParams true pathAlwaysAbsolute cwd kw = .ok p)
    (hpath : parsePath (pathStr p.path) = p.path)
    (henv : dictGet kw "environment_path" = Option.none ∨ dictGet kw "environment_path" = some .none ∨
      (∃ s, dictGet kw "environment_path" = some (.str s)) ∨
      (∃ q, dictGet kw "environment_path" = some (.path q))) :
    ∃ q, saveLoad true pathAlwaysAbsolute cwd p = .ok q ∧ SameSettings cwd p q := by
  have henv' : p.envPath = .none ∨ ∃ s, p.envPath = .str s := by
    rw [init_envPath hinit]
    rcases henv with h | h | ⟨s, h⟩ | ⟨q, h⟩ <;> simp [h, initEnv]
  obtain ⟨path, env, sysPath, smart, unsafeExt, django, added, environment⟩ := p
  simp only at hpath henv'
  rcases henv' with rfl | ⟨s, rfl⟩ <;> cases sysPath <;> cases environment <;>
    simp [saveLoad, save, load, init, Project.dict, Project.attr, initAttrs, savePopped,
      serializerVersion, initParams, dictSet, dictGet, lstripUnderscore, jsonRoundTripDict,
      jsonRoundTrip, optList, SameSettings, hpath, bind, Except.bind, pure, Except.pure, initEnv, initPath]

/-- Counter-witness to FULL on the code without the repair (kernel-checked): the constructor
accepts a `Path` as `environment_path`, `save()` then raises `TypeError`. -/
theorem save_raises_on_path_environment :
    ∃ p, init initParams false pathAlwaysAbsolute ["/", "w"]
        [("path", .str "/tmp/p"), ("environment_path", .path ["/", "venv"])] = .ok p ∧
      parsePath (pathStr p.path) = p.path ∧
      save initAttrs savePopped serializerVersion p = .error .typeError := by
  refine ⟨_, rfl, by decide, by rfl⟩

/-! ## a history of saves into one project directory

`save()` followed by `load()` round-trips (above) for the file that `save` WROTE.  What `load` reads
is the file on disk, which may already exist: an earlier save of other settings, a file of a newer
jedi.  The theorems below are over every initial file, every list of serialisations (no bound on
their number or lengths) and the mode string read from `Project.save` (`Gen.C20.saveOpenMode`). -/
section history
open JediModel.ProjFile

/-- `Project.save` opens the settings file with a mode that truncates -/
theorem save_mode_truncates : modeOf saveOpenMode = some .truncate := by decide

/-- One save: whatever was there, the file holds exactly the new serialisation. -/
theorem save_replaces_file (old : Option Str) (new : Str) : write .truncate old new = new := by
  cases old <;> rfl

/-- Any history of saves into one directory: the file holds exactly the LAST serialisation - no
trace of an earlier, longer one. -/
theorem save_history_last_wins (old : Option Str) (ws : List Str) (w : Str) :
    writeAll .truncate old (ws ++ [w]) = some w := by
  induction ws generalizing old with
  | nil => simp [writeAll, save_replaces_file]
  | cons v vs ih => simpa [writeAll] using ih (some (write .truncate old v))

/-- ... and a `load()` after EVERY save of the history sees exactly what that save wrote. -/
theorem save_history_trace (old : Option Str) (ws : List Str) : trace .truncate old ws = ws := by
  induction ws generalizing old with
  | nil => rfl
  | cons v vs ih => simp [trace, save_replaces_file, ih]

/-- Why the mode matters: without truncation the file equals the new serialisation iff the old file
was not longer (so the FIRST save into a fresh directory, and every longer re-save, look fine). -/
theorem overwrite_ok_iff (o new : Str) : write .overwrite (some o) new = new ↔ o.length ≤ new.length := by
  simp [write, List.drop_eq_nil_iff]

/-- witness: saving shorter settings over longer ones leaves the old tail behind
(`json.load`: "Extra data") -/
theorem overwrite_leaves_tail :
    writeAll .overwrite none ["[1, {\"a\": [\"x\"]}]".toList, "[1, {}]".toList]
      = some "[1, {}]\": [\"x\"]}]".toList := by decide

/-- witness: appending never round-trips a second save -/
theorem append_keeps_old (o new : Str) (h : o ≠ []) : write .append (some o) new ≠ new := by
  simp only [write]
  intro e
  have := congrArg List.length e
  simp at this
  exact h this

end history

/-! ## default project discovery (`get_default_project`)

Which directory becomes the project when the user names none decides what "the project directory
comes first" means for a Script without an explicit project.  The walk is transcribed in
`Model/DefaultProject`; the file-system answers per directory are a parameter.  The theorems are
over every chain of directories (any depth). -/
section DefaultProject
open JediModel.DefaultProject

/-- the loop of the source, statement by statement (read by the translator) -/
theorem default_project_source_shape :
    JediModel.Gen.C20.defaultProjectSteps =
      ["try-load", "except(FileNotFoundError,IsADirectoryError,PermissionError):pass",
       "except(NotADirectoryError):continue", "if first_no_init_file is None",
       "if __init__.py exists:continue", "elif not is_file:first_no_init_file=dir",
       "if django:return", "if probable_path is None and potential:probable_path=dir",
       "after:probable", "after:first_no_init_file", "after:curdir"] := by decide

/-- **The default project is a directory of the walk** (the start path or one of its parents) -
never anything else; only when no directory qualifies it is the start directory itself (`curdir`). -/
theorem default_project_in_chain (chain : List Dir) (d : Nat)
    (h : (defaultProject chain).dir? = some d) : ∃ x ∈ chain, x.id = d := by
  simpa using walk_in {} [] chain (by intro q hq; cases hq) (by intro q hq; cases hq) d h

/-- **The innermost saved configuration wins**: if no directory further in has a loadable
`.jedi/project.json` or is a Django root, the first directory with a configuration is the project -
whatever lies above it. -/
theorem default_project_innermost_config (pre post : List Dir) (c : Dir)
    (hpre : ∀ x ∈ pre, x.load ≠ .loaded ∧ x.django = false) (hc : c.load = .loaded) :
    defaultProject (pre ++ c :: post) = .config c.id := by
  unfold defaultProject
  generalize ({} : St) = st
  induction pre generalizing st with
  | nil => simp [walk, stepDir, hc]
  | cons x xs ih =>
    have hx := hpre x (List.mem_cons_self)
    have hxs : ∀ y ∈ xs, y.load ≠ .loaded ∧ y.django = false := fun y hy => hpre y (List.mem_cons_of_mem _ hy)
    have hnone : (stepDir st x).1 = none := by
      unfold stepDir
      have h1 := hx.1; have h2 := hx.2
      grind
    simp only [List.cons_append, walk]
    rcases hs : stepDir st x with ⟨r, st'⟩
    rw [hs] at hnone
    simp only at hnone
    subst hnone
    exact ih hxs st'

/-- **A package is never chosen while nothing further in qualified**: leading directories that hold an
`__init__.py` (and no configuration) are skipped entirely - not even their `setup.py` / `manage.py`
is looked at; the project sits above them. -/
theorem default_project_skips_packages (pkgs rest : List Dir)
    (h : ∀ x ∈ pkgs, x.load = .missing ∧ x.hasInit = true) :
    defaultProject (pkgs ++ rest) = defaultProject rest := by
  unfold defaultProject
  induction pkgs with
  | nil => rfl
  | cons x xs ih =>
    have hx := h x (List.mem_cons_self)
    simp only [List.cons_append, walk, stepDir, hx.1, hx.2]
    simpa using ih (fun y hy => h y (List.mem_cons_of_mem _ hy))

/-- `proj/pkg/sub/mod.py` with `proj/.git`: both packages are skipped, `proj` is the project although
`pkg` has a `setup.py` of its own -/
example : defaultProject [⟨3, .missing, true, false, false, false⟩, ⟨2, .missing, true, false, false, true⟩,
    ⟨1, .missing, false, false, false, true⟩, ⟨0, .missing, false, false, false, false⟩] = .probable 1 := by
  decide

end DefaultProject

/-! ## non-vacuity: the hypotheses above are satisfiable by non-trivial inputs -/

private def exCfg : Cfg :=
  { projPath := ["/", "p"], sysPath := some ["/a", "/b", "/a", "/p"], added := ["/c", "/b"],
    smart := true, django := false }
private def exWorld : World :=
  { envSysPath := ["", "/usr/lib"], scriptPath := some ["/", "p", "pkg", "sub", "s.py"], buildout := [],
    hasInit := fun d => d = ["/", "p", "pkg"] }

/-- the run of the real code recorded in the design probe -/
example : sysPath exCfg exWorld true false = ["/p", "/a", "/b", "/c", "/p/pkg/sub"] := by decide
example : sysPath exCfg exWorld true true = ["/p", "/a", "/b", "/c", "/p/pkg", "/p/pkg/sub"] := by decide
example : exCfg.smart = true := rfl
example : traversed ["/", "p"] exWorld.hasInit true ["/", "p", "pkg", "sub", "s.py"] =
    [["/", "p", "pkg", "sub"], ["/", "p", "pkg"]] := by decide
/-- hypotheses of `ancestors_complete_partial` -/
example : isAbs (["/", "p"] : Parts) = true := by decide
example : (["/", "p"] : Parts) <+: ["/", "p", "pkg", "sub"] ∧
    (["/", "p", "pkg", "sub"] : Parts) <+: ["/", "p", "pkg", "sub", "s.py"] := by decide

private def exProject : Project :=
  { path := ["/", "tmp", "p"], envPath := .str "/venv", sysPath := some ["/a", "/a"], smart := false,
    unsafeExt := true, django := true, added := ["/c"], environment := true }

/-- hypotheses of `save_load_roundtrip_partial` -/
example : parsePath (pathStr exProject.path) = exProject.path := by decide
example : exProject.envPath = .none ∨ ∃ s, exProject.envPath = .str s := Or.inr ⟨_, rfl⟩
example : saveLoad false false ["/", "w"] exProject =
    .ok { exProject with django := false, environment := false } := by rfl
/-- hypotheses of `save_load_roundtrip_of_env_str` (a `Path` environment under the repair) -/
example : ∃ p, init initParams true false ["/", "w"]
    [("path", .str "rel/p"), ("environment_path", .path ["/", "venv"])] = .ok p ∧
    p.path = ["/", "w", "rel", "p"] ∧ p.envPath = .str "/venv" ∧
    parsePath (pathStr p.path) = p.path := ⟨_, rfl, by decide, by decide, by decide⟩

end JediModel.Props.C20

import JediModel.Lemmas.Nesting
import JediModel.Lemmas.NestingWitness
import JediModel.Gen.C18
import JediModel.Model.Members
/-! # C18 — get_context, parent() and full_name describe the lexical nesting

`getContext`, `parentChain`, `fullNameOfLeaf` are jedi's algorithms, `enclosers` /
`innermostBody` / `defChain` / `qualname` the Python side, all over the positioned scope table
`Nesting.NProg`.  Property theorems only. -/
namespace JediModel.Props.C18
open JediModel.Nesting
open JediModel.Scopes (Kind)

theorem walkUp_hit {p : NProg} {c : Nat} {sc : NScope} (col : Nat) (hs : p.scopes[c]? = some sc)
    (hd : (sc.kind == Kind.function || sc.kind == Kind.klass) = true) (hcol : sc.stmt.col < col) :
    ∀ f, 0 < f → walkUp p col f c = .ok c := by
  intro f hf
  cases f with
  | zero => omega
  | succ f =>
    unfold walkUp
    rw [hs]
    have hm : (sc.kind == Kind.module) = false := by
      cases hk : sc.kind <;> simp [hk] at hd ⊢
    simp [hm, hd, hcol]

/-- **Tree form.**  On a well-formed table, for a position on a leaf (not in a prefix) such that
the statement of every enclosing definition (`async def`: the `async` keyword) starts left of the
position's column (`LeafHyp`), `get_context` is the innermost `def` / `class` around the leaf that
starts before the position — the module if there is none.  Lambdas and comprehensions on the way
up, in class bodies too, are passed through. -/
theorem context_eq_chain (p : NProg) (hwf : WF p = true) (pos : Pos) (i : Nat) (l : Leaf)
    (hi : chooseLeaf p pos = .ok i) (hl : p.leaves[i]? = some l) (hyp : LeafHyp p pos l = true) :
    getContext p pos = .ok (firstDefBefore p pos (defChain p p.fuel l.pscope)) := by
  unfold WF at hwf
  simp only [Bool.and_eq_true] at hwf
  obtain ⟨hS, hL⟩ := hwf
  have hmem : l ∈ p.leaves := List.mem_of_getElem? hl
  -- the leaf's facts
  have hlp : l.pscope < p.scopes.length := by
    have := hS
    unfold WFS at this
    simp only [Bool.and_eq_true, List.all_eq_true, decide_eq_true_eq] at this
    exact this.2 l hmem
  unfold WFL at hL
  simp only [Bool.and_eq_true, List.all_eq_true] at hL
  obtain ⟨hLs, hLl⟩ := hL
  have hleaf := hLl l hmem
  obtain ⟨⟨hW5, hW9⟩, hW10⟩ := hleaf
  unfold LeafHyp at hyp
  simp only [Bool.and_eq_true, decide_eq_true_eq] at hyp
  obtain ⟨⟨hon1, hon2⟩, hnd⟩ := hyp
  have hfuel : p.fuel = p.scopes.length + 1 := rfl
  unfold getContext contextAt
  rw [hi]
  simp only
  rw [hl]
  simp only
  unfold contextOfLeaf
  cases hh : headerOf p pos l with
  | some n =>
    simp only
    -- the header rule fired: n is the head of the chain and starts before pos
    unfold headerOf at hh
    rw [defFrom_eq_head] at hh
    cases hhd : (defChain p p.fuel l.pscope).head? with
    | none => simp [hhd] at hh
    | some n' =>
      rw [hhd] at hh
      simp only at hh
      cases hsn : p.scopes[n']? with
      | none => simp [hsn] at hh
      | some scn =>
        rw [hsn] at hh
        simp only at hh
        split at hh
        · rename_i hcond
          simp only [Option.some.injEq] at hh
          subst hh
          obtain ⟨rest, hrest⟩ : ∃ rest, defChain p p.fuel l.pscope = n' :: rest := by
            cases hc : defChain p p.fuel l.pscope with
            | nil => simp [hc] at hhd
            | cons a rest => simp [hc] at hhd; subst hhd; exact ⟨rest, rfl⟩
          have hdef := mem_defChain_isDef p p.fuel l.pscope n' (by rw [hrest]; simp)
          obtain ⟨sc', hsc', hkd⟩ := isDef_scope hdef
          rw [hsn] at hsc'
          simp only [Option.some.injEq] at hsc'
          subst hsc'
          have hst : startLt p pos n' = true := by simp [startLt, hsn, hcond.1]
          have hcol : scn.stmt.col < pos.col := by
            rw [hrest] at hnd
            simp only [noDedent, List.all_cons, Bool.and_eq_true, hsn] at hnd
            simpa [hcond.1] using hnd.1
          rw [hrest, firstDefBefore_cons_hit hst]
          exact walkUp_hit pos.col hsn hkd hcol _ (by rw [hfuel]; omega)
        · simp at hh
  | none =>
    simp only
    -- a lambda in a `def` / `class` header on the way up: the leaf lies in that header (W10) and
    -- the header rule would have fired
    have hsegOK : lamSegOK p p.fuel l.pscope = true := by
      cases hso : lamSegOK p p.fuel l.pscope with
      | true => rfl
      | false =>
        exfalso
        rw [hso] at hW10
        simp only [Bool.false_or] at hW10
        unfold headerOf at hh
        rw [defFrom_eq_head] at hh
        cases hhd : (defChain p p.fuel l.pscope).head? with
        | none => rw [hhd] at hW10; simp at hW10
        | some n =>
          rw [hhd] at hW10 hh
          simp only at hW10 hh
          cases hsn : p.scopes[n]? with
          | none => rw [hsn] at hW10; simp at hW10
          | some scn =>
            rw [hsn] at hW10 hh
            simp only [Bool.and_eq_true, decide_eq_true_eq] at hW10 hh
            have hc : scn.start < pos ∧ pos ≤ scn.suite := by
              simp only [Pos.lt_def, Pos.le_def] at hW10 hon1 hon2 ⊢
              omega
            rw [if_pos hc] at hh
            simp at hh
    -- the header rule did not fire for the head of the chain
    have hnofire : ∀ n scn, (defChain p p.fuel l.pscope).head? = some n → p.scopes[n]? = some scn →
        ¬ (scn.start < pos ∧ pos ≤ scn.suite) := by
      intro n scn h1 h2 hc
      unfold headerOf at hh
      rw [defFrom_eq_head, h1] at hh
      simp only [h2] at hh
      rw [if_pos hc] at hh
      simp at hh
    have hs : p.scopes[l.pscope]? = some p.scopes[l.pscope] := List.getElem?_eq_getElem hlp
    unfold createContext scopeOfNode
    rw [hs]
    simp only
    by_cases hop : ((p.scopes[l.pscope].kind == Kind.function || p.scopes[l.pscope].kind == Kind.klass) &&
        decide (l.start < p.scopes[l.pscope].colon) && !l.isParamName) = true
    · -- a header leaf: one scope up
      rw [if_pos hop]
      simp only [Bool.and_eq_true, decide_eq_true_eq, Bool.not_eq_true'] at hop
      obtain ⟨⟨hkd, hcolon⟩, _⟩ := hop
      have hisdef : p.isDef l.pscope = true := by
        unfold NProg.isDef; rw [kind_of_scope hs]; exact hkd
      have hkne : p.kind l.pscope ≠ .module := by
        rw [kind_of_scope hs]
        intro hc; rw [hc] at hkd; simp at hkd
      have hchain : defChain p p.fuel l.pscope = l.pscope :: defChain p p.fuel (p.pscope l.pscope) := by
        rw [defChain_eq hS _ hlp]
        rw [kind_of_scope hs]
        cases hk : p.scopes[l.pscope].kind <;> simp [hk] at hkd ⊢
      -- the leaf ends inside the header, so pos is not after the header
      have hW5' : l.stop ≤ p.scopes[l.pscope].suite := by
        rw [hs] at hW5
        simp only [hkd, Bool.not_true, Bool.false_or, Bool.or_eq_true, Bool.not_eq_true',
          decide_eq_false_iff_not, decide_eq_true_eq] at hW5
        rcases hW5 with h1 | h1
        · exact absurd hcolon h1
        · exact h1
      have hnf := hnofire l.pscope _ (by rw [hchain]; rfl) hs
      have hnotlt : ¬ (p.scopes[l.pscope].start < pos) := by
        intro hc
        apply hnf
        refine ⟨hc, ?_⟩
        simp only [Pos.le_def] at hon2 hW5' ⊢
        omega
      have hmiss : startLt p pos l.pscope = false := by simp [startLt, hs, hnotlt]
      rw [hchain, firstDefBefore_cons_miss hmiss]
      have hpl := WFS.pscope_lt hS hkne
      rw [← pscope_of_scope hs]
      -- the parent of a def/class is a def/class or the module
      have hpk : p.kind (p.pscope l.pscope) ≠ .comp := by
        rcases WFS.def_parent hS hisdef with h1 | h1
        · rw [h1]; simp
        · unfold NProg.isDef at h1
          intro hc; rw [hc] at h1; simp at h1
      rw [fromScope_noncomp _ hpk, skipComps_noncomp hpk]
      have hplam : lamSegOK p p.fuel (p.pscope l.pscope) = true := by
        rw [lamSegOK_eq hS _ (by omega)]
        rcases WFS.def_parent hS hisdef with h1 | h1
        · rw [h1]
        · unfold NProg.isDef at h1
          cases hk : p.kind (p.pscope l.pscope) <;> simp [hk] at h1 ⊢
      have hnd' : noDedent p pos (defChain p p.fuel (p.pscope l.pscope)) = true := by
        rw [hchain] at hnd
        simp only [noDedent, List.all_cons, Bool.and_eq_true] at hnd
        exact hnd.2
      refine walkUp_chain hS pos _ (by omega) hpk hplam hnd' ?_ _ (by rw [hfuel]; omega)
      -- the next definition up starts before this one, hence before pos
      intro n hn
      have hn' : n = p.pscope l.pscope := by
        rw [defChain_eq hS _ (by omega)] at hn
        rcases WFS.def_parent hS hisdef with h1 | h1
        · rw [h1] at hn; simp at hn
        · unfold NProg.isDef at h1
          cases hk : p.kind (p.pscope l.pscope) <;> simp [hk] at h1 hn <;> exact hn.symm
      subst hn'
      have hdp : p.isDef (p.pscope l.pscope) = true := mem_defChain_isDef p p.fuel _ _ (List.mem_of_mem_head? hn)
      obtain ⟨scd, hscd, hkdd⟩ := isDef_scope hdp
      -- W8 for the scope l.pscope, W9 for the leaf
      have h8 := hLs _ (List.mem_of_getElem? hs)
      simp only [hkd, Bool.not_true, Bool.false_or, Bool.and_eq_true, decide_eq_true_eq] at h8
      have h8' := h8.2
      rw [← pscope_of_scope hs, hscd] at h8'
      simp only [hkdd, Bool.not_true, Bool.false_or, decide_eq_true_eq] at h8'
      rw [hchain] at hW9
      simp only [List.head?_cons, hs, Bool.and_eq_true, decide_eq_true_eq] at hW9
      have h9 := hW9.1
      simp only [startLt, hscd, decide_eq_true_eq]
      simp only [Pos.lt_def, Pos.le_def] at h8' h9 hon1 ⊢
      omega
    · -- a body leaf (or a parameter name): its own scope chain
      rw [if_neg hop]
      rw [skipComps_fromScope hS _ _ _ hlp]
      have sp := skipComps_spec hS l.pscope hlp
      rw [← sp.2.2.1] at hnd ⊢
      refine walkUp_chain hS pos _ (by omega) sp.2.1 (sp.2.2.2 hsegOK) hnd ?_ _ (by have := sp.1; omega)
      intro n hn
      rw [sp.2.2.1] at hn
      have hdn : p.isDef n = true := mem_defChain_isDef p p.fuel _ _ (List.mem_of_mem_head? hn)
      obtain ⟨scn, hscn, hkdn⟩ := isDef_scope hdn
      rw [hn] at hW9
      simp only [hscn, Bool.and_eq_true, decide_eq_true_eq, Bool.or_eq_true, Bool.not_eq_true',
        beq_iff_eq, beq_eq_false_iff_ne, ne_eq] at hW9
      obtain ⟨h9a, h9b⟩ := hW9
      simp only [startLt, hscn, decide_eq_true_eq]
      -- otherwise the leaf starts exactly where the definition starts: it is the keyword, a header leaf
      by_cases hlt : scn.start < pos
      · exact hlt
      · exfalso
        have heq : scn.start = l.start := by
          rw [Pos.ext_iff']
          simp only [Pos.lt_def, Pos.le_def] at h9a hon1 hlt
          omega
        rcases h9b with h1 | h1
        · exact h1 heq
        · obtain ⟨hpn, hnp⟩ := h1
          apply hop
          have hsame : p.scopes[l.pscope]? = some scn := by rw [hpn]; exact hscn
          rw [hs] at hsame
          simp only [Option.some.injEq] at hsame
          rw [hsame]
          have h11 := hLs _ (List.mem_of_getElem? hscn)
          simp only [hkdn, Bool.not_true, Bool.false_or, Bool.and_eq_true, decide_eq_true_eq] at h11
          simp only [hkdn, Bool.true_and, Bool.and_eq_true, decide_eq_true_eq, Bool.not_eq_true']
          exact ⟨by rw [← heq]; exact h11.1, hnp⟩

/-- **context_is_innermost_body.**  For a position on code of a well-formed table whose tree nests
like its text, under `ContextHyp` (position on a leaf; the statement of no enclosing definition
starts at or right of its column — the excluded shape is the counter-witness `dedent_witness`),
`get_context` is the innermost function or class whose statement contains the position, the module
otherwise.  Bodies of `async def` (every column right of `async`) and lambdas / comprehensions
directly in class bodies are covered (`async_def_fixed`, `lambda_in_class_fixed`).  Header positions (`def` / `class` keyword after its first character, name, parameters,
defaults, annotations, bases, colon) belong to the definition itself; its decorators, the first
character of the keyword and `async` belong to the enclosing scope.

FULL (false, see `dedent_witness`):
  `WF p → chooseLeaf p pos = .ok i → p.leaves[i]? = some l → l.start ≤ pos → pos ≤ l.stop →
     getContext p pos = .ok (innermostBody p pos)` -/
theorem context_is_innermost_body_partial (p : NProg) (hwf : WF p = true) (pos : Pos) (i : Nat)
    (l : Leaf) (hi : chooseLeaf p pos = .ok i) (hl : p.leaves[i]? = some l)
    (htree : TreeMatchesText p pos l = true) (hyp : LeafHyp p pos l = true) :
    getContext p pos = .ok (innermostBody p pos) := by
  have hS : WFS p = true := by
    unfold WF at hwf; simp only [Bool.and_eq_true] at hwf; exact hwf.1
  have hlp : l.pscope < p.scopes.length := by
    have := hS
    unfold WFS at this
    simp only [Bool.and_eq_true, List.all_eq_true, decide_eq_true_eq] at this
    exact this.2 l (List.mem_of_getElem? hl)
  rw [context_eq_chain p hwf pos i l hi hl hyp, innermostBody_eq_firstDefBefore hS pos l hlp htree]

open JediModel.Nesting.Witness in
/-- non-vacuity: `a` in `def f` in `class K` (line 3, column 8) satisfies every hypothesis, and the
answer is `f` (scope 2); so does the parameter `p` in the header of `f` (line 2, column 10) -/
example : WF wOk = true ∧ chooseLeaf wOk ⟨3, 8⟩ = .ok 11 ∧
    (∀ l, wOk.leaves[11]? = some l → TreeMatchesText wOk ⟨3, 8⟩ l = true ∧ LeafHyp wOk ⟨3, 8⟩ l = true) ∧
    getContext wOk ⟨3, 8⟩ = .ok 2 ∧ getContext wOk ⟨2, 10⟩ = .ok 2 ∧ ContextHyp wOk ⟨2, 10⟩ = true := by
  refine ⟨by decide, by decide, ?_, by decide, by decide, by decide⟩
  intro l hl
  simp only [wOk, List.getElem?_cons_succ, List.getElem?_cons_zero, Option.some.injEq] at hl
  subst hl
  exact ⟨by decide, by decide⟩

open JediModel.Nesting.Witness in
/-- fixed behaviour (a lambda directly in a class body; was `lambda_in_class_witness`): on `b` in
`class K: a = lambda c: b` every hypothesis holds and the answer is `K`: `parent()` of the lambda's
name is `create_context(lambda node)`, the class context. -/
theorem lambda_in_class_fixed :
    WF wLam = true ∧ chooseLeaf wLam ⟨2, 18⟩ = .ok 9 ∧ ContextHyp wLam ⟨2, 18⟩ = true ∧
      getContext wLam ⟨2, 18⟩ = .ok 1 ∧ innermostBody wLam ⟨2, 18⟩ = 1 ∧
      parentOfScope wLam 2 = some 1 := by decide

open JediModel.Nesting.Witness in
/-- fixed behaviour (`async def`; was `async_def_witness`): the indentation loop looks at the column
of `async` (the statement), not of `def`; a body line indented by four (columns 1..6 lie between
the two keywords) satisfies every hypothesis and the answer is `f`. -/
theorem async_def_fixed :
    WF wAsync = true ∧ chooseLeaf wAsync ⟨2, 4⟩ = .ok 7 ∧ ContextHyp wAsync ⟨2, 4⟩ = true ∧
      getContext wAsync ⟨2, 4⟩ = .ok 1 ∧ innermostBody wAsync ⟨2, 4⟩ = 1 ∧
      (wAsync.scopes[1]?).map (fun sc => (sc.start, sc.stmt)) = some (⟨1, 6⟩, ⟨1, 0⟩) ∧
      getContext wAsync ⟨2, 1⟩ = .ok 1 ∧ getContext wAsync ⟨2, 0⟩ = .ok 0 := by decide

open JediModel.Nesting.Witness in
/-- counter-witness (continuation line not right of the enclosing `def`): `a` at column 0 inside
parentheses inside `f`.  Reproduced on the real code (upstream's own test expects it). -/
theorem dedent_witness :
    WF wDedent = true ∧ chooseLeaf wDedent ⟨3, 0⟩ = .ok 7 ∧ getContext wDedent ⟨3, 0⟩ = .ok 0 ∧
      innermostBody wDedent ⟨3, 0⟩ = 1 ∧ ContextHyp wDedent ⟨3, 0⟩ = false := by decide

/-! ## parent() -/

theorem chainFrom_defOrModule {p : NProg} (h : WFS p = true) (x : Nat) (hx : x < p.scopes.length)
    (f : Nat) (hf : x < f) : chainFrom p f (defOrModule p x) = defChain p p.fuel x ++ [0] := by
  unfold defOrModule
  rw [defFrom_eq_head]
  cases hh : (defChain p p.fuel x).head? with
  | none =>
    simp only
    have hnil : defChain p p.fuel x = [] := by
      cases hl : defChain p p.fuel x with
      | nil => rfl
      | cons a r => simp [hl] at hh
    rw [hnil, chainFrom_def h 0 (WFS.nonempty h) (Or.inr (WFS.kind0 h)) f (by omega),
      defChain_eq h 0 (WFS.nonempty h), WFS.kind0 h]
  | some n =>
    simp only
    have hd := defChain_head h _ hx n hh
    have hdn := mem_defChain_isDef p p.fuel _ _ (List.mem_of_mem_head? hh)
    rw [chainFrom_def h n (by omega) (Or.inl hdn) f (by omega), hd.1]

/-- **parent_chain_eq_enclosing.**  Iterating `parent()` from a definition visits — lambdas aside —
exactly the `def` / `class` statements around it, innermost first, then the module (scope 0): for
every `def` / `class` name, every parameter (also of lambdas), and every assigned name (also inside
lambdas, directly in class bodies too) unless a lambda on the way sits in the *header* (default,
annotation, base) of the `def` / `class` around it.

FULL (false, see `header_lambda_chain_witness`): the same for every assigned name. -/
theorem parent_chain_eq_enclosing_partial (p : NProg) (hS : WFS p = true) (i : Nat) (l : Leaf)
    (hl : p.leaves[i]? = some l) (hyp : ChainHyp p i = true) :
    (parentChain p i).filter (notLambda p) = defChain p p.fuel (chainStart p l) ++ [0] := by
  have hlp : l.pscope < p.scopes.length := by
    have := hS
    unfold WFS at this
    simp only [Bool.and_eq_true, List.all_eq_true, decide_eq_true_eq] at this
    exact this.2 l (List.mem_of_getElem? hl)
  have hfuel : p.fuel = p.scopes.length + 1 := rfl
  unfold ChainHyp IsDefinition at hyp
  rw [hl] at hyp
  simp only at hyp
  unfold parentChain parentOfLeaf
  rw [hl]
  simp only
  cases hr : l.role with
  | other => rw [hr] at hyp; simp at hyp
  | newline => rw [hr] at hyp; simp at hyp
  | endmarker => rw [hr] at hyp; simp at hyp
  | use => rw [hr] at hyp; simp at hyp
  | defName s =>
    rw [hr] at hyp
    simp only [Bool.and_eq_true, decide_eq_true_eq, Bool.and_true] at hyp
    have hne : p.kind s ≠ .module := by
      have := hyp.2
      unfold NProg.isDef at this
      intro hc; rw [hc] at this; simp at this
    have hlt := WFS.pscope_lt hS hne
    have hcs : chainStart p l = p.pscope s := by unfold chainStart; rw [hr]
    simp only
    rw [hcs, chainFrom_defOrModule hS _ (by omega) _ (by omega)]
    exact filter_notLambda_defChain hS _
  | param =>
    have hcs : chainStart p l = l.pscope := by unfold chainStart; rw [hr]
    simp only
    rw [hcs, chainFrom_defOrModule hS _ hlp _ (by omega)]
    exact filter_notLambda_defChain hS _
  | bind =>
    rw [hr] at hyp
    simp only [Bool.true_and] at hyp
    have hcs : chainStart p l = scopeOfNode p l.start l.pscope l.isParamName := by
      unfold chainStart; rw [hr]
    have hx := scopeOfNode_lt hS l.start l.pscope l.isParamName hlp
    simp only
    unfold createContext
    rw [skipComps_fromScope hS _ _ _ hx]
    rw [hcs] at hyp ⊢
    exact chainFrom_filter hS _ hx hyp _ (by omega)

/-- **No lambda visited.**  When the first named context of the definition is not a lambda (always
so for `def` / `class` names and parameters), the chain is exactly the enclosing definitions and
the module: no lambda is visited. -/
theorem parent_chain_exact (p : NProg) (hS : WFS p = true) (i : Nat) (l : Leaf)
    (hl : p.leaves[i]? = some l) (hyp : NoLambdaHyp p i = true) :
    parentChain p i = defChain p p.fuel (chainStart p l) ++ [0] := by
  have hlp : l.pscope < p.scopes.length := by
    have := hS
    unfold WFS at this
    simp only [Bool.and_eq_true, List.all_eq_true, decide_eq_true_eq] at this
    exact this.2 l (List.mem_of_getElem? hl)
  have hfuel : p.fuel = p.scopes.length + 1 := rfl
  unfold NoLambdaHyp IsDefinition at hyp
  rw [hl] at hyp
  simp only at hyp
  unfold parentChain parentOfLeaf
  rw [hl]
  simp only
  cases hr : l.role with
  | other => rw [hr] at hyp; simp at hyp
  | newline => rw [hr] at hyp; simp at hyp
  | endmarker => rw [hr] at hyp; simp at hyp
  | use => rw [hr] at hyp; simp at hyp
  | defName s =>
    rw [hr] at hyp
    simp only [Bool.and_eq_true, decide_eq_true_eq, Bool.and_true] at hyp
    have hne : p.kind s ≠ .module := by
      have := hyp.2
      unfold NProg.isDef at this
      intro hc; rw [hc] at this; simp at this
    have hlt := WFS.pscope_lt hS hne
    have hcs : chainStart p l = p.pscope s := by unfold chainStart; rw [hr]
    simp only
    rw [hcs]
    exact chainFrom_defOrModule hS _ (by omega) _ (by omega)
  | param =>
    have hcs : chainStart p l = l.pscope := by unfold chainStart; rw [hr]
    simp only
    rw [hcs]
    exact chainFrom_defOrModule hS _ hlp _ (by omega)
  | bind =>
    rw [hr] at hyp
    simp only [Bool.true_and, bne_iff_ne, ne_eq] at hyp
    have hcs : chainStart p l = scopeOfNode p l.start l.pscope l.isParamName := by
      unfold chainStart; rw [hr]
    have hx := scopeOfNode_lt hS l.start l.pscope l.isParamName hlp
    simp only
    unfold createContext
    rw [skipComps_fromScope hS _ _ _ hx]
    rw [hcs] at hyp ⊢
    have sp := skipComps_spec hS _ hx
    have hk : p.isDef (skipComps p p.fuel (scopeOfNode p l.start l.pscope l.isParamName)) = true ∨
        p.kind (skipComps p p.fuel (scopeOfNode p l.start l.pscope l.isParamName)) = .module := by
      unfold NProg.isDef
      cases hkk : p.kind (skipComps p p.fuel (scopeOfNode p l.start l.pscope l.isParamName)) with
      | module => right; rfl
      | function => left; rfl
      | klass => left; rfl
      | lambda => exact absurd hkk hyp
      | comp => exact absurd hkk sp.2.1
    rw [chainFrom_def hS _ (by omega) hk _ (by omega), sp.2.2.1]

open JediModel.Nesting.Witness in
/-- non-vacuity: `a` in `f` in `K` has the chain `f, K, module`; the parameter `p` of `f` and the
name `f` itself too -/
example : WFS wOk = true ∧ ChainHyp wOk 11 = true ∧ NoLambdaHyp wOk 11 = true ∧
    parentChain wOk 11 = [2, 1, 0] ∧
    ChainHyp wOk 7 = true ∧ NoLambdaHyp wOk 7 = true ∧ parentChain wOk 7 = [2, 1, 0] ∧
    ChainHyp wOk 5 = true ∧ NoLambdaHyp wOk 5 = true ∧ parentChain wOk 5 = [1, 0] := by decide

open JediModel.Nesting.Witness in
/-- fixed behaviour (was `lambda_chain_witness`): the comprehension variable in
`class K: a = lambda: [b for b in it]` satisfies `ChainHyp`; its chain is `<lambda>, K, module`:
the class `K` (scope 1), which contains it, is visited. -/
theorem lambda_chain_fixed :
    WF wLamComp = true ∧ ChainHyp wLamComp 11 = true ∧ parentChain wLamComp 11 = [2, 1, 0] ∧
      (parentChain wLamComp 11).filter (notLambda wLamComp) = [1, 0] ∧
      enclosers wLamComp ⟨2, 23⟩ = [1] := by decide

open JediModel.Nesting.Witness in
/-- counter-witness (a lambda in a `def` header): the comprehension variable in
`def d(q=lambda: [b for b in it]): pass` has the chain `<lambda>, module`: `create_context` of the
lambda node applies the header rule (the default is evaluated outside `d`), so the `def` statement
`d` (scope 1), which contains it textually, is not visited.  (A comprehension directly in the
default, without the lambda, does visit `d`.) -/
theorem header_lambda_chain_witness :
    WF wHdrLam = true ∧ IsDefinition wHdrLam 10 = true ∧ ChainHyp wHdrLam 10 = false ∧
      parentChain wHdrLam 10 = [2, 0] ∧ defChain wHdrLam wHdrLam.fuel (chainStart wHdrLam
        { start := ⟨1, 23⟩, stop := ⟨1, 24⟩, pscope := 3, isParamName := false, role := .bind, name := "b" }) = [1] ∧
      enclosers wHdrLam ⟨1, 23⟩ = [1] := by decide

/-! ## full_name -/

/-- **The module path is prepended whole, the qualified names appended whole.**  The final `return` of
`AbstractNameDefinition.get_qualified_names` (operands read from jedi/inference/names.py by the
translator, which refuses any other statement between the `None` checks and that return) evaluates to
the concatenation: no component is dropped, repeated or reordered, whatever the spellings - in
particular when the qualified names start with the last component of the module path
(`glob.glob`, `datetime.datetime`). -/
theorem module_join_is_concat (m q : List String) :
    joinNames JediModel.Gen.C18.moduleJoin m q = m ++ q := by
  simp [joinNames, joinOperand, JediModel.Gen.C18.moduleJoin]

/-- **full_name_eq_qualname.**  For a `def` / `class` statement `s` all of whose ancestors are
classes (module or class level), whose name leaf is `i`, in a module whose first name component is
not a key of `BaseName._mapping`: `full_name` is the module's dotted path followed by `__qualname__`.

FULL (false, see `mapped_module_witness`): without the `_mapping` hypothesis. -/
theorem full_name_eq_qualname_partial (p : NProg) (i s : Nat) (l : Leaf) (m : List String)
    (hl : p.leaves[i]? = some l) (hr : l.role = .defName s) (hname : l.name = p.sname s)
    (hctx : createContext p l.start l.pscope l.isParamName = p.pscope s)
    (hk : p.kind s = .klass ∨ p.kind s = .function)
    (hpath : classPath p (p.fuel + 1) s = true)
    (hm : p.modNames = some m) (hmne : m ≠ [])
    (hmap : ∀ x, m.head? = some x → JediModel.Gen.C18.mapping.lookup x = none) :
    fullNameOfLeaf JediModel.Gen.C18.mapping JediModel.Gen.C18.moduleJoin p i =
      some (m ++ qualnameOf p s) := by
  unfold fullNameOfLeaf
  rw [hl]
  simp only [hr, hctx, hm, module_join_is_concat]
  have hq : qualnameOf p s =
      (match p.kind (p.pscope s) with
       | .module => [p.sname s]
       | .klass => qualname p p.fuel (p.pscope s) ++ [p.sname s]
       | _ => qualname p p.fuel (p.pscope s) ++ ["<locals>", p.sname s]) := by
    unfold qualnameOf
    conv => lhs; unfold qualname
    have hne : p.kind s ≠ .module := by rcases hk with h1 | h1 <;> rw [h1] <;> simp
    unfold classPath at hpath
    simp only [Bool.and_eq_true, beq_iff_eq] at hpath
    have hsk : skipComps p p.fuel (p.pscope s) = p.pscope s := by
      apply skipComps_noncomp
      intro hc; rw [hc] at hpath; simp at hpath
    rcases hk with h1 | h1 <;> rw [h1] <;> simp only [hsk] <;> cases p.kind (p.pscope s) <;> rfl
  have hhead : ∀ (q : List String) (x : String), (m ++ q).head? = some x → m.head? = some x := by
    intro q x hx
    cases m with
    | nil => exact absurd rfl hmne
    | cons a r => simpa using hx
  unfold classPath at hpath
  simp only [Bool.and_eq_true, beq_iff_eq] at hpath
  cases hpk : p.kind (p.pscope s) with
  | module =>
    have hc : ctxQual p p.fuel (p.pscope s) = some [] := by
      have hf : p.fuel = p.scopes.length + 1 := rfl
      rw [hf]; unfold ctxQual; rw [hpk]
    rw [hc, hq, hpk]
    simp only [List.nil_append]
    rw [applyMapping_unmapped, hname]
    intro x hx
    exact hmap x (hhead _ x hx)
  | klass =>
    rw [hpk] at hpath
    have hc := ctxQual_eq_qualname p p.fuel (p.pscope s) hpath.2 (Or.inl hpk)
    rw [hc, hq, hpk]
    simp only
    rw [applyMapping_unmapped, hname]
    intro x hx
    exact hmap x (hhead _ x hx)
  | function => rw [hpk] at hpath; simp at hpath
  | lambda => rw [hpk] at hpath; simp at hpath
  | comp => rw [hpk] at hpath; simp at hpath

open JediModel.Nesting.Witness in
/-- non-vacuity: `class L` in `class K` of module `mod` satisfies every hypothesis; its full name
is `mod.K.L` -/
example : (wOk.leaves[17]?).map (fun l => (l.name, l.role, l.start, l.pscope, l.isParamName)) =
      some ("L", .defName 3, ⟨4, 10⟩, 3, false) ∧
    createContext wOk ⟨4, 10⟩ 3 false = wOk.pscope 3 ∧ classPath wOk (wOk.fuel + 1) 3 = true ∧
    wOk.modNames = some ["mod"] ∧ JediModel.Gen.C18.mapping.lookup "mod" = none ∧
    fullNameOfLeaf JediModel.Gen.C18.mapping JediModel.Gen.C18.moduleJoin wOk 17 = some ["mod", "K", "L"] ∧
    qualnameOf wOk 3 = ["K", "L"] := by decide

/-- **full_name of a context name.**  The same for the names that `get_context`, `parent()` and
`infer()` hand out (`ValueName`s: the qualified names are the value's, `FunctionAndClassBase` /
`MethodValue.get_qualified_names`): for a `def` / `class` `s` below classes only, `full_name` is the
module's dotted path followed by `__qualname__` (`qualname` at the fuel `ctxQual` runs with). -/
theorem full_name_of_context_eq_qualname_partial (p : NProg) (s : Nat) (m : List String)
    (hk : p.kind s = .klass ∨ p.kind s = .function)
    (hpath : classPath p p.fuel s = true)
    (hm : p.modNames = some m) (hmne : m ≠ [])
    (hmap : ∀ x, m.head? = some x → JediModel.Gen.C18.mapping.lookup x = none) :
    fullNameOfScope JediModel.Gen.C18.mapping JediModel.Gen.C18.moduleJoin p s =
      some (m ++ qualname p p.fuel s) := by
  have hc := ctxQual_eq_qualname p p.fuel s hpath
    (by rcases hk with h | h
        · exact Or.inl h
        · exact Or.inr (Or.inl h))
  have hhead : ∀ (q : List String) (x : String), (m ++ q).head? = some x → m.head? = some x := by
    intro q x hx
    cases m with
    | nil => exact absurd rfl hmne
    | cons a r => simpa using hx
  unfold fullNameOfScope
  rcases hk with h | h <;>
  · simp only [h, hc, hm, module_join_is_concat]
    rw [applyMapping_unmapped]
    intro x hx
    exact hmap x (hhead _ x hx)

open JediModel.Nesting.Witness in
/-- non-vacuity, and the colliding case: in the module `K.K` (file `K/K.py`) with
`class K:` / `def K(p): a = ()` / `class K: b = ()` every hypothesis of both theorems holds and the
repeated spelling is kept at every depth: the class is `K.K.K`, the method and the nested class
`K.K.K.K`, the name assigned in the method `K.K.K.K.a`; `__qualname__` of the method is `K.K`. -/
theorem full_name_keeps_repeated_components :
    classPath wCollide (wCollide.fuel + 1) 1 = true ∧ classPath wCollide (wCollide.fuel + 1) 2 = true ∧
    classPath wCollide wCollide.fuel 2 = true ∧
    JediModel.Gen.C18.mapping.lookup "K" = none ∧
    fullNameOfLeaf JediModel.Gen.C18.mapping JediModel.Gen.C18.moduleJoin wCollide 1 = some ["K", "K", "K"] ∧
    fullNameOfLeaf JediModel.Gen.C18.mapping JediModel.Gen.C18.moduleJoin wCollide 5 = some ["K", "K", "K", "K"] ∧
    fullNameOfLeaf JediModel.Gen.C18.mapping JediModel.Gen.C18.moduleJoin wCollide 17 = some ["K", "K", "K", "K"] ∧
    fullNameOfLeaf JediModel.Gen.C18.mapping JediModel.Gen.C18.moduleJoin wCollide 11 = some ["K", "K", "K", "K", "a"] ∧
    fullNameOfScope JediModel.Gen.C18.mapping JediModel.Gen.C18.moduleJoin wCollide 1 = some ["K", "K", "K"] ∧
    fullNameOfScope JediModel.Gen.C18.mapping JediModel.Gen.C18.moduleJoin wCollide 2 = some ["K", "K", "K", "K"] ∧
    fullNameOfScope JediModel.Gen.C18.mapping JediModel.Gen.C18.moduleJoin wCollide 0 = some ["K", "K"] ∧
    qualnameOf wCollide 2 = ["K", "K"] ∧ qualname wCollide wCollide.fuel 2 = ["K", "K"] := by decide

/-- the statements of the `get_qualified_names` family the model transcribes are the ones in the source:
tree names append their own spelling to the qualified names of their context; a class / function below a
class appends `py__name__()` to the class's, at module level it is `(py__name__(),)`, elsewhere `None`;
methods go through `class_context`; `full_name` asks for the module names and joins with `'.'`. -/
theorem qualified_name_shapes :
    JediModel.Gen.C18.moduleJoin = ["module_names", "qualified_names"] ∧
    JediModel.Gen.C18.treeNameQual = ["parent_names = self.parent_context.get_qualified_names()",
      "if parent_names is None", "return None", "end", "return parent_names + (self.tree_name.value,)"] ∧
    JediModel.Gen.C18.treeNameDelegates = "return super().get_qualified_names(include_module_names)" ∧
    JediModel.Gen.C18.valueNameQual = ["return self._value.get_qualified_names()"] ∧
    JediModel.Gen.C18.funcClassQual = ["if self.parent_context.is_class()",
      "n = self.parent_context.get_qualified_names()", "if n is None", "return None", "end",
      "return n + (self.py__name__(),)", "else", "if self.parent_context.is_module()",
      "return (self.py__name__(),)", "else", "return None", "end", "end"] ∧
    JediModel.Gen.C18.methodQual = ["names = self.class_context.get_qualified_names()", "if names is None",
      "return None", "end", "return names + (self.py__name__(),)"] ∧
    JediModel.Gen.C18.abstractContextQual = ["return ()"] ∧
    JediModel.Gen.C18.valueContextQual = ["return self._value.get_qualified_names()"] ∧
    JediModel.Gen.C18.fullNameCall = ["self._name.get_qualified_names(include_module_names=True)"] ∧
    JediModel.Gen.C18.fullNameReturns = ["'.'.join(names)", "None", "None"] := by decide

open JediModel.Nesting.Witness in
/-- counter-witness: in a module called `macpath` (a key of `BaseName._mapping`) the class `K` has
the full name `os.path.K`; Python's is `macpath.K`.  Reproduced on the real code. -/
theorem mapped_module_witness :
    fullNameOfLeaf JediModel.Gen.C18.mapping JediModel.Gen.C18.moduleJoin wMapped 1 = some ["os.path", "K"] ∧
      wMapped.modNames = some ["macpath"] ∧ qualnameOf wMapped 1 = ["K"] ∧
      JediModel.Gen.C18.mapping.lookup "macpath" = some "os.path" := by decide

/-- the table `full_name` consults is `_mapping` only, applied to the first component -/
theorem full_name_tables : JediModel.Gen.C18.fullNameTables = ["_mapping"] ∧
    JediModel.Gen.C18.fullNameMappedIndex = 0 := by decide

/-- the comparison shapes the model transcribes are the ones in the source -/
theorem source_shapes :
    JediModel.Gen.C18.headerRule = ["n.start_pos", "<", "pos", "<=", "n.children[-1].start_pos"] ∧
    JediModel.Gen.C18.indentRule = ["scope.start_pos[1]", "<", "column"] ∧
    JediModel.Gen.C18.contextAncestorTypes = ["funcdef", "classdef"] ∧
    JediModel.Gen.C18.includePrefixes = true ∧
    JediModel.Gen.C18.parentTreeTypes = ["function", "class", "param"] ∧
    JediModel.Gen.C18.parentAncestorTypes = ["funcdef", "classdef", "file_input"] ∧
    JediModel.Gen.C18.createContextHeaderRule = ["node.start_pos", "<", "colon.start_pos"] ∧
    JediModel.Gen.C18.compLastChildRule = ["node.start_pos", ">=", "scope_node.children[-1].start_pos"] ∧
    JediModel.Gen.C18.scopeNodeTypes = ["file_input", "classdef", "funcdef", "lambdef", "sync_comp_for"] ∧
    JediModel.Gen.C18.lambdaName = "<lambda>" ∧
    JediModel.Gen.C18.indentStatementParents = ["async_stmt", "async_funcdef"] ∧
    JediModel.Gen.C18.lambdaParentTest = "isinstance(self._name, (LambdaName, FunctionNameInClass))" ∧
    JediModel.Gen.C18.lambdaParentContext =
      "self._get_module_context().create_context(lambda_value.tree_node)" := by decide

/-- **Inside functions.**  Whatever `full_name` answers for a definition (also below functions,
where it is `none` or a dotted path that is not the run-time `__qualname__`), every component
after the module path is the name of a scope of the table or the definition's own name: the
marker `<locals>` of Python's `__qualname__` never appears (no scope is called `<locals>`). -/
theorem full_name_no_locals (p : NProg) (i : Nat) (l : Leaf) (m q : List String)
    (hl : p.leaves[i]? = some l) (hm : p.modNames = some m)
    (hq : ctxQual p p.fuel (createContext p l.start l.pscope l.isParamName) = some q)
    (hnames : ∀ t, p.sname t ≠ "<locals>") (hown : l.name ≠ "<locals>") :
    "<locals>" ∉ q ++ [l.name] := by
  intro hmem
  rcases List.mem_append.mp hmem with h1 | h1
  · obtain ⟨t, ht⟩ := ctxQual_names p _ _ q hq _ h1
    exact hnames t ht.symm
  · simp only [List.mem_singleton] at h1
    exact hown h1.symm

/-! ## Members reached through references (`Script.infer` / `Script.goto` on `receiver.attr`) -/

section Members
open JediModel.Members

/-- the class whose filter answers a lookup is a class of the receiver's mro and binds the name in its
own body -/
theorem member_lookup_in_mro (h : Hier) (c d : Nat) (attr : String) (hl : lookup h c attr = some d) :
    d ∈ mro h c ∧ attr ∈ h.membersOf d := by
  unfold lookup at hl
  refine ⟨List.mem_of_find?_eq_some hl, ?_⟩
  have := List.find?_some hl
  simpa using this

/-- a name bound in the body of the receiver's own class is found there (the mro starts with the class) -/
theorem member_own_body_first (h : Hier) (c : Nat) (attr : String) (hm : attr ∈ h.membersOf c) :
    lookup h c attr = some c := by
  have hhead : ∃ rest, mro h c = c :: rest := by
    unfold mro
    have hadd : ∀ (new acc : List Nat) (x : Nat) (r : List Nat), acc = x :: r →
        ∃ r', addNew acc new = x :: r' := by
      intro new
      induction new with
      | nil => intro acc x r h; exact ⟨r, by simpa [addNew] using h⟩
      | cons y ys ih =>
        intro acc x r h
        unfold addNew
        simp only [List.foldl_cons]
        by_cases hc : acc.contains y
        · simp only [hc, if_true]; exact ih acc x r h
        · simp only [hc]
          exact ih (acc ++ [y]) x (r ++ [y]) (by simp [h])
    have hfold : ∀ (bs : List Nat) (f : Nat) (acc : List Nat) (x : Nat) (r : List Nat), acc = x :: r →
        ∃ r', bs.foldl (fun acc b => addNew acc (mroAux h f b)) acc = x :: r' := by
      intro bs
      induction bs with
      | nil => intro f acc x r h; exact ⟨r, by simpa using h⟩
      | cons b bs ih =>
        intro f acc x r h
        simp only [List.foldl_cons]
        obtain ⟨r', hr'⟩ := hadd (mroAux _ f b) acc x r h
        exact ih f _ x r' hr'
    unfold mroAux
    exact hfold _ _ [c] c [] rfl
  obtain ⟨rest, hr⟩ := hhead
  unfold lookup
  rw [hr]
  simp [List.find?, hm]

/-- **full_name of a member reached through a reference.**  For a receiver class `c` (or an instance of
it) and a name `attr` that the lookup finds in the body of class `d`, in a module whose first name
component is not a key of `BaseName._mapping`: `full_name` is the module's dotted path followed by the
`__qualname__` of the object bound in the body of `d` - the class that holds the definition, not the class
it was fetched through.  Stated over the translator's reading of `BoundMethod` (no `get_qualified_names`
of its own) and of the operand order of `get_qualified_names`.

FULL (false, see `mapped_module_witness`): without the `_mapping` hypothesis. -/
theorem member_full_name_eq_qualname_partial (h : Hier) (c d : Nat) (attr : String) (m : List String)
    (hl : lookup h c attr = some d) (hmne : m ≠ [])
    (hmap : ∀ x, m.head? = some x → JediModel.Gen.C18.mapping.lookup x = none) :
    memberFullName JediModel.Gen.C18.mapping JediModel.Gen.C18.moduleJoin JediModel.Gen.C18.boundMethodOwnQual
      m h c attr = some (m ++ defQualname h d attr) := by
  unfold memberFullName memberQual
  rw [hl]
  simp only [JediModel.Gen.C18.boundMethodOwnQual, Option.map_some, module_join_is_concat, defQualname]
  congr 1
  apply applyMapping_unmapped
  intro x hx
  apply hmap x
  cases m with
  | nil => exact absurd rfl hmne
  | cons a r => simpa using hx

/-- two receivers that find the same definition report the same `full_name` -/
theorem member_full_name_same_definition (h : Hier) (c₁ c₂ d : Nat) (attr : String) (m : List String)
    (h₁ : lookup h c₁ attr = some d) (h₂ : lookup h c₂ attr = some d) :
    memberFullName JediModel.Gen.C18.mapping JediModel.Gen.C18.moduleJoin JediModel.Gen.C18.boundMethodOwnQual
      m h c₁ attr =
    memberFullName JediModel.Gen.C18.mapping JediModel.Gen.C18.moduleJoin JediModel.Gen.C18.boundMethodOwnQual
      m h c₂ attr := by
  unfold memberFullName memberQual
  rw [h₁, h₂]
  simp [JediModel.Gen.C18.boundMethodOwnQual]

/-- `class S:` / `    class B:` / `        def f` / `    class Q(B): def h` / `class U(S.Q): pass`: -/
def wHier : Hier :=
  [⟨["S"], [], ["B", "Q"]⟩, ⟨["S", "B"], [], ["f"]⟩, ⟨["S", "Q"], [1], ["h"]⟩, ⟨["U"], [2], []⟩]

/-- non-vacuity of the hypotheses (an inherited method, nested defining class, two levels of
inheritance), and the reason the source of the qualified names matters: a `BoundMethod` that named the
class it was looked up through (`ownQual = true`) would report `mod.U.f` for the `def f` whose
`__qualname__` is `S.B.f`. -/
theorem member_lookup_class_witness :
    mro wHier 3 = [3, 2, 1] ∧ lookup wHier 3 "f" = some 1 ∧ lookup wHier 3 "h" = some 2 ∧
    lookup wHier 3 "x" = none ∧
    JediModel.Gen.C18.mapping.lookup "mod" = none ∧
    memberFullName JediModel.Gen.C18.mapping JediModel.Gen.C18.moduleJoin JediModel.Gen.C18.boundMethodOwnQual
      ["mod"] wHier 3 "f" = some ["mod", "S", "B", "f"] ∧
    defQualname wHier 1 "f" = ["S", "B", "f"] ∧
    memberFullName JediModel.Gen.C18.mapping JediModel.Gen.C18.moduleJoin true ["mod"] wHier 3 "f"
      = some ["mod", "U", "f"] ∧
    -- depth-first listing, not C3: `class A: f` / `class B(A)` / `class C(A): f` / `class D(B, C)`
    mro [⟨["A"], [], ["f"]⟩, ⟨["B"], [0], []⟩, ⟨["C"], [0], ["f"]⟩, ⟨["D"], [1, 2], []⟩] 3 = [3, 1, 0, 2] := by
  decide

theorem member_source_shapes :
    JediModel.Gen.C18.boundMethodOwnQual = false ∧
    JediModel.Gen.C18.mroShape = ["self", "bases-in-order", "base-mro-in-order", "not-in-mro"] := by decide

end Members

end JediModel.Props.C18

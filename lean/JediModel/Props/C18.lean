import JediModel.Lemmas.Nesting
import JediModel.Gen.C18
/-! # C18 — get_context, parent() and full_name describe the lexical nesting

`getContext`, `parentChain`, `fullNameOfLeaf` are jedi's algorithms, `enclosers` /
`innermostBody` / `defChain` / `qualname` the Python side, all over the positioned scope table
`Nesting.NProg`.  Property theorems only. -/
namespace JediModel.Props.C18
open JediModel.Nesting
open JediModel.Scopes (Kind)

theorem walkUp_hit {p : NProg} {c : Nat} {sc : NScope} (col : Nat) (hs : p.scopes[c]? = some sc)
    (hd : (sc.kind == Kind.function || sc.kind == Kind.klass) = true) (hcol : sc.start.col < col) :
    ∀ f, 0 < f → walkUp p col f c = .ok c := by
  intro f hf
  cases f with
  | zero => omega
  | succ f =>
    unfold walkUp
    rw [hs]
    have hm : (sc.kind == Kind.module) = false := by
      cases hk : sc.kind <;> simp [hk] at hd ⊢
    simp [hm, hd, hcol]

/-- **Tree form.**  On a well-formed table, for a position on a leaf (not in a prefix) such that
every enclosing definition starts left of the position's column and no lambda on the way up sits
directly in a class body (`LeafHyp`), `get_context` is the innermost `def` / `class` around the
leaf that starts before the position — the module if there is none. -/
theorem context_eq_chain (p : NProg) (hwf : WF p = true) (pos : Pos) (i : Nat) (l : Leaf)
    (hi : chooseLeaf p pos = .ok i) (hl : p.leaves[i]? = some l) (hyp : LeafHyp p pos l = true) :
    getContext p pos = .ok (firstDefBefore p pos (defChain p p.fuel l.pscope)) := by
  unfold WF at hwf
  simp only [Bool.and_eq_true] at hwf
  obtain ⟨hS, hL⟩ := hwf
  have hmem : l ∈ p.leaves := List.mem_of_getElem? hl
  -- the leaf's facts
  have hlp : l.pscope < p.scopes.length := by
    have := hS
    unfold WFS at this
    simp only [Bool.and_eq_true, List.all_eq_true, decide_eq_true_eq] at this
    exact this.2 l hmem
  unfold WFL at hL
  simp only [Bool.and_eq_true, List.all_eq_true] at hL
  obtain ⟨hLs, hLl⟩ := hL
  have hleaf := hLl l hmem
  obtain ⟨hW5, hW9⟩ := hleaf
  unfold LeafHyp at hyp
  simp only [Bool.and_eq_true, decide_eq_true_eq, Bool.or_eq_true] at hyp
  obtain ⟨⟨⟨hon1, hon2⟩, hnd⟩, hseg⟩ := hyp
  have hfuel : p.fuel = p.scopes.length + 1 := rfl
  unfold getContext contextAt
  rw [hi]
  simp only
  rw [hl]
  simp only
  unfold contextOfLeaf
  cases hh : headerOf p pos l with
  | some n =>
    simp only
    -- the header rule fired: n is the head of the chain and starts before pos
    unfold headerOf at hh
    rw [defFrom_eq_head] at hh
    cases hhd : (defChain p p.fuel l.pscope).head? with
    | none => simp [hhd] at hh
    | some n' =>
      rw [hhd] at hh
      simp only at hh
      cases hsn : p.scopes[n']? with
      | none => simp [hsn] at hh
      | some scn =>
        rw [hsn] at hh
        simp only at hh
        split at hh
        · rename_i hcond
          simp only [Option.some.injEq] at hh
          subst hh
          obtain ⟨rest, hrest⟩ : ∃ rest, defChain p p.fuel l.pscope = n' :: rest := by
            cases hc : defChain p p.fuel l.pscope with
            | nil => simp [hc] at hhd
            | cons a rest => simp [hc] at hhd; subst hhd; exact ⟨rest, rfl⟩
          have hdef := mem_defChain_isDef p p.fuel l.pscope n' (by rw [hrest]; simp)
          obtain ⟨sc', hsc', hkd⟩ := isDef_scope hdef
          rw [hsn] at hsc'
          simp only [Option.some.injEq] at hsc'
          subst hsc'
          have hst : startLt p pos n' = true := by simp [startLt, hsn, hcond.1]
          have hcol : scn.start.col < pos.col := by
            rw [hrest] at hnd
            simp only [noDedent, List.all_cons, Bool.and_eq_true, hsn] at hnd
            simpa [hcond.1] using hnd.1
          rw [hrest, firstDefBefore_cons_hit hst]
          exact walkUp_hit pos.col hsn hkd hcol _ (by rw [hfuel]; omega)
        · simp at hh
  | none =>
    simp only
    have hsegOK : lamSegOK p p.fuel l.pscope = true := by
      rcases hseg with h1 | h1
      · rw [hh] at h1; simp at h1
      · exact h1
    -- the header rule did not fire for the head of the chain
    have hnofire : ∀ n scn, (defChain p p.fuel l.pscope).head? = some n → p.scopes[n]? = some scn →
        ¬ (scn.start < pos ∧ pos ≤ scn.suite) := by
      intro n scn h1 h2 hc
      unfold headerOf at hh
      rw [defFrom_eq_head, h1] at hh
      simp only [h2] at hh
      rw [if_pos hc] at hh
      simp at hh
    have hs : p.scopes[l.pscope]? = some p.scopes[l.pscope] := List.getElem?_eq_getElem hlp
    unfold createContext scopeOfNode
    rw [hs]
    simp only
    by_cases hop : ((p.scopes[l.pscope].kind == Kind.function || p.scopes[l.pscope].kind == Kind.klass) &&
        decide (l.start < p.scopes[l.pscope].colon) && !l.isParamName) = true
    · -- a header leaf: one scope up
      rw [if_pos hop]
      simp only [Bool.and_eq_true, decide_eq_true_eq, Bool.not_eq_true'] at hop
      obtain ⟨⟨hkd, hcolon⟩, _⟩ := hop
      have hisdef : p.isDef l.pscope = true := by
        unfold NProg.isDef; rw [kind_of_scope hs]; exact hkd
      have hkne : p.kind l.pscope ≠ .module := by
        rw [kind_of_scope hs]
        intro hc; rw [hc] at hkd; simp at hkd
      have hchain : defChain p p.fuel l.pscope = l.pscope :: defChain p p.fuel (p.pscope l.pscope) := by
        rw [defChain_eq hS _ hlp]
        rw [kind_of_scope hs]
        cases hk : p.scopes[l.pscope].kind <;> simp [hk] at hkd ⊢
      -- the leaf ends inside the header, so pos is not after the header
      have hW5' : l.stop ≤ p.scopes[l.pscope].suite := by
        rw [hs] at hW5
        simp only [hkd, Bool.not_true, Bool.false_or, Bool.or_eq_true, Bool.not_eq_true',
          decide_eq_false_iff_not, decide_eq_true_eq] at hW5
        rcases hW5 with h1 | h1
        · exact absurd hcolon h1
        · exact h1
      have hnf := hnofire l.pscope _ (by rw [hchain]; rfl) hs
      have hnotlt : ¬ (p.scopes[l.pscope].start < pos) := by
        intro hc
        apply hnf
        refine ⟨hc, ?_⟩
        simp only [Pos.le_def] at hon2 hW5' ⊢
        omega
      have hmiss : startLt p pos l.pscope = false := by simp [startLt, hs, hnotlt]
      rw [hchain, firstDefBefore_cons_miss hmiss]
      have hpl := WFS.pscope_lt hS hkne
      rw [← pscope_of_scope hs]
      -- the parent of a def/class is a def/class or the module
      have hpk : p.kind (p.pscope l.pscope) ≠ .comp := by
        rcases WFS.def_parent hS hisdef with h1 | h1
        · rw [h1]; simp
        · unfold NProg.isDef at h1
          intro hc; rw [hc] at h1; simp at h1
      rw [fromScope_noncomp _ hpk, skipComps_noncomp hpk]
      have hplam : lamSegOK p p.fuel (p.pscope l.pscope) = true := by
        rw [lamSegOK_eq hS _ (by omega)]
        rcases WFS.def_parent hS hisdef with h1 | h1
        · rw [h1]
        · unfold NProg.isDef at h1
          cases hk : p.kind (p.pscope l.pscope) <;> simp [hk] at h1 ⊢
      have hnd' : noDedent p pos (defChain p p.fuel (p.pscope l.pscope)) = true := by
        rw [hchain] at hnd
        simp only [noDedent, List.all_cons, Bool.and_eq_true] at hnd
        exact hnd.2
      refine walkUp_chain hS pos _ (by omega) hpk hplam hnd' ?_ _ (by rw [hfuel]; omega)
      -- the next definition up starts before this one, hence before pos
      intro n hn
      have hn' : n = p.pscope l.pscope := by
        rw [defChain_eq hS _ (by omega)] at hn
        rcases WFS.def_parent hS hisdef with h1 | h1
        · rw [h1] at hn; simp at hn
        · unfold NProg.isDef at h1
          cases hk : p.kind (p.pscope l.pscope) <;> simp [hk] at h1 hn <;> exact hn.symm
      subst hn'
      have hdp : p.isDef (p.pscope l.pscope) = true := mem_defChain_isDef p p.fuel _ _ (List.mem_of_mem_head? hn)
      obtain ⟨scd, hscd, hkdd⟩ := isDef_scope hdp
      -- W8 for the scope l.pscope, W9 for the leaf
      have h8 := hLs _ (List.mem_of_getElem? hs)
      simp only [hkd, Bool.not_true, Bool.false_or, Bool.and_eq_true, decide_eq_true_eq] at h8
      have h8' := h8.2
      rw [← pscope_of_scope hs, hscd] at h8'
      simp only [hkdd, Bool.not_true, Bool.false_or, decide_eq_true_eq] at h8'
      rw [hchain] at hW9
      simp only [List.head?_cons, hs, Bool.and_eq_true, decide_eq_true_eq] at hW9
      have h9 := hW9.1
      simp only [startLt, hscd, decide_eq_true_eq]
      simp only [Pos.lt_def, Pos.le_def] at h8' h9 hon1 ⊢
      omega
    · -- a body leaf (or a parameter name): its own scope chain
      rw [if_neg hop]
      rw [skipComps_fromScope hS _ _ _ hlp]
      have sp := skipComps_spec hS l.pscope hlp
      rw [← sp.2.2.1] at hnd ⊢
      refine walkUp_chain hS pos _ (by omega) sp.2.1 (sp.2.2.2 hsegOK) hnd ?_ _ (by have := sp.1; omega)
      intro n hn
      rw [sp.2.2.1] at hn
      have hdn : p.isDef n = true := mem_defChain_isDef p p.fuel _ _ (List.mem_of_mem_head? hn)
      obtain ⟨scn, hscn, hkdn⟩ := isDef_scope hdn
      rw [hn] at hW9
      simp only [hscn, Bool.and_eq_true, decide_eq_true_eq, Bool.or_eq_true, Bool.not_eq_true',
        beq_iff_eq, beq_eq_false_iff_ne, ne_eq] at hW9
      obtain ⟨h9a, h9b⟩ := hW9
      simp only [startLt, hscn, decide_eq_true_eq]
      -- otherwise the leaf starts exactly where the definition starts: it is the keyword, a header leaf
      by_cases hlt : scn.start < pos
      · exact hlt
      · exfalso
        have heq : scn.start = l.start := by
          rw [Pos.ext_iff']
          simp only [Pos.lt_def, Pos.le_def] at h9a hon1 hlt
          omega
        rcases h9b with h1 | h1
        · exact h1 heq
        · obtain ⟨hpn, hnp⟩ := h1
          apply hop
          have hsame : p.scopes[l.pscope]? = some scn := by rw [hpn]; exact hscn
          rw [hs] at hsame
          simp only [Option.some.injEq] at hsame
          rw [hsame]
          have h11 := hLs _ (List.mem_of_getElem? hscn)
          simp only [hkdn, Bool.not_true, Bool.false_or, Bool.and_eq_true, decide_eq_true_eq] at h11
          simp only [hkdn, Bool.true_and, Bool.and_eq_true, decide_eq_true_eq, Bool.not_eq_true']
          exact ⟨by rw [← heq]; exact h11.1, hnp⟩

end JediModel.Props.C18

import JediModel.Model.Nesting
import JediModel.Gen.C18
namespace JediModel.Props.C18
open JediModel.Nesting

def WF (p : NProg) : Bool := true
def ContextHyp (p : NProg) (pos : Pos) : Bool := true
def ChainHyp (p : NProg) (i : Nat) : Bool := true

theorem placeholder : True := trivial

end JediModel.Props.C18
